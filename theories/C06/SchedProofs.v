(* C06 — lemmas about the TTL watcher's timer (model: Sched.v).
   The final statements are in Property.v. *)
From Coq Require Import List ZArith Bool Lia.
From Verif Require Import C06.Model C06.Proofs C06.Liveness C06.Bridge C06.Sched.
Import ListNotations.
Open Scope Z_scope.

(* ------------------------------------------------------------------ the recalculation *)

Lemma rstep_le skip s now m r : rstep skip s now m r <= m.
Proof.
  unfold rstep. cbv zeta. destruct (skip && _); [lia|].
  destruct (expire (info s r) <? m) eqn:E; [apply Z.ltb_lt in E; lia|lia].
Qed.

Lemma rstep_entry s now m r : rstep false s now m r <= expire (info s r).
Proof.
  unfold rstep. cbv zeta. cbn [andb].
  destruct (expire (info s r) <? m) eqn:E; [lia|apply Z.ltb_ge in E; lia].
Qed.

Lemma fold_rstep_le skip s now l m : fold_left (rstep skip s now) l m <= m.
Proof.
  revert m. induction l as [|a l IH]; intros m; cbn [fold_left]; [lia|].
  specialize (IH (rstep skip s now m a)). pose proof (rstep_le skip s now m a). lia.
Qed.

Lemma fold_rstep_entry s now l m r :
  In r l -> fold_left (rstep false s now) l m <= expire (info s r).
Proof.
  revert m. induction l as [|a l IH]; intros m H; [contradiction|]. cbn [fold_left].
  destruct H as [->|H].
  - pose proof (fold_rstep_le false s now l (rstep false s now m r)).
    pose proof (rstep_entry s now m r). lia.
  - apply IH, H.
Qed.

(* never later than one TTL from now *)
Lemma recalc_cap skip c s now : recalc skip c s now <= now + ttl c.
Proof. apply fold_rstep_le. Qed.

(* the code as it is: never later than any entry of the table, expired or not *)
Lemma recalc_entry c s now r : In r (watch s) -> recalc false c s now <= expire (info s r).
Proof. apply fold_rstep_entry. Qed.

Lemma recalc_ext skip c s s' now :
  watch s' = watch s -> (forall x, expire (info s' x) = expire (info s x)) ->
  recalc skip c s' now = recalc skip c s now.
Proof.
  intros Hw He. unfold recalc. rewrite Hw. clear Hw. generalize (now + ttl c).
  induction (watch s) as [|a l IH]; intros m; cbn [fold_left]; [reflexivity|].
  replace (rstep skip s' now m a) with (rstep skip s now m a); [apply IH|].
  unfold rstep. rewrite He. reflexivity.
Qed.

(* ------------------------------------------------------------------ untimed steps: table and expiry *)

Lemma watch_step c s a r : In r (watch (step c s a)) -> In r (watch s) \/ a = ArriveRegister r.
Proof.
  destruct a as [x p now|x|x| |b|now x|now|x|x| ]; cbn [step].
  - unfold arrive_check. destruct (pc (info s x)); auto. destruct (qmax c <=? count s); cbn; auto.
  - unfold arrive_register. destruct (pc (info s x)); auto.
    destruct (shared_full c s || _ || _); cbn; auto. intros [->|H]; auto.
  - unfold arrive_push. destruct (pc (info s x)); cbn; auto.
  - unfold tick_pop. destruct (drained s); auto. destruct (held s); auto.
    destruct (heap s) as [|[[p t] x] h']; auto.
    destruct (memZ x (watch s) && is_enq (info s x)); cbn; auto.
  - unfold tick_decide. destruct (held s) as [x|]; auto.
    destruct b; [|destruct (keep_stamp (var c))]; cbn; auto.
  - pose proof (ttl_fire_frame s now x) as (_&W&_). rewrite W. auto.
  - pose proof (ttl_scan_frame s now) as (_&W&_). rewrite W. auto.
  - unfold waiter_return. destruct (pc (info s x)); auto.
    destruct (1 <=? dones (info s x)); cbn; auto.
  - unfold remove. destruct (pc (info s x)); auto. cbn. intros H. apply removeZ_In in H. left. tauto.
  - unfold drain. destruct (drained s); auto. destruct (held s); auto. cbn.
    pose proof (fold_release_frame c (watch s) s) as (_&W&_). cbn in W. rewrite W. auto.
Qed.

(* the expiry of a request is written by its slot check and by nothing else *)
Lemma expire_step c s a x :
  expire (info (step c s a) x) = expire (info s x) \/
  (exists p now, a = ArriveCheck x p now /\ expire (info (step c s a) x) = now + ttl c).
Proof.
  destruct a as [r p now|r|r| |b|now r|now|r|r| ]; cbn [step].
  - unfold arrive_check. destruct (pc (info s r)) eqn:Epc; auto.
    destruct (qmax c <=? count s); cbn; (updc x r; [|auto]); right; exists p, now; split; reflexivity.
  - unfold arrive_register. destruct (pc (info s r)) eqn:Epc; auto.
    destruct (shared_full c s || _ || _); cbn; (updc x r; left; reflexivity).
  - unfold arrive_push. destruct (pc (info s r)) eqn:Epc; auto. cbn. updc x r; left; reflexivity.
  - unfold tick_pop. destruct (drained s); auto. destruct (held s); auto.
    destruct (heap s) as [|[[p t] r] h']; auto.
    destruct (memZ r (watch s) && is_enq (info s r)); cbn; auto. updc x r; left; reflexivity.
  - unfold tick_decide. destruct (held s) as [r|]; auto.
    destruct b; [|destruct (keep_stamp (var c))]; cbn; (updc x r; left; reflexivity).
  - left. apply ttl_fire_expire.
  - left. unfold ttl_scan. destruct (fold_ttl_static now (watch s) s x) as (_&_&E&_). exact E.
  - unfold waiter_return. destruct (pc (info s r)) eqn:Epc; auto.
    destruct (1 <=? dones (info s r)); auto. cbn. updc x r; left; reflexivity.
  - unfold remove. destruct (pc (info s r)) eqn:Epc; auto. cbn. updc x r; left; reflexivity.
  - unfold drain. destruct (drained s); auto. destruct (held s); auto. cbn. left.
    destruct (fold_release_static c (watch s) s x) as (_&_&E&_). exact E.
Qed.

Lemma expire_step_old c s a x :
  pc (info s x) <> PNew -> expire (info (step c s a) x) = expire (info s x).
Proof. intros H. destruct (step_fields c s a x) as (_ & F & _). apply F, H. Qed.

Lemma retime_check k a x p now : retime k a = ArriveCheck x p now -> now = k.
Proof. destruct a; cbn; intros H; try discriminate. congruence. Qed.

Lemma retime_register k a r : retime k a = ArriveRegister r -> a = ArriveRegister r.
Proof. destruct a; cbn; intros H; try discriminate. exact H. Qed.

(* ------------------------------------------------------------------ timed steps and the untimed model *)

Lemma wake_body_base skip c t : base (wake_body skip c t) = step c (base t) (TtlScan (clk t)).
Proof. reflexivity. Qed.

Lemma tact_base c t a : base (tact c t a) = step c (base t) (retime (clk t) a).
Proof. reflexivity. Qed.

(* one timed step = at most one untimed step *)
Lemma tstep_base skip c t a :
  base (tstep skip c t a) = base t \/ exists b, base (tstep skip c t a) = step c (base t) b.
Proof.
  destruct a as [d| |a]; cbn [tstep].
  - left. reflexivity.
  - destruct (due t); [right; eexists; apply wake_body_base|left; reflexivity].
  - right. destruct a; eexists; first [apply wake_body_base|apply tact_base].
Qed.

Lemma reach_tstep skip c t a : reach c (base t) -> reach c (base (tstep skip c t a)).
Proof.
  intros H. destruct (tstep_base skip c t a) as [E|[b E]]; rewrite E; [exact H|apply reach_step, H].
Qed.

Lemma reach_trun skip c sch t : reach c (base t) -> reach c (base (trun skip c t sch)).
Proof.
  revert t. induction sch as [|a sch IH]; intros t H; [exact H|]. cbn [trun fold_left].
  apply IH, reach_tstep, H.
Qed.

Lemma tdones_mono_step skip c t a r :
  dones (info (base t) r) <= dones (info (base (tstep skip c t a)) r).
Proof.
  destruct (tstep_base skip c t a) as [E|[b E]]; rewrite E; [lia|apply dones_mono_step].
Qed.

Lemma tdones_mono_run skip c sch t r :
  dones (info (base t) r) <= dones (info (base (trun skip c t sch)) r).
Proof.
  revert t. induction sch as [|a sch IH]; intros t; [cbn; lia|]. cbn [trun fold_left].
  specialize (IH (tstep skip c t a)). pose proof (tdones_mono_step skip c t a r).
  unfold trun in IH. lia.
Qed.

Lemma trun_app skip c t a b : trun skip c t (a ++ b) = trun skip c (trun skip c t a) b.
Proof. unfold trun. apply fold_left_app. Qed.

(* ------------------------------------------------------------------ the timer invariant (code as it is) *)

Record TInv (c : cfg) (t : tstate) : Prop := {
  T_inv : Inv c (base t);
  (* an expiry is a past or present clock reading plus the TTL *)
  T_exp : forall x, expire (info (base t) x) <= clk t + ttl c;
  (* registered: after the slot check, not in the future *)
  T_reg : forall r, In r (watch (base t)) ->
          expire (info (base t) r) <= regat t r + ttl c /\ regat t r <= clk t;
  T_cap : nea t <= clk t + ttl c;
  (* THE BOUND: the timer is never set later than registration + TTL of any entry *)
  T_nea : forall r, In r (watch (base t)) -> nea t <= regat t r + ttl c;
  T_lw : lastwake t <= clk t;
  (* an entry without its signal: the last scan was too early for it, or found it
     expired and in the hands of the loop *)
  T_last : forall r, In r (watch (base t)) -> dones (info (base t) r) = 0 ->
           lastwake t <= regat t r + ttl c \/
           (wheld t = Some r /\ expire (info (base t) r) < lastwake t)
}.

Lemma TInv_init c : 0 <= ttl c -> TInv c (tinit c).
Proof.
  intros Ht. constructor; cbn; try (intros; contradiction); try (intros; lia); try apply Inv_init.
Qed.

Lemma TInv_adv c t d : TInv c t -> TInv c (tstep false c t (TAdv d)).
Proof.
  intros [I E R C N L W]. constructor; cbn; auto.
  - intros x. specialize (E x). lia.
  - intros r H. destruct (R r H). lia.
  - lia.
  - lia.
Qed.

Lemma TInv_wake c t : TInv c t -> TInv c (wake_body false c t).
Proof.
  intros [I E R C N L W].
  pose proof (ttl_scan_frame (base t) (clk t)) as (_&Hw&_&_&Hh&_).
  assert (He : forall x, expire (info (ttl_scan (base t) (clk t)) x) = expire (info (base t) x)).
  { intros x. unfold ttl_scan. destruct (fold_ttl_static (clk t) (watch (base t)) (base t) x) as (_&_&X&_).
    exact X. }
  constructor; cbn [wake_body base clk nea regat lastwake wheld].
  - apply (Inv_step c (base t) (TtlScan (clk t))), I.
  - intros x. rewrite He. apply E.
  - intros r H. rewrite Hw in H. rewrite He. apply R, H.
  - apply recalc_cap.
  - intros r H. pose proof (recalc_entry c _ (clk t) r H) as X. rewrite He in X.
    rewrite Hw in H. destruct (R r H). lia.
  - lia.
  - intros r H Hd. rewrite Hw in H. rewrite He. destruct (R r H) as [R1 R2].
    destruct (Z_lt_dec (expire (info (base t) r)) (clk t)) as [Hlt|Hge]; [|left; lia].
    right. split; [|exact Hlt].
    destruct (held (base t)) as [y|] eqn:Eh.
    + destruct (Z.eq_dec y r) as [->|Hne]; [reflexivity|].
      exfalso. assert (Hn : held (base t) <> Some r) by (rewrite Eh; congruence).
      pose proof (scan_signals c (base t) (clk t) r I H Hn Hlt). lia.
    + exfalso. assert (Hn : held (base t) <> Some r) by (rewrite Eh; discriminate).
      pose proof (scan_signals c (base t) (clk t) r I H Hn Hlt). lia.
Qed.

Lemma regat_tact_old c t a r :
  In r (watch (base t)) -> regat (tact c t a) r = regat t r.
Proof.
  intros H. destruct a; cbn [tact regat]; try reflexivity.
  destruct (newly _ _ _) eqn:N; [|reflexivity].
  destruct (r =? r0) eqn:E; [|reflexivity]. apply Z.eqb_eq in E. subst r0.
  unfold newly in N. apply memZ_In in H. rewrite H in N. discriminate.
Qed.

Lemma regat_tact_new c t r :
  ~ In r (watch (base t)) -> In r (watch (base (tact c t (ArriveRegister r)))) ->
  regat (tact c t (ArriveRegister r)) r = clk t.
Proof.
  intros H0 H1. cbn [tact regat base retime] in *.
  assert (N : newly (base t) (step c (base t) (ArriveRegister r)) r = true).
  { unfold newly. apply andb_true_iff. split; [|apply memZ_In, H1].
    apply negb_true_iff. destruct (memZ r (watch (base t))) eqn:M; [|reflexivity].
    apply memZ_In in M. contradiction. }
  rewrite N. rewrite Z.eqb_refl. reflexivity.
Qed.

Lemma TInv_act c t a : 0 <= ttl c -> TInv c t -> TInv c (tact c t a).
Proof.
  intros Ht [I E R C N L W].
  set (s := base t) in *. set (a' := retime (clk t) a).
  assert (Hb : base (tact c t a) = step c s a') by reflexivity.
  pose proof I as (HA & HB & _).
  assert (Hold : forall r, In r (watch s) ->
            expire (info (step c s a') r) = expire (info s r) /\ regat (tact c t a) r = regat t r).
  { intros r H. split; [|apply regat_tact_old, H].
    apply expire_step_old. pose proof (in_watch_rank s r HA H) as K. intros X. rewrite X in K. cbn in K. lia. }
  assert (Hnew : forall r, In r (watch (step c s a')) -> ~ In r (watch s) ->
            expire (info (step c s a') r) <= clk t + ttl c /\ regat (tact c t a) r = clk t).
  { intros r H1 H0. destruct (watch_step c s a' r H1) as [X|X]; [contradiction|].
    pose proof (retime_register _ _ _ X) as Xa. split.
    - destruct (expire_step c s a' r) as [Y|(p & now & Y & _)]; [rewrite Y; apply E|].
      rewrite X in Y. discriminate.
    - subst a. apply regat_tact_new; [exact H0|]. rewrite Hb. exact H1. }
  assert (Hdec : forall r, In r (watch s) \/ ~ In r (watch s)).
  { intros r. destruct (memZ r (watch s)) eqn:M; [left; apply memZ_In, M|right].
    intros X. apply memZ_In in X. congruence. }
  constructor; rewrite ?Hb; cbn [tact clk nea lastwake wheld].
  - apply Inv_step, I.
  - intros x. destruct (expire_step c s a' x) as [Y|(p & now & Y & Z)].
    + rewrite Y. apply E.
    + apply retime_check in Y. rewrite Z, Y. lia.
  - intros r H. destruct (Hdec r) as [D|D].
    + destruct (Hold r D) as [X1 X2]. rewrite X1, X2. apply R, D.
    + destruct (Hnew r H D) as [X1 X2]. rewrite X2. lia.
  - exact C.
  - intros r H. destruct (Hdec r) as [D|D].
    + destruct (Hold r D) as [_ X2]. rewrite X2. apply N, D.
    + destruct (Hnew r H D) as [_ X2]. rewrite X2. lia.
  - exact L.
  - intros r H Hd. destruct (Hdec r) as [D|D].
    + destruct (Hold r D) as [X1 X2]. rewrite X1, X2. apply W; [exact D|].
      pose proof (dones_mono_step c s a' r). pose proof (InvB_nonneg s r HB). lia.
    + destruct (Hnew r H D) as [_ X2]. rewrite X2. left. lia.
Qed.

Lemma TInv_step c t a : 0 <= ttl c -> TInv c t -> TInv c (tstep false c t a).
Proof.
  intros Ht H. destruct a as [d| |a].
  - apply TInv_adv, H.
  - cbn [tstep]. destruct (due t); [apply TInv_wake, H|exact H].
  - destruct a; cbn [tstep]; first [apply TInv_wake, H|apply TInv_act; assumption].
Qed.

Lemma TInv_run_from c sch t : 0 <= ttl c -> TInv c t -> TInv c (trun false c t sch).
Proof.
  intros Ht. revert t. induction sch as [|a sch IH]; intros t H; [exact H|]. cbn [trun fold_left].
  apply IH, TInv_step; assumption.
Qed.

Lemma TInv_run c sch : 0 <= ttl c -> TInv c (trun false c (tinit c) sch).
Proof. intros Ht. apply TInv_run_from; [exact Ht|apply TInv_init, Ht]. Qed.

(* ------------------------------------------------------------------ fairness *)

Definition fair_now (dl : Z) (t : tstate) : Prop := clk t <= Z.max (nea t) (lastwake t) + dl.

Lemma fair_step skip c dl t a :
  0 <= dl -> fair_now dl t ->
  (match a with TAdv d => clk t + Z.max 0 d <=? Z.max (nea t) (lastwake t) + dl | _ => true end) = true ->
  fair_now dl (tstep skip c t a).
Proof.
  unfold fair_now. intros Hd F G. destruct a as [d| |a]; cbn [tstep].
  - cbn. apply Z.leb_le in G. exact G.
  - destruct (due t); [cbn; lia|exact F].
  - destruct a; cbn; first [exact F|lia].
Qed.

Lemma fair_run skip c dl sch t :
  0 <= dl -> fair_now dl t -> wfair skip c dl t sch = true -> fair_now dl (trun skip c t sch).
Proof.
  intros Hd. revert t. induction sch as [|a sch IH]; intros t F G; [exact F|].
  cbn [wfair] in G. apply andb_true_iff in G. destruct G as [G1 G2]. cbn [trun fold_left].
  apply IH; [apply fair_step; assumption|exact G2].
Qed.

Lemma fair_init c dl : 0 <= ttl c -> 0 <= dl -> fair_now dl (tinit c).
Proof. unfold fair_now. cbn. lia. Qed.

(* ------------------------------------------------------------------ the statements *)

(* the timer is due no later than registration + TTL of every entry *)
Lemma timer_never_late c sch r :
  0 <= ttl c ->
  let t := trun false c (tinit c) sch in
  In r (watch (base t)) ->
  nea t <= regat t r + ttl c /\
  expire (info (base t) r) <= regat t r + ttl c /\ regat t r <= clk t /\ nea t <= clk t + ttl c.
Proof.
  intros Ht t H. destruct (TInv_run c sch Ht) as [I E R C N L W]. fold t in I, E, R, C, N, L, W.
  destruct (R r H). repeat split; auto.
Qed.

(* a wake-up later than that finds the timer due and signals the entry unless
   the loop holds it; the signal stays *)
Lemma due_wake_signals c sch r post :
  0 <= ttl c ->
  let t := trun false c (tinit c) sch in
  In r (watch (base t)) -> regat t r + ttl c < clk t -> held (base t) <> Some r ->
  due t = true /\ 1 <= dones (info (base (trun false c t (TWake :: post))) r).
Proof.
  intros Ht t H Hl Hh. destruct (TInv_run c sch Ht) as [I E R C N L W]. fold t in I, E, R, C, N, L, W.
  assert (D : due t = true). { unfold due. apply Z.leb_le. specialize (N r H). lia. }
  split; [exact D|]. cbn [trun fold_left tstep]. rewrite D.
  pose proof (tdones_mono_run false c post (wake_body false c t) r) as M. unfold trun in M.
  assert (S1 : 1 <= dones (info (base (wake_body false c t)) r)).
  { cbn [wake_body base]. apply (scan_signals c); auto. destruct (R r H). lia. }
  lia.
Qed.

(* under a fair watcher an entry without its signal later than registration +
   TTL + latency is in the hands of the loop: the watcher's last scan is less than
   the latency ago, came after the expiry and found the loop holding the entry *)
Lemma late_only_if_held c dl sch r :
  0 <= ttl c -> 0 <= dl -> wfair false c dl (tinit c) sch = true ->
  let t := trun false c (tinit c) sch in
  In r (watch (base t)) -> dones (info (base t) r) = 0 -> regat t r + ttl c + dl < clk t ->
  wheld t = Some r /\ clk t - dl <= lastwake t /\ expire (info (base t) r) < lastwake t.
Proof.
  intros Ht Hd Hf t H H0 Hl.
  destruct (TInv_run c sch Ht) as [I E R C N L W]. fold t in I, E, R, C, N, L, W.
  pose proof (fair_run false c dl sch (tinit c) Hd (fair_init c dl Ht Hd) Hf) as F.
  fold t in F. unfold fair_now in F. specialize (N r H).
  assert (X : clk t - dl <= lastwake t) by lia.
  destruct (W r H H0) as [Y|[Y1 Y2]]; [lia|]. auto.
Qed.

(* ------------------------------------------------------------------ the suite "sched" walks timed schedules *)

(* a predicate on untimed states closed under the clock-free actions and under
   slot checks that read the clock value k is closed under the operations of the
   correspondence interpreter taken at clock k *)
Section Closed.
  Variables (c : cfg) (k : Z) (P : state -> Prop).

  Definition plain (a : action) : Prop :=
    match a with
    | ArriveCheck _ _ now => now = k
    | TtlFire _ _ | TtlScan _ => False
    | _ => True
    end.

  Hypothesis Pstep : forall s a, plain a -> P s -> P (step c s a).

  Lemma P_pop_loop fuel s : P s -> P (pop_loop fuel c s).
  Proof.
    revert s. induction fuel as [|f IH]; intros s H; cbn; [exact H|].
    destruct (held s); [exact H|]. destruct (heap s); [exact H|].
    apply IH, (Pstep s TickPop); [exact I|exact H].
  Qed.

  Lemma P_pops s : P s -> P (pops c s).
  Proof. apply P_pop_loop. Qed.

  Lemma P_settle gate s : P s -> P (fst (settle c gate s)).
  Proof.
    intros H. unfold settle.
    set (F := fun (acc : state * list (Z * bool)) (r : Z) =>
        let '(s', o) := acc in
        let i := info s' r in
        match pc i with
        | PWaiting =>
            if 1 <=? dones i
            then let s'' := step c s' (WaiterReturn r) in
                 (s'', o ++ [(r, match verdict (info s'' r) with Some true => true | _ => false end)])
            else acc
        | _ => acc
        end).
    assert (H1 : forall l acc, P (fst acc) -> P (fst (fold_left F l acc))).
    { induction l as [|r l IH]; intros acc Ha; cbn [fold_left]; [exact Ha|]. apply IH.
      destruct acc as [s' o]. cbn [F fst] in *. destruct (pc (info s' r)); try exact Ha.
      destruct (1 <=? dones (info s' r)); [|exact Ha]. cbn [fst]. apply Pstep; [exact I|exact Ha]. }
    specialize (H1 (sortZ (watch s)) (s, []) H).
    destruct (fold_left F (sortZ (watch s)) (s, [])) as [s1 out]. cbn [fst] in *.
    destruct gate; [|exact H1].
    assert (H2 : forall l s0, P s0 ->
       P (fold_left (fun s' r => match pc (info s' r) with
                                 | PReturned => step c s' (Remove r)
                                 | _ => s' end) l s0)).
    { induction l as [|r l IH]; intros s0 H0; cbn [fold_left]; [exact H0|]. apply IH.
      destruct (pc (info s0 r)); try exact H0. apply Pstep; [exact I|exact H0]. }
    apply H2, H1.
  Qed.

  Lemma P_hstep hdr groups h o :
    hnow h = k -> (forall d, o <> HAdvance d) -> o <> HScan ->
    P (hs h) -> P (hs (fst (hstep c hdr groups h o))).
  Proof.
    intros Hk Hna Hns H. unfold hstep.
    set (pre := match o with
      | HArrive r g =>
          let s' := run c (hs h) [ArriveCheck r (prio_of hdr groups g) (hnow h); ArriveRegister r; ArrivePush r] in
          (s', hnow h, hgate h, hpend h, rejected s' r, false)
      | HCheck r g =>
          let s' := step c (hs h) (ArriveCheck r (prio_of hdr groups g) (hnow h)) in
          (s', hnow h, hgate h, hpend h, rejected s' r, false)
      | HEnter r =>
          let s' := run c (hs h) [ArriveRegister r; ArrivePush r] in
          (s', hnow h, hgate h, hpend h, rejected s' r, false)
      | HTick =>
          if hpend h then (hs h, hnow h, hgate h, hpend h, false, false)
          else (pops c (hs h), hnow h, hgate h, false, false, false)
      | HAnswer b =>
          if b then (hs h, hnow h, hgate h, true, false, false)
          else (step c (hs h) (TickDecide false), hnow h, hgate h, false, false, false)
      | HSignal =>
          if hpend h then (pops c (step c (hs h) (TickDecide true)), hnow h, hgate h, false, false, false)
          else (hs h, hnow h, hgate h, false, false, false)
      | HScan => (step c (hs h) (TtlScan (hnow h)), hnow h, hgate h, hpend h, false, false)
      | HAdvance d => (hs h, hnow h + d, hgate h, hpend h, false, false)
      | HGate b => (hs h, hnow h, b, hpend h, false, false)
      | HDrain =>
          let s' := step c (hs h) Drain in
          (s', hnow h, hgate h, hpend h, false, existsb (fun r => 1 <? dones (info s' r)) (watch s'))
      end).
    assert (Hpre : P (fst (fst (fst (fst (fst pre)))))).
    { unfold pre. destruct o as [r g|r g|r| |b| | |d|b| ]; cbn [fst].
      - cbn [run fold_left]. repeat (apply Pstep; [first [exact I|exact Hk]|]). exact H.
      - apply Pstep; [exact Hk|exact H].
      - cbn [run fold_left]. repeat (apply Pstep; [exact I|]). exact H.
      - destruct (hpend h); cbn [fst]; [exact H|apply P_pops, H].
      - destruct b; cbn [fst]; [exact H|apply Pstep; [exact I|exact H]].
      - destruct (hpend h); cbn [fst]; [apply P_pops, Pstep; [exact I|exact H]|exact H].
      - contradiction.
      - exfalso. apply (Hna d). reflexivity.
      - exact H.
      - apply Pstep; [exact I|exact H]. }
    destruct pre as [[[[[s1 now1] gate1] pend1] rej] pan]. cbn [fst] in Hpre.
    pose proof (P_settle gate1 s1 Hpre) as Hs.
    destruct (settle c gate1 s1) as [s2 out]. cbn [fst hs] in *. exact Hs.
  Qed.
End Closed.

(* the clock of the interpreter moves only at HAdvance *)
Lemma hstep_now c hdr groups h o :
  hnow (fst (hstep c hdr groups h o)) = match o with HAdvance d => hnow h + d | _ => hnow h end.
Proof.
  unfold hstep. destruct o as [r g|r g|r| |b| | |d|b| ];
    try destruct (hpend h); try destruct b;
    match goal with |- context [settle c ?g ?s] => destruct (settle c g s) end; reflexivity.
Qed.

Lemma hstep_scan c hdr groups h :
  hs (fst (hstep c hdr groups h HScan)) = fst (settle c (hgate h) (step c (hs h) (TtlScan (hnow h)))).
Proof. unfold hstep. destruct (settle c _ _). reflexivity. Qed.

Lemma hstep_advance c hdr groups h d :
  hs (fst (hstep c hdr groups h (HAdvance d))) = fst (settle c (hgate h) (hs h)).
Proof. unfold hstep. destruct (settle c _ _). reflexivity. Qed.

(* [tre c s k n]: the untimed state s, the clock k and the timer n are what some
   timed schedule of the code as it is produces *)
Definition tre (c : cfg) (s : state) (k n : Z) : Prop :=
  exists sch, let t := trun sched_variant c (tinit c) sch in base t = s /\ clk t = k /\ nea t = n.

Lemma tre_plain c k n s a : plain k a -> tre c s k n -> tre c (step c s a) k n.
Proof.
  intros Hp (sch & Hb & Hk & Hn). exists (sch ++ [TAct a]). cbv zeta. rewrite trun_app.
  set (t := trun sched_variant c (tinit c) sch) in *. cbn [trun fold_left].
  destruct a; cbn [plain] in Hp; try contradiction; cbn [tstep tact base clk nea retime];
    rewrite ?Hb, ?Hk; repeat split; try assumption. subst now. reflexivity.
Qed.

Lemma tre_scan c k n s : tre c s k n -> tre c (step c s (TtlScan k)) k (recalc sched_variant c s k).
Proof.
  intros (sch & Hb & Hk & Hn). exists (sch ++ [TAct (TtlScan 0)]). cbv zeta. rewrite trun_app.
  set (t := trun sched_variant c (tinit c) sch) in *. cbn [trun fold_left tstep wake_body base clk nea step].
  rewrite Hb, Hk. repeat split.
  pose proof (ttl_scan_frame s k) as (_&Hw&_).
  apply recalc_ext; [exact Hw|]. intros x. unfold ttl_scan.
  destruct (fold_ttl_static k (watch s) s x) as (_&_&E&_). exact E.
Qed.

Lemma tre_adv c k n s d : 0 <= d -> tre c s k n -> tre c s (k + d) n.
Proof.
  intros Hd (sch & Hb & Hk & Hn). exists (sch ++ [TAdv d]). cbv zeta. rewrite trun_app.
  cbn [trun fold_left tstep base clk nea]. repeat split; try assumption. rewrite Hk. lia.
Qed.

Lemma tre_init c : tre c init 0 (ttl c).
Proof. exists []. cbn. auto. Qed.

Definition nonneg_adv (o : sop) : Prop := match o with SOp (HAdvance d) => 0 <= d | _ => True end.

Lemma tre_sstep c hdr groups h o :
  nonneg_adv o -> tre c (hs (sh h)) (hnow (sh h)) (snea h) ->
  let h' := fst (sstep c hdr groups h o) in tre c (hs (sh h')) (hnow (sh h')) (snea h').
Proof.
  intros Hn H. cbv zeta.
  assert (Scan : let h' := fst (let n := recalc sched_variant c (hs (sh h)) (hnow (sh h)) in
                                let '(h', m) := hstep c hdr groups (sh h) HScan in
                                ({| sh := h'; snea := n |}, (m, n))) in
                 tre c (hs (sh h')) (hnow (sh h')) (snea h')).
  { cbv zeta. pose proof (hstep_now c hdr groups (sh h) HScan) as Nw.
    pose proof (hstep_scan c hdr groups (sh h)) as Sc.
    destruct (hstep c hdr groups (sh h) HScan) as [h1 m]. cbn [fst sh snea] in *.
    rewrite Nw, Sc.
    apply (P_settle c (hnow (sh h))
             (fun s => tre c s (hnow (sh h)) (recalc sched_variant c (hs (sh h)) (hnow (sh h))))).
    - intros s a. apply tre_plain.
    - eapply tre_scan. exact H. }
  assert (Other : forall o0, (forall d, o0 <> HAdvance d) -> o0 <> HScan ->
                 let h' := fst (let '(h', m) := hstep c hdr groups (sh h) o0 in
                                ({| sh := h'; snea := snea h |}, (m, snea h))) in
                 tre c (hs (sh h')) (hnow (sh h')) (snea h')).
  { intros o0 Ha Hs. cbv zeta. pose proof (hstep_now c hdr groups (sh h) o0) as Nw.
    pose proof (P_hstep c (hnow (sh h)) (fun s => tre c s (hnow (sh h)) (snea h))
                  (fun s a => tre_plain c _ _ s a) hdr groups (sh h) o0 eq_refl Ha Hs H) as Ps.
    destruct (hstep c hdr groups (sh h) o0) as [h1 m]. cbn [fst sh snea] in *.
    rewrite Nw. destruct o0; try exact Ps. exfalso. apply (Ha d). reflexivity. }
  destruct o as [o|]; cbn [sstep].
  - destruct o as [r g|r g|r| |b| | |d|b| ];
      try (apply Other; [intros d0; discriminate|discriminate]).
    + exact Scan.
    + (* HAdvance d *)
      cbn [nonneg_adv] in Hn.
      pose proof (hstep_now c hdr groups (sh h) (HAdvance d)) as Nw.
      pose proof (hstep_advance c hdr groups (sh h) d) as Sc.
      destruct (hstep c hdr groups (sh h) (HAdvance d)) as [h1 m]. cbn [fst sh snea] in *.
      rewrite Nw, Sc.
      apply (P_settle c (hnow (sh h) + d) (fun s => tre c s (hnow (sh h) + d) (snea h))).
      * intros s a. apply tre_plain.
      * apply tre_adv; assumption.
  - destruct (snea h <=? hnow (sh h)); [exact Scan|].
    pose proof (hstep_now c hdr groups (sh h) (HAdvance 0)) as Nw.
    pose proof (hstep_advance c hdr groups (sh h) 0) as Sc.
    destruct (hstep c hdr groups (sh h) (HAdvance 0)) as [h1 m]. cbn [fst sh snea] in *.
    rewrite Nw, Sc. rewrite Z.add_0_r.
    apply (P_settle c (hnow (sh h)) (fun s => tre c s (hnow (sh h)) (snea h))).
    + intros s a. apply tre_plain.
    + exact H.
Qed.

(* the shstate the interpreter [srun] has reached after the operations [ops] *)
Fixpoint send (c : cfg) (hdr : bool) (groups : list Z) (h : shstate) (ops : list (sop * sobs)) : shstate :=
  match ops with
  | [] => h
  | (o, _) :: rest => send c hdr groups (fst (sstep c hdr groups h o)) rest
  end.

Lemma tre_send c hdr groups ops h :
  Forall (fun p => nonneg_adv (fst p)) ops ->
  tre c (hs (sh h)) (hnow (sh h)) (snea h) ->
  let h' := send c hdr groups h ops in tre c (hs (sh h')) (hnow (sh h')) (snea h').
Proof.
  revert h. induction ops as [|[o seen] ops IH]; intros h Hf H; cbn [send]; [exact H|].
  inversion Hf as [|? ? H1 H2]; subst. apply IH; [exact H2|]. apply tre_sstep; assumption.
Qed.

Lemma srun_agrees_prefix c hdr groups ops1 ops2 h n :
  srun c hdr groups h n (ops1 ++ ops2) = None ->
  srun c hdr groups h n ops1 = None /\
  srun c hdr groups (send c hdr groups h ops1) (n + N.of_nat (length ops1))%N ops2 = None.
Proof.
  revert h n. induction ops1 as [|[o seen] ops1 IH]; intros h n H; cbn [app send length] in *.
  - split; [reflexivity|]. cbn. rewrite N.add_0_r. exact H.
  - cbn [srun] in *. destruct (sstep c hdr groups h o) as [h' m]. cbn [fst].
    destruct (eq_sobs m seen); [|discriminate].
    destruct (IH h' (n + 1)%N H) as [H1 H2]. split; [exact H1|].
    replace (n + N.of_nat (S (length ops1)))%N with (n + 1 + N.of_nat (length ops1))%N by lia.
    exact H2.
Qed.

(* the suite's guard: a case that run_scase accepts has no negative clock step *)
Lemma nonneg_advb_ok o : nonneg_advb o = true -> nonneg_adv o.
Proof.
  destruct o as [o|]; [|intros _; exact I]. destruct o; cbn; try (intros _; exact I).
  intros H. apply Z.leb_le. exact H.
Qed.

Lemma neg_adv_none ops : forall n,
  neg_adv n ops = None -> Forall (fun p => nonneg_adv (fst p)) ops.
Proof.
  induction ops as [|[o seen] ops IH]; intros n H; [constructor|]. cbn [neg_adv] in H.
  destruct (nonneg_advb o) eqn:E; [|discriminate].
  constructor; [apply nonneg_advb_ok; exact E|exact (IH _ H)].
Qed.

Lemma run_scase_none_nonneg p ops :
  run_scase (p, ops) = None -> Forall (fun q => nonneg_adv (fst q)) ops.
Proof.
  destruct p as [[[[mx sm] tl] hdr] groups]. unfold run_scase.
  destruct (neg_adv 0%N ops) eqn:E; [discriminate|]. intros _. exact (neg_adv_none ops _ E).
Qed.

Lemma run_scase_none_srun mx sm tl hdr groups ops :
  run_scase ((mx, sm, tl, hdr, groups), ops) = None ->
  srun {| qmax := mx; smax := sm; ttl := tl; var := code_variant |} hdr groups
       {| sh := {| hs := init; hnow := 0; hgate := true; hpend := false |}; snea := tl |} 0%N ops = None.
Proof. unfold run_scase. destruct (neg_adv 0%N ops); [discriminate|]. intros H; exact H. Qed.
