(* C06 — lemmas.  The final statements are in Property.v. *)
From Coq Require Import List ZArith Bool Lia Permutation Sorted.
From Verif Require Import C06.Model.
Import ListNotations.
Open Scope Z_scope.

(* ------------------------------------------------------------------ basics *)

Lemma upd_same f r i : upd f r i r = i.
Proof. unfold upd. now rewrite Z.eqb_refl. Qed.

Lemma upd_other f r i x : x <> r -> upd f r i x = f x.
Proof. unfold upd. intros H. destruct (x =? r) eqn:E; [apply Z.eqb_eq in E; contradiction|reflexivity]. Qed.

Ltac case_upd x r :=
  destruct (Z.eq_dec x r) as [?Heq|?Hne];
  [subst; rewrite ?upd_same in *|rewrite ?(upd_other _ _ _ _ ltac:(eassumption)) in *].

Lemma memZ_In r l : memZ r l = true <-> In r l.
Proof.
  unfold memZ. rewrite existsb_exists. split.
  - intros [x [Hi He]]. apply Z.eqb_eq in He. now subst.
  - intros H. exists r. split; [assumption|apply Z.eqb_refl].
Qed.

Lemma removeZ_In x r l : In x (removeZ r l) <-> In x l /\ x <> r.
Proof.
  unfold removeZ. rewrite filter_In. split; intros [H1 H2]; split; auto.
  - intros ->. rewrite Z.eqb_refl in H2. discriminate.
  - apply Z.eqb_neq in H2. now rewrite H2.
Qed.

Lemma removeZ_NoDup r l : NoDup l -> NoDup (removeZ r l).
Proof. apply NoDup_filter. Qed.

Lemma removeZ_notin r l : ~ In r l -> removeZ r l = l.
Proof.
  induction l as [|a l IH]; intros H; [reflexivity|].
  cbn. destruct (a =? r) eqn:E.
  - apply Z.eqb_eq in E. subst. exfalso. apply H. now left.
  - cbn. f_equal. apply IH. intros Hi. apply H. now right.
Qed.

Lemma removeZ_length r l : NoDup l -> In r l ->
  Z.of_nat (length (removeZ r l)) = Z.of_nat (length l) - 1.
Proof.
  induction l as [|a l IH]; intros Hn Hi; [contradiction|].
  inversion Hn as [|? ? Hna Hn']; subst.
  cbn [removeZ filter]. destruct (a =? r) eqn:E; cbn [negb].
  - apply Z.eqb_eq in E. subst. fold (removeZ r l). rewrite removeZ_notin by assumption.
    cbn [length]. lia.
  - apply Z.eqb_neq in E. destruct Hi as [->|Hi]; [contradiction|].
    fold (removeZ r l). cbn [length]. specialize (IH Hn' Hi). lia.
Qed.

(* ------------------------------------------------------------------ the heap *)

Definition ids (h : list (Z * Z * Z)) : list Z := map snd h.
Definition kle (a b : Z * Z * Z) : Prop := key_le a b = true.
Definition sorted (h : list (Z * Z * Z)) : Prop := StronglySorted kle h.

Lemma key_le_total a b : key_le a b = false -> key_le b a = true.
Proof.
  destruct a as [[p1 t1] x1], b as [[p2 t2] x2]. unfold key_le.
  intros H. apply orb_false_iff in H. destruct H as [H1 H2].
  apply Z.ltb_ge in H1. apply andb_false_iff in H2.
  apply orb_true_iff. destruct H2 as [H2|H2].
  - apply Z.eqb_neq in H2. left. apply Z.ltb_lt. lia.
  - apply Z.leb_gt in H2. destruct (Z.eq_dec p1 p2).
    + right. apply andb_true_iff. split; [apply Z.eqb_eq; lia|apply Z.leb_le; lia].
    + left. apply Z.ltb_lt. lia.
Qed.

Lemma key_le_spec a b : key_le a b = true <->
  fst (fst a) < fst (fst b) \/ (fst (fst a) = fst (fst b) /\ snd (fst a) <= snd (fst b)).
Proof.
  destruct a as [[p1 t1] x1], b as [[p2 t2] x2]. unfold key_le. cbn [fst snd].
  rewrite orb_true_iff, andb_true_iff, Z.ltb_lt, Z.eqb_eq, Z.leb_le. tauto.
Qed.

Lemma key_le_trans a b c : key_le a b = true -> key_le b c = true -> key_le a c = true.
Proof. rewrite !key_le_spec. lia. Qed.

Lemma hinsert_perm e h : Permutation (hinsert e h) (e :: h).
Proof.
  induction h as [|x h IH]; cbn; [apply Permutation_refl|].
  destruct (key_le x e).
  - eapply Permutation_trans; [apply perm_skip, IH|apply perm_swap].
  - apply Permutation_refl.
Qed.

Lemma hinsert_In x e h : In x (hinsert e h) <-> x = e \/ In x h.
Proof.
  split; intros H.
  - apply (Permutation_in _ (hinsert_perm e h)) in H. destruct H; auto.
  - apply (Permutation_in _ (Permutation_sym (hinsert_perm e h))). destruct H; [left|right]; auto.
Qed.

Lemma hinsert_ids_In x e h : In x (ids (hinsert e h)) <-> x = snd e \/ In x (ids h).
Proof.
  unfold ids. rewrite !in_map_iff. split.
  - intros [y [Hy Hi]]. apply hinsert_In in Hi. destruct Hi as [->|Hi]; [now left|right; eauto].
  - intros [->|[y [Hy Hi]]].
    + exists e. split; [reflexivity|apply hinsert_In; now left].
    + exists y. split; [assumption|apply hinsert_In; now right].
Qed.

Lemma hinsert_ids_NoDup e h : ~ In (snd e) (ids h) -> NoDup (ids h) -> NoDup (ids (hinsert e h)).
Proof.
  intros Hn Hd. unfold ids.
  eapply Permutation_NoDup; [apply Permutation_sym, Permutation_map, hinsert_perm|].
  cbn. constructor; assumption.
Qed.

Lemma hinsert_sorted e h : sorted h -> sorted (hinsert e h).
Proof.
  unfold sorted. induction h as [|x h IH]; intros Hs; cbn.
  - constructor; constructor.
  - apply StronglySorted_inv in Hs. destruct Hs as [Hs Hf].
    destruct (key_le x e) eqn:E.
    + constructor; [apply IH; assumption|].
      apply Forall_forall. intros y Hy. apply hinsert_In in Hy. destruct Hy as [->|Hy].
      * exact E.
      * rewrite Forall_forall in Hf. apply Hf. assumption.
    + apply key_le_total in E. constructor.
      * constructor; assumption.
      * constructor; [exact E|].
        apply Forall_forall. intros y Hy. rewrite Forall_forall in Hf.
        eapply key_le_trans; [exact E|apply Hf; assumption].
Qed.

Lemma hremove_In x r h : In x (hremove r h) -> In x h.
Proof.
  induction h as [|[[p t] y] h IH]; cbn; [auto|].
  destruct (y =? r); cbn; intros H; [now right|].
  destruct H as [H|H]; [now left|right; auto].
Qed.

Lemma hremove_In_nodup x r h : NoDup (ids h) -> (In x (hremove r h) <-> In x h /\ snd x <> r).
Proof.
  induction h as [|[[p t] y] h IH]; cbn; intros Hd; [tauto|].
  inversion Hd as [|? ? Hn Hd']; subst.
  destruct (y =? r) eqn:E.
  - apply Z.eqb_eq in E. subst. split.
    + intros H. split; [now right|]. intros Hx. apply Hn. unfold ids.
      apply in_map_iff. exists x. split; assumption.
    + intros [[H|H] Hx]; [subst; cbn in Hx; contradiction|assumption].
  - apply Z.eqb_neq in E. cbn. rewrite (IH Hd'). split.
    + intros [H|[H Hx]]; [subst; cbn; tauto|tauto].
    + intros [[H|H] Hx]; [now left|right; tauto].
Qed.

Lemma hremove_ids_incl x r h : In x (ids (hremove r h)) -> In x (ids h).
Proof.
  unfold ids. rewrite !in_map_iff. intros [y [Hy Hi]]. exists y. split; [assumption|].
  eapply hremove_In; eassumption.
Qed.

Lemma hremove_ids_NoDup r h : NoDup (ids h) -> NoDup (ids (hremove r h)).
Proof.
  induction h as [|[[p t] y] h IH]; cbn; intros Hd; [constructor|].
  inversion Hd as [|? ? Hn Hd']; subst.
  destruct (y =? r); [assumption|].
  cbn. constructor; [|apply IH; assumption].
  intros Hi. apply Hn. eapply hremove_ids_incl; eassumption.
Qed.

Lemma hremove_ids_notin r h : NoDup (ids h) -> ~ In r (ids (hremove r h)).
Proof.
  intros Hd Hi. unfold ids in Hi. apply in_map_iff in Hi. destruct Hi as [y [Hy Hi]].
  apply (hremove_In_nodup y r h Hd) in Hi. destruct Hi as [_ Hne]. contradiction.
Qed.

Lemma hremove_sorted r h : sorted h -> sorted (hremove r h).
Proof.
  unfold sorted. induction h as [|[[p t] y] h IH]; cbn; intros Hs; [constructor|].
  apply StronglySorted_inv in Hs. destruct Hs as [Hs Hf].
  destruct (y =? r); [assumption|].
  constructor; [apply IH; assumption|].
  apply Forall_forall. intros z Hz. rewrite Forall_forall in Hf. apply Hf.
  eapply hremove_In; eassumption.
Qed.

Lemma sorted_head e h x : sorted (e :: h) -> In x h -> kle e x.
Proof.
  intros Hs Hi. apply StronglySorted_inv in Hs. destruct Hs as [_ Hf].
  rewrite Forall_forall in Hf. apply Hf. assumption.
Qed.

Lemma sorted_tail e h : sorted (e :: h) -> sorted h.
Proof. intros Hs. apply StronglySorted_inv in Hs. tauto. Qed.

(* ------------------------------------------------------------------ schedules *)

Fixpoint trace_ok (c : cfg) (P : state -> action -> Prop) (s : state) (sch : list action) : Prop :=
  match sch with
  | [] => True
  | a :: rest => P s a /\ trace_ok c P (step c s a) rest
  end.

Lemma run_app c s a b : run c s (a ++ b) = run c (run c s a) b.
Proof. unfold run. apply fold_left_app. Qed.

Lemma run_cons c s a sch : run c s (a :: sch) = run c (step c s a) sch.
Proof. reflexivity. Qed.

(* one-step invariant => invariant after every schedule *)
Lemma run_inv c (I : state -> Prop) :
  (forall s a, I s -> I (step c s a)) ->
  forall sch s, I s -> I (run c s sch).
Proof.
  intros Hstep sch. induction sch as [|a sch IH]; intros s Hs; [exact Hs|].
  rewrite run_cons. apply IH. apply Hstep. exact Hs.
Qed.

Lemma run_inv_pre c (P : state -> action -> Prop) (I : state -> Prop) :
  (forall s a, I s -> P s a -> I (step c s a)) ->
  forall sch s, I s -> trace_ok c P s sch -> I (run c s sch).
Proof.
  intros Hstep sch. induction sch as [|a sch IH]; intros s Hs Ht; [exact Hs|].
  destruct Ht as [Hp Ht]. rewrite run_cons. apply IH; [apply Hstep; assumption|assumption].
Qed.

Lemma fold_inv {A} (f : state -> A -> state) (I : state -> Prop) :
  (forall s a, I s -> I (f s a)) -> forall l s, I s -> I (fold_left f l s).
Proof.
  intros H l. induction l as [|a l IH]; intros s Hs; [exact Hs|]. cbn. apply IH, H, Hs.
Qed.
