(* C06 — lemmas.  The final statements are in Property.v. *)
From Coq Require Import List ZArith Bool Lia Permutation Sorted.
From Verif Require Import C06.Model.
Import ListNotations.
Open Scope Z_scope.

(* ------------------------------------------------------------------ basics *)

Lemma upd_same f r i : upd f r i r = i.
Proof. unfold upd. now rewrite Z.eqb_refl. Qed.

Lemma upd_other f r i x : x <> r -> upd f r i x = f x.
Proof. unfold upd. intros H. destruct (x =? r) eqn:E; [apply Z.eqb_eq in E; contradiction|reflexivity]. Qed.

Ltac case_upd x r :=
  destruct (Z.eq_dec x r) as [?Heq|?Hne];
  [subst; rewrite ?upd_same in *|rewrite ?(upd_other _ _ _ _ ltac:(eassumption)) in *].

Lemma memZ_In r l : memZ r l = true <-> In r l.
Proof.
  unfold memZ. rewrite existsb_exists. split.
  - intros [x [Hi He]]. apply Z.eqb_eq in He. now subst.
  - intros H. exists r. split; [assumption|apply Z.eqb_refl].
Qed.

Lemma removeZ_In x r l : In x (removeZ r l) <-> In x l /\ x <> r.
Proof.
  unfold removeZ. rewrite filter_In. split; intros [H1 H2]; split; auto.
  - intros ->. rewrite Z.eqb_refl in H2. discriminate.
  - apply Z.eqb_neq in H2. now rewrite H2.
Qed.

Lemma removeZ_NoDup r l : NoDup l -> NoDup (removeZ r l).
Proof. apply NoDup_filter. Qed.

Lemma removeZ_notin r l : ~ In r l -> removeZ r l = l.
Proof.
  induction l as [|a l IH]; intros H; [reflexivity|].
  cbn. destruct (a =? r) eqn:E.
  - apply Z.eqb_eq in E. subst. exfalso. apply H. now left.
  - cbn. f_equal. apply IH. intros Hi. apply H. now right.
Qed.

Lemma removeZ_length r l : NoDup l -> In r l ->
  Z.of_nat (length (removeZ r l)) = Z.of_nat (length l) - 1.
Proof.
  induction l as [|a l IH]; intros Hn Hi; [contradiction|].
  inversion Hn as [|? ? Hna Hn']; subst.
  cbn [removeZ filter]. destruct (a =? r) eqn:E; cbn [negb].
  - apply Z.eqb_eq in E. subst. fold (removeZ r l). rewrite removeZ_notin by assumption.
    cbn [length]. lia.
  - apply Z.eqb_neq in E. destruct Hi as [->|Hi]; [contradiction|].
    fold (removeZ r l). cbn [length]. specialize (IH Hn' Hi). lia.
Qed.

(* ------------------------------------------------------------------ the heap *)

Definition ids (h : list (Z * Z * Z)) : list Z := map snd h.
Definition kle (a b : Z * Z * Z) : Prop := key_le a b = true.
Definition sorted (h : list (Z * Z * Z)) : Prop := StronglySorted kle h.

Lemma key_le_total a b : key_le a b = false -> key_le b a = true.
Proof.
  destruct a as [[p1 t1] x1], b as [[p2 t2] x2]. unfold key_le.
  intros H. apply orb_false_iff in H. destruct H as [H1 H2].
  apply Z.ltb_ge in H1. apply andb_false_iff in H2.
  apply orb_true_iff. destruct H2 as [H2|H2].
  - apply Z.eqb_neq in H2. left. apply Z.ltb_lt. lia.
  - apply Z.leb_gt in H2. destruct (Z.eq_dec p1 p2).
    + right. apply andb_true_iff. split; [apply Z.eqb_eq; lia|apply Z.leb_le; lia].
    + left. apply Z.ltb_lt. lia.
Qed.

Lemma key_le_spec a b : key_le a b = true <->
  fst (fst a) < fst (fst b) \/ (fst (fst a) = fst (fst b) /\ snd (fst a) <= snd (fst b)).
Proof.
  destruct a as [[p1 t1] x1], b as [[p2 t2] x2]. unfold key_le. cbn [fst snd].
  rewrite orb_true_iff, andb_true_iff, Z.ltb_lt, Z.eqb_eq, Z.leb_le. tauto.
Qed.

Lemma key_le_trans a b c : key_le a b = true -> key_le b c = true -> key_le a c = true.
Proof. rewrite !key_le_spec. lia. Qed.

Lemma hinsert_perm e h : Permutation (hinsert e h) (e :: h).
Proof.
  induction h as [|x h IH]; cbn; [apply Permutation_refl|].
  destruct (key_le x e).
  - eapply Permutation_trans; [apply perm_skip, IH|apply perm_swap].
  - apply Permutation_refl.
Qed.

Lemma hinsert_In x e h : In x (hinsert e h) <-> x = e \/ In x h.
Proof.
  split; intros H.
  - apply (Permutation_in _ (hinsert_perm e h)) in H. destruct H; auto.
  - apply (Permutation_in _ (Permutation_sym (hinsert_perm e h))). destruct H; [left|right]; auto.
Qed.

Lemma hinsert_ids_In x e h : In x (ids (hinsert e h)) <-> x = snd e \/ In x (ids h).
Proof.
  unfold ids. rewrite !in_map_iff. split.
  - intros [y [Hy Hi]]. apply hinsert_In in Hi. destruct Hi as [->|Hi]; [now left|right; eauto].
  - intros [->|[y [Hy Hi]]].
    + exists e. split; [reflexivity|apply hinsert_In; now left].
    + exists y. split; [assumption|apply hinsert_In; now right].
Qed.

Lemma hinsert_ids_NoDup e h : ~ In (snd e) (ids h) -> NoDup (ids h) -> NoDup (ids (hinsert e h)).
Proof.
  intros Hn Hd. unfold ids.
  eapply Permutation_NoDup; [apply Permutation_sym, Permutation_map, hinsert_perm|].
  cbn. constructor; assumption.
Qed.

Lemma hinsert_sorted e h : sorted h -> sorted (hinsert e h).
Proof.
  unfold sorted. induction h as [|x h IH]; intros Hs; cbn.
  - constructor; constructor.
  - apply StronglySorted_inv in Hs. destruct Hs as [Hs Hf].
    destruct (key_le x e) eqn:E.
    + constructor; [apply IH; assumption|].
      apply Forall_forall. intros y Hy. apply hinsert_In in Hy. destruct Hy as [->|Hy].
      * exact E.
      * rewrite Forall_forall in Hf. apply Hf. assumption.
    + apply key_le_total in E. constructor.
      * constructor; assumption.
      * constructor; [exact E|].
        apply Forall_forall. intros y Hy. rewrite Forall_forall in Hf.
        eapply key_le_trans; [exact E|apply Hf; assumption].
Qed.

Lemma hremove_In x r h : In x (hremove r h) -> In x h.
Proof.
  induction h as [|[[p t] y] h IH]; cbn; [auto|].
  destruct (y =? r); cbn; intros H; [now right|].
  destruct H as [H|H]; [now left|right; auto].
Qed.

Lemma hremove_In_nodup x r h : NoDup (ids h) -> (In x (hremove r h) <-> In x h /\ snd x <> r).
Proof.
  induction h as [|[[p t] y] h IH]; cbn; intros Hd; [tauto|].
  inversion Hd as [|? ? Hn Hd']; subst.
  destruct (y =? r) eqn:E.
  - apply Z.eqb_eq in E. subst. split.
    + intros H. split; [now right|]. intros Hx. apply Hn. unfold ids.
      apply in_map_iff. exists x. split; assumption.
    + intros [[H|H] Hx]; [subst; cbn in Hx; contradiction|assumption].
  - apply Z.eqb_neq in E. cbn. rewrite (IH Hd'). split.
    + intros [H|[H Hx]]; [subst; cbn; tauto|tauto].
    + intros [[H|H] Hx]; [now left|right; tauto].
Qed.

Lemma hremove_ids_incl x r h : In x (ids (hremove r h)) -> In x (ids h).
Proof.
  unfold ids. rewrite !in_map_iff. intros [y [Hy Hi]]. exists y. split; [assumption|].
  eapply hremove_In; eassumption.
Qed.

Lemma hremove_ids_NoDup r h : NoDup (ids h) -> NoDup (ids (hremove r h)).
Proof.
  induction h as [|[[p t] y] h IH]; cbn; intros Hd; [constructor|].
  inversion Hd as [|? ? Hn Hd']; subst.
  destruct (y =? r); [assumption|].
  cbn. constructor; [|apply IH; assumption].
  intros Hi. apply Hn. eapply hremove_ids_incl; eassumption.
Qed.

Lemma hremove_ids_notin r h : NoDup (ids h) -> ~ In r (ids (hremove r h)).
Proof.
  intros Hd Hi. unfold ids in Hi. apply in_map_iff in Hi. destruct Hi as [y [Hy Hi]].
  apply (hremove_In_nodup y r h Hd) in Hi. destruct Hi as [_ Hne]. contradiction.
Qed.

Lemma hremove_sorted r h : sorted h -> sorted (hremove r h).
Proof.
  unfold sorted. induction h as [|[[p t] y] h IH]; cbn; intros Hs; [constructor|].
  apply StronglySorted_inv in Hs. destruct Hs as [Hs Hf].
  destruct (y =? r); [assumption|].
  constructor; [apply IH; assumption|].
  apply Forall_forall. intros z Hz. rewrite Forall_forall in Hf. apply Hf.
  eapply hremove_In; eassumption.
Qed.

Lemma sorted_head e h x : sorted (e :: h) -> In x h -> kle e x.
Proof.
  intros Hs Hi. apply StronglySorted_inv in Hs. destruct Hs as [_ Hf].
  rewrite Forall_forall in Hf. apply Hf. assumption.
Qed.

Lemma sorted_tail e h : sorted (e :: h) -> sorted h.
Proof. intros Hs. apply StronglySorted_inv in Hs. tauto. Qed.

(* ------------------------------------------------------------------ schedules *)

Fixpoint trace_ok (c : cfg) (P : state -> action -> Prop) (s : state) (sch : list action) : Prop :=
  match sch with
  | [] => True
  | a :: rest => P s a /\ trace_ok c P (step c s a) rest
  end.

Lemma run_app c s a b : run c s (a ++ b) = run c (run c s a) b.
Proof. unfold run. apply fold_left_app. Qed.

Lemma run_cons c s a sch : run c s (a :: sch) = run c (step c s a) sch.
Proof. reflexivity. Qed.

(* one-step invariant => invariant after every schedule *)
Lemma run_inv c (I : state -> Prop) :
  (forall s a, I s -> I (step c s a)) ->
  forall sch s, I s -> I (run c s sch).
Proof.
  intros Hstep sch. induction sch as [|a sch IH]; intros s Hs; [exact Hs|].
  rewrite run_cons. apply IH. apply Hstep. exact Hs.
Qed.

Lemma run_inv_pre c (P : state -> action -> Prop) (I : state -> Prop) :
  (forall s a, I s -> P s a -> I (step c s a)) ->
  forall sch s, I s -> trace_ok c P s sch -> I (run c s sch).
Proof.
  intros Hstep sch. induction sch as [|a sch IH]; intros s Hs Ht; [exact Hs|].
  destruct Ht as [Hp Ht]. rewrite run_cons. apply IH; [apply Hstep; assumption|assumption].
Qed.

Lemma fold_inv {A} (f : state -> A -> state) (I : state -> Prop) :
  (forall s a, I s -> I (f s a)) -> forall l s, I s -> I (fold_left f l s).
Proof.
  intros H l. induction l as [|a l IH]; intros s Hs; [exact Hs|]. cbn. apply IH, H, Hs.
Qed.

(* ------------------------------------------------------------------ frame facts *)

Lemma ttl_fire_frame s now r :
  heap (ttl_fire s now r) = heap s /\ watch (ttl_fire s now r) = watch s /\
  count (ttl_fire s now r) = count s /\ next_stamp (ttl_fire s now r) = next_stamp s /\
  held (ttl_fire s now r) = held s /\ drained (ttl_fire s now r) = drained s /\
  checked (ttl_fire s now r) = checked s /\ admits (ttl_fire s now r) = admits s.
Proof. unfold ttl_fire. destruct (_ && _ && _); cbn; repeat split; reflexivity. Qed.

Lemma release_frame c s r :
  heap (release c s r) = heap s /\ watch (release c s r) = watch s /\
  count (release c s r) = count s /\ next_stamp (release c s r) = next_stamp s /\
  held (release c s r) = held s /\ drained (release c s r) = drained s /\
  checked (release c s r) = checked s /\ admits (release c s r) = admits s.
Proof. unfold release. destruct (gated_drain _); [destruct (is_enq _)|]; cbn; repeat split; reflexivity. Qed.

Lemma fold_ttl_frame now l s :
  let s' := fold_left (fun s0 r => ttl_fire s0 now r) l s in
  heap s' = heap s /\ watch s' = watch s /\ count s' = count s /\ next_stamp s' = next_stamp s /\
  held s' = held s /\ drained s' = drained s /\ checked s' = checked s /\ admits s' = admits s.
Proof.
  revert s. induction l as [|a l IH]; intros s; cbn; [repeat split; reflexivity|].
  specialize (IH (ttl_fire s now a)). pose proof (ttl_fire_frame s now a) as F. cbn in IH.
  destruct IH as (?&?&?&?&?&?&?&?), F as (?&?&?&?&?&?&?&?). repeat split; congruence.
Qed.

Lemma ttl_scan_frame s now :
  heap (ttl_scan s now) = heap s /\ watch (ttl_scan s now) = watch s /\
  count (ttl_scan s now) = count s /\ next_stamp (ttl_scan s now) = next_stamp s /\
  held (ttl_scan s now) = held s /\ drained (ttl_scan s now) = drained s /\
  checked (ttl_scan s now) = checked s /\ admits (ttl_scan s now) = admits s.
Proof. apply (fold_ttl_frame now (watch s) s). Qed.

Lemma fold_release_frame c l s :
  let s' := fold_left (release c) l s in
  heap s' = heap s /\ watch s' = watch s /\ count s' = count s /\ next_stamp s' = next_stamp s /\
  held s' = held s /\ drained s' = drained s /\ checked s' = checked s /\ admits s' = admits s.
Proof.
  revert s. induction l as [|a l IH]; intros s; cbn; [repeat split; reflexivity|].
  specialize (IH (release c s a)). pose proof (release_frame c s a) as F. cbn in IH.
  destruct IH as (?&?&?&?&?&?&?&?), F as (?&?&?&?&?&?&?&?). repeat split; congruence.
Qed.

(* ------------------------------------------------------------------ group A: watch list, counter *)

Definition in_watch_pc (i : rinfo) : Prop :=
  pc i = PRegistered \/ pc i = PWaiting \/ pc i = PReturned.

Record InvA (s : state) : Prop := {
  A_watch : forall r, In r (watch s) <-> in_watch_pc (info s r);
  A_nodup : NoDup (watch s);
  A_count : count s = Z.of_nat (length (watch s));
  A_chk : forall r, In r (checked s) <-> pc (info s r) = PChecked;
  A_chk_nodup : NoDup (checked s)
}.

Lemma InvA_init : InvA init.
Proof.
  constructor; cbn; try constructor; unfold in_watch_pc; cbn; try tauto;
    try (intros [H|[H|H]]; discriminate); try discriminate.
Qed.

Lemma InvA_same_pc s s' :
  watch s' = watch s -> count s' = count s -> checked s' = checked s ->
  (forall x, pc (info s' x) = pc (info s x)) -> InvA s -> InvA s'.
Proof.
  intros Hw Hc Hk Hp [A1 A2 A3 A4 A5].
  constructor; rewrite ?Hw, ?Hc, ?Hk; auto; intros r; unfold in_watch_pc; rewrite Hp;
    [apply A1|apply A4].
Qed.

Lemma ttl_fire_pc s now r x : pc (info (ttl_fire s now r) x) = pc (info s x).
Proof.
  unfold ttl_fire. destruct (_ && _ && _); [|reflexivity]. cbn.
  destruct (Z.eq_dec x r) as [->|Hne]; [rewrite upd_same|rewrite upd_other by assumption]; reflexivity.
Qed.

Lemma release_pc c s r x : pc (info (release c s r) x) = pc (info s x).
Proof.
  unfold release. destruct (gated_drain _); [destruct (is_enq _)|]; cbn; try reflexivity;
  (destruct (Z.eq_dec x r) as [->|Hne]; [rewrite upd_same|rewrite upd_other by assumption]; reflexivity).
Qed.

Lemma fold_ttl_pc now l s x :
  pc (info (fold_left (fun s0 r => ttl_fire s0 now r) l s) x) = pc (info s x).
Proof.
  revert s. induction l as [|a l IH]; intros s; cbn; [reflexivity|]. rewrite IH. apply ttl_fire_pc.
Qed.

Lemma ttl_scan_pc s now x : pc (info (ttl_scan s now) x) = pc (info s x).
Proof. apply fold_ttl_pc. Qed.

Lemma fold_release_pc c l s x : pc (info (fold_left (release c) l s) x) = pc (info s x).
Proof.
  revert s. induction l as [|a l IH]; intros s; cbn; [reflexivity|]. rewrite IH. apply release_pc.
Qed.

Lemma InvA_step c s a : InvA s -> InvA (step c s a).
Proof.
  intros HA. pose proof HA as [A1 A2 A3 A4 A5].
  destruct a as [r p now|r|r| |b|now r|now|r|r| ]; cbn [step].
  - (* ArriveCheck *)
    unfold arrive_check. destruct (pc (info s r)) eqn:Epc; try exact HA.
    destruct (qmax c <=? count s).
    + constructor; cbn; auto; intros x; unfold in_watch_pc;
        (destruct (Z.eq_dec x r) as [->|Hne]; [rewrite upd_same|rewrite upd_other by assumption]); cbn.
      * rewrite A1. unfold in_watch_pc. rewrite Epc. split; intros [H|[H|H]]; discriminate.
      * apply A1.
      * rewrite A4, Epc. split; discriminate.
      * apply A4.
    + constructor; cbn; auto.
      * intros x. unfold in_watch_pc.
        destruct (Z.eq_dec x r) as [->|Hne]; [rewrite upd_same|rewrite upd_other by assumption]; cbn.
        -- rewrite A1. unfold in_watch_pc. rewrite Epc. split; intros [H|[H|H]]; discriminate.
        -- apply A1.
      * intros x.
        destruct (Z.eq_dec x r) as [->|Hne]; [rewrite upd_same|rewrite upd_other by assumption]; cbn.
        -- split; auto.
        -- rewrite <- A4. split; [intros [H|H]; [congruence|assumption]|auto].
      * constructor; [|assumption]. rewrite A4, Epc. discriminate.
  - (* ArriveRegister *)
    unfold arrive_register. destruct (pc (info s r)) eqn:Epc; try exact HA.
    assert (Hnw : ~ In r (watch s)).
    { rewrite A1. unfold in_watch_pc. rewrite Epc. intros [H|[H|H]]; discriminate. }
    destruct (shared_full c s || _ || _).
    + constructor; cbn; auto.
      * intros x. unfold in_watch_pc.
        destruct (Z.eq_dec x r) as [->|Hne]; [rewrite upd_same|rewrite upd_other by assumption]; cbn.
        -- split; [intros H; contradiction|intros [H|[H|H]]; discriminate].
        -- apply A1.
      * intros x. rewrite removeZ_In.
        destruct (Z.eq_dec x r) as [->|Hne]; [rewrite upd_same|rewrite upd_other by assumption]; cbn.
        -- split; [tauto|discriminate].
        -- rewrite A4. tauto.
      * apply removeZ_NoDup. assumption.
    + constructor; cbn [info heap watch count checked].
      * intros x. unfold in_watch_pc.
        destruct (Z.eq_dec x r) as [->|Hne]; [rewrite upd_same|rewrite upd_other by assumption]; cbn.
        -- split; auto.
        -- rewrite <- (A1 x). split; [intros [H|H]; [congruence|assumption]|auto].
      * constructor; assumption.
      * cbn [length]. lia.
      * intros x. rewrite removeZ_In.
        destruct (Z.eq_dec x r) as [->|Hne]; [rewrite upd_same|rewrite upd_other by assumption]; cbn.
        -- split; [tauto|discriminate].
        -- rewrite A4. tauto.
      * apply removeZ_NoDup. assumption.
  - (* ArrivePush *)
    unfold arrive_push. destruct (pc (info s r)) eqn:Epc; try exact HA.
    constructor; cbn; auto; intros x; unfold in_watch_pc;
      (destruct (Z.eq_dec x r) as [->|Hne]; [rewrite upd_same|rewrite upd_other by assumption]); cbn.
    + rewrite A1. unfold in_watch_pc. rewrite Epc. split; auto.
    + apply A1.
    + rewrite A4, Epc. split; discriminate.
    + apply A4.
  - (* TickPop *)
    unfold tick_pop. destruct (drained s); [exact HA|]. destruct (held s); [exact HA|].
    destruct (heap s) as [|[[p t] r] h']; [exact HA|].
    destruct (memZ r (watch s) && is_enq (info s r)).
    + apply (InvA_same_pc s); auto. intros x. cbn.
      destruct (Z.eq_dec x r) as [->|Hne]; [rewrite upd_same|rewrite upd_other by assumption]; reflexivity.
    + apply (InvA_same_pc s); auto.
  - (* TickDecide *)
    unfold tick_decide. destruct (held s) as [r|]; [|exact HA].
    destruct b; [|destruct (keep_stamp (var c))];
      (apply (InvA_same_pc s); auto; intros x; cbn;
       destruct (Z.eq_dec x r) as [->|Hne]; [rewrite upd_same|rewrite upd_other by assumption]; reflexivity).
  - (* TtlFire *)
    pose proof (ttl_fire_frame s now r) as (?&?&?&?&?&?&?&?).
    apply (InvA_same_pc s); auto. apply ttl_fire_pc.
  - (* TtlScan *)
    pose proof (ttl_scan_frame s now) as (?&?&?&?&?&?&?&?).
    apply (InvA_same_pc s); auto. apply ttl_scan_pc.
  - (* WaiterReturn *)
    unfold waiter_return. destruct (pc (info s r)) eqn:Epc; try exact HA.
    destruct (1 <=? dones (info s r)); [|exact HA].
    constructor; cbn; auto; intros x; unfold in_watch_pc;
      (destruct (Z.eq_dec x r) as [->|Hne]; [rewrite upd_same|rewrite upd_other by assumption]); cbn.
    + rewrite A1. unfold in_watch_pc. rewrite Epc. split; auto.
    + apply A1.
    + rewrite A4, Epc. split; discriminate.
    + apply A4.
  - (* Remove *)
    unfold remove. destruct (pc (info s r)) eqn:Epc; try exact HA.
    assert (Hw : In r (watch s)). { apply A1. unfold in_watch_pc. rewrite Epc. auto. }
    constructor; cbn [info heap watch count checked].
    + intros x. rewrite removeZ_In. unfold in_watch_pc.
      destruct (Z.eq_dec x r) as [->|Hne]; [rewrite upd_same|rewrite upd_other by assumption]; cbn.
      * split; [tauto|intros [H|[H|H]]; discriminate].
      * rewrite (A1 x). unfold in_watch_pc. tauto.
    + apply removeZ_NoDup. assumption.
    + rewrite removeZ_length by assumption. lia.
    + intros x.
      destruct (Z.eq_dec x r) as [->|Hne]; [rewrite upd_same|rewrite upd_other by assumption]; cbn.
      * rewrite A4, Epc. split; discriminate.
      * apply A4.
    + assumption.
  - (* Drain *)
    unfold drain. destruct (drained s); [exact HA|]. destruct (held s); [exact HA|].
    pose proof (fold_release_frame c (watch s) s) as F. cbn in F. destruct F as (?&?&?&?&?&?&?&?).
    apply (InvA_same_pc s); cbn; auto. intros x. apply fold_release_pc.
Qed.

(* ------------------------------------------------------------------ group B: gate and signals *)

Record InvB (s : state) : Prop := {
  B_held : forall r, held s = Some r <-> st (info s r) = Proc;
  B_d0 : forall r, st (info s r) <> Dn -> dones (info s r) = 0;
  B_d1 : forall r, st (info s r) = Dn -> 1 <= dones (info s r);
  B_ret : forall r, pc (info s r) = PReturned -> 1 <= dones (info s r)
}.

Lemma InvB_init : InvB init.
Proof. constructor; cbn; intros; try discriminate; try reflexivity. split; discriminate. Qed.

Lemma InvB_nonneg s r : InvB s -> 0 <= dones (info s r).
Proof.
  intros [_ B0 B1 _]. destruct (st (info s r)) eqn:E.
  - rewrite B0; [lia|congruence].
  - rewrite B0; [lia|congruence].
  - specialize (B1 r E). lia.
Qed.

Ltac updc x r :=
  destruct (Z.eq_dec x r) as [->|?Hne]; [rewrite ?upd_same|rewrite ?upd_other by assumption].

Lemma InvB_same s s' :
  held s' = held s ->
  (forall x, st (info s' x) = st (info s x) /\ dones (info s' x) = dones (info s x) /\
             (pc (info s' x) = PReturned -> pc (info s x) = PReturned \/ 1 <= dones (info s x))) ->
  InvB s -> InvB s'.
Proof.
  intros Hh Hx [B1 B2 B3 B4]. constructor; intros r; destruct (Hx r) as (Hs & Hd & Hp).
  - rewrite Hh, Hs. apply B1.
  - rewrite Hs, Hd. apply B2.
  - rewrite Hs, Hd. apply B3.
  - rewrite Hd. intros H. destruct (Hp H) as [H'|H']; [apply B4; assumption|assumption].
Qed.

Lemma InvB_ttl_fire s now r : InvB s -> InvB (ttl_fire s now r).
Proof.
  intros HB. pose proof HB as [B1 B2 B3 B4]. unfold ttl_fire.
  destruct (memZ r (watch s) && (expire (info s r) <? now) && is_enq (info s r)) eqn:G; [|exact HB].
  apply andb_true_iff in G. destruct G as [_ G]. unfold is_enq in G.
  destruct (st (info s r)) eqn:Est; try discriminate.
  assert (Hd : dones (info s r) = 0) by (apply B2; congruence).
  constructor; cbn; intros x; updc x r; cbn; auto.
  - rewrite B1, Est. split; discriminate.
  - intros H. congruence.
  - intros _. lia.
  - intros _. lia.
Qed.

Lemma InvB_release c s r : InvB s -> held s = None -> InvB (release c s r).
Proof.
  intros HB Hh. pose proof HB as [B1 B2 B3 B4]. pose proof (InvB_nonneg s r HB) as Hnn.
  assert (Hnp : forall x, st (info s x) <> Proc).
  { intros x Hx. apply B1 in Hx. congruence. }
  unfold release. destruct (gated_drain (var c)).
  - unfold is_enq. destruct (st (info s r)) eqn:Est; try exact HB.
    constructor; cbn; intros x; updc x r; cbn; auto.
    + rewrite Hh. split; discriminate.
    + congruence.
    + intros _. lia.
    + intros _. lia.
  - constructor; cbn; intros x; updc x r; cbn; auto.
    + rewrite Hh. split; discriminate.
    + congruence.
    + intros _. lia.
    + intros _. lia.
Qed.

Lemma InvB_fold_release c l s :
  InvB s -> held s = None -> InvB (fold_left (release c) l s).
Proof.
  revert s. induction l as [|a l IH]; intros s HB Hh; cbn; [exact HB|].
  apply IH; [apply InvB_release; assumption|].
  pose proof (release_frame c s a) as (?&?&?&?&?&?&?&?). congruence.
Qed.

Lemma InvB_step c s a : InvB s -> InvB (step c s a).
Proof.
  intros HB. pose proof HB as [B1 B2 B3 B4].
  destruct a as [r p now|r|r| |b|now r|now|r|r| ]; cbn [step].
  - unfold arrive_check. destruct (pc (info s r)) eqn:Epc; try exact HB.
    destruct (qmax c <=? count s);
      (apply (InvB_same s); [reflexivity| |exact HB]; intros x; cbn; updc x r; cbn;
       repeat split; auto; discriminate).
  - unfold arrive_register. destruct (pc (info s r)) eqn:Epc; try exact HB.
    destruct (shared_full c s || _ || _);
      (apply (InvB_same s); [reflexivity| |exact HB]; intros x; cbn; updc x r; cbn;
       repeat split; auto; discriminate).
  - unfold arrive_push. destruct (pc (info s r)) eqn:Epc; try exact HB.
    apply (InvB_same s); [reflexivity| |exact HB]. intros x; cbn; updc x r; cbn;
      repeat split; auto; discriminate.
  - (* TickPop *)
    unfold tick_pop. destruct (drained s); [exact HB|]. destruct (held s) eqn:Eh; [exact HB|].
    destruct (heap s) as [|[[p t] r] h']; [exact HB|].
    destruct (memZ r (watch s) && is_enq (info s r)) eqn:G.
    + apply andb_true_iff in G. destruct G as [_ G]. unfold is_enq in G.
      destruct (st (info s r)) eqn:Est; try discriminate.
      constructor; cbn; intros x; updc x r; cbn; auto.
      * split; reflexivity.
      * rewrite <- B1. split; intros H; congruence.
      * intros _. apply B2. congruence.
      * discriminate.
    + apply (InvB_same s); [cbn; congruence| |exact HB]. intros x. cbn. auto.
  - (* TickDecide *)
    unfold tick_decide. destruct (held s) as [r|] eqn:Eh; [|exact HB].
    assert (Est : st (info s r) = Proc) by (apply B1; reflexivity).
    assert (Hd : dones (info s r) = 0) by (apply B2; congruence).
    assert (Hoth : forall x, x <> r -> st (info s x) <> Proc).
    { intros x Hx H. apply B1 in H. congruence. }
    destruct b; [|destruct (keep_stamp (var c))];
      (constructor; cbn; intros x; updc x r; cbn; auto;
       [split; discriminate
       |split; [discriminate|intros H; exfalso; eapply Hoth; eassumption]
       |try congruence; try (intros _; lia)..]).
  - apply InvB_ttl_fire. exact HB.
  - unfold ttl_scan. apply fold_inv; [|exact HB]. intros s0 r0. apply InvB_ttl_fire.
  - unfold waiter_return. destruct (pc (info s r)) eqn:Epc; try exact HB.
    destruct (1 <=? dones (info s r)) eqn:G; [|exact HB]. apply Z.leb_le in G.
    apply (InvB_same s); [reflexivity| |exact HB]. intros x; cbn; updc x r; cbn; repeat split; auto.
  - unfold remove. destruct (pc (info s r)) eqn:Epc; try exact HB.
    apply (InvB_same s); [reflexivity| |exact HB]. intros x; cbn; updc x r; cbn; repeat split; auto;
      try discriminate.
  - unfold drain. destruct (drained s); [exact HB|]. destruct (held s) eqn:Eh; [exact HB|].
    pose proof (InvB_fold_release c (watch s) s HB Eh) as HB'.
    apply (InvB_same (fold_left (release c) (watch s) s)); [reflexivity| |exact HB'].
    intros x. cbn. auto.
Qed.

(* ------------------------------------------------------------------ group D: admissions *)

Record InvD (s : state) : Prop := {
  D_adm : forall r, res (info s r) = Success -> In r (admits s);
  D_verd : forall r, verdict (info s r) = Some true -> In r (admits s);
  D_dn : forall r, In r (admits s) -> st (info s r) = Dn;
  D_nodup : NoDup (admits s)
}.

Lemma InvD_init : InvD init.
Proof. constructor; cbn; intros; try discriminate; try contradiction. constructor. Qed.

Lemma InvD_same s s' :
  admits s' = admits s ->
  (forall x, (res (info s' x) = Success -> res (info s x) = Success) /\
             (verdict (info s' x) = Some true ->
              verdict (info s x) = Some true \/ res (info s x) = Success) /\
             (st (info s x) = Dn -> st (info s' x) = Dn)) ->
  InvD s -> InvD s'.
Proof.
  intros Ha Hx [D1 D2 D3 D4]. constructor; rewrite ?Ha; auto; intros r; destruct (Hx r) as (H1 & H2 & H3).
  - intros H. apply D1, H1, H.
  - intros H. destruct (H2 H) as [H'|H']; [apply D2|apply D1]; assumption.
  - intros H. apply H3, D3, H.
Qed.

Lemma InvD_ttl_fire s now r : InvD s -> InvD (ttl_fire s now r).
Proof.
  intros HD. unfold ttl_fire. destruct (_ && _ && _); [|exact HD].
  apply (InvD_same s); [reflexivity| |exact HD]. intros x. cbn. updc x r; cbn; repeat split; auto.
  discriminate.
Qed.

Lemma InvD_release c s r : InvD s -> InvD (release c s r).
Proof.
  intros HD. unfold release. destruct (gated_drain _); [destruct (is_enq _)|]; try exact HD;
    (apply (InvD_same s); [reflexivity| |exact HD]; intros x; cbn; updc x r; cbn; repeat split; auto;
     discriminate).
Qed.

Lemma InvD_step c s a : InvB s -> InvD s -> InvD (step c s a).
Proof.
  intros HB HD. pose proof HB as [B1 B2 B3 B4]. pose proof HD as [D1 D2 D3 D4].
  destruct a as [r p now|r|r| |b|now r|now|r|r| ]; cbn [step].
  - unfold arrive_check. destruct (pc (info s r)) eqn:Epc; try exact HD.
    destruct (qmax c <=? count s);
      (apply (InvD_same s); [reflexivity| |exact HD]; intros x; cbn; updc x r; cbn;
       repeat split; auto; discriminate).
  - unfold arrive_register. destruct (pc (info s r)) eqn:Epc; try exact HD.
    destruct (shared_full c s || _ || _);
      (apply (InvD_same s); [reflexivity| |exact HD]; intros x; cbn; updc x r; cbn;
       repeat split; auto; discriminate).
  - unfold arrive_push. destruct (pc (info s r)) eqn:Epc; try exact HD.
    apply (InvD_same s); [reflexivity| |exact HD]. intros x; cbn; updc x r; cbn; repeat split; auto.
  - unfold tick_pop. destruct (drained s); [exact HD|]. destruct (held s) eqn:Eh; [exact HD|].
    destruct (heap s) as [|[[p t] r] h']; [exact HD|].
    destruct (memZ r (watch s) && is_enq (info s r)) eqn:G.
    + apply andb_true_iff in G. destruct G as [_ G]. unfold is_enq in G.
      destruct (st (info s r)) eqn:Est; try discriminate.
      apply (InvD_same s); [reflexivity| |exact HD]. intros x; cbn; updc x r; cbn; repeat split; auto.
      congruence.
    + apply (InvD_same s); [reflexivity| |exact HD]. intros x. cbn. auto.
  - unfold tick_decide. destruct (held s) as [r|] eqn:Eh; [|exact HD].
    assert (Est : st (info s r) = Proc) by (apply B1; reflexivity).
    destruct b.
    + constructor; cbn.
      * intros x. updc x r; cbn; auto.
      * intros x. updc x r; cbn; auto.
      * intros x [Hx|Hx]; [subst; rewrite upd_same; reflexivity|].
        updc x r; cbn; auto.
      * constructor; [|assumption]. intros Hi. apply D3 in Hi. congruence.
    + destruct (keep_stamp (var c));
        (apply (InvD_same s); [reflexivity| |exact HD]; intros x; cbn; updc x r; cbn; repeat split; auto;
         congruence).
  - apply InvD_ttl_fire. exact HD.
  - unfold ttl_scan. apply fold_inv; [|exact HD]. intros s0 r0. apply InvD_ttl_fire.
  - unfold waiter_return. destruct (pc (info s r)) eqn:Epc; try exact HD.
    destruct (1 <=? dones (info s r)) eqn:G; [|exact HD].
    apply (InvD_same s); [reflexivity| |exact HD]. intros x; cbn; updc x r; cbn; repeat split; auto.
    destruct (res (info s r)); intros H; try discriminate. auto.
  - unfold remove. destruct (pc (info s r)) eqn:Epc; try exact HD.
    apply (InvD_same s); [reflexivity| |exact HD]. intros x; cbn; updc x r; cbn; repeat split; auto.
  - unfold drain. destruct (drained s); [exact HD|]. destruct (held s) eqn:Eh; [exact HD|].
    assert (HD' : InvD (fold_left (release c) (watch s) s)).
    { apply fold_inv; [|exact HD]. intros s0 r0. apply InvD_release. }
    apply (InvD_same (fold_left (release c) (watch s) s)); [reflexivity| |exact HD'].
    intros x. cbn. auto.
Qed.

(* ------------------------------------------------------------------ group C: the heap and the stamps *)

Definition pushed_pc (i : rinfo) : Prop := pc i = PWaiting \/ pc i = PReturned.

Record InvC (c : cfg) (s : state) : Prop := {
  C_sorted : sorted (heap s);
  C_hnodup : NoDup (ids (heap s));
  C_hent : forall p t x, In (p, t, x) (heap s) ->
      p = prio (info s x) /\ pushed_pc (info s x) /\ t < next_stamp s /\
      (keep_stamp (var c) = true -> t = astamp (info s x));
  C_hwait : forall r, pc (info s r) = PWaiting -> st (info s r) = Enq ->
      exists t, In (prio (info s r), t, r) (heap s);
  C_held_pc : forall r, held s = Some r -> pc (info s r) = PWaiting;
  C_held_heap : forall r, held s = Some r -> ~ In r (ids (heap s));
  C_st_lt : forall r, pushed_pc (info s r) -> astamp (info s r) < next_stamp s;
  C_st_inj : forall r r', pushed_pc (info s r) -> pushed_pc (info s r') ->
      astamp (info s r) = astamp (info s r') -> r = r'
}.

Lemma InvC_init c : InvC c init.
Proof.
  constructor; cbn; try (intros; contradiction); try (intros; discriminate); try constructor.
  - intros r [H|H]; discriminate.
  - intros r r' [H|H]; discriminate.
Qed.

Lemma in_ids p t x h : In (p, t, x) h -> In x (ids h).
Proof. intros H. unfold ids. apply in_map_iff. exists (p, t, x). split; [reflexivity|assumption]. Qed.

(* steps that touch only state / result / signal count of requests *)
Lemma InvC_info_only c s s' :
  heap s' = heap s -> next_stamp s' = next_stamp s -> (held s' = held s \/ held s' = None) ->
  (forall x, pc (info s' x) = pc (info s x) /\ prio (info s' x) = prio (info s x) /\
             astamp (info s' x) = astamp (info s x) /\
             (st (info s' x) = Enq -> st (info s x) = Enq)) ->
  InvC c s -> InvC c s'.
Proof.
  intros Hh Hn Hd Hx [C1 C2 C3 C4 C5 C6 C7 C8].
  assert (Hp : forall x, pushed_pc (info s' x) <-> pushed_pc (info s x)).
  { intros x. unfold pushed_pc. destruct (Hx x) as (-> & _). tauto. }
  constructor; rewrite ?Hh, ?Hn; auto.
  - intros p t x Hi. destruct (C3 p t x Hi) as (H1 & H2 & H3 & H4). destruct (Hx x) as (E1 & E2 & E3 & _).
    rewrite E2, E3, Hp. auto.
  - intros r H1 H2. destruct (Hx r) as (E1 & E2 & E3 & E4). rewrite E2. apply C4; [congruence|auto].
  - intros r H. destruct (Hx r) as (E1 & _). rewrite E1. apply C5. destruct Hd as [Hd|Hd]; congruence.
  - intros r H. apply C6. destruct Hd as [Hd|Hd]; congruence.
  - intros r H. destruct (Hx r) as (_ & _ & E3 & _). rewrite E3. apply C7, Hp, H.
  - intros r r' H1 H2 H3. destruct (Hx r) as (_ & _ & E3 & _), (Hx r') as (_ & _ & E3' & _).
    apply C8; [apply Hp, H1|apply Hp, H2|congruence].
Qed.

Lemma InvC_ttl_fire c s now r : InvC c s -> InvC c (ttl_fire s now r).
Proof.
  intros HC. unfold ttl_fire. destruct (_ && _ && _); [|exact HC].
  apply (InvC_info_only c s); cbn; auto. intros x. updc x r; cbn; repeat split; auto. discriminate.
Qed.

Lemma InvC_release c s r : InvC c s -> InvC c (release c s r).
Proof.
  intros HC. unfold release. destruct (gated_drain _); [destruct (is_enq _)|]; try exact HC;
    (apply (InvC_info_only c s); cbn; auto; intros x; updc x r; cbn; repeat split; auto; discriminate).
Qed.

Lemma InvC_step c s a : InvA s -> InvB s -> InvC c s -> InvC c (step c s a).
Proof.
  intros HA HB HC. pose proof HA as [A1 A2 A3 A4 A5]. pose proof HB as [B1 B2 B3 B4].
  pose proof HC as [C1 C2 C3 C4 C5 C6 C7 C8].
  assert (Hentpc : forall r, ~ pushed_pc (info s r) -> forall p t x, In (p, t, x) (heap s) -> x <> r).
  { intros r Hr p t x Hi ->. apply Hr. apply (C3 p t r Hi). }
  destruct a as [r p now|r|r| |b|now r|now|r|r| ]; cbn [step].
  - (* ArriveCheck *)
    unfold arrive_check. destruct (pc (info s r)) eqn:Epc; try exact HC.
    assert (Hnp : ~ pushed_pc (info s r)) by (unfold pushed_pc; rewrite Epc; intros [H|H]; discriminate).
    destruct (qmax c <=? count s);
    (constructor; cbn [info heap next_stamp held with_info]; auto;
     [ intros p0 t x Hi; pose proof (Hentpc r Hnp p0 t x Hi) as Hx; rewrite upd_other by assumption;
       apply C3; assumption
     | intros x; updc x r; cbn; [discriminate|apply C4]
     | intros x Hh; pose proof (C5 x Hh) as Hw; updc x r; [congruence|assumption]
     | intros x; updc x r; cbn; [unfold pushed_pc; cbn; intros [H|H]; discriminate|apply C7]
     | intros x y; updc x r; [unfold pushed_pc; cbn; intros [H|H]; discriminate|];
       updc y r; [unfold pushed_pc; cbn; intros _ [H|H]; discriminate|apply C8] ]).
  - (* ArriveRegister *)
    unfold arrive_register. destruct (pc (info s r)) eqn:Epc; try exact HC.
    assert (Hnp : ~ pushed_pc (info s r)) by (unfold pushed_pc; rewrite Epc; intros [H|H]; discriminate).
    destruct (shared_full c s || _ || _);
    (constructor; cbn [info heap next_stamp held]; auto;
     [ intros p0 t x Hi; pose proof (Hentpc r Hnp p0 t x Hi) as Hx; rewrite upd_other by assumption;
       apply C3; assumption
     | intros x; updc x r; cbn; [discriminate|apply C4]
     | intros x Hh; pose proof (C5 x Hh) as Hw; updc x r; [congruence|assumption]
     | intros x; updc x r; cbn; [unfold pushed_pc; cbn; intros [H|H]; discriminate|apply C7]
     | intros x y; updc x r; [unfold pushed_pc; cbn; intros [H|H]; discriminate|];
       updc y r; [unfold pushed_pc; cbn; intros _ [H|H]; discriminate|apply C8] ]).
  - (* ArrivePush *)
    unfold arrive_push. destruct (pc (info s r)) eqn:Epc; try exact HC.
    assert (Hnp : ~ pushed_pc (info s r)) by (unfold pushed_pc; rewrite Epc; intros [H|H]; discriminate).
    assert (Hnh : ~ In r (ids (heap s))).
    { intros Hi. unfold ids in Hi. apply in_map_iff in Hi. destruct Hi as [[[p0 t0] x0] [E Hi]].
      cbn in E. subst. apply Hnp. apply (C3 p0 t0 r Hi). }
    constructor; cbn [info heap next_stamp held].
    + apply hinsert_sorted. assumption.
    + apply hinsert_ids_NoDup; assumption.
    + intros p0 t x Hi. apply hinsert_In in Hi. destruct Hi as [Hi|Hi].
      * inversion Hi; subst. rewrite upd_same. cbn. unfold pushed_pc. cbn. repeat split; auto. lia.
      * pose proof (Hentpc r Hnp p0 t x Hi) as Hx. rewrite upd_other by assumption.
        destruct (C3 p0 t x Hi) as (H1 & H2 & H3 & H4). repeat split; auto. lia.
    + intros x. updc x r; cbn.
      * intros _ _. exists (next_stamp s). apply hinsert_In. now left.
      * intros H1 H2. destruct (C4 x H1 H2) as [t Ht]. exists t. apply hinsert_In. now right.
    + intros x Hh. pose proof (C5 x Hh) as Hw. updc x r; [congruence|assumption].
    + intros x Hh Hi. apply hinsert_ids_In in Hi. cbn in Hi. destruct Hi as [->|Hi].
      * pose proof (C5 r Hh). congruence.
      * apply (C6 x Hh Hi).
    + intros x. updc x r; cbn; [lia|]. intros H. specialize (C7 x H). lia.
    + intros x y. updc x r; updc y r; cbn; auto.
      * intros _ H E. specialize (C7 y H). lia.
      * intros H _ E. specialize (C7 x H). lia.
  - (* TickPop *)
    unfold tick_pop. destruct (drained s); [exact HC|]. destruct (held s) eqn:Eh; [exact HC|].
    destruct (heap s) as [|[[p t] r] h'] eqn:Ehp; [exact HC|].
    assert (Hd' : NoDup (ids h') /\ ~ In r (ids h')).
    { cbn in C2. inversion C2; subst. auto. }
    destruct Hd' as [Hd1 Hd2].
    destruct (memZ r (watch s) && is_enq (info s r)) eqn:G.
    + apply andb_true_iff in G. destruct G as [_ G]. unfold is_enq in G.
      destruct (st (info s r)) eqn:Est; try discriminate.
      constructor; cbn [info heap next_stamp held].
      * eapply sorted_tail; eassumption.
      * assumption.
      * intros p0 t0 x Hi. assert (Hi' : In (p0, t0, x) ((p, t, r) :: h')) by now right.
        destruct (C3 p0 t0 x Hi') as (H1 & H2 & H3 & H4).
        updc x r; cbn; repeat split; auto.
      * intros x. updc x r; cbn; [discriminate|].
        intros H1 H2. destruct (C4 x H1 H2) as [t0 [Ht|Ht]]; [inversion Ht; congruence|eauto].
      * intros x Hh. inversion Hh; subst. rewrite upd_same. cbn.
        destruct (C3 p t x (or_introl eq_refl)) as (_ & [Hw|Hr] & _); [assumption|].
        specialize (B4 x Hr). rewrite (B2 x) in B4 by congruence. lia.
      * intros x Hh. inversion Hh; subst. assumption.
      * intros x. updc x r; cbn; apply C7.
      * intros x y. updc x r; updc y r; cbn; auto; apply C8.
    + constructor; cbn [info heap next_stamp held]; auto.
      * eapply sorted_tail; eassumption.
      * intros p0 t0 x Hi. apply C3. now right.
      * intros x H1 H2. destruct (C4 x H1 H2) as [t0 [Ht|Ht]]; [|eauto].
        inversion Ht; subst. exfalso.
        assert (Hw : In x (watch s)) by (apply A1; unfold in_watch_pc; auto).
        apply memZ_In in Hw. unfold is_enq in G. rewrite Hw, H2 in G. discriminate.
      * intros x H. discriminate.
  - (* TickDecide *)
    unfold tick_decide. destruct (held s) as [r|] eqn:Eh; [|exact HC].
    pose proof (C5 r eq_refl) as Hpc. pose proof (C6 r eq_refl) as Hnh.
    assert (Hpp : pushed_pc (info s r)) by (left; assumption).
    destruct b.
    + apply (InvC_info_only c s); cbn; auto. intros x. updc x r; cbn; repeat split; auto. discriminate.
    + destruct (keep_stamp (var c)) eqn:Ek.
      * constructor; cbn [info heap next_stamp held].
        -- apply hinsert_sorted. assumption.
        -- apply hinsert_ids_NoDup; assumption.
        -- intros p0 t x Hi. apply hinsert_In in Hi. destruct Hi as [Hi|Hi].
           ++ inversion Hi; subst. rewrite upd_same. cbn. repeat split; auto.
           ++ destruct (C3 p0 t x Hi) as (H1 & H2 & H3 & H4). updc x r; cbn; repeat split; auto.
        -- intros x. updc x r; cbn.
           ++ intros _ _. exists (astamp (info s r)). apply hinsert_In. now left.
           ++ intros H1 H2. destruct (C4 x H1 H2) as [t Ht]. exists t. apply hinsert_In. now right.
        -- intros x H. discriminate.
        -- intros x H. discriminate.
        -- intros x. updc x r; cbn; apply C7.
        -- intros x y. updc x r; updc y r; cbn; auto; apply C8.
      * constructor; cbn [info heap next_stamp held].
        -- apply hinsert_sorted. assumption.
        -- apply hinsert_ids_NoDup; assumption.
        -- intros p0 t x Hi. apply hinsert_In in Hi. destruct Hi as [Hi|Hi].
           ++ inversion Hi; subst. rewrite upd_same. cbn. repeat split; auto; [lia|congruence].
           ++ destruct (C3 p0 t x Hi) as (H1 & H2 & H3 & H4).
              updc x r; cbn; repeat split; auto; try lia; congruence.
        -- intros x. updc x r; cbn.
           ++ intros _ _. exists (next_stamp s). apply hinsert_In. now left.
           ++ intros H1 H2. destruct (C4 x H1 H2) as [t Ht]. exists t. apply hinsert_In. now right.
        -- intros x H. discriminate.
        -- intros x H. discriminate.
        -- intros x. updc x r; cbn; intros H; specialize (C7 _ H); lia.
        -- intros x y. updc x r; updc y r; cbn; auto; apply C8.
  - apply InvC_ttl_fire. exact HC.
  - unfold ttl_scan. apply fold_inv; [|exact HC]. intros s0 r0. apply InvC_ttl_fire.
  - (* WaiterReturn *)
    unfold waiter_return. destruct (pc (info s r)) eqn:Epc; try exact HC.
    destruct (1 <=? dones (info s r)) eqn:G; [|exact HC]. apply Z.leb_le in G.
    assert (Hnheld : held s <> Some r).
    { intros Hh. apply B1 in Hh. rewrite (B2 r) in G by congruence. lia. }
    constructor; cbn [info heap next_stamp held with_info]; auto.
    + intros p0 t x Hi. destruct (C3 p0 t x Hi) as (H1 & H2 & H3 & H4).
      updc x r; cbn; repeat split; auto. right. reflexivity.
    + intros x. updc x r; cbn; [discriminate|apply C4].
    + intros x Hh. updc x r; [congruence|apply C5; assumption].
    + intros x. updc x r; cbn; [|apply C7]. intros _. apply C7. left. assumption.
    + intros x y. updc x r; updc y r; cbn; auto.
      * intros _ H. apply C8; [left|]; assumption.
      * intros H _. apply C8; [|left]; assumption.
  - (* Remove *)
    unfold remove. destruct (pc (info s r)) eqn:Epc; try exact HC.
    constructor; cbn [info heap next_stamp held].
    + apply hremove_sorted. assumption.
    + apply hremove_ids_NoDup. assumption.
    + intros p0 t x Hi. apply (hremove_In_nodup _ r _ C2) in Hi. destruct Hi as [Hi Hx]. cbn in Hx.
      rewrite upd_other by assumption. apply C3. assumption.
    + intros x. updc x r; cbn; [discriminate|].
      intros H1 H2. destruct (C4 x H1 H2) as [t Ht]. exists t.
      apply (hremove_In_nodup _ r _ C2). split; [assumption|cbn; assumption].
    + intros x Hh. pose proof (C5 x Hh). updc x r; [congruence|assumption].
    + intros x Hh Hi. apply hremove_ids_incl in Hi. apply (C6 x Hh Hi).
    + intros x. updc x r; cbn; [unfold pushed_pc; cbn; intros [H|H]; discriminate|apply C7].
    + intros x y. updc x r; [unfold pushed_pc; cbn; intros [H|H]; discriminate|].
      updc y r; [unfold pushed_pc; cbn; intros _ [H|H]; discriminate|apply C8].
  - (* Drain *)
    unfold drain. destruct (drained s); [exact HC|]. destruct (held s) eqn:Eh; [exact HC|].
    assert (HC' : InvC c (fold_left (release c) (watch s) s)).
    { apply fold_inv; [|exact HC]. intros s0 r0. apply InvC_release. }
    apply (InvC_info_only c (fold_left (release c) (watch s) s)); cbn; auto.
Qed.

(* ------------------------------------------------------------------ all schedules *)

Definition Inv (c : cfg) (s : state) : Prop := InvA s /\ InvB s /\ InvC c s /\ InvD s.

Lemma Inv_init c : Inv c init.
Proof. split; [|split; [|split]]; [apply InvA_init|apply InvB_init|apply InvC_init|apply InvD_init]. Qed.

Lemma Inv_step c s a : Inv c s -> Inv c (step c s a).
Proof.
  intros (HA & HB & HC & HD). split; [|split; [|split]];
    [apply InvA_step|apply InvB_step|apply InvC_step|apply InvD_step]; assumption.
Qed.

Lemma Inv_run c sch : Inv c (run c init sch).
Proof. apply run_inv; [intros s a; apply Inv_step|apply Inv_init]. Qed.

(* ------------------------------------------------------------------ group E: at most one signal *)

(* side condition on a schedule: whenever the drain runs without the gate, no
   request that already got its signal is still in the watch list *)
Definition drain_pre (c : cfg) (s : state) (a : action) : Prop :=
  match a with
  | Drain => gated_drain (var c) = true \/ forall r, In r (watch s) -> st (info s r) <> Dn
  | _ => True
  end.

Definition InvE (s : state) : Prop := forall r, dones (info s r) <= 1.

Lemma InvE_same s s' : (forall x, dones (info s' x) = dones (info s x)) -> InvE s -> InvE s'.
Proof. intros H HE r. rewrite H. apply HE. Qed.

Lemma InvE_ttl_fire s now r : InvB s -> InvE s -> InvE (ttl_fire s now r).
Proof.
  intros [B1 B2 B3 B4] HE. unfold ttl_fire.
  destruct (memZ r (watch s) && (expire (info s r) <? now) && is_enq (info s r)) eqn:G; [|exact HE].
  apply andb_true_iff in G. destruct G as [_ G]. unfold is_enq in G.
  destruct (st (info s r)) eqn:Est; try discriminate.
  intros x. cbn. updc x r; cbn; [|apply HE]. rewrite B2 by congruence. lia.
Qed.

Lemma BE_fold_ttl now l s :
  InvB s -> InvE s ->
  InvB (fold_left (fun s0 r => ttl_fire s0 now r) l s) /\
  InvE (fold_left (fun s0 r => ttl_fire s0 now r) l s).
Proof.
  revert s. induction l as [|a l IH]; intros s HB HE; cbn; [auto|].
  apply IH; [apply InvB_ttl_fire|apply InvE_ttl_fire]; assumption.
Qed.

Lemma release_other c s a x : x <> a -> info (release c s a) x = info s x.
Proof.
  intros H. unfold release. destruct (gated_drain _); [destruct (is_enq _)|]; cbn;
    rewrite ?upd_other by assumption; reflexivity.
Qed.

Lemma InvE_fold_release c l s :
  NoDup l -> InvB s -> held s = None -> InvE s ->
  (gated_drain (var c) = true \/ forall r, In r l -> st (info s r) <> Dn) ->
  InvE (fold_left (release c) l s).
Proof.
  revert s. induction l as [|a l IH]; intros s Hn HB Hh HE Hpre; cbn; [exact HE|].
  inversion Hn as [|? ? Hna Hn']; subst.
  apply IH; auto.
  - apply InvB_release; assumption.
  - pose proof (release_frame c s a) as (?&?&?&?&?&?&?&?). congruence.
  - destruct HB as [B1 B2 B3 B4]. unfold release. destruct (gated_drain (var c)) eqn:Eg.
    + unfold is_enq. destruct (st (info s a)) eqn:Est; try exact HE.
      intros x. cbn. updc x a; cbn; [|apply HE]. rewrite B2 by congruence. lia.
    + destruct Hpre as [Hpre|Hpre]; [discriminate|].
      intros x. cbn. updc x a; cbn; [|apply HE]. rewrite B2; [lia|]. apply Hpre. now left.
  - destruct Hpre as [Hpre|Hpre]; [now left|right].
    intros r Hr. rewrite release_other; [apply Hpre; now right|]. intros ->. contradiction.
Qed.

Lemma InvE_step c s a : InvA s -> InvB s -> InvE s -> drain_pre c s a -> InvE (step c s a).
Proof.
  intros HA HB HE Hpre. pose proof HB as [B1 B2 B3 B4].
  destruct a as [r p now|r|r| |b|now r|now|r|r| ]; cbn [step].
  - unfold arrive_check. destruct (pc (info s r)); try exact HE.
    destruct (qmax c <=? count s); (apply (InvE_same s); [|exact HE]; intros x; cbn; updc x r; reflexivity).
  - unfold arrive_register. destruct (pc (info s r)); try exact HE.
    destruct (shared_full c s || _ || _); (apply (InvE_same s); [|exact HE]; intros x; cbn; updc x r; reflexivity).
  - unfold arrive_push. destruct (pc (info s r)); try exact HE.
    apply (InvE_same s); [|exact HE]. intros x; cbn; updc x r; reflexivity.
  - unfold tick_pop. destruct (drained s); [exact HE|]. destruct (held s); [exact HE|].
    destruct (heap s) as [|[[p t] r] h']; [exact HE|].
    destruct (memZ r (watch s) && is_enq (info s r)); (apply (InvE_same s); [|exact HE]; intros x; cbn);
      [updc x r; reflexivity|reflexivity].
  - unfold tick_decide. destruct (held s) as [r|] eqn:Eh; [|exact HE].
    assert (Est : st (info s r) = Proc) by (apply B1; reflexivity).
    destruct b.
    + intros x. cbn. updc x r; cbn; [|apply HE]. rewrite B2 by congruence. lia.
    + destruct (keep_stamp (var c)); (apply (InvE_same s); [|exact HE]; intros x; cbn; updc x r; reflexivity).
  - apply InvE_ttl_fire; assumption.
  - unfold ttl_scan. apply BE_fold_ttl; assumption.
  - unfold waiter_return. destruct (pc (info s r)); try exact HE.
    destruct (1 <=? dones (info s r)); [|exact HE].
    apply (InvE_same s); [|exact HE]. intros x; cbn; updc x r; reflexivity.
  - unfold remove. destruct (pc (info s r)); try exact HE.
    apply (InvE_same s); [|exact HE]. intros x; cbn; updc x r; reflexivity.
  - unfold drain. destruct (drained s); [exact HE|]. destruct (held s) eqn:Eh; [exact HE|].
    apply (InvE_same (fold_left (release c) (watch s) s)); [intros x; reflexivity|].
    apply InvE_fold_release; auto. apply HA.
Qed.

Lemma ABE_run c sch :
  trace_ok c (drain_pre c) init sch ->
  InvA (run c init sch) /\ InvB (run c init sch) /\ InvE (run c init sch).
Proof.
  apply (run_inv_pre c (drain_pre c) (fun s => InvA s /\ InvB s /\ InvE s)).
  - intros s a (HA & HB & HE) Hp. split; [|split];
      [apply InvA_step|apply InvB_step|apply InvE_step]; assumption.
  - split; [|split]; [apply InvA_init|apply InvB_init|]. intros r. cbn. lia.
Qed.

(* a schedule without Drain, or any schedule of a tree whose drain is gated,
   satisfies the side condition *)
Fixpoint no_drain (sch : list action) : Prop :=
  match sch with
  | [] => True
  | Drain :: _ => False
  | _ :: rest => no_drain rest
  end.

Lemma no_drain_pre c sch s : no_drain sch -> trace_ok c (drain_pre c) s sch.
Proof.
  revert s. induction sch as [|a sch IH]; intros s H; cbn; [exact I|].
  destruct a; cbn in *; try (split; [exact I|apply IH; assumption]). contradiction.
Qed.

Lemma gated_pre c sch s : gated_drain (var c) = true -> trace_ok c (drain_pre c) s sch.
Proof.
  intros Hg. revert s. induction sch as [|a sch IH]; intros s; cbn; [exact I|].
  split; [|apply IH]. destruct a; cbn; auto.
Qed.

(* ------------------------------------------------------------------ TTL scan and drain reach everybody *)

Lemma ttl_fire_other s now a x : x <> a -> info (ttl_fire s now a) x = info s x.
Proof.
  intros H. unfold ttl_fire. destruct (_ && _ && _); cbn; rewrite ?upd_other by assumption; reflexivity.
Qed.

Lemma ttl_fire_expire s now a x : expire (info (ttl_fire s now a) x) = expire (info s x).
Proof.
  unfold ttl_fire. destruct (_ && _ && _); [|reflexivity]. cbn. updc x a; reflexivity.
Qed.

Lemma ttl_fire_not_enq s now a x : st (info s x) <> Enq -> st (info (ttl_fire s now a) x) <> Enq.
Proof.
  intros H. unfold ttl_fire. destruct (_ && _ && _); [|exact H]. cbn. updc x a; cbn; [discriminate|exact H].
Qed.

Lemma fold_ttl_reaches now r l s :
  In r (watch s) -> expire (info s r) < now -> (In r l \/ st (info s r) <> Enq) ->
  st (info (fold_left (fun s0 x => ttl_fire s0 now x) l s) r) <> Enq.
Proof.
  revert s. induction l as [|a l IH]; intros s Hw He Hor; cbn.
  - destruct Hor as [[]|H]. exact H.
  - pose proof (ttl_fire_frame s now a) as (_ & Fw & _).
    apply IH; [rewrite Fw; exact Hw|rewrite ttl_fire_expire; exact He|].
    destruct (Z.eq_dec a r) as [->|Hne].
    + right. unfold ttl_fire. apply memZ_In in Hw. apply Z.ltb_lt in He. rewrite Hw, He. cbn [andb].
      unfold is_enq. destruct (st (info s r)) eqn:Est; cbn; rewrite ?upd_same; cbn; congruence.
    + destruct Hor as [[H|H]|H]; [congruence|now left|right; apply ttl_fire_not_enq; exact H].
Qed.

Lemma ttl_scan_reaches s now r :
  In r (watch s) -> expire (info s r) < now -> st (info (ttl_scan s now) r) <> Enq.
Proof. intros Hw He. unfold ttl_scan. apply fold_ttl_reaches; auto. Qed.

Lemma release_dn_stays c s a x : st (info s x) = Dn -> st (info (release c s a) x) = Dn.
Proof.
  intros H. unfold release. destruct (gated_drain _); [destruct (is_enq _)|]; cbn; try exact H;
    (updc x a; cbn; [reflexivity|exact H]).
Qed.

Lemma fold_release_reaches c r l s :
  (forall x, st (info s x) <> Proc) -> (In r l \/ st (info s r) = Dn) ->
  st (info (fold_left (release c) l s) r) = Dn.
Proof.
  revert s. induction l as [|a l IH]; intros s Hnp Hor; cbn.
  - destruct Hor as [[]|H]. exact H.
  - apply IH.
    + intros x. unfold release. destruct (gated_drain _); [destruct (is_enq _)|]; cbn; try apply Hnp;
        (updc x a; cbn; [discriminate|apply Hnp]).
    + destruct (Z.eq_dec a r) as [->|Hne].
      * right. unfold release. destruct (gated_drain _); cbn; rewrite ?upd_same; cbn; auto.
        unfold is_enq. destruct (st (info s r)) eqn:Est; cbn; rewrite ?upd_same; cbn; auto.
        exfalso. apply (Hnp r). exact Est.
      * destruct Hor as [[H|H]|H]; [congruence|now left|right; apply release_dn_stays; exact H].
Qed.

Lemma drain_reaches c s r :
  InvB s -> drained s = false -> held s = None -> In r (watch s) ->
  st (info (drain c s) r) = Dn.
Proof.
  intros [B1 B2 B3 B4] Hd Hh Hw. unfold drain. rewrite Hd, Hh. cbn.
  apply fold_release_reaches; [|now left]. intros x Hx. apply B1 in Hx. congruence.
Qed.

(* ------------------------------------------------------------------ group F: the size bound *)

Definition max0 (c : cfg) : Z := Z.max 0 (qmax c).

(* side condition on a schedule (only needed when registration is not atomic):
   an arrival runs its slot check only when no other arrival is between its own
   check and its registration *)
Definition arrival_pre (c : cfg) (s : state) (a : action) : Prop :=
  atomic_reg (var c) = true \/
  match a with ArriveCheck _ _ _ => checked s = [] | _ => True end.

Definition InvF (c : cfg) (s : state) : Prop :=
  (atomic_reg (var c) = true -> count s <= max0 c) /\
  (atomic_reg (var c) = false -> count s + Z.of_nat (length (checked s)) <= max0 c).

Lemma InvF_same c s s' : count s' = count s -> checked s' = checked s -> InvF c s -> InvF c s'.
Proof. intros H1 H2 [F1 F2]. split; rewrite H1, ?H2; assumption. Qed.

Lemma InvF_step c s a : InvA s -> InvF c s -> arrival_pre c s a -> InvF c (step c s a).
Proof.
  intros HA HF Hpre. pose proof HA as [A1 A2 A3 A4 A5]. pose proof HF as [F1 F2]. unfold max0 in *.
  destruct a as [r p now|r|r| |b|now r|now|r|r| ]; cbn [step].
  - unfold arrive_check. destruct (pc (info s r)); try exact HF.
    destruct (qmax c <=? count s) eqn:G; [apply (InvF_same c s); auto|].
    apply Z.leb_gt in G. split; cbn [count checked length]; [exact F1|].
    intros Ha. destruct Hpre as [Hpre|Hpre]; [congruence|]. rewrite Hpre. cbn. (unfold max0 in *; lia).
  - unfold arrive_register. destruct (pc (info s r)) eqn:Epc; try exact HF.
    assert (Hin : In r (checked s)) by (apply A4; exact Epc).
    pose proof (removeZ_length r (checked s) A5 Hin) as Hl.
    destruct (shared_full c s || (atomic_reg (var c) && (qmax c <=? count s))
              || (closed_after_drain (var c) && drained s)) eqn:G.
    + split; cbn [count checked]; [exact F1|]. intros Ha. specialize (F2 Ha). (unfold max0 in *; lia).
    + apply orb_false_iff in G. destruct G as [G _].
      apply orb_false_iff in G. destruct G as [_ G]. split; cbn [count checked].
      * intros Ha. rewrite Ha in G. cbn in G. apply Z.leb_gt in G. (unfold max0 in *; lia).
      * intros Ha. specialize (F2 Ha). (unfold max0 in *; lia).
  - unfold arrive_push. destruct (pc (info s r)); exact HF.
  - unfold tick_pop. destruct (drained s); [exact HF|]. destruct (held s); [exact HF|].
    destruct (heap s) as [|[[p t] r] h']; [exact HF|].
    destruct (memZ r (watch s) && is_enq (info s r)); exact HF.
  - unfold tick_decide. destruct (held s) as [r|]; [|exact HF].
    destruct b; [|destruct (keep_stamp (var c))]; exact HF.
  - pose proof (ttl_fire_frame s now r) as (?&?&?&?&?&?&?&?). apply (InvF_same c s); auto.
  - pose proof (ttl_scan_frame s now) as (?&?&?&?&?&?&?&?). apply (InvF_same c s); auto.
  - unfold waiter_return. destruct (pc (info s r)); try exact HF.
    destruct (1 <=? dones (info s r)); exact HF.
  - unfold remove. destruct (pc (info s r)); try exact HF.
    split; cbn [count checked]; intros Ha; [specialize (F1 Ha)|specialize (F2 Ha)]; (unfold max0 in *; lia).
  - unfold drain. destruct (drained s); [exact HF|]. destruct (held s); [exact HF|].
    pose proof (fold_release_frame c (watch s) s) as F. cbn in F. destruct F as (?&?&?&?&?&?&?&?).
    apply (InvF_same c s); cbn; auto.
Qed.

Lemma AF_run c sch :
  trace_ok c (arrival_pre c) init sch -> InvA (run c init sch) /\ InvF c (run c init sch).
Proof.
  apply (run_inv_pre c (arrival_pre c) (fun s => InvA s /\ InvF c s)).
  - intros s a (HA & HF) Hp. split; [apply InvA_step|apply InvF_step]; assumption.
  - split; [apply InvA_init|]. unfold InvF, max0. cbn. split; intros _; lia.
Qed.

Lemma atomic_pre c sch s : atomic_reg (var c) = true -> trace_ok c (arrival_pre c) s sch.
Proof.
  intros Hg. revert s. induction sch as [|a sch IH]; intros s; cbn; [exact I|].
  split; [now left|apply IH].
Qed.

Lemma filter_len_le {A} (f : A -> bool) l : (length (filter f l) <= length l)%nat.
Proof. induction l as [|a l IH]; cbn; [auto|]. destruct (f a); cbn; auto with arith. Qed.

Lemma waiting_le_count s : InvA s -> waiting s <= count s.
Proof.
  intros [_ _ A3 _ _]. unfold waiting. rewrite A3.
  apply inj_le. apply filter_len_le.
Qed.

Lemma bound_of_InvF c s : InvA s -> InvF c s -> waiting s <= max0 c.
Proof.
  intros HA [F1 F2]. pose proof (waiting_le_count s HA).
  destruct (atomic_reg (var c)); [specialize (F1 eq_refl)|specialize (F2 eq_refl)]; lia.
Qed.

(* ------------------------------------------------------------------ order of admissions *)

(* what the property says about the request the loop takes next: [r] is at the
   head of the queue and passes the gate; every other waiting request r' ... *)
Definition lex_lt (p1 t1 p2 t2 : Z) : Prop := p1 < p2 \/ (p1 = p2 /\ t1 < t2).

Definition picks (s : state) (r : Z) : Prop :=
  exists p t h', heap s = (p, t, r) :: h' /\ In r (watch s) /\ st (info s r) = Enq.

Definition is_waiting (s : state) (r : Z) : Prop :=
  pc (info s r) = PWaiting /\ st (info s r) = Enq.

Lemma pick_prio c s r r' :
  Inv c s -> picks s r -> is_waiting s r' -> prio (info s r) <= prio (info s r').
Proof.
  intros (HA & HB & HC & HD) (p & t & h' & Hh & Hw & Hs) [Hp' Hs'].
  destruct HC as [C1 C2 C3 C4 C5 C6 C7 C8].
  destruct (Z.eq_dec r' r) as [->|Hne]; [lia|].
  destruct (C4 r' Hp' Hs') as [t' Hi]. rewrite Hh in Hi, C1, C3.
  destruct (C3 p t r (or_introl eq_refl)) as (E1 & _).
  destruct Hi as [Hi|Hi]; [inversion Hi; congruence|].
  pose proof (sorted_head _ _ _ C1 Hi) as Hk. unfold kle in Hk. apply key_le_spec in Hk. cbn in Hk. lia.
Qed.

Lemma pick_fifo c s r r' :
  keep_stamp (var c) = true ->
  Inv c s -> picks s r -> is_waiting s r' -> r' <> r ->
  lex_lt (prio (info s r)) (astamp (info s r)) (prio (info s r')) (astamp (info s r')).
Proof.
  intros Hk (HA & HB & HC & HD) (p & t & h' & Hh & Hw & Hs) [Hp' Hs'] Hne.
  destruct HC as [C1 C2 C3 C4 C5 C6 C7 C8].
  destruct (C4 r' Hp' Hs') as [t' Hi]. rewrite Hh in Hi, C1, C3.
  destruct (C3 p t r (or_introl eq_refl)) as (E1 & P1 & _ & E2). specialize (E2 Hk).
  destruct Hi as [Hi|Hi]; [inversion Hi; congruence|].
  destruct (C3 _ _ _ (or_intror Hi)) as (_ & P2 & _ & E3). specialize (E3 Hk).
  pose proof (sorted_head _ _ _ C1 Hi) as Hle. unfold kle in Hle. apply key_le_spec in Hle. cbn in Hle.
  assert (Hd : astamp (info s r) <> astamp (info s r')).
  { intros E. apply Hne. symmetry. apply C8; assumption. }
  unfold lex_lt. lia.
Qed.

(* the stamp is the arrival order: a request that enters the queue gets a stamp
   above the stamps of all requests that entered before it *)
Lemma push_stamp c s r r' :
  Inv c s -> pc (info s r') = PRegistered -> pushed_pc (info s r) ->
  let s' := step c s (ArrivePush r') in
  astamp (info s' r) = astamp (info s r) /\ astamp (info s' r) < astamp (info s' r').
Proof.
  intros (HA & HB & HC & HD) Hp Hr. cbn. unfold arrive_push. rewrite Hp. cbn.
  assert (Hne : r <> r'). { intros ->. destruct Hr as [H|H]; congruence. }
  rewrite upd_other by assumption. rewrite upd_same. cbn. split; [reflexivity|].
  apply HC. exact Hr.
Qed.

(* ------------------------------------------------------------------ signals only accumulate; admissions come from the quota *)

Lemma ttl_fire_dones s now a r : dones (info s r) <= dones (info (ttl_fire s now a) r).
Proof.
  unfold ttl_fire. destruct (_ && _ && _); [|lia]. cbn. updc r a; cbn; lia.
Qed.

Lemma release_dones c s a r : dones (info s r) <= dones (info (release c s a) r).
Proof.
  unfold release. destruct (gated_drain _); [destruct (is_enq _)|]; cbn; try lia; (updc r a; cbn; lia).
Qed.

Lemma fold_ttl_dones now l s r :
  dones (info s r) <= dones (info (fold_left (fun s0 x => ttl_fire s0 now x) l s) r).
Proof.
  revert s. induction l as [|a l IH]; intros s; cbn; [lia|].
  specialize (IH (ttl_fire s now a)). pose proof (ttl_fire_dones s now a r). lia.
Qed.

Lemma fold_release_dones c l s r :
  dones (info s r) <= dones (info (fold_left (release c) l s) r).
Proof.
  revert s. induction l as [|a l IH]; intros s; cbn; [lia|].
  specialize (IH (release c s a)). pose proof (release_dones c s a r). lia.
Qed.

Lemma dones_mono_step c s a r : dones (info s r) <= dones (info (step c s a) r).
Proof.
  destruct a as [x p now|x|x| |b|now x|now|x|x| ]; cbn [step].
  - unfold arrive_check. destruct (pc (info s x)); try lia.
    destruct (qmax c <=? count s); cbn; (updc r x; cbn; lia).
  - unfold arrive_register. destruct (pc (info s x)); try lia.
    destruct (shared_full c s || _ || _); cbn; (updc r x; cbn; lia).
  - unfold arrive_push. destruct (pc (info s x)); try lia. cbn. updc r x; cbn; lia.
  - unfold tick_pop. destruct (drained s); [lia|]. destruct (held s); [lia|].
    destruct (heap s) as [|[[p t] x] h']; [lia|].
    destruct (memZ x (watch s) && is_enq (info s x)); cbn; [updc r x; cbn; lia|lia].
  - unfold tick_decide. destruct (held s) as [x|]; [|lia].
    destruct b; [|destruct (keep_stamp (var c))]; cbn; (updc r x; cbn; lia).
  - apply ttl_fire_dones.
  - apply fold_ttl_dones.
  - unfold waiter_return. destruct (pc (info s x)); try lia.
    destruct (1 <=? dones (info s x)); [|lia]. cbn. updc r x; cbn; lia.
  - unfold remove. destruct (pc (info s x)); try lia. cbn. updc r x; cbn; lia.
  - unfold drain. destruct (drained s); [lia|]. destruct (held s); [lia|]. cbn.
    apply fold_release_dones.
Qed.

Lemma dones_mono_run c sch s r : dones (info s r) <= dones (info (run c s sch) r).
Proof.
  revert s. induction sch as [|a sch IH]; intros s; [cbn; lia|].
  rewrite run_cons. specialize (IH (step c s a)). pose proof (dones_mono_step c s a r). lia.
Qed.

Lemma admits_step c s a r :
  In r (admits (step c s a)) -> In r (admits s) \/ (a = TickDecide true /\ held s = Some r).
Proof.
  destruct a as [x p now|x|x| |b|now x|now|x|x| ]; cbn [step].
  - unfold arrive_check. destruct (pc (info s x)); auto. destruct (qmax c <=? count s); cbn; auto.
  - unfold arrive_register. destruct (pc (info s x)); auto. destruct (shared_full c s || _ || _); cbn; auto.
  - unfold arrive_push. destruct (pc (info s x)); auto.
  - unfold tick_pop. destruct (drained s); auto. destruct (held s); auto.
    destruct (heap s) as [|[[p t] x] h']; auto.
    destruct (memZ x (watch s) && is_enq (info s x)); cbn; auto.
  - unfold tick_decide. destruct (held s) as [x|] eqn:Eh; auto.
    destruct b; [|destruct (keep_stamp (var c)); cbn; auto].
    cbn. intros [->|H]; auto.
  - pose proof (ttl_fire_frame s now x) as (_&_&_&_&_&_&_&E). rewrite E. auto.
  - pose proof (ttl_scan_frame s now) as (_&_&_&_&_&_&_&E). rewrite E. auto.
  - unfold waiter_return. destruct (pc (info s x)); auto. destruct (1 <=? dones (info s x)); auto.
  - unfold remove. destruct (pc (info s x)); auto.
  - unfold drain. destruct (drained s); auto. destruct (held s); auto. cbn.
    pose proof (fold_release_frame c (watch s) s) as F. cbn in F. destruct F as (_&_&_&_&_&_&_&E).
    rewrite E. auto.
Qed.

(* every admitted request was the one the loop held when the quota said yes *)
Lemma admits_origin c sch r :
  In r (admits (run c init sch)) ->
  exists sch1 sch2, sch = sch1 ++ TickDecide true :: sch2 /\ held (run c init sch1) = Some r.
Proof.
  induction sch as [|a sch IH] using rev_ind; [cbn; contradiction|].
  rewrite run_app. cbn [run fold_left]. intros H. apply admits_step in H. destruct H as [H|[-> H]].
  - destruct (IH H) as (s1 & s2 & -> & Hh). exists s1, (s2 ++ [a]). split; [|exact Hh].
    rewrite <- app_assoc. reflexivity.
  - exists sch, []. split; [reflexivity|exact H].
Qed.

(* ------------------------------------------------------------------ group G: after the drain *)

Lemma st_dn_ttl_fire s now a x : st (info s x) = Dn -> st (info (ttl_fire s now a) x) = Dn.
Proof.
  intros H. unfold ttl_fire. destruct (_ && _ && _); [|exact H]. cbn. updc x a; cbn; [reflexivity|exact H].
Qed.

Lemma st_dn_fold_ttl now l s x :
  st (info s x) = Dn -> st (info (fold_left (fun s0 r => ttl_fire s0 now r) l s) x) = Dn.
Proof.
  revert s. induction l as [|a l IH]; intros s H; cbn; [exact H|]. apply IH, st_dn_ttl_fire, H.
Qed.

Lemma st_dn_fold_release c l s x :
  st (info s x) = Dn -> st (info (fold_left (release c) l s) x) = Dn.
Proof.
  revert s. induction l as [|a l IH]; intros s H; cbn; [exact H|]. apply IH, release_dn_stays, H.
Qed.

(* a signalled request stays signalled *)
Lemma st_dn_step c s a x : InvB s -> st (info s x) = Dn -> st (info (step c s a) x) = Dn.
Proof.
  intros [B1 B2 B3 B4] H.
  destruct a as [r p now|r|r| |b|now r|now|r|r| ]; cbn [step].
  - unfold arrive_check. destruct (pc (info s r)); try exact H.
    destruct (qmax c <=? count s); cbn; (updc x r; cbn; exact H).
  - unfold arrive_register. destruct (pc (info s r)); try exact H.
    destruct (shared_full c s || _ || _); cbn; (updc x r; cbn; exact H).
  - unfold arrive_push. destruct (pc (info s r)); try exact H. cbn. updc x r; cbn; exact H.
  - unfold tick_pop. destruct (drained s); [exact H|]. destruct (held s); [exact H|].
    destruct (heap s) as [|[[p t] r] h']; [exact H|].
    destruct (memZ r (watch s) && is_enq (info s r)) eqn:G; cbn; [|exact H].
    updc x r; cbn; [|exact H]. apply andb_true_iff in G. destruct G as [_ G].
    unfold is_enq in G. rewrite H in G. discriminate.
  - unfold tick_decide. destruct (held s) as [r|] eqn:Eh; [|exact H].
    assert (Est : st (info s r) = Proc) by (apply B1; reflexivity).
    destruct b; [|destruct (keep_stamp (var c))]; cbn; (updc x r; cbn; [congruence|exact H]).
  - apply st_dn_ttl_fire. exact H.
  - apply st_dn_fold_ttl. exact H.
  - unfold waiter_return. destruct (pc (info s r)); try exact H.
    destruct (1 <=? dones (info s r)); [|exact H]. cbn. updc x r; cbn; exact H.
  - unfold remove. destruct (pc (info s r)); try exact H. cbn. updc x r; cbn; exact H.
  - unfold drain. destruct (drained s); [exact H|]. destruct (held s); [exact H|]. cbn.
    apply st_dn_fold_release. exact H.
Qed.

(* once the drain has run the loop holds nothing, and (fix F-C06d) every
   registered request has been signalled: nobody registers afterwards *)
Definition InvG (c : cfg) (s : state) : Prop :=
  (drained s = true -> held s = None) /\
  (closed_after_drain (var c) = true -> drained s = true ->
   forall r, In r (watch s) -> st (info s r) = Dn).

Lemma InvG_init c : InvG c init.
Proof. split; cbn; intros; try discriminate. Qed.

Lemma arrive_register_frame c s r :
  drained (arrive_register c s r) = drained s /\ held (arrive_register c s r) = held s /\
  (watch (arrive_register c s r) = watch s \/
   (watch (arrive_register c s r) = r :: watch s /\
    closed_after_drain (var c) && drained s = false)).
Proof.
  unfold arrive_register. destruct (pc (info s r)); auto.
  destruct (shared_full c s || (atomic_reg (var c) && (qmax c <=? count s))
            || (closed_after_drain (var c) && drained s)) eqn:G; cbn; auto.
  apply orb_false_iff in G. destruct G as [_ G]. auto.
Qed.

Lemma tick_pop_frame s :
  drained (tick_pop s) = drained s /\ watch (tick_pop s) = watch s /\
  (drained s = true -> tick_pop s = s).
Proof.
  unfold tick_pop. destruct (drained s) eqn:Ed; [auto|].
  destruct (held s); [repeat split; auto; discriminate|].
  destruct (heap s) as [|[[p t] r] h']; [repeat split; auto; discriminate|].
  destruct (memZ r (watch s) && is_enq (info s r)); cbn; repeat split; auto; discriminate.
Qed.

Lemma tick_decide_frame c s b :
  drained (tick_decide c s b) = drained s /\ watch (tick_decide c s b) = watch s /\
  (held s = None -> tick_decide c s b = s).
Proof.
  unfold tick_decide. destruct (held s); [|auto].
  destruct b; [|destruct (keep_stamp (var c))]; cbn; repeat split; auto; discriminate.
Qed.

Lemma drain_noop c s : drained s = true \/ held s <> None -> drain c s = s.
Proof.
  intros H. unfold drain. destruct (drained s); [reflexivity|].
  destruct (held s); [reflexivity|]. destruct H as [H|H]; [discriminate|contradiction].
Qed.

Lemma InvG_step c s a : InvB s -> InvG c s -> InvG c (step c s a).
Proof.
  intros HB [G1 G2].
  assert (Hgen : forall s', drained s' = drained s -> (drained s = true -> held s' = None) ->
            (forall r, In r (watch s') -> In r (watch s)) ->
            (forall x, st (info s x) = Dn -> st (info s' x) = Dn) -> InvG c s').
  { intros s' Hd Hh Hw Hs. split; rewrite Hd; auto. }
  pose proof (fun x => st_dn_step c s a x HB) as Hdn.
  destruct a as [r p now|r|r| |b|now r|now|r|r| ]; cbn [step] in *.
  - apply Hgen; auto; unfold arrive_check; destruct (pc (info s r)); auto;
      destruct (qmax c <=? count s); auto.
  - destruct (arrive_register_frame c s r) as (Fd & Fh & [Fw|[Fw Fc]]).
    + apply Hgen; auto; [rewrite Fh; exact G1|rewrite Fw; auto].
    + split; rewrite Fd; [rewrite Fh; exact G1|].
      intros Hc Hd. rewrite Hc, Hd in Fc. discriminate.
  - apply Hgen; auto; unfold arrive_push; destruct (pc (info s r)); auto.
  - destruct (tick_pop_frame s) as (Fd & Fw & Fs). apply Hgen; auto.
    + intros Hd. rewrite (Fs Hd). auto.
    + rewrite Fw. auto.
  - destruct (tick_decide_frame c s b) as (Fd & Fw & Fs). apply Hgen; auto.
    + intros Hd. rewrite (Fs (G1 Hd)). auto.
    + rewrite Fw. auto.
  - pose proof (ttl_fire_frame s now r) as (?&Fw&?&?&Fh&?&?&?). apply Hgen; auto.
    + rewrite Fh. exact G1.
    + rewrite Fw. auto.
  - pose proof (ttl_scan_frame s now) as (?&Fw&?&?&Fh&?&?&?). apply Hgen; auto.
    + rewrite Fh. exact G1.
    + rewrite Fw. auto.
  - apply Hgen; auto; unfold waiter_return; destruct (pc (info s r)); auto;
      destruct (1 <=? dones (info s r)); auto.
  - apply Hgen; auto; unfold remove; destruct (pc (info s r)); auto.
    cbn. intros x Hx. apply removeZ_In in Hx. tauto.
  - case_eq (drained s); intros Ed.
    + rewrite (drain_noop c s) by (left; exact Ed). split; assumption.
    + case_eq (held s); [intros r0 Eh|intros Eh].
      * rewrite (drain_noop c s) by (right; congruence). split; assumption.
      * pose proof (fold_release_frame c (watch s) s) as F. cbn in F.
        destruct F as (_&Fw&_&_&Fh&_).
        split.
        -- intros _. unfold drain. rewrite Ed, Eh. cbn. rewrite Fh. exact Eh.
        -- intros _ _ r Hr. apply drain_reaches; auto.
           unfold drain in Hr. rewrite Ed, Eh in Hr. cbn in Hr. rewrite Fw in Hr. exact Hr.
Qed.

Lemma BG_run c sch : InvB (run c init sch) /\ InvG c (run c init sch).
Proof.
  apply (run_inv c (fun s => InvB s /\ InvG c s)).
  - intros s a [HB HG]. split; [apply InvB_step|apply InvG_step]; assumption.
  - split; [apply InvB_init|apply InvG_init].
Qed.
