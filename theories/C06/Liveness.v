(* C06 — lemmas about verdicts (the [verdict] field, not only the signal count),
   progress (a verdict is reachable from every reachable state; liveness under
   an explicit fairness hypothesis), the trace-level order of admissions and the
   origin of time-outs.  The final statements are in Property.v. *)
From Coq Require Import List ZArith Bool Lia.
From Verif Require Import C06.Model C06.Proofs.
Import ListNotations.
Open Scope Z_scope.

(* ------------------------------------------------------------------ the static part of a request record *)

(* program counter of the arrival goroutine only moves forward *)
Definition pc_rank (p : rpc) : Z :=
  match p with
  | PNew => 0 | PChecked => 1 | PRegistered => 2 | PWaiting => 3 | PReturned => 4 | PGone => 5
  end.

(* TTL watcher and drain touch only state / result / signal count *)
Definition static_eq (i i' : rinfo) : Prop :=
  pc i' = pc i /\ prio i' = prio i /\ expire i' = expire i /\ verdict i' = verdict i /\
  astamp i' = astamp i.

Lemma static_refl i : static_eq i i.
Proof. repeat split. Qed.

Lemma static_trans i j k : static_eq i j -> static_eq j k -> static_eq i k.
Proof. unfold static_eq. intros (?&?&?&?&?) (?&?&?&?&?). repeat split; congruence. Qed.

Lemma ttl_fire_static s now a x : static_eq (info s x) (info (ttl_fire s now a) x).
Proof.
  unfold ttl_fire. destruct (_ && _ && _); [|apply static_refl]. cbn.
  updc x a; [|apply static_refl]. repeat split.
Qed.

Lemma release_static c s a x : static_eq (info s x) (info (release c s a) x).
Proof.
  unfold release. destruct (gated_drain _); [destruct (is_enq _)|]; cbn; try apply static_refl;
    (updc x a; [|apply static_refl]; repeat split).
Qed.

Lemma fold_ttl_static now l s x :
  static_eq (info s x) (info (fold_left (fun s0 r => ttl_fire s0 now r) l s) x).
Proof.
  revert s. induction l as [|a l IH]; intros s; cbn; [apply static_refl|].
  eapply static_trans; [apply (ttl_fire_static s now a x)|apply IH].
Qed.

Lemma fold_release_static c l s x :
  static_eq (info s x) (info (fold_left (release c) l s) x).
Proof.
  revert s. induction l as [|a l IH]; intros s; cbn; [apply static_refl|].
  eapply static_trans; [apply (release_static c s a x)|apply IH].
Qed.

(* How one step changes the static fields of one request:
   - the program counter never goes back;
   - priority and expiry are written only by the slot check of a new request;
   - the arrival stamp is written only by the push of a registered request;
   - the verdict is written only when the program counter passes from
     {New, Checked, Registered, Waiting} to {Returned, Gone}, and then it is Some;
   - a request becomes Gone only by a rejection on arrival (from New / Checked)
     or by its removal after the waiter returned (from Returned). *)
Definition fields_step (i i' : rinfo) : Prop :=
  pc_rank (pc i) <= pc_rank (pc i') /\
  (pc i <> PNew -> prio i' = prio i /\ expire i' = expire i) /\
  (pc i <> PRegistered -> astamp i' = astamp i) /\
  (pc_rank (pc i') <= 3 -> verdict i' = verdict i \/ verdict i' = None) /\
  (4 <= pc_rank (pc i) -> verdict i' = verdict i) /\
  (pc_rank (pc i) <= 3 -> 4 <= pc_rank (pc i') -> verdict i' <> None) /\
  (pc i' = PGone -> pc i = PGone \/ pc i = PReturned \/ pc_rank (pc i) <= 1).

Lemma fields_refl i : fields_step i i.
Proof. unfold fields_step. repeat split; auto; lia. Qed.

Lemma fields_of_static i i' : static_eq i i' -> fields_step i i'.
Proof.
  intros (Hp & Hr & He & Hv & Ha). unfold fields_step. rewrite Hp.
  repeat split; auto; lia.
Qed.

Ltac fields_case Epc :=
  unfold fields_step; cbn; rewrite Epc; cbn;
  repeat split; auto; try lia; try congruence; try discriminate;
  try (intros _; right; left; reflexivity); try (intros _; right; right; lia).

Lemma step_fields c s a r : fields_step (info s r) (info (step c s a) r).
Proof.
  destruct a as [x p now|x|x| |b|now x|now|x|x| ]; cbn [step].
  - unfold arrive_check. destruct (pc (info s x)) eqn:Epc; try apply fields_refl.
    destruct (qmax c <=? count s); cbn; (updc r x; [|apply fields_refl]);
      fields_case Epc.
  - unfold arrive_register. destruct (pc (info s x)) eqn:Epc; try apply fields_refl.
    destruct (shared_full c s || _ || _); cbn; (updc r x; [|apply fields_refl]);
      fields_case Epc.
  - unfold arrive_push. destruct (pc (info s x)) eqn:Epc; try apply fields_refl.
    cbn. updc r x; [|apply fields_refl].
    fields_case Epc.
  - unfold tick_pop. destruct (drained s); [apply fields_refl|]. destruct (held s); [apply fields_refl|].
    destruct (heap s) as [|[[p t] x] h']; [apply fields_refl|].
    destruct (memZ x (watch s) && is_enq (info s x)); cbn; [|apply fields_refl].
    updc r x; [|apply fields_refl]. apply fields_of_static. repeat split.
  - unfold tick_decide. destruct (held s) as [x|]; [|apply fields_refl].
    destruct b; [|destruct (keep_stamp (var c))]; cbn;
      (updc r x; [|apply fields_refl]; apply fields_of_static; repeat split).
  - apply fields_of_static, ttl_fire_static.
  - apply fields_of_static. unfold ttl_scan. apply fold_ttl_static.
  - unfold waiter_return. destruct (pc (info s x)) eqn:Epc; try apply fields_refl.
    destruct (1 <=? dones (info s x)); [|apply fields_refl]. cbn.
    updc r x; [|apply fields_refl].
    fields_case Epc.
  - unfold remove. destruct (pc (info s x)) eqn:Epc; try apply fields_refl. cbn.
    updc r x; [|apply fields_refl].
    fields_case Epc.
  - unfold drain. destruct (drained s); [apply fields_refl|]. destruct (held s); [apply fields_refl|].
    cbn. apply fields_of_static, fold_release_static.
Qed.

Lemma pc_mono_step c s a r : pc_rank (pc (info s r)) <= pc_rank (pc (info (step c s a) r)).
Proof. apply step_fields. Qed.

Lemma pc_mono_run c sch s r : pc_rank (pc (info s r)) <= pc_rank (pc (info (run c s sch) r)).
Proof.
  revert s. induction sch as [|a sch IH]; intros s; [cbn; lia|].
  rewrite run_cons. specialize (IH (step c s a)). pose proof (pc_mono_step c s a r). lia.
Qed.

Lemma rank_not_new i : 1 <= pc_rank (pc i) <-> pc i <> PNew.
Proof. destruct (pc i); cbn; split; intros; try lia; try congruence. Qed.

(* priority and expiry of a request that has passed the slot check never change;
   the arrival stamp of a request that has entered the queue never changes *)
Lemma key_stable_step c s a r :
  (1 <= pc_rank (pc (info s r)) ->
   prio (info (step c s a) r) = prio (info s r) /\ expire (info (step c s a) r) = expire (info s r)) /\
  (3 <= pc_rank (pc (info s r)) -> astamp (info (step c s a) r) = astamp (info s r)).
Proof.
  destruct (step_fields c s a r) as (_ & H1 & H2 & _). split; intros H.
  - apply H1. apply rank_not_new. exact H.
  - apply H2. intros E. rewrite E in H. cbn in H. lia.
Qed.

Lemma key_stable_run c sch s r :
  (1 <= pc_rank (pc (info s r)) ->
   prio (info (run c s sch) r) = prio (info s r) /\ expire (info (run c s sch) r) = expire (info s r)) /\
  (3 <= pc_rank (pc (info s r)) -> astamp (info (run c s sch) r) = astamp (info s r)).
Proof.
  revert s. induction sch as [|a sch IH]; intros s; [cbn; auto|].
  rewrite run_cons. specialize (IH (step c s a)).
  pose proof (pc_mono_step c s a r) as Hm. destruct (key_stable_step c s a r) as [K1 K2].
  destruct IH as [I1 I2]. split; intros H.
  - destruct (K1 H) as [E1 E2]. destruct (I1 ltac:(lia)) as [E3 E4]. split; congruence.
  - rewrite (I2 ltac:(lia)). apply K2. exact H.
Qed.

(* ------------------------------------------------------------------ group V: the verdict field *)

(* A request has a verdict exactly when its Execute call has returned: rejected
   at once (Gone), or released from the wait (Returned, then Gone). *)
Definition InvV (s : state) : Prop :=
  forall r, verdict (info s r) = None <-> pc_rank (pc (info s r)) <= 3.

Lemma InvV_init : InvV init.
Proof. intros r. cbn. split; [lia|reflexivity]. Qed.

Lemma InvV_step c s a : InvV s -> InvV (step c s a).
Proof.
  intros HV r. specialize (HV r).
  destruct (step_fields c s a r) as (Hm & _ & _ & Hlow & Hhigh & Hnew). split.
  - intros Hn. destruct (Z_le_gt_dec (pc_rank (pc (info (step c s a) r))) 3) as [Hle|Hgt]; [exact Hle|].
    exfalso. destruct (Z_le_gt_dec (pc_rank (pc (info s r))) 3) as [Hle0|Hgt0].
    + apply Hnew; [exact Hle0|lia|exact Hn].
    + rewrite Hhigh in Hn by lia. apply HV in Hn. lia.
  - intros Hle. destruct (Hlow Hle) as [E|E]; [rewrite E; apply HV; lia|exact E].
Qed.

Lemma InvV_run_from c sch s : InvV s -> InvV (run c s sch).
Proof. apply run_inv. intros s0 a. apply InvV_step. Qed.

Lemma InvV_run c sch : InvV (run c init sch).
Proof. apply InvV_run_from, InvV_init. Qed.

(* a verdict, once given, never changes *)
Lemma verdict_stable_step c s a r v :
  InvV s -> verdict (info s r) = Some v -> verdict (info (step c s a) r) = Some v.
Proof.
  intros HV H. destruct (step_fields c s a r) as (_ & _ & _ & _ & Hhigh & _).
  rewrite Hhigh; [exact H|].
  destruct (Z_le_gt_dec (pc_rank (pc (info s r))) 3) as [Hle|Hgt]; [|lia].
  apply HV in Hle. congruence.
Qed.

Lemma verdict_stable_run c sch s r v :
  InvV s -> verdict (info s r) = Some v -> verdict (info (run c s sch) r) = Some v.
Proof.
  revert s. induction sch as [|a sch IH]; intros s HV H; [exact H|].
  rewrite run_cons. apply IH; [apply InvV_step; exact HV|apply verdict_stable_step; assumption].
Qed.

(* a signalled waiter can return, and its return writes the verdict *)
Lemma waiter_return_verdict s r :
  pc (info s r) = PWaiting -> 1 <= dones (info s r) ->
  pc (info (waiter_return s r) r) = PReturned /\
  verdict (info (waiter_return s r) r) =
    Some (match res (info s r) with Success => true | _ => false end).
Proof.
  intros Hp Hd. unfold waiter_return. rewrite Hp. apply Z.leb_le in Hd. rewrite Hd. cbn.
  rewrite upd_same. cbn. auto.
Qed.

(* ------------------------------------------------------------------ invariants from any reachable state *)

Lemma Inv_run_from c sch s : Inv c s -> Inv c (run c s sch).
Proof. apply run_inv. intros s0 a. apply Inv_step. Qed.

Lemma InvB_run_from c sch s : InvB s -> InvB (run c s sch).
Proof. apply run_inv. intros s0 a. apply InvB_step. Qed.

Lemma st_dn_run c sch s x : InvB s -> st (info s x) = Dn -> st (info (run c s sch) x) = Dn.
Proof.
  revert s. induction sch as [|a sch IH]; intros s HB H; [exact H|].
  rewrite run_cons. apply IH; [apply InvB_step; exact HB|apply st_dn_step; assumption].
Qed.

(* a registered request stays in the watch list until its waiter has returned
   (which needs a signal) and its removal has run *)
Definition reg_or_done (s : state) (r : Z) : Prop :=
  In r (watch s) \/ (pc (info s r) = PGone /\ 1 <= dones (info s r)).

Lemma reg_or_done_step c s a r : Inv c s -> reg_or_done s r -> reg_or_done (step c s a) r.
Proof.
  intros (HA & HB & _) [Hw|[Hp Hd]].
  - pose proof (InvA_step c s a HA) as HA'.
    destruct (A_watch s HA r) as [W1 _]. specialize (W1 Hw).
    destruct (step_fields c s a r) as (Hm & _ & _ & _ & _ & _ & Hg).
    pose proof (dones_mono_step c s a r) as Hdm.
    destruct (pc (info (step c s a) r)) eqn:Epc.
    + exfalso. destruct W1 as [E|[E|E]]; rewrite E in Hm; cbn in Hm; lia.
    + exfalso. destruct W1 as [E|[E|E]]; rewrite E in Hm; cbn in Hm; lia.
    + left. apply (A_watch _ HA'). left. exact Epc.
    + left. apply (A_watch _ HA'). right. left. exact Epc.
    + left. apply (A_watch _ HA'). right. right. exact Epc.
    + right. split; [exact Epc|].
      destruct (Hg eq_refl) as [E|[E|E]].
      * destruct W1 as [F|[F|F]]; congruence.
      * pose proof (B_ret s HB r E). lia.
      * destruct W1 as [F|[F|F]]; rewrite F in E; cbn in E; lia.
  - right. pose proof (pc_mono_step c s a r) as Hm. pose proof (dones_mono_step c s a r) as Hdm.
    rewrite Hp in Hm. cbn in Hm. split; [|lia].
    destruct (pc (info (step c s a) r)); cbn in Hm; try lia. reflexivity.
Qed.

Lemma reg_or_done_run c sch s r : Inv c s -> reg_or_done s r -> reg_or_done (run c s sch) r.
Proof.
  revert s. induction sch as [|a sch IH]; intros s HI H; [exact H|].
  rewrite run_cons. apply IH; [apply Inv_step; exact HI|apply reg_or_done_step; assumption].
Qed.

(* ------------------------------------------------------------------ a verdict is reachable from every reachable state *)

(* What is left to do for request r, in program order of the goroutines concerned:
   its own arrival goroutine registers and pushes; the loop (if it holds a
   request) gets the quota's answer b; the TTL watcher looks at r at an instant
   after its expiry; the waiter returns.  Steps already taken are no-ops. *)
Definition finish (r e : Z) (b : bool) : list action :=
  [ArriveRegister r; ArrivePush r; TickDecide b; TtlFire (e + 1) r; WaiterReturn r].

(* the same with the shutdown instead of the TTL watcher *)
Definition finish_drain (r : Z) (b : bool) : list action :=
  [ArriveRegister r; ArrivePush r; TickDecide b; Drain; WaiterReturn r].

Lemma register_rank c s r :
  1 <= pc_rank (pc (info s r)) -> 2 <= pc_rank (pc (info (arrive_register c s r) r)).
Proof.
  intros H. unfold arrive_register. destruct (pc (info s r)) eqn:E; cbn in H; try lia;
    try (rewrite E; cbn; lia).
  destruct (shared_full c s || _ || _); cbn; rewrite upd_same; cbn; lia.
Qed.

Lemma push_rank s r :
  2 <= pc_rank (pc (info s r)) -> 3 <= pc_rank (pc (info (arrive_push s r) r)).
Proof.
  intros H. unfold arrive_push. destruct (pc (info s r)) eqn:E; cbn in H; try lia;
    try (rewrite E; cbn; lia).
  cbn. rewrite upd_same. cbn. lia.
Qed.

Lemma decide_idle c s b : held (tick_decide c s b) = None.
Proof.
  unfold tick_decide. destruct (held s) eqn:E; [|exact E].
  destruct b; [|destruct (keep_stamp (var c))]; reflexivity.
Qed.

Lemma ttl_fire_reaches s now r :
  In r (watch s) -> expire (info s r) < now -> st (info (ttl_fire s now r) r) <> Enq.
Proof.
  intros Hw He. apply (fold_ttl_reaches now r [r] s Hw He). left. left. reflexivity.
Qed.

(* a request in the queue that the loop does not hold, looked at by the watcher
   after its expiry, has its signal *)
Lemma fire_signals c s now r :
  Inv c s -> In r (watch s) -> held s <> Some r -> expire (info s r) < now ->
  1 <= dones (info (ttl_fire s now r) r).
Proof.
  intros (HA & HB & _) Hw Hh He.
  pose proof (InvB_ttl_fire s now r HB) as HB'.
  pose proof (ttl_fire_reaches s now r Hw He) as Hst.
  pose proof (ttl_fire_frame s now r) as (_&_&_&_&Fh&_).
  destruct (st (info (ttl_fire s now r) r)) eqn:Est; [congruence| |].
  - exfalso. apply Hh. rewrite <- Fh. apply (B_held _ HB'). exact Est.
  - apply (B_d1 _ HB'). exact Est.
Qed.

Lemma scan_signals c s now r :
  Inv c s -> In r (watch s) -> held s <> Some r -> expire (info s r) < now ->
  1 <= dones (info (ttl_scan s now) r).
Proof.
  intros HI Hw Hh He. pose proof HI as (HA & HB & _).
  pose proof (InvB_step c s (TtlScan now) HB) as HB'. cbn [step] in HB'.
  pose proof (ttl_scan_reaches s now r Hw He) as Hst.
  pose proof (ttl_scan_frame s now) as (_&_&_&_&Fh&_).
  destruct (st (info (ttl_scan s now) r)) eqn:Est; [congruence| |].
  - exfalso. apply Hh. rewrite <- Fh. apply (B_held _ HB'). exact Est.
  - apply (B_d1 _ HB'). exact Est.
Qed.

Lemma drain_signals c s r :
  Inv c s -> In r (watch s) -> drained s = false -> held s = None ->
  1 <= dones (info (drain c s) r).
Proof.
  intros (HA & HB & _) Hw Hd Hh.
  pose proof (InvB_step c s Drain HB) as HB'. cbn [step] in HB'.
  apply (B_d1 _ HB'). apply drain_reaches; assumption.
Qed.

(* a request whose waiter has not returned and that is not in the watch list
   any more cannot exist: Waiting => registered *)
Lemma waiting_in_watch s r : InvA s -> pc (info s r) = PWaiting -> In r (watch s).
Proof. intros HA H. apply (A_watch s HA). right. left. exact H. Qed.

Lemma return_rank s r :
  3 <= pc_rank (pc (info s r)) -> 1 <= dones (info s r) \/ 4 <= pc_rank (pc (info s r)) ->
  4 <= pc_rank (pc (info (waiter_return s r) r)).
Proof.
  intros H3 Hor. unfold waiter_return. destruct (pc (info s r)) eqn:E; cbn in H3; try lia;
    try (rewrite E; cbn; lia).
  destruct Hor as [Hd|H4]; [|cbn in H4; lia].
  apply Z.leb_le in Hd. rewrite Hd. cbn. rewrite upd_same. cbn. lia.
Qed.

Lemma verdict_of_rank s r : InvV s -> 4 <= pc_rank (pc (info s r)) -> verdict (info s r) <> None.
Proof. intros HV H E. apply HV in E. lia. Qed.

Lemma verdict_reachable c s r b :
  Inv c s -> InvV s -> pc (info s r) <> PNew ->
  verdict (info (run c s (finish r (expire (info s r)) b)) r) <> None.
Proof.
  intros HI HV Hp. apply rank_not_new in Hp.
  set (e := expire (info s r)).
  unfold finish. cbn [run fold_left step].
  set (s1 := arrive_register c s r). set (s2 := arrive_push s1 r).
  set (s3 := tick_decide c s2 b). set (s4 := ttl_fire s3 (e + 1) r).
  assert (I1 : Inv c s1) by apply (Inv_step c s (ArriveRegister r) HI).
  assert (I2 : Inv c s2) by apply (Inv_step c s1 (ArrivePush r) I1).
  assert (I3 : Inv c s3) by apply (Inv_step c s2 (TickDecide b) I2).
  assert (I4 : Inv c s4) by apply (Inv_step c s3 (TtlFire (e + 1) r) I3).
  assert (V4 : InvV s4).
  { apply (InvV_step c s3 (TtlFire (e + 1) r)), (InvV_step c s2 (TickDecide b)),
      (InvV_step c s1 (ArrivePush r)), (InvV_step c s (ArriveRegister r)), HV. }
  assert (R1 : 2 <= pc_rank (pc (info s1 r))) by (apply register_rank; exact Hp).
  assert (R2 : 3 <= pc_rank (pc (info s2 r))) by (apply push_rank; exact R1).
  assert (R3 : 3 <= pc_rank (pc (info s3 r))).
  { pose proof (pc_mono_step c s2 (TickDecide b) r). cbn [step] in H. fold s3 in H. lia. }
  assert (R4 : 3 <= pc_rank (pc (info s4 r))).
  { pose proof (pc_mono_step c s3 (TtlFire (e + 1) r) r). cbn [step] in H. fold s4 in H. lia. }
  assert (E3 : expire (info s3 r) = e).
  { destruct (key_stable_run c [ArriveRegister r; ArrivePush r; TickDecide b] s r) as [K _].
    destruct (K Hp) as [_ K2]. exact K2. }
  assert (H4 : 1 <= dones (info s4 r) \/ 4 <= pc_rank (pc (info s4 r))).
  { destruct (pc (info s3 r)) eqn:E; cbn in R3; try lia.
    - left. apply (fire_signals c); auto.
      + pose proof I3 as (HA3 & _). apply waiting_in_watch; assumption.
      + unfold s3. rewrite decide_idle. discriminate.
      + lia.
    - right. pose proof (pc_mono_step c s3 (TtlFire (e + 1) r) r) as H. cbn [step] in H. fold s4 in H.
      rewrite E in H. exact H.
    - right. pose proof (pc_mono_step c s3 (TtlFire (e + 1) r) r) as H. cbn [step] in H. fold s4 in H.
      rewrite E in H. cbn in H. lia. }
  apply verdict_of_rank.
  - apply (InvV_step c s4 (WaiterReturn r)). exact V4.
  - apply return_rank; assumption.
Qed.

Lemma verdict_reachable_by_drain c s r b :
  closed_after_drain (var c) = true ->
  Inv c s -> InvV s -> InvG c s -> pc (info s r) <> PNew ->
  verdict (info (run c s (finish_drain r b)) r) <> None.
Proof.
  intros Hc HI HV HG Hp. apply rank_not_new in Hp.
  unfold finish_drain. cbn [run fold_left step].
  set (s1 := arrive_register c s r). set (s2 := arrive_push s1 r).
  set (s3 := tick_decide c s2 b). set (s4 := drain c s3).
  assert (I1 : Inv c s1) by apply (Inv_step c s (ArriveRegister r) HI).
  assert (I2 : Inv c s2) by apply (Inv_step c s1 (ArrivePush r) I1).
  assert (I3 : Inv c s3) by apply (Inv_step c s2 (TickDecide b) I2).
  assert (I4 : Inv c s4) by apply (Inv_step c s3 Drain I3).
  assert (G3 : InvG c s3).
  { pose proof HI as (_ & HB & _). pose proof I1 as (_ & HB1 & _). pose proof I2 as (_ & HB2 & _).
    apply (InvG_step c s2 (TickDecide b) HB2), (InvG_step c s1 (ArrivePush r) HB1),
      (InvG_step c s (ArriveRegister r) HB), HG. }
  assert (V4 : InvV s4).
  { apply (InvV_step c s3 Drain), (InvV_step c s2 (TickDecide b)),
      (InvV_step c s1 (ArrivePush r)), (InvV_step c s (ArriveRegister r)), HV. }
  assert (R1 : 2 <= pc_rank (pc (info s1 r))) by (apply register_rank; exact Hp).
  assert (R2 : 3 <= pc_rank (pc (info s2 r))) by (apply push_rank; exact R1).
  assert (R3 : 3 <= pc_rank (pc (info s3 r))).
  { pose proof (pc_mono_step c s2 (TickDecide b) r). cbn [step] in H. fold s3 in H. lia. }
  assert (R4 : 3 <= pc_rank (pc (info s4 r))).
  { pose proof (pc_mono_step c s3 Drain r). cbn [step] in H. fold s4 in H. lia. }
  assert (H4 : 1 <= dones (info s4 r) \/ 4 <= pc_rank (pc (info s4 r))).
  { destruct (pc (info s3 r)) eqn:E; cbn in R3; try lia.
    - left. pose proof I3 as (HA3 & HB3 & _).
      pose proof (waiting_in_watch s3 r HA3 E) as Hw.
      destruct (drained s3) eqn:Ed.
      + unfold s4. rewrite (drain_noop c s3) by (left; exact Ed).
        apply (B_d1 _ HB3). destruct G3 as [_ G2]. apply G2; assumption.
      + apply (drain_signals c); auto.
        * unfold s3. apply decide_idle.
    - right. pose proof (pc_mono_step c s3 Drain r) as H. cbn [step] in H. fold s4 in H.
      rewrite E in H. exact H.
    - right. pose proof (pc_mono_step c s3 Drain r) as H. cbn [step] in H. fold s4 in H.
      rewrite E in H. cbn in H. lia. }
  apply verdict_of_rank.
  - apply (InvV_step c s4 (WaiterReturn r)). exact V4.
  - apply return_rank; assumption.
Qed.

(* ------------------------------------------------------------------ liveness under fairness *)

Definition held_is (s : state) (r : Z) : bool :=
  match held s with Some x => x =? r | None => false end.

Lemma held_is_false s r : held_is s r = false <-> held s <> Some r.
Proof.
  unfold held_is. destruct (held s) as [x|]; [|split; [discriminate|reflexivity]].
  rewrite Z.eqb_neq. split; intros H; congruence.
Qed.

(* [serves s a r]: taken in state s, action a is a step of the TTL watcher that
   looks at r at an instant after r's expiry while the loop does not hold r, or a
   drain that is effective (not yet drained, loop idle).  Decidable. *)
Definition serves (s : state) (a : action) (r : Z) : bool :=
  match a with
  | TtlScan now => (expire (info s r) <? now) && negb (held_is s r)
  | TtlFire now x => (x =? r) && (expire (info s r) <? now) && negb (held_is s r)
  | Drain => negb (drained s) && match held s with None => true | Some _ => false end
  | _ => false
  end.

Lemma served_signalled c s a r :
  Inv c s -> In r (watch s) -> serves s a r = true -> 1 <= dones (info (step c s a) r).
Proof.
  intros HI Hw Hs. destruct a as [x p now|x|x| |b|now x|now|x|x| ]; cbn [serves] in Hs; try discriminate;
    cbn [step].
  - apply andb_true_iff in Hs. destruct Hs as [Hs Hh]. apply andb_true_iff in Hs. destruct Hs as [Hx He].
    apply Z.eqb_eq in Hx. subst x. apply Z.ltb_lt in He. apply negb_true_iff, held_is_false in Hh.
    apply (fire_signals c); assumption.
  - apply andb_true_iff in Hs. destruct Hs as [He Hh].
    apply Z.ltb_lt in He. apply negb_true_iff, held_is_false in Hh.
    apply (scan_signals c); assumption.
  - apply andb_true_iff in Hs. destruct Hs as [Hd Hh]. apply negb_true_iff in Hd.
    destruct (held s) eqn:E; [discriminate|]. apply (drain_signals c); assumption.
Qed.

(* One fair event is enough, and its effect is permanent: if r is registered
   and, later, some action serves r, then r has a signal in every later state. *)
Lemma fair_signal c s r sch1 a sch2 :
  Inv c s -> In r (watch s) -> serves (run c s sch1) a r = true ->
  1 <= dones (info (run c s (sch1 ++ a :: sch2)) r).
Proof.
  intros HI Hw Hs. rewrite run_app, run_cons.
  pose proof (Inv_run_from c sch1 s HI) as I1.
  pose proof (dones_mono_run c sch2 (step c (run c s sch1) a) r) as Hm2.
  destruct (reg_or_done_run c sch1 s r HI (or_introl Hw)) as [Hw1|[_ Hd]].
  - pose proof (served_signalled c _ a r I1 Hw1 Hs). lia.
  - pose proof (dones_mono_step c (run c s sch1) a r). lia.
Qed.

Lemma in_watch_rank s r : InvA s -> In r (watch s) -> 2 <= pc_rank (pc (info s r)).
Proof. intros HA Hw. apply (A_watch s HA) in Hw. destruct Hw as [E|[E|E]]; rewrite E; cbn; lia. Qed.

Lemma push_in_run c s r pre :
  2 <= pc_rank (pc (info s r)) -> In (ArrivePush r) pre \/ 3 <= pc_rank (pc (info s r)) ->
  3 <= pc_rank (pc (info (run c s pre) r)).
Proof.
  intros H2 [Hin|H3]; [|pose proof (pc_mono_run c pre s r); lia].
  apply in_split in Hin. destruct Hin as (p1 & p2 & ->).
  rewrite run_app, run_cons. cbn [step].
  pose proof (pc_mono_run c p1 s r) as M1.
  pose proof (push_rank (run c s p1) r ltac:(lia)) as M2.
  pose proof (pc_mono_run c p2 (arrive_push (run c s p1) r) r) as M3. lia.
Qed.

(* ... and if the goroutine of r itself is not starved (its push and, after the
   serving event, the return of its Wait() are in the schedule), r has its verdict *)
Lemma fair_verdict c s r sch1 a sch2 post :
  Inv c s -> InvV s -> In r (watch s) -> serves (run c s sch1) a r = true ->
  In (ArrivePush r) (sch1 ++ a :: sch2) \/ 3 <= pc_rank (pc (info s r)) ->
  verdict (info (run c s ((sch1 ++ a :: sch2) ++ WaiterReturn r :: post)) r) <> None.
Proof.
  intros HI HV Hw Hs Hpush. pose proof HI as (HA & _).
  set (pre := sch1 ++ a :: sch2).
  pose proof (fair_signal c s r sch1 a sch2 HI Hw Hs) as Hd. fold pre in Hd.
  pose proof (push_in_run c s r pre (in_watch_rank s r HA Hw) Hpush) as H3.
  rewrite run_app, run_cons. cbn [step].
  pose proof (return_rank (run c s pre) r H3 (or_introl Hd)) as H4.
  pose proof (pc_mono_run c post (waiter_return (run c s pre) r) r) as M.
  apply verdict_of_rank; [|lia].
  apply InvV_run_from. apply (InvV_step c (run c s pre) (WaiterReturn r)). apply InvV_run_from. exact HV.
Qed.

(* a syntactic sufficient condition for "the loop holds nothing": the last loop
   action of the schedule, if any, is a decision *)
Fixpoint idle_after (idle : bool) (sch : list action) : bool :=
  match sch with
  | [] => idle
  | TickPop :: rest => idle_after false rest
  | TickDecide _ :: rest => idle_after true rest
  | _ :: rest => idle_after idle rest
  end.

Lemma idle_after_held c sch s idle :
  (idle = true -> held s = None) -> idle_after idle sch = true -> held (run c s sch) = None.
Proof.
  revert s idle. induction sch as [|a sch IH]; intros s idle H0 H; [cbn in *; auto|].
  rewrite run_cons.
  destruct a as [x p now|x|x| |b|now x|now|x|x| ]; cbn [idle_after] in H;
    (eapply IH; [|exact H]); cbn [step]; intros Hi.
  - unfold arrive_check. destruct (pc (info s x)); auto. destruct (qmax c <=? count s); cbn; auto.
  - unfold arrive_register. destruct (pc (info s x)); auto.
    destruct (shared_full c s || _ || _); cbn; auto.
  - unfold arrive_push. destruct (pc (info s x)); cbn; auto.
  - discriminate.
  - apply decide_idle.
  - pose proof (ttl_fire_frame s now x) as (_&_&_&_&Fh&_). rewrite Fh. auto.
  - pose proof (ttl_scan_frame s now) as (_&_&_&_&Fh&_). rewrite Fh. auto.
  - unfold waiter_return. destruct (pc (info s x)); auto. destruct (1 <=? dones (info s x)); cbn; auto.
  - unfold remove. destruct (pc (info s x)); cbn; auto.
  - unfold drain. destruct (drained s); auto.
    destruct (held s) eqn:E; [specialize (H0 Hi); discriminate|]. cbn.
    pose proof (fold_release_frame c (watch s) s) as F. cbn in F. destruct F as (_&_&_&_&Fh&_).
    rewrite Fh. exact E.
Qed.

(* ------------------------------------------------------------------ from admissions back to picks *)

Lemma held_step c s a r :
  held (step c s a) = Some r ->
  held s = Some r \/ (a = TickPop /\ picks s r /\ held s = None /\ drained s = false).
Proof.
  destruct a as [x p now|x|x| |b|now x|now|x|x| ]; cbn [step].
  - unfold arrive_check. destruct (pc (info s x)); auto. destruct (qmax c <=? count s); cbn; auto.
  - unfold arrive_register. destruct (pc (info s x)); auto.
    destruct (shared_full c s || _ || _); cbn; auto.
  - unfold arrive_push. destruct (pc (info s x)); cbn; auto.
  - unfold tick_pop. destruct (drained s) eqn:Ed; [auto|].
    destruct (held s) as [z|] eqn:Eh; [intros E; left; congruence|].
    destruct (heap s) as [|[[p t] x] h'] eqn:Ehp; [intros E; congruence|].
    destruct (memZ x (watch s) && is_enq (info s x)) eqn:G; cbn; [|discriminate].
    intros E. injection E as ->. right. repeat split; auto.
    apply andb_true_iff in G. destruct G as [G1 G2]. apply memZ_In in G1.
    exists p, t, h'. repeat split; auto.
    unfold is_enq in G2. destruct (st (info s r)); congruence.
  - rewrite decide_idle. discriminate.
  - pose proof (ttl_fire_frame s now x) as (_&_&_&_&Fh&_). rewrite Fh. auto.
  - pose proof (ttl_scan_frame s now) as (_&_&_&_&Fh&_). rewrite Fh. auto.
  - unfold waiter_return. destruct (pc (info s x)); auto. destruct (1 <=? dones (info s x)); cbn; auto.
  - unfold remove. destruct (pc (info s x)); cbn; auto.
  - unfold drain. destruct (drained s); [auto|].
    destruct (held s) eqn:E; [intros K; left; congruence|]. cbn.
    pose proof (fold_release_frame c (watch s) s) as F. cbn in F. destruct F as (_&_&_&_&Fh&_).
    rewrite Fh, E. discriminate.
Qed.

Lemma snoc_split {A} (mid m1 m2 : list A) a :
  mid ++ [a] = m1 ++ m2 -> (m2 = [] /\ m1 = mid ++ [a]) \/ exists m2', m2 = m2' ++ [a] /\ mid = m1 ++ m2'.
Proof.
  intros H. destruct m2 as [|b m2] using rev_ind.
  - left. rewrite app_nil_r in H. auto.
  - right. clear IHm2. rewrite app_assoc in H. apply app_inj_tail in H. destruct H as [H ->].
    exists m2. auto.
Qed.

(* The request the loop holds was taken by an effective TickPop — at that moment
   it was at the head of the queue and passed the gate — and the loop has held
   it, and nothing else, ever since. *)
Lemma held_origin c s sch r :
  held (run c s sch) = Some r ->
  held s = Some r \/
  exists sch0 mid, sch = sch0 ++ TickPop :: mid /\
    picks (run c s sch0) r /\ held (run c s sch0) = None /\ drained (run c s sch0) = false /\
    forall m1 m2, mid = m1 ++ m2 -> held (run c s (sch0 ++ TickPop :: m1)) = Some r.
Proof.
  induction sch as [|a sch IH] using rev_ind; [cbn; auto|].
  intros H0. pose proof H0 as H. rewrite run_app in H. cbn [run fold_left] in H. apply held_step in H.
  destruct H as [H|(-> & Hp & Hh & Hd)].
  - destruct (IH H) as [H1|(sch0 & mid & -> & Hp & Hh & Hd & Hall)]; [auto|].
    right. exists sch0, (mid ++ [a]). split; [rewrite <- app_assoc; reflexivity|].
    repeat split; auto. intros m1 m2 E. apply snoc_split in E.
    destruct E as [[-> ->]|(m2' & -> & ->)].
    + replace (sch0 ++ TickPop :: mid ++ [a]) with ((sch0 ++ TickPop :: mid) ++ [a])
        by (rewrite <- app_assoc; reflexivity).
      exact H0.
    + apply (Hall m1 m2'). reflexivity.
  - right. exists sch, []. repeat split; auto.
    intros m1 m2 E. symmetry in E. apply app_eq_nil in E. destruct E as [-> _].
    rewrite run_app. cbn [run fold_left step].
    unfold tick_pop. rewrite Hd, Hh. destruct Hp as (p & t & h' & Ehp & Hw & Hst).
    rewrite Ehp. apply memZ_In in Hw. rewrite Hw. unfold is_enq. rewrite Hst. reflexivity.
Qed.

Lemma admits_origin_from c s sch r :
  In r (admits (run c s sch)) ->
  In r (admits s) \/
  exists sch1 sch2, sch = sch1 ++ TickDecide true :: sch2 /\ held (run c s sch1) = Some r.
Proof.
  induction sch as [|a sch IH] using rev_ind; [cbn; auto|].
  rewrite run_app. cbn [run fold_left]. intros H. apply admits_step in H. destruct H as [H|[-> H]].
  - destruct (IH H) as [H0|(s1 & s2 & -> & Hh)]; [auto|]. right. exists s1, (s2 ++ [a]).
    split; [|exact Hh]. rewrite <- app_assoc. reflexivity.
  - right. exists sch, []. split; [reflexivity|exact H].
Qed.

(* Every admission is the decision about a request that an effective TickPop
   took from the head of the queue, held without interruption until the quota
   said yes. *)
Lemma admission_pick c s sch r :
  InvB s -> InvD s -> In r (admits (run c s sch)) -> ~ In r (admits s) -> held s <> Some r ->
  exists sch0 mid sch2, sch = sch0 ++ TickPop :: mid ++ TickDecide true :: sch2 /\
    picks (run c s sch0) r /\ held (run c s sch0) = None /\ drained (run c s sch0) = false /\
    forall m1 m2, mid = m1 ++ m2 -> held (run c s (sch0 ++ TickPop :: m1)) = Some r.
Proof.
  intros HB HD Hin Hnot Hh.
  destruct (admits_origin_from c s sch r Hin) as [H|(sch1 & sch2 & -> & Hheld)]; [contradiction|].
  destruct (held_origin c s sch1 r Hheld) as [H|(sch0 & mid & -> & Hp & Hn & Hd & Hall)]; [contradiction|].
  exists sch0, mid, sch2. split; [rewrite <- app_assoc; reflexivity|]. auto.
Qed.

(* ------------------------------------------------------------------ no overtaking *)

Lemma lex_lt_asym p1 t1 p2 t2 : lex_lt p1 t1 p2 t2 -> lex_lt p2 t2 p1 t1 -> False.
Proof. unfold lex_lt. lia. Qed.

(* [ord] = the order a tree guarantees at a pick: priority only, or, with
   stamp-preserving re-enqueue, (priority, arrival stamp) *)
Lemma no_overtaking_gen c s r r' sch :
  Inv c s -> is_waiting s r -> is_waiting s r' ->
  (prio (info s r) < prio (info s r') \/
   (keep_stamp (var c) = true /\
    lex_lt (prio (info s r)) (astamp (info s r)) (prio (info s r')) (astamp (info s r')))) ->
  In r' (admits (run c s sch)) ->
  st (info (run c s sch) r) = Dn /\ 1 <= dones (info (run c s sch) r).
Proof.
  intros HI [Hpr Hsr] [Hpr' Hsr'] Hord Hin. pose proof HI as (HA & HB & HC & HD).
  assert (Hnot : ~ In r' (admits s)).
  { intros H. apply (D_dn s HD) in H. congruence. }
  assert (Hh : held s <> Some r').
  { intros H. apply (B_held s HB) in H. congruence. }
  destruct (admission_pick c s sch r' HB HD Hin Hnot Hh)
    as (sch0 & mid & sch2 & -> & Hp & Hn & Hd & _).
  set (sp := run c s sch0) in *.
  assert (Ip : Inv c sp) by (apply Inv_run_from; exact HI).
  pose proof Ip as (HAp & HBp & _).
  assert (R3 : 3 <= pc_rank (pc (info s r))) by (rewrite Hpr; cbn; lia).
  assert (R3' : 3 <= pc_rank (pc (info s r'))) by (rewrite Hpr'; cbn; lia).
  destruct (key_stable_run c sch0 s r) as [K1 K2]. destruct (K1 ltac:(lia)) as [Kp _].
  specialize (K2 R3).
  destruct (key_stable_run c sch0 s r') as [K1' K2']. destruct (K1' ltac:(lia)) as [Kp' _].
  specialize (K2' R3'). fold sp in Kp, K2, Kp', K2'.
  assert (Hnw : ~ is_waiting sp r).
  { intros Hw. destruct Hord as [Hlt|[Hk Hlex]].
    - pose proof (pick_prio c sp r' r Ip Hp Hw). lia.
    - assert (Hne : r <> r').
      { intros ->. unfold lex_lt in Hlex. lia. }
      pose proof (pick_fifo c sp r' r Hk Ip Hp Hw Hne) as Hlex'.
      rewrite Kp, K2, Kp', K2' in Hlex'. exact (lex_lt_asym _ _ _ _ Hlex Hlex'). }
  assert (Hdn : st (info sp r) = Dn).
  { assert (Hw : In r (watch s)) by (apply waiting_in_watch; assumption).
    destruct (reg_or_done_run c sch0 s r HI (or_introl Hw)) as [Hw1|[_ Hd1]]; try fold sp in Hw1; try fold sp in Hd1.
    - apply (A_watch sp HAp) in Hw1. pose proof (pc_mono_run c sch0 s r) as M. fold sp in M.
      destruct Hw1 as [E|[E|E]].
      + rewrite E in M. cbn in M. lia.
      + destruct (st (info sp r)) eqn:Est; [exfalso; apply Hnw; split; assumption| |reflexivity].
        apply (B_held sp HBp) in Est. congruence.
      + pose proof (B_ret sp HBp r E) as D1.
        destruct (st (info sp r)) eqn:Est; [|..]; try reflexivity;
          (rewrite (B_d0 sp HBp r) in D1 by congruence; lia).
    - destruct (st (info sp r)) eqn:Est; try reflexivity;
        (rewrite (B_d0 sp HBp r) in Hd1 by congruence; lia). }
  rewrite run_app. fold sp.
  pose proof (st_dn_run c (TickPop :: mid ++ TickDecide true :: sch2) sp r HBp Hdn) as Hend.
  split; [exact Hend|].
  apply (B_d1 _ (InvB_run_from c _ sp HBp)). exact Hend.
Qed.

(* ------------------------------------------------------------------ where a time-out comes from *)

(* [times_out s a r]: action a, taken in state s, is a step of the TTL watcher
   looking at the registered request r at an instant after its expiry, or an
   effective drain while r is registered *)
Definition times_out (s : state) (a : action) (r : Z) : Prop :=
  In r (watch s) /\
  match a with
  | TtlScan now => expire (info s r) < now
  | TtlFire now x => x = r /\ expire (info s r) < now
  | Drain => drained s = false /\ held s = None
  | _ => False
  end.

Lemma ttl_fire_res s now a r :
  res (info (ttl_fire s now a) r) = TimedOut ->
  res (info s r) = TimedOut \/ (a = r /\ In r (watch s) /\ expire (info s r) < now).
Proof.
  unfold ttl_fire. destruct (memZ a (watch s) && (expire (info s a) <? now) && is_enq (info s a)) eqn:G;
    [|auto]. cbn. updc r a; [|auto]. intros _. right.
  apply andb_true_iff in G. destruct G as [G _]. apply andb_true_iff in G. destruct G as [G1 G2].
  apply memZ_In in G1. apply Z.ltb_lt in G2. auto.
Qed.

Lemma fold_ttl_res now l s r :
  res (info (fold_left (fun s0 x => ttl_fire s0 now x) l s) r) = TimedOut ->
  res (info s r) = TimedOut \/ (In r (watch s) /\ expire (info s r) < now).
Proof.
  revert s. induction l as [|a l IH]; intros s; cbn; [auto|]. intros H.
  destruct (IH _ H) as [H1|[Hw He]].
  - apply ttl_fire_res in H1. destruct H1 as [H1|(_ & Hw & He)]; auto.
  - right. pose proof (ttl_fire_frame s now a) as (_ & Fw & _). rewrite Fw in Hw.
    rewrite ttl_fire_expire in He. auto.
Qed.

Lemma release_res c s a r :
  res (info (release c s a) r) = TimedOut -> res (info s r) = TimedOut \/ a = r.
Proof.
  unfold release. destruct (gated_drain _); [destruct (is_enq _)|]; cbn; auto; (updc r a; auto).
Qed.

Lemma fold_release_res c l s r :
  res (info (fold_left (release c) l s) r) = TimedOut -> res (info s r) = TimedOut \/ In r l.
Proof.
  revert s. induction l as [|a l IH]; intros s; cbn; [auto|]. intros H.
  destruct (IH _ H) as [H1|H1]; [|auto].
  apply release_res in H1. destruct H1 as [H1| ->]; auto.
Qed.

Lemma timeout_step c s a r :
  res (info (step c s a) r) = TimedOut -> res (info s r) = TimedOut \/ times_out s a r.
Proof.
  destruct a as [x p now|x|x| |b|now x|now|x|x| ]; cbn [step].
  - unfold arrive_check. destruct (pc (info s x)); auto.
    destruct (qmax c <=? count s); cbn; (updc r x; cbn; auto).
  - unfold arrive_register. destruct (pc (info s x)); auto.
    destruct (shared_full c s || _ || _); cbn; (updc r x; cbn; auto).
  - unfold arrive_push. destruct (pc (info s x)); auto. cbn. updc r x; cbn; auto.
  - unfold tick_pop. destruct (drained s); auto. destruct (held s); auto.
    destruct (heap s) as [|[[p t] x] h']; auto.
    destruct (memZ x (watch s) && is_enq (info s x)); cbn; auto. updc r x; cbn; auto.
  - unfold tick_decide. destruct (held s) as [x|]; auto.
    destruct b; [|destruct (keep_stamp (var c))]; cbn; (updc r x; cbn; auto). discriminate.
  - intros H. apply ttl_fire_res in H. destruct H as [H|(-> & Hw & He)]; auto.
    right. split; cbn; auto.
  - intros H. apply fold_ttl_res in H. destruct H as [H|(Hw & He)]; auto. right. split; auto.
  - unfold waiter_return. destruct (pc (info s x)); auto.
    destruct (1 <=? dones (info s x)); auto. cbn. updc r x; cbn; auto.
  - unfold remove. destruct (pc (info s x)); auto. cbn. updc r x; cbn; auto.
  - unfold drain. destruct (drained s) eqn:Ed; auto. destruct (held s) eqn:Eh; auto. cbn.
    intros H. apply fold_release_res in H. destruct H as [H|H]; auto. right. split; cbn; auto.
Qed.

(* a time-out result is always caused by a watcher step after the expiry of the
   (registered) request, or by the drain — never earlier *)
Lemma timeout_origin c sch r :
  res (info (run c init sch) r) = TimedOut ->
  exists sch1 a sch2, sch = sch1 ++ a :: sch2 /\ times_out (run c init sch1) a r.
Proof.
  induction sch as [|a sch IH] using rev_ind; [cbn; discriminate|].
  rewrite run_app. cbn [run fold_left]. intros H. apply timeout_step in H. destruct H as [H|H].
  - destruct (IH H) as (s1 & b & s2 & -> & Ht). exists s1, b, (s2 ++ [a]).
    split; [rewrite <- app_assoc; reflexivity|exact Ht].
  - exists sch, a, []. auto.
Qed.

(* ------------------------------------------------------------------ group R: verdicts and results *)

(* a blocked verdict is either a rejection on arrival (the request never got a
   signal) or the return of a waiter whose request timed out / was drained *)
Record InvR (s : state) : Prop := {
  R_dn : forall r, st (info s r) = Dn -> res (info s r) <> Pending;
  R_false : forall r, verdict (info s r) = Some false ->
      dones (info s r) = 0 \/ res (info s r) = TimedOut;
  R_low : forall r, pc_rank (pc (info s r)) <= 1 -> dones (info s r) = 0
}.

Lemma InvR_init : InvR init.
Proof. constructor; cbn; intros; try discriminate; auto. Qed.

(* steps that leave state, result and signal count of every request alone *)
Lemma InvR_same s s' :
  (forall x, st (info s' x) = st (info s x) /\ res (info s' x) = res (info s x) /\
             dones (info s' x) = dones (info s x) /\
             pc_rank (pc (info s x)) <= pc_rank (pc (info s' x)) /\
             (verdict (info s' x) = Some false ->
              verdict (info s x) = Some false \/ dones (info s x) = 0 \/ res (info s x) = TimedOut)) ->
  InvR s -> InvR s'.
Proof.
  intros Hx [R1 R2 R3]. constructor; intros r; destruct (Hx r) as (Hs & Hr & Hd & Hp & Hv).
  - rewrite Hs, Hr. apply R1.
  - rewrite Hd, Hr. intros H. destruct (Hv H) as [H1|H1]; auto.
  - rewrite Hd. intros H. apply R3. lia.
Qed.

Lemma InvR_signal_timeout s r :
  In r (watch s) -> InvA s -> InvR s ->
  InvR (with_info s (upd (info s) r (signal (info s r) TimedOut))).
Proof.
  intros Hw HA [R1 R2 R3]. pose proof (in_watch_rank s r HA Hw) as H2.
  constructor; intros x; cbn; updc x r; cbn; auto; try discriminate.
  intros H. lia.
Qed.

Lemma InvR_ttl_fire s now r : InvA s -> InvR s -> InvR (ttl_fire s now r).
Proof.
  intros HA HR. unfold ttl_fire.
  destruct (memZ r (watch s) && (expire (info s r) <? now) && is_enq (info s r)) eqn:G; [|exact HR].
  apply andb_true_iff in G. destruct G as [G _]. apply andb_true_iff in G. destruct G as [G _].
  apply memZ_In in G. apply InvR_signal_timeout; assumption.
Qed.

Lemma InvA_ttl_fire s now r : InvA s -> InvA (ttl_fire s now r).
Proof. intros HA. apply (InvA_step (Build_cfg 0 0 0 fixed) s (TtlFire now r) HA). Qed.

Lemma InvR_release c s r : In r (watch s) -> InvA s -> InvR s -> InvR (release c s r).
Proof.
  intros Hw HA HR. unfold release. destruct (gated_drain _); [destruct (is_enq _)|];
    try exact HR; apply InvR_signal_timeout; assumption.
Qed.

Lemma InvR_fold_release c l s :
  (forall x, In x l -> In x (watch s)) -> InvA s -> InvR s -> InvR (fold_left (release c) l s).
Proof.
  revert s. induction l as [|a l IH]; intros s Hl HA HR; cbn; [exact HR|].
  pose proof (release_frame c s a) as (_ & Fw & Fc & _ & _ & _ & Fk & _).
  apply IH.
  - intros x Hx. rewrite Fw. apply Hl. now right.
  - apply (InvA_same_pc s); auto. intros x. apply release_pc.
  - apply InvR_release; auto. apply Hl. now left.
Qed.

Lemma InvR_step c s a : Inv c s -> InvV s -> InvR s -> InvR (step c s a).
Proof.
  intros (HA & HB & HC & HD) HV HR. pose proof HR as [R1 R2 R3].
  destruct a as [x p now|x|x| |b|now x|now|x|x| ]; cbn [step].
  - unfold arrive_check. destruct (pc (info s x)) eqn:Epc; try exact HR.
    assert (D0 : dones (info s x) = 0) by (apply R3; rewrite Epc; cbn; lia).
    destruct (qmax c <=? count s); (apply (InvR_same s); [|exact HR]); intros y; cbn;
      (updc y x; cbn; rewrite ?Epc; cbn; repeat split; auto; try lia; try discriminate).
  - unfold arrive_register. destruct (pc (info s x)) eqn:Epc; try exact HR.
    assert (D0 : dones (info s x) = 0) by (apply R3; rewrite Epc; cbn; lia).
    destruct (shared_full c s || _ || _); (apply (InvR_same s); [|exact HR]); intros y; cbn;
      (updc y x; cbn; rewrite ?Epc; cbn; repeat split; auto; try lia; try discriminate).
  - unfold arrive_push. destruct (pc (info s x)) eqn:Epc; try exact HR.
    apply (InvR_same s); [|exact HR]. intros y; cbn.
    updc y x; cbn; rewrite ?Epc; cbn; repeat split; auto; try lia.
  - unfold tick_pop. destruct (drained s); [exact HR|]. destruct (held s); [exact HR|].
    destruct (heap s) as [|[[p t] x] h']; [exact HR|].
    destruct (memZ x (watch s) && is_enq (info s x)) eqn:G; cbn.
    + apply andb_true_iff in G. destruct G as [Gw G]. apply memZ_In in Gw. unfold is_enq in G.
      destruct (st (info s x)) eqn:Est; try discriminate.
      constructor; intros y; cbn; updc y x; cbn; auto. discriminate.
    + apply (InvR_same s); [|exact HR]. intros y. cbn. repeat split; auto; lia.
  - unfold tick_decide. destruct (held s) as [x|] eqn:Eh; [|exact HR].
    assert (Est : st (info s x) = Proc) by (apply (B_held s HB); exact Eh).
    assert (Hpc : pc (info s x) = PWaiting) by (apply (C_held_pc c s HC); exact Eh).
    assert (Hv : verdict (info s x) = None) by (apply HV; rewrite Hpc; cbn; lia).
    destruct b; [|destruct (keep_stamp (var c))];
      (constructor; intros y; cbn; updc y x; cbn; auto; try discriminate; try congruence;
       rewrite Hpc; cbn; lia).
  - apply InvR_ttl_fire; assumption.
  - unfold ttl_scan. generalize (watch s). intros l. revert s HA HB HC HD HV HR R1 R2 R3.
    induction l as [|a l IH]; intros s HA HB HC HD HV HR R1 R2 R3; cbn; [exact HR|].
    pose proof (InvR_ttl_fire s now a HA HR) as HR'. pose proof HR' as [? ? ?].
    apply IH; auto.
    + apply InvA_ttl_fire; exact HA.
    + apply InvB_ttl_fire; exact HB.
    + apply InvC_ttl_fire; exact HC.
    + apply InvD_ttl_fire; exact HD.
    + intros y. destruct (ttl_fire_static s now a y) as (E1 & _ & _ & E2 & _). rewrite E1, E2. apply HV.
  - unfold waiter_return. destruct (pc (info s x)) eqn:Epc; try exact HR.
    destruct (1 <=? dones (info s x)) eqn:G; [|exact HR]. apply Z.leb_le in G.
    assert (Est : st (info s x) = Dn).
    { destruct (st (info s x)) eqn:E; try reflexivity; rewrite (B_d0 s HB x) in G by congruence; lia. }
    apply (InvR_same s); [|exact HR]. intros y; cbn.
    updc y x; cbn; rewrite ?Epc; cbn; repeat split; auto; try lia.
    intros H. right. right. specialize (R1 x Est). destruct (res (info s x)); congruence.
  - unfold remove. destruct (pc (info s x)) eqn:Epc; try exact HR.
    apply (InvR_same s); [|exact HR]. intros y; cbn.
    updc y x; cbn; rewrite ?Epc; cbn; repeat split; auto; try lia.
  - unfold drain. destruct (drained s); [exact HR|]. destruct (held s); [exact HR|].
    pose proof (InvR_fold_release c (watch s) s (fun x H => H) HA HR) as HR'.
    apply (InvR_same (fold_left (release c) (watch s) s)); [|exact HR'].
    intros y. cbn. repeat split; auto; lia.
Qed.

Lemma InvVR_run c sch : InvV (run c init sch) /\ InvR (run c init sch).
Proof.
  assert (H : Inv c (run c init sch) /\ InvV (run c init sch) /\ InvR (run c init sch)).
  { apply (run_inv c (fun s => Inv c s /\ InvV s /\ InvR s)).
    - intros s a (HI & HV & HR). split; [apply Inv_step; exact HI|].
      split; [apply InvV_step; exact HV|apply InvR_step; assumption].
    - split; [apply Inv_init|]. split; [apply InvV_init|apply InvR_init]. }
  tauto.
Qed.
