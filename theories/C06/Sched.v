(* C06 — the SCHEDULING of the TTL watcher
     streams/processors/queue/queue_request_watcher.go
       NewRequestsWatcher        nextExpireAt := Now() + TTL
       manageTTLs                wait := nextExpireAt - Now() (0 when negative);
                                 timer fires -> notifyExpiredRequests
       notifyExpiredRequests     the scan (Model.ttl_scan), then recalculateNextExpireAt
       recalculateNextExpireAt   nextExpireAt := the least of Now() + TTL and every
                                 expireAt in requestsExpireAt — INCLUDING the entries
                                 whose expireAt has passed (signalled and waiting for
                                 their asynchronous removal, or expired but not
                                 signalled because the loop held them at the scan)
       AddRequestIfBelow         does NOT touch nextExpireAt

   Model.v leaves the instants of the scans to the schedule (TtlScan now is an
   action with a free clock reading).  Here the model gains a clock and the
   watcher's timer:

     tstate = the untimed state + clk (the clock) + nea (nextExpireAt)
              + ghosts (never read by a step): regat r = clock when r was
              registered; lastwake = clock of the watcher's last scan;
              wheld = what the loop held at that scan
     TAdv d     the clock moves forward by max 0 d
     TWake      one iteration of manageTTLs whose timer is consulted now: when
                nea <= clk the scan runs at clk and nea is recalculated, else no-op
     TAct a     any untimed action; its clock readings are replaced by clk
                (ArriveCheck, TtlFire); TAct (TtlScan _) is a scan run by hand
                (whatever nea says; what the harness's "scan" does), it also
                recalculates nea (the recalculation is the last statement of
                the scan's body)

   [skip] = the seeded variant of recalculateNextExpireAt that leaves out the
   entries whose expireAt is before Now() (seed C06-7); false = the code as it is. *)
From Coq Require Import List ZArith Bool.
From Verif Require Import C06.Model.
Import ListNotations.
Open Scope Z_scope.

(* recalculateNextExpireAt at instant [now] over the watcher's table *)
Definition rstep (skip : bool) (s : state) (now : Z) (m r : Z) : Z :=
  let e := expire (info s r) in
  if skip && (e <? now) then m else if e <? m then e else m.

Definition recalc (skip : bool) (c : cfg) (s : state) (now : Z) : Z :=
  fold_left (rstep skip s now) (watch s) (now + ttl c).

Record tstate := {
  base : state;
  clk : Z;
  nea : Z;
  regat : Z -> Z;
  lastwake : Z;
  wheld : option Z
}.

Definition tinit (c : cfg) : tstate :=
  {| base := init; clk := 0; nea := ttl c; regat := fun _ => 0; lastwake := 0; wheld := None |}.

Inductive taction :=
| TAdv (d : Z)
| TWake
| TAct (a : action).

(* the clock readings of an action *)
Definition retime (k : Z) (a : action) : action :=
  match a with
  | ArriveCheck r p _ => ArriveCheck r p k
  | TtlFire _ r => TtlFire k r
  | TtlScan _ => TtlScan k
  | a => a
  end.

(* body of notifyExpiredRequests at the current clock *)
Definition wake_body (skip : bool) (c : cfg) (t : tstate) : tstate :=
  let s' := ttl_scan (base t) (clk t) in
  {| base := s'; clk := clk t; nea := recalc skip c s' (clk t); regat := regat t;
     lastwake := clk t; wheld := held (base t) |}.

Definition due (t : tstate) : bool := nea t <=? clk t.

Definition newly (s s' : state) (r : Z) : bool := negb (memZ r (watch s)) && memZ r (watch s').

(* any untimed action other than a scan, its clock readings replaced by clk *)
Definition tact (c : cfg) (t : tstate) (a : action) : tstate :=
  let s' := step c (base t) (retime (clk t) a) in
  {| base := s'; clk := clk t; nea := nea t;
     regat := match a with
              | ArriveRegister r =>
                  if newly (base t) s' r then (fun x => if x =? r then clk t else regat t x)
                  else regat t
              | _ => regat t
              end;
     lastwake := lastwake t; wheld := wheld t |}.

Definition tstep (skip : bool) (c : cfg) (t : tstate) (a : taction) : tstate :=
  match a with
  | TAdv d =>
      {| base := base t; clk := clk t + Z.max 0 d; nea := nea t; regat := regat t;
         lastwake := lastwake t; wheld := wheld t |}
  | TWake => if due t then wake_body skip c t else t
  | TAct (TtlScan _) => wake_body skip c t
  | TAct a => tact c t a
  end.

Definition trun (skip : bool) (c : cfg) (t : tstate) (sch : list taction) : tstate :=
  fold_left (tstep skip c) sch t.

(* FAIRNESS of the watcher, with wake-up latency [dl] (decidable): time never
   passes more than dl beyond the later of the timer instant and the watcher's
   last scan — i.e. whenever the timer is due (nea <= clk) the TTL goroutine has
   run within the last dl.  The meaningful instances have 1 <= dl.  dl = 0 is
   DEGENERATE in integer time: the scan is strict (an entry is signalled only at
   an instant AFTER its expiry e), so the wake-up at clk = e leaves the entry
   unsignalled with nea = lastwake = e, and the clock step to e + 1 — which the
   signal needs — is already unfair at dl = 0 (e + 1 <= max e e + 0 is false).
   Hence [wfair _ c 0] is false on every schedule in which the clock passes the
   expiry of an entry that stays registered and is not held, and the dl = 0
   instance of the latency theorem says next to nothing
   (Property.C06_wfair_zero_is_degenerate). *)
Fixpoint wfair (skip : bool) (c : cfg) (dl : Z) (t : tstate) (sch : list taction) : bool :=
  match sch with
  | [] => true
  | a :: rest =>
      (match a with
       | TAdv d => clk t + Z.max 0 d <=? Z.max (nea t) (lastwake t) + dl
       | _ => true
       end) && wfair skip c dl (tstep skip c t a) rest
  end.

(* ================= correspondence: suite "sched" =================
   The operations of Model.hstep plus SWake; after every operation the
   implementation's nextExpireAt (relative to the instant the processor was
   created) is compared as well.  HScan / a due SWake recalculate; the
   recalculation runs before the waiters released by the scan are removed from
   the table (the harness holds removals back while the scan body runs). *)
Inductive sop := SOp (o : hop) | SWake.

Definition sobs := (obs * Z)%type.

Record shstate := { sh : hstate; snea : Z }.

Definition sched_variant : bool := false.

Definition sstep (c : cfg) (hdr : bool) (groups : list Z) (h : shstate) (o : sop)
  : shstate * sobs :=
  let scan (_ : unit) :=
    let n := recalc sched_variant c (hs (sh h)) (hnow (sh h)) in
    let '(h', m) := hstep c hdr groups (sh h) HScan in
    ({| sh := h'; snea := n |}, (m, n)) in
  match o with
  | SOp HScan => scan tt
  | SWake =>
      if snea h <=? hnow (sh h) then scan tt
      else let '(h', m) := hstep c hdr groups (sh h) (HAdvance 0) in
           ({| sh := h'; snea := snea h |}, (m, snea h))
  | SOp o =>
      let '(h', m) := hstep c hdr groups (sh h) o in
      ({| sh := h'; snea := snea h |}, (m, snea h))
  end.

Definition eq_sobs (a b : sobs) : bool := eq_obs (fst a) (fst b) && (snd a =? snd b).

Fixpoint srun (c : cfg) (hdr : bool) (groups : list Z) (h : shstate) (n : N)
              (ops : list (sop * sobs)) : option (N * sobs) :=
  match ops with
  | [] => None
  | (o, seen) :: rest =>
      let '(h', m) := sstep c hdr groups h o in
      if eq_sobs m seen then srun c hdr groups h' (n + 1)%N rest else Some (n, m)
  end.

Definition scase := ((Z * Z * Z * bool * list Z) * list (sop * sobs))%type.

(* The clock of a case never goes back: Model.hstep (HAdvance d) adds d as it
   is, [tstep (TAdv d)] adds max 0 d, so a case with a negative step would walk
   through states that are not states of a timed schedule.  Such a case is
   REJECTED (reported as a mismatch at the index of the offending operation, with
   the observation the case carries there) before anything is compared:
   [run_scase k = None] implies that every clock step of k is non-negative
   (Property.C06_sched_suite_clock_steps_nonneg), which is the premise of
   Property.C06_sched_suite_states_are_timed_reachable. *)
Definition nonneg_advb (o : sop) : bool :=
  match o with SOp (HAdvance d) => 0 <=? d | _ => true end.

Fixpoint neg_adv (n : N) (ops : list (sop * sobs)) : option (N * sobs) :=
  match ops with
  | [] => None
  | (o, seen) :: rest => if nonneg_advb o then neg_adv (n + 1)%N rest else Some (n, seen)
  end.

Definition run_scase (k : scase) : option (N * sobs) :=
  let '(p, ops) := k in
  let '(mx, sm, tl, hdr, groups) := p in
  let c := {| qmax := mx; smax := sm; ttl := tl; var := code_variant |} in
  match neg_adv 0%N ops with
  | Some bad => Some bad
  | None =>
      srun c hdr groups
           {| sh := {| hs := init; hnow := 0; hgate := true; hpend := false |}; snea := tl |} 0%N ops
  end.
