(* C06 — model of the flows-mode queue processor
     streams/processors/queue/{queue_processor,queue_request,queue_request_watcher}.go
     streams/lunar-context/shared_queue.go

   State
     info   : request id -> per-request record (the Go *Request object plus the
              program counter of the goroutine that executes enqueue() for it)
     heap   : the shared in-memory priority queue, as the list of its entries
              (priority score, enqueue stamp, request id) sorted by (score, stamp);
              pop = head, Enqueue = sorted insert, Remove = delete first entry of the id
     watch  : ids in the watcher's maps (requests / requestsExpireAt)
     count  : watcher.requestCount
     held   : the request the processing loop has popped and gated (StartProcessing)
              and not yet decided (between TickPop and TickDecide)
     next_stamp : the next reading of time.Now().UnixNano() taken by Enqueue; readings
              are modelled as strictly increasing (trusted: two Enqueue calls are
              separated by a mutex hand-over)
   Ghost fields (never read by the steps): checked (ids between the slot check
   and the registration), admits (ids the quota admitted).

   Atomic steps (each is one critical section or one call the others cannot
   observe half-way; see notes/C06.md for the commutation arguments):
     ArriveCheck r p now  NewRequest + the GetCount() >= max test
     ArriveRegister r     shared-queue size test + registration (count++, maps);
                          with fix b the count test is repeated atomically with the
                          registration, with fix d it is refused once StopAll has run
     ArrivePush r         queue.Enqueue (sorted insert with a fresh stamp)
     TickPop              DequeueIfValueRelevant + GetRequest + StartProcessing
     TickDecide b         quota answered b: b -> SetProcessedSuccess;
                          not b -> re-Enqueue + StopProcessing (loop stops)
     TtlFire now r        TTL watcher on one expired id: StartProcessing gate, then
                          SetProcessedTimeout;  TtlScan now = all ids of the watch list
     WaiterReturn r       waitGroup.Wait() returned; verdict = (result == success)
     Remove r             removeRequest: RemoveFromWatchList + queue.Remove
     Drain                drainQueue -> StopAll (runs on the loop's goroutine, once)

   The code exists in sixteen variants (four independent switches); [fixed] is
   the tree with patches/C06/fix-F-C06{a,b,c,d}.patch applied, [as_found] the tree
   before them.  The correspondence suites evaluate [code_variant]. *)
From Coq Require Import List ZArith Bool.
Import ListNotations.
Open Scope Z_scope.

Inductive rstate := Enq | Proc | Dn.          (* requestEnqueued / Processing / Processed *)
Inductive rres := Pending | TimedOut | Success.
Inductive rpc := PNew | PChecked | PRegistered | PWaiting | PReturned | PGone.

Record rinfo := {
  pc : rpc;
  prio : Z;
  expire : Z;
  st : rstate;
  res : rres;
  dones : Z;                 (* number of waitGroup.Done() calls (the group was Add(1)) *)
  verdict : option bool;     (* what Execute returned: Some true = allowed *)
  astamp : Z                 (* stamp taken when the request entered the queue *)
}.

Definition default_info : rinfo :=
  {| pc := PNew; prio := 0; expire := 0; st := Enq; res := Pending; dones := 0;
     verdict := None; astamp := 0 |}.

Record variant := {
  keep_stamp : bool;    (* a head that is put back keeps its enqueue stamp   (fix F-C06a) *)
  atomic_reg : bool;    (* slot test and registration are one atomic step    (fix F-C06b) *)
  gated_drain : bool;   (* StopAll goes through the StartProcessing gate     (fix F-C06c) *)
  closed_after_drain : bool (* no registration once StopAll has run        (fix F-C06d) *)
}.
Definition fixed : variant :=
  {| keep_stamp := true; atomic_reg := true; gated_drain := true; closed_after_drain := true |}.
Definition as_found : variant :=
  {| keep_stamp := false; atomic_reg := false; gated_drain := false; closed_after_drain := false |}.

Record cfg := { qmax : Z; smax : Z; ttl : Z; var : variant }.

Record state := {
  info : Z -> rinfo;
  heap : list (Z * Z * Z);
  watch : list Z;
  count : Z;
  next_stamp : Z;
  held : option Z;
  drained : bool;
  checked : list Z;
  admits : list Z
}.

Definition init : state :=
  {| info := fun _ => default_info; heap := []; watch := []; count := 0; next_stamp := 0;
     held := None; drained := false; checked := []; admits := [] |}.

(* ---- per-request record updates ---- *)
Definition upd (f : Z -> rinfo) (r : Z) (i : rinfo) : Z -> rinfo :=
  fun x => if x =? r then i else f x.

Definition set_pc (i : rinfo) (p : rpc) : rinfo :=
  {| pc := p; prio := prio i; expire := expire i; st := st i; res := res i; dones := dones i;
     verdict := verdict i; astamp := astamp i |}.
Definition set_st (i : rinfo) (s : rstate) : rinfo :=
  {| pc := pc i; prio := prio i; expire := expire i; st := s; res := res i; dones := dones i;
     verdict := verdict i; astamp := astamp i |}.
(* SetProcessedSuccess / SetProcessedTimeout: result, state, one Done *)
Definition signal (i : rinfo) (r : rres) : rinfo :=
  {| pc := pc i; prio := prio i; expire := expire i; st := Dn; res := r; dones := dones i + 1;
     verdict := verdict i; astamp := astamp i |}.
Definition arrive (i : rinfo) (p : rpc) (pr ex : Z) (v : option bool) : rinfo :=
  {| pc := p; prio := pr; expire := ex; st := st i; res := res i; dones := dones i;
     verdict := v; astamp := astamp i |}.
Definition pushed (i : rinfo) (t : Z) : rinfo :=
  {| pc := PWaiting; prio := prio i; expire := expire i; st := st i; res := res i; dones := dones i;
     verdict := verdict i; astamp := t |}.
Definition returned (i : rinfo) : rinfo :=
  {| pc := PReturned; prio := prio i; expire := expire i; st := st i; res := res i; dones := dones i;
     verdict := Some (match res i with Success => true | _ => false end); astamp := astamp i |}.

Definition is_enq (i : rinfo) : bool := match st i with Enq => true | _ => false end.

(* ---- the heap as a sorted list ---- *)
Definition key_le (a b : Z * Z * Z) : bool :=
  let '(p1, t1, _) := a in let '(p2, t2, _) := b in
  (p1 <? p2) || ((p1 =? p2) && (t1 <=? t2)).

Fixpoint hinsert (e : Z * Z * Z) (h : list (Z * Z * Z)) : list (Z * Z * Z) :=
  match h with
  | [] => [e]
  | x :: h' => if key_le x e then x :: hinsert e h' else e :: x :: h'
  end.

Fixpoint hremove (r : Z) (h : list (Z * Z * Z)) : list (Z * Z * Z) :=
  match h with
  | [] => []
  | (p, t, x) :: h' => if x =? r then h' else (p, t, x) :: hremove r h'
  end.

Definition memZ (r : Z) (l : list Z) : bool := existsb (fun x => x =? r) l.
Definition removeZ (r : Z) (l : list Z) : list Z := filter (fun x => negb (x =? r)) l.

(* ---- state updates ---- *)
Definition with_info (s : state) (f : Z -> rinfo) : state :=
  {| info := f; heap := heap s; watch := watch s; count := count s; next_stamp := next_stamp s;
     held := held s; drained := drained s; checked := checked s; admits := admits s |}.

Inductive action :=
| ArriveCheck (r p now : Z)
| ArriveRegister (r : Z)
| ArrivePush (r : Z)
| TickPop
| TickDecide (granted : bool)
| TtlFire (now r : Z)
| TtlScan (now : Z)
| WaiterReturn (r : Z)
| Remove (r : Z)
| Drain.

Definition arrive_check (c : cfg) (s : state) (r p now : Z) : state :=
  let i := info s r in
  match pc i with
  | PNew =>
      if qmax c <=? count s
      then with_info s (upd (info s) r (arrive i PGone p (now + ttl c) (Some false)))
      else {| info := upd (info s) r (arrive i PChecked p (now + ttl c) None);
              heap := heap s; watch := watch s; count := count s; next_stamp := next_stamp s;
              held := held s; drained := drained s; checked := r :: checked s; admits := admits s |}
  | _ => s
  end.

Definition shared_full (c : cfg) (s : state) : bool :=
  (-1 <? smax c) && (smax c <=? Z.of_nat (length (heap s))).

Definition arrive_register (c : cfg) (s : state) (r : Z) : state :=
  let i := info s r in
  match pc i with
  | PChecked =>
      if shared_full c s || (atomic_reg (var c) && (qmax c <=? count s))
         || (closed_after_drain (var c) && drained s)
      then {| info := upd (info s) r (arrive i PGone (prio i) (expire i) (Some false));
              heap := heap s; watch := watch s; count := count s; next_stamp := next_stamp s;
              held := held s; drained := drained s; checked := removeZ r (checked s);
              admits := admits s |}
      else {| info := upd (info s) r (set_pc i PRegistered);
              heap := heap s; watch := r :: watch s; count := count s + 1;
              next_stamp := next_stamp s; held := held s; drained := drained s;
              checked := removeZ r (checked s); admits := admits s |}
  | _ => s
  end.

Definition arrive_push (s : state) (r : Z) : state :=
  let i := info s r in
  match pc i with
  | PRegistered =>
      let t := next_stamp s in
      {| info := upd (info s) r (pushed i t);
         heap := hinsert (prio i, t, r) (heap s); watch := watch s; count := count s;
         next_stamp := t + 1; held := held s; drained := drained s; checked := checked s;
         admits := admits s |}
  | _ => s
  end.

Definition tick_pop (s : state) : state :=
  if drained s then s else
  match held s with
  | Some _ => s
  | None =>
      match heap s with
      | [] => s
      | (p, t, r) :: h' =>
          if memZ r (watch s) && is_enq (info s r)
          then {| info := upd (info s) r (set_st (info s r) Proc);
                  heap := h'; watch := watch s; count := count s; next_stamp := next_stamp s;
                  held := Some r; drained := drained s; checked := checked s; admits := admits s |}
          else {| info := info s; heap := h'; watch := watch s; count := count s;
                  next_stamp := next_stamp s; held := None; drained := drained s;
                  checked := checked s; admits := admits s |}
      end
  end.

Definition tick_decide (c : cfg) (s : state) (granted : bool) : state :=
  match held s with
  | None => s
  | Some r =>
      let i := info s r in
      if granted
      then {| info := upd (info s) r (signal i Success);
              heap := heap s; watch := watch s; count := count s; next_stamp := next_stamp s;
              held := None; drained := drained s; checked := checked s; admits := r :: admits s |}
      else
        if keep_stamp (var c)
        then {| info := upd (info s) r (set_st i Enq);
                heap := hinsert (prio i, astamp i, r) (heap s); watch := watch s; count := count s;
                next_stamp := next_stamp s; held := None; drained := drained s;
                checked := checked s; admits := admits s |}
        else {| info := upd (info s) r (set_st i Enq);
                heap := hinsert (prio i, next_stamp s, r) (heap s); watch := watch s;
                count := count s; next_stamp := next_stamp s + 1; held := None;
                drained := drained s; checked := checked s; admits := admits s |}
  end.

Definition ttl_fire (s : state) (now r : Z) : state :=
  let i := info s r in
  if memZ r (watch s) && (expire i <? now) && is_enq i
  then with_info s (upd (info s) r (signal i TimedOut))
  else s.

Definition ttl_scan (s : state) (now : Z) : state :=
  fold_left (fun s' r => ttl_fire s' now r) (watch s) s.

Definition waiter_return (s : state) (r : Z) : state :=
  let i := info s r in
  match pc i with
  | PWaiting => if 1 <=? dones i then with_info s (upd (info s) r (returned i)) else s
  | _ => s
  end.

Definition remove (s : state) (r : Z) : state :=
  let i := info s r in
  match pc i with
  | PReturned =>
      {| info := upd (info s) r (set_pc i PGone);
         heap := hremove r (heap s); watch := removeZ r (watch s); count := count s - 1;
         next_stamp := next_stamp s; held := held s; drained := drained s;
         checked := checked s; admits := admits s |}
  | _ => s
  end.

(* StopAll on one request of the watch list *)
Definition release (c : cfg) (s : state) (r : Z) : state :=
  let i := info s r in
  if gated_drain (var c)
  then (if is_enq i then with_info s (upd (info s) r (signal i TimedOut)) else s)
  else with_info s (upd (info s) r (signal i TimedOut)).

Definition drain (c : cfg) (s : state) : state :=
  if drained s then s else
  match held s with
  | Some _ => s
  | None =>
      let s1 := fold_left (release c) (watch s) s in
      {| info := info s1; heap := heap s1; watch := watch s1; count := count s1;
         next_stamp := next_stamp s1; held := held s1; drained := true;
         checked := checked s1; admits := admits s1 |}
  end.

Definition step (c : cfg) (s : state) (a : action) : state :=
  match a with
  | ArriveCheck r p now => arrive_check c s r p now
  | ArriveRegister r => arrive_register c s r
  | ArrivePush r => arrive_push s r
  | TickPop => tick_pop s
  | TickDecide b => tick_decide c s b
  | TtlFire now r => ttl_fire s now r
  | TtlScan now => ttl_scan s now
  | WaiterReturn r => waiter_return s r
  | Remove r => remove s r
  | Drain => drain c s
  end.

(* a schedule = any list of actions; an action whose guard (program order of its
   goroutine) does not hold is a no-op, so "all lists" covers all interleavings *)
Definition run (c : cfg) (s : state) (sch : list action) : state := fold_left (step c) sch s.

(* number of requests registered whose waiter has not returned *)
Definition is_waiting_pc (i : rinfo) : bool :=
  match pc i with PRegistered | PWaiting => true | _ => false end.
Definition waiting (s : state) : Z :=
  Z.of_nat (length (filter (fun r => is_waiting_pc (info s r)) (watch s))).

(* ================= correspondence: harness operations ================= *)

Inductive hop :=
| HArrive (r : Z) (g : option Z)
| HCheck (r : Z) (g : option Z)
| HEnter (r : Z)
| HTick
| HAnswer (b : bool)
| HSignal
| HScan
| HAdvance (d : Z)
| HGate (b : bool)
| HDrain.

(* observation after an operation: the call returned "blocked" at once; the request
   the loop holds (0 = none); a panic; verdicts returned (sorted by id) *)
Definition obs := (bool * Z * bool * list (Z * bool))%type.

Definition code_variant : variant := fixed.

Record hstate := { hs : state; hnow : Z; hgate : bool; hpend : bool }.

(* extractPriority: no header configured -> 0; header absent or group unknown -> 999 *)
Definition prio_of (hdr : bool) (groups : list Z) (g : option Z) : Z :=
  if hdr then
    match g with
    | None => 999
    | Some k => if k <? 0 then 999 else nth (Z.to_nat k) groups 999
    end
  else 0.

(* the loop keeps popping until it holds a request or the queue is empty *)
Fixpoint pop_loop (fuel : nat) (c : cfg) (s : state) : state :=
  match fuel with
  | O => s
  | S f =>
      match held s with
      | Some _ => s
      | None => match heap s with [] => s | _ => pop_loop f c (step c s TickPop) end
      end
  end.
Definition pops (c : cfg) (s : state) : state := pop_loop (S (length (heap s))) c s.

Definition asking (s : state) : Z := match held s with Some r => r | None => 0 end.

Fixpoint insert_sorted (x : Z) (l : list Z) : list Z :=
  match l with
  | [] => [x]
  | y :: l' => if x <=? y then x :: l else y :: insert_sorted x l'
  end.
Definition sortZ (l : list Z) : list Z := fold_right insert_sorted [] l.

(* every waiter whose group was signalled returns; then (gate open) every
   returned request is removed *)
Definition settle (c : cfg) (gate : bool) (s : state) : state * list (Z * bool) :=
  let ids := sortZ (watch s) in
  let '(s1, out) :=
    fold_left (fun (acc : state * list (Z * bool)) r =>
      let '(s', o) := acc in
      let i := info s' r in
      match pc i with
      | PWaiting =>
          if 1 <=? dones i
          then let s'' := step c s' (WaiterReturn r) in
               (s'', o ++ [(r, match verdict (info s'' r) with Some true => true | _ => false end)])
          else acc
      | _ => acc
      end) ids (s, []) in
  let s2 := if gate
            then fold_left (fun s' r => match pc (info s' r) with
                                         | PReturned => step c s' (Remove r)
                                         | _ => s' end) ids s1
            else s1 in
  (s2, out).

(* right after an arrival step the only way to have a verdict is a rejection *)
Definition rejected (s : state) (r : Z) : bool :=
  match verdict (info s r) with Some false => true | _ => false end.

Definition hstep (c : cfg) (hdr : bool) (groups : list Z) (h : hstate) (o : hop) : hstate * obs :=
  let s := hs h in
  let '(s1, now1, gate1, pend1, rej, pan) :=
    match o with
    | HArrive r g =>
        let s' := run c s [ArriveCheck r (prio_of hdr groups g) (hnow h); ArriveRegister r; ArrivePush r] in
        (s', hnow h, hgate h, hpend h, rejected s' r, false)
    | HCheck r g =>
        let s' := step c s (ArriveCheck r (prio_of hdr groups g) (hnow h)) in
        (s', hnow h, hgate h, hpend h, rejected s' r, false)
    | HEnter r =>
        let s' := run c s [ArriveRegister r; ArrivePush r] in
        (s', hnow h, hgate h, hpend h, rejected s' r, false)
    | HTick =>
        if hpend h then (s, hnow h, hgate h, hpend h, false, false)
        else (pops c s, hnow h, hgate h, false, false, false)
    | HAnswer b =>
        if b then (s, hnow h, hgate h, true, false, false)
        else (step c s (TickDecide false), hnow h, hgate h, false, false, false)
    | HSignal =>
        if hpend h then (pops c (step c s (TickDecide true)), hnow h, hgate h, false, false, false)
        else (s, hnow h, hgate h, false, false, false)
    | HScan => (step c s (TtlScan (hnow h)), hnow h, hgate h, hpend h, false, false)
    | HAdvance d => (s, hnow h + d, hgate h, hpend h, false, false)
    | HGate b => (s, hnow h, b, hpend h, false, false)
    | HDrain =>
        let s' := step c s Drain in
        (s', hnow h, hgate h, hpend h, false, existsb (fun r => 1 <? dones (info s' r)) (watch s'))
    end in
  let '(s2, out) := settle c gate1 s1 in
  ({| hs := s2; hnow := now1; hgate := gate1; hpend := pend1 |}, (rej, asking s2, pan, out)).

Fixpoint eq_out (a b : list (Z * bool)) : bool :=
  match a, b with
  | [], [] => true
  | (x, u) :: a', (y, v) :: b' => (x =? y) && eqb u v && eq_out a' b'
  | _, _ => false
  end.
Definition eq_obs (a b : obs) : bool :=
  let '(r1, k1, p1, o1) := a in let '(r2, k2, p2, o2) := b in
  eqb r1 r2 && (k1 =? k2) && eqb p1 p2 && eq_out o1 o2.

Fixpoint hrun (c : cfg) (hdr : bool) (groups : list Z) (h : hstate) (n : N)
              (ops : list (hop * obs)) : option (N * obs) :=
  match ops with
  | [] => None
  | (o, seen) :: rest =>
      let '(h', m) := hstep c hdr groups h o in
      if eq_obs m seen then hrun c hdr groups h' (n + 1)%N rest else Some (n, m)
  end.

(* case = ((queue_size, shared size, ttl ns, header configured, group priorities),
           operations with what the implementation showed) *)
Definition case := ((Z * Z * Z * bool * list Z) * list (hop * obs))%type.

(* None = the model shows what the implementation showed on every operation;
   Some (index of the first differing operation, the model's observation) *)
Definition run_case (k : case) : option (N * obs) :=
  let '(p, ops) := k in
  let '(mx, sm, tl, hdr, groups) := p in
  let c := {| qmax := mx; smax := sm; ttl := tl; var := code_variant |} in
  hrun c hdr groups {| hs := init; hnow := 0; hgate := true; hpend := false |} 0%N ops.
