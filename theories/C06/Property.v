(* C06 — Queued requests: one verdict within TTL, priority order, bounded queue.
   Final statements only; the lemmas are in Proofs.v, the model in Model.v.

   Every statement quantifies over ALL schedules: [sch] ranges over all lists of
   atomic actions (an action whose guard — program order of its goroutine — does
   not hold is a no-op, so every interleaving of arrivals, the processing loop,
   the TTL watcher, waiters, removals and the drain is some list), over all
   quota behaviours (the quota's answer is the argument of [TickDecide]), all
   clock readings (arguments of [ArriveCheck], [TtlFire], [TtlScan]) and all
   settings [c].  [var c] says which tree is meant: [fixed] = the tree with
   fix-F-C06a/b/c/d applied (what the correspondence suites run), [as_found] = the
   tree before them.  Statements without a hypothesis on [var c] hold for both. *)
From Coq Require Import List ZArith Bool Lia.
From Verif Require Import C06.Model C06.Proofs.
Import ListNotations.
Open Scope Z_scope.

(* ---------------------------------------------------------------- quota *)

(* A request is allowed only by a TickDecide whose quota answer was "yes" and
   that was taken while the loop held exactly this request; no request is
   admitted twice. *)
Theorem C06_quota_respected : forall c sch r,
  verdict (info (run c init sch) r) = Some true ->
  (exists sch1 sch2, sch = sch1 ++ TickDecide true :: sch2 /\ held (run c init sch1) = Some r)
  /\ NoDup (admits (run c init sch)).
Proof.
  intros c sch r H. destruct (Inv_run c sch) as (_ & _ & _ & HD).
  split; [apply admits_origin; exact (D_verd _ HD r H)|exact (D_nodup _ HD)].
Qed.
Print Assumptions C06_quota_respected.

Example C06_quota_respected_ex :
  let c := {| qmax := 2; smax := -1; ttl := 10; var := fixed |} in
  let s := run c init [ArriveCheck 1 0 0; ArriveRegister 1; ArrivePush 1; TickPop; TickDecide true;
                       WaiterReturn 1] in
  verdict (info s 1) = Some true /\ admits s = [1].
Proof. vm_compute. auto. Qed.

(* ---------------------------------------------------------------- one verdict *)

(* Without Drain no request is ever signalled twice (the WaitGroup never goes
   negative), whatever the tree; and once a TTL scan ran at an instant after the
   expiry of a registered request, that request has exactly one signal — unless
   the loop holds it at that moment (then the loop's own decision follows). *)
Theorem C06_one_verdict_no_drain : forall c sch, no_drain sch ->
  (forall r, dones (info (run c init sch) r) <= 1) /\
  (forall sch1 now sch2 r, sch = sch1 ++ TtlScan now :: sch2 ->
     In r (watch (run c init sch1)) -> expire (info (run c init sch1) r) < now ->
     dones (info (run c init sch) r) = 1 \/
     held (run c init (sch1 ++ [TtlScan now])) = Some r).
Proof.
  intros c sch Hnd.
  destruct (ABE_run c sch (no_drain_pre c sch init Hnd)) as (HA & HB & HE).
  split; [exact HE|].
  intros sch1 now sch2 r -> Hw Hx.
  pose proof (ttl_scan_reaches (run c init sch1) now r Hw Hx) as Hst.
  assert (Hrun : run c init (sch1 ++ [TtlScan now]) = ttl_scan (run c init sch1) now)
    by (rewrite run_app; reflexivity).
  destruct (Inv_run c (sch1 ++ [TtlScan now])) as (_ & HB1 & _). rewrite Hrun in *.
  destruct (st (info (ttl_scan (run c init sch1) now) r)) eqn:Est; [congruence| |].
  - right. apply HB1. exact Est.
  - left. pose proof (B_d1 _ HB1 r Est) as H1.
    pose proof (dones_mono_run c sch2 (ttl_scan (run c init sch1) now) r) as Hm.
    specialize (HE r).
    replace (run c init (sch1 ++ TtlScan now :: sch2))
      with (run c (ttl_scan (run c init sch1) now) sch2) in *
      by (rewrite run_app; reflexivity).
    lia.
Qed.
Print Assumptions C06_one_verdict_no_drain.

Example C06_one_verdict_no_drain_ex :
  let c := {| qmax := 2; smax := -1; ttl := 10; var := as_found |} in
  let sch1 := [ArriveCheck 1 0 0; ArriveRegister 1; ArrivePush 1] in
  no_drain (sch1 ++ [TtlScan 11]) /\ In 1 (watch (run c init sch1)) /\
  expire (info (run c init sch1) 1) < 11 /\
  dones (info (run c init (sch1 ++ [TtlScan 11])) 1) = 1 /\
  dones (info (run c init (sch1 ++ [TtlScan 10])) 1) = 0.
Proof. vm_compute. intuition congruence. Qed.

(* ---------------------------------------------------------------- drain *)

(* At most one signal per request on every schedule on which, whenever an
   ungated drain runs, no already-signalled request is still in the watch list
   (this side condition is what the monitor's classifier computes; with the
   gate — fix F-C06c — it is vacuous). *)
Theorem C06_drain_safe_when_removed : forall c sch,
  trace_ok c (drain_pre c) init sch ->
  forall r, dones (info (run c init sch) r) <= 1.
Proof. intros c sch H. apply (ABE_run c sch H). Qed.
Print Assumptions C06_drain_safe_when_removed.

Example C06_drain_safe_when_removed_ex :
  let c := {| qmax := 2; smax := -1; ttl := 10; var := as_found |} in
  let sch := [ArriveCheck 1 0 0; ArriveRegister 1; ArrivePush 1; ArriveCheck 2 0 0; ArriveRegister 2;
              ArrivePush 2; TickPop; TickDecide true; WaiterReturn 1; Remove 1; Drain] in
  trace_ok c (drain_pre c) init sch /\
  dones (info (run c init sch) 1) = 1 /\ dones (info (run c init sch) 2) = 1.
Proof.
  cbn zeta. split; [|vm_compute; auto].
  cbn [trace_ok drain_pre]. repeat split. right. intros r Hr. vm_compute in Hr.
  destruct Hr as [<-|[]]. vm_compute. discriminate.
Qed.

(* The drain releases every registered request. *)
Theorem C06_drain_releases_all : forall c sch r,
  let s := run c init sch in
  drained s = false -> held s = None -> In r (watch s) ->
  st (info (step c s Drain) r) = Dn /\ 1 <= dones (info (step c s Drain) r).
Proof.
  intros c sch r s Hd Hh Hw. destruct (Inv_run c sch) as (_ & HB & _).
  pose proof (drain_reaches c s r HB Hd Hh Hw) as Hst. split; [exact Hst|].
  destruct (Inv_run c (sch ++ [Drain])) as (_ & HB' & _). rewrite run_app in HB'.
  apply (B_d1 _ HB'). exact Hst.
Qed.
Print Assumptions C06_drain_releases_all.

(* With registration closed by the drain (fix F-C06d): once the drain has run,
   every request in the watch list has been signalled — nobody can be left (or
   arrive later and be left) waiting for a loop and a watcher that are gone. *)
Theorem C06_nobody_left_after_drain : forall c sch r,
  closed_after_drain (var c) = true ->
  let s := run c init sch in
  drained s = true -> In r (watch s) -> st (info s r) = Dn /\ 1 <= dones (info s r).
Proof.
  intros c sch r Hc s Hd Hw. destruct (BG_run c sch) as [HB [_ G2]]. fold s in HB, G2.
  pose proof (G2 Hc Hd r Hw) as Hst. split; [exact Hst|]. apply (B_d1 _ HB). exact Hst.
Qed.
Print Assumptions C06_nobody_left_after_drain.

Example C06_nobody_left_after_drain_ex :
  let c := {| qmax := 2; smax := -1; ttl := 10; var := fixed |} in
  let s := run c init [ArriveCheck 1 0 0; ArriveRegister 1; ArrivePush 1; ArriveCheck 2 0 0; Drain;
                       ArriveRegister 2; ArrivePush 2] in
  drained s = true /\ watch s = [1] /\ dones (info s 1) = 1 /\ verdict (info s 2) = Some false.
Proof. vm_compute. auto. Qed.

(* ---------------------------------------------------------------- order *)

(* Whatever the tree: the request the loop takes next (head of the queue that
   passes the gate) has the lowest priority number among all waiting requests. *)
Theorem C06_order_across_priorities : forall c sch r r',
  let s := run c init sch in
  picks s r -> is_waiting s r' -> prio (info s r) <= prio (info s r').
Proof. intros c sch r r' s. apply (pick_prio c). apply Inv_run. Qed.
Print Assumptions C06_order_across_priorities.

(* With stamp-preserving re-enqueue (fix F-C06a): strictly ordered by
   (priority number, arrival stamp) ... *)
Theorem C06_fifo_within_priority : forall c sch r r',
  keep_stamp (var c) = true ->
  let s := run c init sch in
  picks s r -> is_waiting s r' -> r' <> r ->
  lex_lt (prio (info s r)) (astamp (info s r)) (prio (info s r')) (astamp (info s r')).
Proof. intros c sch r r' Hk s. apply (pick_fifo c); [exact Hk|apply Inv_run]. Qed.
Print Assumptions C06_fifo_within_priority.

(* ... where the arrival stamp is the order of entry into the queue: a request
   entering the queue gets a stamp above those of all requests that entered
   before it, and stamps never change afterwards. *)
Theorem C06_stamp_is_arrival_order : forall c sch r r',
  let s := run c init sch in
  pc (info s r') = PRegistered -> pushed_pc (info s r) ->
  let s' := step c s (ArrivePush r') in
  astamp (info s' r) = astamp (info s r) /\ astamp (info s' r) < astamp (info s' r').
Proof. intros c sch r r' s. apply (push_stamp c). apply Inv_run. Qed.
Print Assumptions C06_stamp_is_arrival_order.

Example C06_order_ex :
  let c := {| qmax := 3; smax := -1; ttl := 10; var := fixed |} in
  let s := run c init [ArriveCheck 1 5 0; ArriveRegister 1; ArrivePush 1;
                       ArriveCheck 2 0 0; ArriveRegister 2; ArrivePush 2;
                       ArriveCheck 3 0 0; ArriveRegister 3; ArrivePush 3;
                       TickPop; TickDecide false] in
  picks s 2 /\ is_waiting s 3 /\ is_waiting s 1 /\ heap s = [(0, 1, 2); (0, 2, 3); (5, 0, 1)].
Proof.
  cbn zeta. split; [|vm_compute; auto].
  exists 0, 1, [(0, 2, 3); (5, 0, 1)]. vm_compute. auto.
Qed.

(* ---------------------------------------------------------------- bound *)

(* At no time do more than queue_size requests wait, on every schedule on which
   (when registration is not atomic) an arrival runs its slot check only while
   no other arrival is between check and registration; with atomic registration
   — fix F-C06b — the side condition is vacuous. *)
Theorem C06_bound_when_arrival_atomic : forall c sch,
  trace_ok c (arrival_pre c) init sch ->
  waiting (run c init sch) <= Z.max 0 (qmax c).
Proof.
  intros c sch H. destruct (AF_run c sch H) as [HA HF]. apply (bound_of_InvF c); assumption.
Qed.
Print Assumptions C06_bound_when_arrival_atomic.

Example C06_bound_when_arrival_atomic_ex :
  let c := {| qmax := 1; smax := -1; ttl := 10; var := as_found |} in
  let sch := [ArriveCheck 1 0 0; ArriveRegister 1; ArrivePush 1; ArriveCheck 2 0 0; ArriveRegister 2] in
  trace_ok c (arrival_pre c) init sch /\ waiting (run c init sch) = 1 /\
  verdict (info (run c init sch) 2) = Some false.
Proof. cbn zeta. split; [|vm_compute; auto]. cbn. repeat split; right; reflexivity. Qed.

(* ---------------------------------------------------------------- the full property *)

(* exactly-one verdict  /\  allowed only when the quota admitted  /\  priority/FIFO
   admission order  /\  |waiting| <= queue_size  /\  drain-safe (every registered
   request ends the drain with exactly one signal, and after the drain nobody is
   in the watch list without its signal)  /\  a TTL scan after expiry leaves
   exactly one signal (unless the loop holds the request) — for all schedules of
   the tree [v]. *)
Definition C06_full (v : variant) : Prop :=
  forall c, var c = v -> forall sch, let s := run c init sch in
    (forall r, dones (info s r) <= 1) /\
    (forall r, verdict (info s r) = Some true -> In r (admits s)) /\
    (forall r r', picks s r -> is_waiting s r' -> r' <> r ->
       lex_lt (prio (info s r)) (astamp (info s r)) (prio (info s r')) (astamp (info s r'))) /\
    waiting s <= Z.max 0 (qmax c) /\
    (drained s = false -> held s = None ->
       forall r, In r (watch s) -> dones (info (step c s Drain) r) = 1) /\
    (drained s = true -> forall r, In r (watch s) -> dones (info s r) = 1) /\
    (forall now r, In r (watch s) -> expire (info s r) < now ->
       dones (info (step c s (TtlScan now)) r) = 1 \/ held (step c s (TtlScan now)) = Some r).

(* The tree with the three fixes satisfies it. *)
Theorem C06_full_fixed : C06_full fixed.
Proof.
  intros c Hv sch s.
  assert (Hg : gated_drain (var c) = true) by (rewrite Hv; reflexivity).
  assert (Ha : atomic_reg (var c) = true) by (rewrite Hv; reflexivity).
  assert (Hk : keep_stamp (var c) = true) by (rewrite Hv; reflexivity).
  assert (Hc : closed_after_drain (var c) = true) by (rewrite Hv; reflexivity).
  assert (HE : forall sch', forall r, dones (info (run c init sch') r) <= 1).
  { intros sch'. apply (ABE_run c sch' (gated_pre c sch' init Hg)). }
  pose proof (Inv_run c sch) as HI. fold s in HI. pose proof HI as (HA & HB & HC & HD).
  split; [apply HE|]. split; [exact (D_verd _ HD)|].
  split; [intros r r'; apply (pick_fifo c); assumption|].
  split; [apply (C06_bound_when_arrival_atomic c sch), atomic_pre, Ha|].
  split; [|split].
  - intros Hd Hh r Hw.
    destruct (C06_drain_releases_all c sch r Hd Hh Hw) as [_ H1]. fold s in H1.
    specialize (HE (sch ++ [Drain]) r). rewrite run_app in HE. cbn [run fold_left] in HE.
    fold s in HE. lia.
  - intros Hd r Hw.
    destruct (C06_nobody_left_after_drain c sch r Hc Hd Hw) as [_ H1]. fold s in H1.
    specialize (HE sch r). fold s in HE. lia.
  - intros now r Hw Hx. pose proof (ttl_scan_reaches s now r Hw Hx) as Hst.
    destruct (Inv_run c (sch ++ [TtlScan now])) as (_ & HB1 & _).
    specialize (HE (sch ++ [TtlScan now]) r). rewrite run_app in HB1, HE.
    cbn [run fold_left step] in HB1, HE. fold s in HB1, HE. cbn [step].
    destruct (st (info (ttl_scan s now) r)) eqn:Est; [congruence| |].
    + right. apply HB1. exact Est.
    + left. pose proof (B_d1 _ HB1 r Est). lia.
Qed.
Print Assumptions C06_full_fixed.

(* Each fix is needed: a tree lacking any single one of them violates the full
   property, by four independent witnesses (F-C06a, F-C06b, F-C06c, F-C06d). *)

(* F-C06a: r2, r3, r4 of equal priority; the quota refuses the head r2, which is
   put back with a new stamp: the loop then takes r3 although r2 arrived first. *)
Theorem C06_full_refuted_without_fix_a :
  ~ C06_full {| keep_stamp := false; atomic_reg := true; gated_drain := true; closed_after_drain := true |}.
Proof.
  intros H.
  specialize (H {| qmax := 3; smax := -1; ttl := 10;
                   var := {| keep_stamp := false; atomic_reg := true; gated_drain := true; closed_after_drain := true |} |} eq_refl
                [ArriveCheck 2 0 0; ArriveRegister 2; ArrivePush 2;
                 ArriveCheck 3 0 0; ArriveRegister 3; ArrivePush 3;
                 ArriveCheck 4 0 0; ArriveRegister 4; ArrivePush 4;
                 TickPop; TickDecide false]).
  cbn zeta in H. destruct H as (_ & _ & H & _).
  specialize (H 3 2).
  assert (L : lex_lt 0 1 0 0); [|unfold lex_lt in L; lia].
  apply H.
  - exists 0, 1, [(0, 2, 4); (0, 3, 2)]. vm_compute. auto.
  - vm_compute. auto.
  - discriminate.
Qed.
Print Assumptions C06_full_refuted_without_fix_a.

(* F-C06b: queue_size 1; two arrivals both pass the slot check before either
   registers: two requests wait. *)
Theorem C06_full_refuted_without_fix_b :
  ~ C06_full {| keep_stamp := true; atomic_reg := false; gated_drain := true; closed_after_drain := true |}.
Proof.
  intros H.
  specialize (H {| qmax := 1; smax := -1; ttl := 10;
                   var := {| keep_stamp := true; atomic_reg := false; gated_drain := true; closed_after_drain := true |} |} eq_refl
                [ArriveCheck 1 0 0; ArriveCheck 2 0 0; ArriveRegister 1; ArriveRegister 2]).
  cbn zeta in H. destruct H as (_ & _ & _ & H & _). vm_compute in H. apply H. reflexivity.
Qed.
Print Assumptions C06_full_refuted_without_fix_b.

(* F-C06c: a request is admitted, its removal from the watch list has not run
   yet, shutdown: StopAll signals it a second time (negative WaitGroup counter). *)
Theorem C06_full_refuted_without_fix_c :
  ~ C06_full {| keep_stamp := true; atomic_reg := true; gated_drain := false; closed_after_drain := true |}.
Proof.
  intros H.
  specialize (H {| qmax := 1; smax := -1; ttl := 10;
                   var := {| keep_stamp := true; atomic_reg := true; gated_drain := false; closed_after_drain := true |} |} eq_refl
                [ArriveCheck 1 0 0; ArriveRegister 1; ArrivePush 1; TickPop; TickDecide true; Drain]).
  cbn zeta in H. destruct H as (H & _). specialize (H 1). vm_compute in H. apply H. reflexivity.
Qed.
Print Assumptions C06_full_refuted_without_fix_c.

(* F-C06d: shutdown, then a request registers: the loop and the watcher are gone,
   nobody will ever signal it. *)
Theorem C06_full_refuted_without_fix_d :
  ~ C06_full {| keep_stamp := true; atomic_reg := true; gated_drain := true; closed_after_drain := false |}.
Proof.
  intros H.
  specialize (H {| qmax := 1; smax := -1; ttl := 10;
                   var := {| keep_stamp := true; atomic_reg := true; gated_drain := true;
                             closed_after_drain := false |} |} eq_refl
                [Drain; ArriveCheck 1 0 0; ArriveRegister 1; ArrivePush 1]).
  cbn zeta in H. destruct H as (_ & _ & _ & _ & _ & H & _).
  specialize (H eq_refl 1 (or_introl eq_refl)). vm_compute in H. discriminate.
Qed.
Print Assumptions C06_full_refuted_without_fix_d.

(* The tree as found (none of the fixes) violates it too — here by the drain witness. *)
Theorem C06_full_refuted_as_found : ~ C06_full as_found.
Proof.
  intros H.
  specialize (H {| qmax := 1; smax := -1; ttl := 10; var := as_found |} eq_refl
                [ArriveCheck 1 0 0; ArriveRegister 1; ArrivePush 1; TickPop; TickDecide true; Drain]).
  cbn zeta in H. destruct H as (H & _). specialize (H 1). vm_compute in H. apply H. reflexivity.
Qed.
Print Assumptions C06_full_refuted_as_found.
