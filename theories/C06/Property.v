(* C06 — Queued requests: one verdict within TTL, priority order, bounded queue.
   Final statements only; the lemmas are in Proofs.v, the model in Model.v.

   Every statement quantifies over ALL schedules: [sch] ranges over all lists of
   atomic actions (an action whose guard — program order of its goroutine — does
   not hold is a no-op, so every interleaving of arrivals, the processing loop,
   the TTL watcher, waiters, removals and the drain is some list), over all
   quota behaviours (the quota's answer is the argument of [TickDecide]), all
   clock readings (arguments of [ArriveCheck], [TtlFire], [TtlScan]) and all
   settings [c].  [var c] says which tree is meant: [fixed] = the tree with
   fix-F-C06a/b/c/d applied (what the correspondence suites run), [as_found] = the
   tree before them.  Statements without a hypothesis on [var c] hold for both.

   Sections: quota; one signal; drain; order at a pick; bound; VERDICTS (the
   [verdict] field: given exactly when Execute returned, written once);
   EXISTENCE (a verdict is reachable from every reachable state); LIVENESS under
   an explicit fairness hypothesis ([serves]); ADMISSIONS (every admission goes
   back to a pick; no overtaking, on traces); no early time-out; counter bound
   under the exact side condition; model vs suites vs code granularity; the full
   property and the refutations for the trees lacking a fix; SCHEDULING OF THE
   TTL WATCHER (Sched.v: the model with a clock and the watcher's timer
   nextExpireAt; "no later than TTL plus slack" with the slack explicit, under an
   explicit fairness hypothesis on the TTL goroutine; refuted for the variant of
   the recalculation that skips entries already past their expiry). *)
From Coq Require Import List ZArith Bool Lia.
From Verif Require Import C06.Model C06.Proofs C06.Liveness C06.Bridge C06.Sched C06.SchedProofs.
Import ListNotations.
Open Scope Z_scope.

(* ---------------------------------------------------------------- quota *)

(* A request is allowed only by a TickDecide whose quota answer was "yes" and
   that was taken while the loop held exactly this request; no request is
   admitted twice. *)
Theorem C06_quota_respected : forall c sch r,
  verdict (info (run c init sch) r) = Some true ->
  (exists sch1 sch2, sch = sch1 ++ TickDecide true :: sch2 /\ held (run c init sch1) = Some r)
  /\ NoDup (admits (run c init sch)).
Proof.
  intros c sch r H. destruct (Inv_run c sch) as (_ & _ & _ & HD).
  split; [apply admits_origin; exact (D_verd _ HD r H)|exact (D_nodup _ HD)].
Qed.
Print Assumptions C06_quota_respected.

Example C06_quota_respected_ex :
  let c := {| qmax := 2; smax := -1; ttl := 10; var := fixed |} in
  let s := run c init [ArriveCheck 1 0 0; ArriveRegister 1; ArrivePush 1; TickPop; TickDecide true;
                       WaiterReturn 1] in
  verdict (info s 1) = Some true /\ admits s = [1].
Proof. vm_compute. auto. Qed.

(* ---------------------------------------------------------------- one verdict *)

(* Without Drain no request is ever signalled twice (the WaitGroup never goes
   negative), whatever the tree; and once a TTL scan ran at an instant after the
   expiry of a registered request, that request has exactly one signal — unless
   the loop holds it at that moment (then the loop's own decision follows). *)
Theorem C06_one_verdict_no_drain : forall c sch, no_drain sch ->
  (forall r, dones (info (run c init sch) r) <= 1) /\
  (forall sch1 now sch2 r, sch = sch1 ++ TtlScan now :: sch2 ->
     In r (watch (run c init sch1)) -> expire (info (run c init sch1) r) < now ->
     dones (info (run c init sch) r) = 1 \/
     held (run c init (sch1 ++ [TtlScan now])) = Some r).
Proof.
  intros c sch Hnd.
  destruct (ABE_run c sch (no_drain_pre c sch init Hnd)) as (HA & HB & HE).
  split; [exact HE|].
  intros sch1 now sch2 r -> Hw Hx.
  pose proof (ttl_scan_reaches (run c init sch1) now r Hw Hx) as Hst.
  assert (Hrun : run c init (sch1 ++ [TtlScan now]) = ttl_scan (run c init sch1) now)
    by (rewrite run_app; reflexivity).
  destruct (Inv_run c (sch1 ++ [TtlScan now])) as (_ & HB1 & _). rewrite Hrun in *.
  destruct (st (info (ttl_scan (run c init sch1) now) r)) eqn:Est; [congruence| |].
  - right. apply HB1. exact Est.
  - left. pose proof (B_d1 _ HB1 r Est) as H1.
    pose proof (dones_mono_run c sch2 (ttl_scan (run c init sch1) now) r) as Hm.
    specialize (HE r).
    replace (run c init (sch1 ++ TtlScan now :: sch2))
      with (run c (ttl_scan (run c init sch1) now) sch2) in *
      by (rewrite run_app; reflexivity).
    lia.
Qed.
Print Assumptions C06_one_verdict_no_drain.

Example C06_one_verdict_no_drain_ex :
  let c := {| qmax := 2; smax := -1; ttl := 10; var := as_found |} in
  let sch1 := [ArriveCheck 1 0 0; ArriveRegister 1; ArrivePush 1] in
  no_drain (sch1 ++ [TtlScan 11]) /\ In 1 (watch (run c init sch1)) /\
  expire (info (run c init sch1) 1) < 11 /\
  dones (info (run c init (sch1 ++ [TtlScan 11])) 1) = 1 /\
  dones (info (run c init (sch1 ++ [TtlScan 10])) 1) = 0.
Proof. vm_compute. intuition congruence. Qed.

(* ---------------------------------------------------------------- drain *)

(* At most one signal per request on every schedule on which, whenever an
   ungated drain runs, no already-signalled request is still in the watch list
   (this side condition is what the monitor's classifier computes; with the
   gate — fix F-C06c — it is vacuous). *)
Theorem C06_drain_safe_when_removed : forall c sch,
  trace_ok c (drain_pre c) init sch ->
  forall r, dones (info (run c init sch) r) <= 1.
Proof. intros c sch H. apply (ABE_run c sch H). Qed.
Print Assumptions C06_drain_safe_when_removed.

Example C06_drain_safe_when_removed_ex :
  let c := {| qmax := 2; smax := -1; ttl := 10; var := as_found |} in
  let sch := [ArriveCheck 1 0 0; ArriveRegister 1; ArrivePush 1; ArriveCheck 2 0 0; ArriveRegister 2;
              ArrivePush 2; TickPop; TickDecide true; WaiterReturn 1; Remove 1; Drain] in
  trace_ok c (drain_pre c) init sch /\
  dones (info (run c init sch) 1) = 1 /\ dones (info (run c init sch) 2) = 1.
Proof.
  cbn zeta. split; [|vm_compute; auto].
  cbn [trace_ok drain_pre]. repeat split. right. intros r Hr. vm_compute in Hr.
  destruct Hr as [<-|[]]. vm_compute. discriminate.
Qed.

(* The drain releases every registered request. *)
Theorem C06_drain_releases_all : forall c sch r,
  let s := run c init sch in
  drained s = false -> held s = None -> In r (watch s) ->
  st (info (step c s Drain) r) = Dn /\ 1 <= dones (info (step c s Drain) r).
Proof.
  intros c sch r s Hd Hh Hw. destruct (Inv_run c sch) as (_ & HB & _).
  pose proof (drain_reaches c s r HB Hd Hh Hw) as Hst. split; [exact Hst|].
  destruct (Inv_run c (sch ++ [Drain])) as (_ & HB' & _). rewrite run_app in HB'.
  apply (B_d1 _ HB'). exact Hst.
Qed.
Print Assumptions C06_drain_releases_all.

(* With registration closed by the drain (fix F-C06d): once the drain has run,
   every request in the watch list has been signalled — nobody can be left (or
   arrive later and be left) waiting for a loop and a watcher that are gone. *)
Theorem C06_nobody_left_after_drain : forall c sch r,
  closed_after_drain (var c) = true ->
  let s := run c init sch in
  drained s = true -> In r (watch s) -> st (info s r) = Dn /\ 1 <= dones (info s r).
Proof.
  intros c sch r Hc s Hd Hw. destruct (BG_run c sch) as [HB [_ G2]]. fold s in HB, G2.
  pose proof (G2 Hc Hd r Hw) as Hst. split; [exact Hst|]. apply (B_d1 _ HB). exact Hst.
Qed.
Print Assumptions C06_nobody_left_after_drain.

Example C06_nobody_left_after_drain_ex :
  let c := {| qmax := 2; smax := -1; ttl := 10; var := fixed |} in
  let s := run c init [ArriveCheck 1 0 0; ArriveRegister 1; ArrivePush 1; ArriveCheck 2 0 0; Drain;
                       ArriveRegister 2; ArrivePush 2] in
  drained s = true /\ watch s = [1] /\ dones (info s 1) = 1 /\ verdict (info s 2) = Some false.
Proof. vm_compute. auto. Qed.

(* ... and an arrival that was parked between its slot check and its
   registration when the drain ran is rejected at its registration (it never
   enters the watch list). *)
Theorem C06_arrival_rejected_after_drain : forall c sch r,
  closed_after_drain (var c) = true ->
  let s := run c init sch in
  drained s = true -> pc (info s r) = PChecked ->
  verdict (info (step c s (ArriveRegister r)) r) = Some false /\
  watch (step c s (ArriveRegister r)) = watch s.
Proof.
  intros c sch r Hc s Hd Hp. cbn [step]. unfold arrive_register. rewrite Hp, Hc, Hd.
  cbn [andb]. rewrite orb_true_r. cbn. rewrite upd_same. cbn. auto.
Qed.
Print Assumptions C06_arrival_rejected_after_drain.

(* ---------------------------------------------------------------- order *)

(* Whatever the tree: the request the loop takes next (head of the queue that
   passes the gate) has the lowest priority number among all waiting requests. *)
Theorem C06_order_across_priorities : forall c sch r r',
  let s := run c init sch in
  picks s r -> is_waiting s r' -> prio (info s r) <= prio (info s r').
Proof. intros c sch r r' s. apply (pick_prio c). apply Inv_run. Qed.
Print Assumptions C06_order_across_priorities.

(* With stamp-preserving re-enqueue (fix F-C06a): strictly ordered by
   (priority number, arrival stamp) ... *)
Theorem C06_fifo_within_priority : forall c sch r r',
  keep_stamp (var c) = true ->
  let s := run c init sch in
  picks s r -> is_waiting s r' -> r' <> r ->
  lex_lt (prio (info s r)) (astamp (info s r)) (prio (info s r')) (astamp (info s r')).
Proof. intros c sch r r' Hk s. apply (pick_fifo c); [exact Hk|apply Inv_run]. Qed.
Print Assumptions C06_fifo_within_priority.

(* ... where the arrival stamp is the order of entry into the queue: a request
   entering the queue gets a stamp above those of all requests that entered
   before it, and stamps never change afterwards. *)
Theorem C06_stamp_is_arrival_order : forall c sch r r',
  let s := run c init sch in
  pc (info s r') = PRegistered -> pushed_pc (info s r) ->
  let s' := step c s (ArrivePush r') in
  astamp (info s' r) = astamp (info s r) /\ astamp (info s' r) < astamp (info s' r').
Proof. intros c sch r r' s. apply (push_stamp c). apply Inv_run. Qed.
Print Assumptions C06_stamp_is_arrival_order.

Example C06_order_ex :
  let c := {| qmax := 3; smax := -1; ttl := 10; var := fixed |} in
  let s := run c init [ArriveCheck 1 5 0; ArriveRegister 1; ArrivePush 1;
                       ArriveCheck 2 0 0; ArriveRegister 2; ArrivePush 2;
                       ArriveCheck 3 0 0; ArriveRegister 3; ArrivePush 3;
                       TickPop; TickDecide false] in
  picks s 2 /\ is_waiting s 3 /\ is_waiting s 1 /\ heap s = [(0, 1, 2); (0, 2, 3); (5, 0, 1)].
Proof.
  cbn zeta. split; [|vm_compute; auto].
  exists 0, 1, [(0, 2, 3); (5, 0, 1)]. vm_compute. auto.
Qed.

(* ---------------------------------------------------------------- bound *)

(* At no time do more than queue_size requests wait, on every schedule on which
   (when registration is not atomic) an arrival runs its slot check only while
   no other arrival is between check and registration; with atomic registration
   — fix F-C06b — the side condition is vacuous. *)
Theorem C06_bound_when_arrival_atomic : forall c sch,
  trace_ok c (arrival_pre c) init sch ->
  waiting (run c init sch) <= Z.max 0 (qmax c).
Proof.
  intros c sch H. destruct (AF_run c sch H) as [HA HF]. apply (bound_of_InvF c); assumption.
Qed.
Print Assumptions C06_bound_when_arrival_atomic.

Example C06_bound_when_arrival_atomic_ex :
  let c := {| qmax := 1; smax := -1; ttl := 10; var := as_found |} in
  let sch := [ArriveCheck 1 0 0; ArriveRegister 1; ArrivePush 1; ArriveCheck 2 0 0; ArriveRegister 2] in
  trace_ok c (arrival_pre c) init sch /\ waiting (run c init sch) = 1 /\
  verdict (info (run c init sch) 2) = Some false.
Proof. cbn zeta. split; [|vm_compute; auto]. cbn. repeat split; right; reflexivity. Qed.

(* The watcher's counter IS the number of registered requests, and it — not
   only the number of waiters that have not returned — stays within the bound
   (stronger than [waiting <=]: a returned request keeps its slot until its
   removal).  Side condition = the EXACT one for a tree without fix F-C06b: an
   arrival passes its slot check only while the slots already promised to
   arrivals between check and registration leave one free ([slot_pre]);
   [arrival_pre] of the theorem above is a special case of it, and with atomic
   registration it is vacuous. *)
Theorem C06_count_bound_when_slots_reserved : forall c sch,
  trace_ok c (slot_pre c) init sch ->
  let s := run c init sch in
  count s = Z.of_nat (length (watch s)) /\ count s <= Z.max 0 (qmax c) /\
  waiting s <= Z.max 0 (qmax c).
Proof.
  intros c sch H s. destruct (AF_run_slot c sch H) as [HA HF]. fold s in HA, HF.
  split; [apply (A_count s HA)|]. split; [apply (count_bound_of_InvF c s HF)|].
  apply (bound_of_InvF c); assumption.
Qed.
Print Assumptions C06_count_bound_when_slots_reserved.

Example C06_count_bound_when_slots_reserved_ex :
  (* queue_size 2, tree as found: two arrivals overlap between check and
     registration — not allowed by [arrival_pre], allowed by [slot_pre] *)
  let c := {| qmax := 2; smax := -1; ttl := 10; var := as_found |} in
  let sch := [ArriveCheck 1 0 0; ArriveCheck 2 0 0; ArriveRegister 1; ArriveRegister 2;
              ArriveCheck 3 0 0] in
  trace_ok c (slot_pre c) init sch /\ ~ trace_ok c (arrival_pre c) init sch /\
  count (run c init sch) = 2 /\ verdict (info (run c init sch) 3) = Some false.
Proof.
  cbn zeta. split; [|split; [|vm_compute; auto]].
  - cbn. repeat split; right; cbn; auto; lia.
  - cbn. intros (_ & [H|H] & _); discriminate.
Qed.

(* ================================================================ verdicts *)

(* "Gets a verdict" is a statement about the [verdict] field — what Execute
   returned — not only about the number of WaitGroup signals.  In every
   reachable state of every tree: a request has a verdict exactly when its
   Execute call has returned (waiter returned, or rejected at once / removed). *)
Theorem C06_verdict_iff_returned : forall c sch r,
  let s := run c init sch in
  verdict (info s r) <> None <-> (pc (info s r) = PReturned \/ pc (info s r) = PGone).
Proof.
  intros c sch r s. pose proof (InvV_run c sch r) as HV. fold s in HV. split.
  - intros H. destruct (pc (info s r)) eqn:E; auto; exfalso; apply H, HV; cbn; lia.
  - intros [E|E] H; apply HV in H; rewrite E in H; cbn in H; lia.
Qed.
Print Assumptions C06_verdict_iff_returned.

(* At most one verdict: a verdict, once given, is never changed by any later
   step of any goroutine (every tree, every continuation). *)
Theorem C06_verdict_written_once : forall c sch sch' r v,
  verdict (info (run c init sch) r) = Some v ->
  verdict (info (run c init (sch ++ sch')) r) = Some v.
Proof.
  intros c sch sch' r v H. rewrite run_app. apply verdict_stable_run; [apply InvV_run|exact H].
Qed.
Print Assumptions C06_verdict_written_once.

(* A signal releases the waiter: once the request has a signal, the return of
   Wait() is enabled and writes the verdict — allowed exactly when the result
   is "success". *)
Theorem C06_signal_enables_verdict : forall c sch r,
  let s := run c init sch in
  pc (info s r) = PWaiting -> 1 <= dones (info s r) ->
  verdict (info (step c s (WaiterReturn r)) r) =
    Some (match res (info s r) with Success => true | _ => false end).
Proof. intros c sch r s Hp Hd. cbn [step]. apply waiter_return_verdict; assumption. Qed.
Print Assumptions C06_signal_enables_verdict.

Example C06_verdict_ex :
  let c := {| qmax := 1; smax := -1; ttl := 10; var := fixed |} in
  let s := run c init [ArriveCheck 1 0 0; ArriveRegister 1; ArrivePush 1; ArriveCheck 2 0 0;
                       TickPop; TickDecide true] in
  pc (info s 1) = PWaiting /\ dones (info s 1) = 1 /\ verdict (info s 1) = None /\
  verdict (info (step c s (WaiterReturn 1)) 1) = Some true /\
  verdict (info s 2) = Some false /\ pc (info s 2) = PGone /\
  verdict (info (run c s [WaiterReturn 1; Remove 1; TtlScan 100; Drain]) 1) = Some true.
Proof. vm_compute. repeat split; reflexivity. Qed.

(* ================================================================ existence of a verdict *)

(* No request can be stranded: from EVERY reachable state of EVERY tree, for
   every request that has reached the processor, the five steps of [finish] —
   the rest of its own arrival, the quota's answer (either one) to the loop,
   one look of the TTL watcher after the expiry, the return of Wait() — lead to
   a verdict.  (Steps already taken are no-ops.) *)
Theorem C06_verdict_reachable : forall c sch r b,
  let s := run c init sch in
  pc (info s r) <> PNew ->
  verdict (info (run c s (finish r (expire (info s r)) b)) r) <> None.
Proof.
  intros c sch r b s Hp. apply verdict_reachable; [apply Inv_run|apply InvV_run|exact Hp].
Qed.
Print Assumptions C06_verdict_reachable.

(* ... and the same with the shutdown in place of the TTL watcher, for a tree
   that closes registration at the drain (fix F-C06d): whether the drain has
   already run or not. *)
Theorem C06_verdict_reachable_by_drain : forall c sch r b,
  closed_after_drain (var c) = true ->
  let s := run c init sch in
  pc (info s r) <> PNew ->
  verdict (info (run c s (finish_drain r b)) r) <> None.
Proof.
  intros c sch r b Hc s Hp.
  apply verdict_reachable_by_drain; [exact Hc|apply Inv_run|apply InvV_run|apply BG_run|exact Hp].
Qed.
Print Assumptions C06_verdict_reachable_by_drain.

Example C06_verdict_reachable_ex :
  let c := {| qmax := 2; smax := -1; ttl := 10; var := fixed |} in
  (* r1 held by the loop, r2 parked between slot check and registration *)
  let s := run c init [ArriveCheck 1 0 0; ArriveRegister 1; ArrivePush 1; TickPop; ArriveCheck 2 0 5] in
  held s = Some 1 /\ pc (info s 2) = PChecked /\
  verdict (info (run c s (finish 1 (expire (info s 1)) false)) 1) = Some false /\
  verdict (info (run c s (finish 1 (expire (info s 1)) true)) 1) = Some true /\
  verdict (info (run c s (finish 2 (expire (info s 2)) false)) 2) = Some false /\
  verdict (info (run c s (finish_drain 2 true)) 2) = Some false.
Proof. vm_compute. repeat split; reflexivity. Qed.

(* ================================================================ liveness under fairness *)

(* The fairness hypothesis, explicit: after r was registered, the schedule
   contains an action that SERVES r ([serves], decidable): a step of the TTL
   watcher (whole scan, or the single look [TtlFire]) at an instant after r's
   expiry taken while the loop does not hold r, or an effective drain.  ONE such
   action is enough and its effect is permanent: r has exactly one signal in
   every later state, whatever else happens.  There is no escape clause: the
   case "the loop holds r at the scan" is excluded by the hypothesis, not by the
   conclusion.  (In the code the watcher re-arms itself with a zero delay as
   long as an expired request is in its map, and the loop holds a request only
   for the duration of one quota call.) *)
Theorem C06_liveness_fair_signal : forall c sch r sch1 a sch2,
  let s := run c init sch in
  In r (watch s) -> serves (run c s sch1) a r = true ->
  1 <= dones (info (run c s (sch1 ++ a :: sch2)) r) /\
  (gated_drain (var c) = true -> dones (info (run c s (sch1 ++ a :: sch2)) r) = 1).
Proof.
  intros c sch r sch1 a sch2 s Hw Hs.
  pose proof (fair_signal c s r sch1 a sch2 (Inv_run c sch) Hw Hs) as H1. split; [exact H1|].
  intros Hg. unfold s in *. rewrite <- run_app in *.
  pose proof (proj2 (proj2 (ABE_run c (sch ++ sch1 ++ a :: sch2) (gated_pre c _ init Hg))) r). lia.
Qed.
Print Assumptions C06_liveness_fair_signal.

(* ... and if r's own goroutine is not starved either (its push, and the
   return of its Wait() after the serving action, are in the schedule), r HAS
   ITS VERDICT at the end — and keeps it (C06_verdict_written_once). *)
Theorem C06_liveness_fair_verdict : forall c sch r sch1 a sch2 post,
  let s := run c init sch in
  In r (watch s) -> serves (run c s sch1) a r = true ->
  In (ArrivePush r) (sch1 ++ a :: sch2) \/ pushed_pc (info s r) ->
  exists v, verdict (info (run c s ((sch1 ++ a :: sch2) ++ WaiterReturn r :: post)) r) = Some v.
Proof.
  intros c sch r sch1 a sch2 post s Hw Hs Hp.
  assert (Hp' : In (ArrivePush r) (sch1 ++ a :: sch2) \/ 3 <= pc_rank (pc (info s r))).
  { destruct Hp as [Hp|[E|E]]; [now left|right; rewrite E; cbn; lia..]. }
  pose proof (fair_verdict c s r sch1 a sch2 post (Inv_run c sch) (InvV_run c sch) Hw Hs Hp') as H.
  destruct (verdict (info (run c s ((sch1 ++ a :: sch2) ++ WaiterReturn r :: post)) r)) as [v|];
    [exists v; reflexivity|congruence].
Qed.
Print Assumptions C06_liveness_fair_verdict.

(* A purely syntactic instance of the fairness hypothesis: a scan after the
   expiry that follows a decision of the loop with no TickPop in between (the
   loop is between two iterations). *)
Theorem C06_liveness_scan_when_loop_idle : forall c sch1 now sch2 r,
  gated_drain (var c) = true ->
  idle_after true sch1 = true ->
  In r (watch (run c init sch1)) -> expire (info (run c init sch1) r) < now ->
  dones (info (run c init (sch1 ++ TtlScan now :: sch2)) r) = 1.
Proof.
  intros c sch1 now sch2 r Hg Hi Hw He.
  pose proof (idle_after_held c sch1 init true (fun _ => eq_refl) Hi) as Hh.
  destruct (C06_liveness_fair_signal c sch1 r [] (TtlScan now) sch2 Hw) as [_ H].
  - cbn [run fold_left serves]. apply andb_true_iff. split; [apply Z.ltb_lt; exact He|].
    unfold held_is. rewrite Hh. reflexivity.
  - cbn [app] in H. rewrite <- run_app in H. apply H. exact Hg.
Qed.
Print Assumptions C06_liveness_scan_when_loop_idle.

(* The hypothesis is satisfiable and it is needed: r1 expires at 10; a scan at
   100 taken while the loop holds r1 does not serve it (and leaves it
   unsignalled after the quota's refusal); the next scan, loop idle, does. *)
Example C06_liveness_ex :
  let c := {| qmax := 2; smax := -1; ttl := 10; var := fixed |} in
  let arr := [ArriveCheck 1 0 0; ArriveRegister 1; ArrivePush 1] in
  let s := run c init arr in
  In 1 (watch s) /\
  serves (run c s [TickPop]) (TtlScan 100) 1 = false /\
  dones (info (run c s [TickPop; TtlScan 100; TickDecide false]) 1) = 0 /\
  serves (run c s [TickPop; TtlScan 100; TickDecide false]) (TtlScan 101) 1 = true /\
  idle_after true (arr ++ [TickPop; TtlScan 100; TickDecide false]) = true /\
  dones (info (run c s ([TickPop; TtlScan 100; TickDecide false] ++ TtlScan 101 :: [TickPop; TickDecide true])) 1) = 1 /\
  verdict (info (run c s (([TickPop; TtlScan 100; TickDecide false] ++ TtlScan 101 :: [TickPop]) ++
                          WaiterReturn 1 :: [TickDecide true])) 1) = Some false /\
  serves s (TtlFire 11 1) 1 = true /\ serves s (TtlFire 10 1) 1 = false /\ serves s Drain 1 = true.
Proof. vm_compute. repeat split; auto. Qed.

(* ================================================================ admissions, not only picks *)

(* Every ADMISSION (an allowed verdict; more generally membership in [admits])
   goes back to a pick: the schedule splits as
        sch0 ++ TickPop :: mid ++ TickDecide true :: sch2
   where, in the state after sch0, the loop was idle and not drained and the
   request was at the head of the queue and passed the gate ([picks]); the loop
   held it, and nothing else, during all of mid; so (C06_order_across_priorities
   / C06_fifo_within_priority at that state) it had the smallest priority
   number — with fix F-C06a strictly the smallest (priority, arrival) — among
   all requests waiting at that moment. *)
Theorem C06_admission_was_picked : forall c sch r,
  In r (admits (run c init sch)) ->
  exists sch0 mid sch2, sch = sch0 ++ TickPop :: mid ++ TickDecide true :: sch2 /\
    let s0 := run c init sch0 in
    picks s0 r /\ held s0 = None /\ drained s0 = false /\
    (forall m1 m2, mid = m1 ++ m2 -> held (run c init (sch0 ++ TickPop :: m1)) = Some r) /\
    (forall r', is_waiting s0 r' -> prio (info s0 r) <= prio (info s0 r')) /\
    (keep_stamp (var c) = true -> forall r', is_waiting s0 r' -> r' <> r ->
       lex_lt (prio (info s0 r)) (astamp (info s0 r)) (prio (info s0 r')) (astamp (info s0 r'))).
Proof.
  intros c sch r Hin.
  destruct (admission_pick c init sch r InvB_init InvD_init Hin) as
    (sch0 & mid & sch2 & E & Hp & Hh & Hd & Hall); [cbn; tauto|cbn; discriminate|].
  exists sch0, mid, sch2. split; [exact E|]. cbn zeta.
  split; [exact Hp|]. split; [exact Hh|]. split; [exact Hd|]. split; [exact Hall|]. split.
  - intros r' Hw. apply (pick_prio c); [apply Inv_run|exact Hp|exact Hw].
  - intros Hk r' Hw Hne. apply (pick_fifo c); [exact Hk|apply Inv_run|exact Hp|exact Hw|exact Hne].
Qed.
Print Assumptions C06_admission_was_picked.

(* "A lower priority number is always admitted before a higher one", on traces:
   if r and r' wait in the queue at the same time and r has the smaller priority
   number, then in EVERY continuation in which r' is admitted, r has got its own
   signal (admission, or time-out / drain) before — r' never overtakes r.
   Every tree. *)
Theorem C06_no_overtaking_priority : forall c sch r r' sch',
  let s := run c init sch in
  is_waiting s r -> is_waiting s r' -> prio (info s r) < prio (info s r') ->
  In r' (admits (run c s sch')) ->
  st (info (run c s sch') r) = Dn /\ 1 <= dones (info (run c s sch') r).
Proof.
  intros c sch r r' sch' s Hw Hw' Hlt Hin.
  apply (no_overtaking_gen c s r r' sch' (Inv_run c sch) Hw Hw'); [left; exact Hlt|exact Hin].
Qed.
Print Assumptions C06_no_overtaking_priority.

(* "... and, within one priority, earlier arrivals before later ones": the same
   for the strict (priority, arrival stamp) order, with fix F-C06a. *)
Theorem C06_no_overtaking_fifo : forall c sch r r' sch',
  keep_stamp (var c) = true ->
  let s := run c init sch in
  is_waiting s r -> is_waiting s r' ->
  lex_lt (prio (info s r)) (astamp (info s r)) (prio (info s r')) (astamp (info s r')) ->
  In r' (admits (run c s sch')) ->
  st (info (run c s sch') r) = Dn /\ 1 <= dones (info (run c s sch') r).
Proof.
  intros c sch r r' sch' Hk s Hw Hw' Hlt Hin.
  apply (no_overtaking_gen c s r r' sch' (Inv_run c sch) Hw Hw'); [right; split; assumption|exact Hin].
Qed.
Print Assumptions C06_no_overtaking_fifo.

Example C06_no_overtaking_ex :
  let c := {| qmax := 3; smax := -1; ttl := 10; var := fixed |} in
  let s := run c init [ArriveCheck 1 0 0; ArriveRegister 1; ArrivePush 1;
                       ArriveCheck 2 0 5; ArriveRegister 2; ArrivePush 2] in
  is_waiting s 1 /\ is_waiting s 2 /\
  lex_lt (prio (info s 1)) (astamp (info s 1)) (prio (info s 2)) (astamp (info s 2)) /\
  (* r1 refused once, then expired: r2 is admitted only after r1's time-out *)
  let sch' := [TickPop; TickDecide false; TtlScan 11; TickPop; TickPop; TickDecide true] in
  admits (run c s sch') = [2] /\ res (info (run c s sch') 1) = TimedOut.
Proof. vm_compute. repeat split; auto. Qed.

(* ================================================================ no early time-out *)

(* A blocked verdict is either a rejection on arrival (such a request never has
   a signal) or a time-out whose cause is in the schedule: a step of the TTL
   watcher looking at the registered request at an instant AFTER its expiry, or
   an effective drain ([times_out]).  No request is timed out before its
   time-to-live except by shutdown.  Every tree. *)
Theorem C06_blocked_only_after_expiry_or_drain : forall c sch r,
  verdict (info (run c init sch) r) = Some false ->
  dones (info (run c init sch) r) = 0 \/
  exists sch1 a sch2, sch = sch1 ++ a :: sch2 /\ times_out (run c init sch1) a r.
Proof.
  intros c sch r H. destruct (InvVR_run c sch) as [_ HR].
  destruct (R_false _ HR r H) as [H0|H0]; [now left|right]. apply timeout_origin. exact H0.
Qed.
Print Assumptions C06_blocked_only_after_expiry_or_drain.

Example C06_blocked_ex :
  let c := {| qmax := 1; smax := -1; ttl := 10; var := fixed |} in
  let sch1 := [ArriveCheck 1 0 0; ArriveRegister 1; ArrivePush 1; ArriveCheck 2 0 0] in
  let sch := sch1 ++ TtlScan 11 :: [WaiterReturn 1] in
  verdict (info (run c init sch) 1) = Some false /\ times_out (run c init sch1) (TtlScan 11) 1 /\
  verdict (info (run c init sch) 2) = Some false /\ dones (info (run c init sch) 2) = 0 /\
  res (info (run c init (sch1 ++ [TtlScan 10])) 1) = Pending.
Proof. vm_compute. repeat split; auto; lia. Qed.

(* ================================================================ model vs suites vs code granularity *)

(* Every state the correspondence interpreter ([hrun], suites forced and
   histories) goes through is [run c init sch] for some schedule: the theorems
   above speak about exactly the states on which model and implementation are
   compared. *)
Theorem C06_suite_states_are_reachable : forall c hdr groups ops,
  let h0 := {| hs := init; hnow := 0; hgate := true; hpend := false |} in
  exists sch, hs (hend c hdr groups h0 ops) = run c init sch.
Proof. intros c hdr groups ops h0. apply reach_hend. apply reach_init. Qed.
Print Assumptions C06_suite_states_are_reachable.

(* [hrun] walks through [hend]: agreement on a case is agreement on every prefix *)
Theorem C06_suite_walks_hend : forall c hdr groups ops1 ops2 h n,
  hrun c hdr groups h n (ops1 ++ ops2) = None ->
  hrun c hdr groups (hend c hdr groups h ops1) (n + N.of_nat (length ops1))%N ops2 = None.
Proof. intros c hdr groups ops1 ops2 h n H. apply (hrun_agrees_prefix c hdr groups ops1 ops2 h n H). Qed.
Print Assumptions C06_suite_walks_hend.

(* the interpreter's loop body has enough fuel: it stops only when the loop
   holds a request or the queue is empty (or after the drain) *)
Theorem C06_pops_has_fuel : forall c s,
  drained s = true \/ held (pops c s) <> None \/ heap (pops c s) = [].
Proof. exact pops_done. Qed.
Print Assumptions C06_pops_has_fuel.

(* The shared-queue size test and the registration are NOT one critical section
   in the code (queue.Size() under the queue's mutex, AddRequestIfBelow under the
   watcher's): the value the test uses may be stale.  [orun] lets the
   environment choose the outcome of that test freely at every registration
   ([Some full]; [None] = the atomic reading).  The safety part of the property
   holds on every such schedule of the fixed tree: it does not depend on that
   atomicity. *)
Theorem C06_safe_with_stale_shared_size : forall c l,
  var c = fixed -> let s := orun c init l in
  (forall r, dones (info s r) <= 1) /\
  (forall r, verdict (info s r) = Some true -> In r (admits s)) /\
  (forall r r', picks s r -> is_waiting s r' -> r' <> r ->
     lex_lt (prio (info s r)) (astamp (info s r)) (prio (info s r')) (astamp (info s r'))) /\
  count s = Z.of_nat (length (watch s)) /\ count s <= Z.max 0 (qmax c) /\
  waiting s <= Z.max 0 (qmax c) /\
  (drained s = true -> forall r, In r (watch s) -> dones (info s r) = 1).
Proof.
  intros c l Hv. apply safe_of_InvAll; try (rewrite Hv; reflexivity).
  apply InvAll_orun; rewrite Hv; reflexivity.
Qed.
Print Assumptions C06_safe_with_stale_shared_size.

Example C06_safe_with_stale_shared_size_ex :
  (* shared size 1: r2's test read "not full" before r1 was pushed, r2 registers
     after it — two entries in a shared queue of size 1 (advisory), local bound kept *)
  let c := {| qmax := 3; smax := 1; ttl := 10; var := fixed |} in
  let l := [(None, ArriveCheck 1 0 0); (None, ArriveRegister 1); (None, ArrivePush 1);
            (None, ArriveCheck 2 0 0); (Some false, ArriveRegister 2); (None, ArrivePush 2);
            (None, ArriveCheck 3 0 0); (None, ArriveRegister 3)] in
  length (heap (orun c init l)) = 2%nat /\ count (orun c init l) = 2 /\
  verdict (info (orun c init l) 3) = Some false /\
  orun c init (map (fun a => (None, a)) [ArriveCheck 1 0 0]) = run c init [ArriveCheck 1 0 0].
Proof. cbn zeta. repeat split; try apply orun_atomic; vm_compute; reflexivity. Qed.

(* The tie between [orun] and the model the suites execute, as a final
   statement: the schedules of [orun] in which the environment never chooses the
   outcome of the shared-size test (every choice [None]) are exactly the
   schedules of [run] — from every state, on every tree.  So [orun] only ADDS
   behaviours to [run], and C06_safe_with_stale_shared_size speaks about every
   state of [run] (and more). *)
Theorem C06_stale_size_model_extends_run : forall c s sch,
  orun c s (map (fun a => (None, a)) sch) = run c s sch.
Proof. intros c s sch. exact (orun_atomic c sch s). Qed.
Print Assumptions C06_stale_size_model_extends_run.

(* Trusted clock assumption made visible: stamps are readings of
   time.Now().UnixNano() (wall clock); the model takes them strictly increasing.
   The assumption is NEEDED: if a later Enqueue read a clock value below the
   stamp of a request of the same priority already in the queue (clock stepped
   back), the later arrival is served first. *)
Example C06_fifo_needs_increasing_stamps :
  let c := {| qmax := 3; smax := -1; ttl := 10; var := fixed |} in
  let s := run c init [ArriveCheck 1 0 0; ArriveRegister 1; ArrivePush 1;
                       ArriveCheck 2 0 0; ArriveRegister 2] in
  (* the push of r2 with a clock reading t *)
  let push_at t := {| info := upd (info s) 2 (pushed (info s 2) t);
                      heap := hinsert (prio (info s 2), t, 2) (heap s); watch := watch s;
                      count := count s; next_stamp := next_stamp s; held := held s;
                      drained := drained s; checked := checked s; admits := admits s |} in
  picks (push_at 1) 1 /\ picks (push_at (-1)) 2 /\ is_waiting (push_at (-1)) 1 /\
  heap (arrive_push s 2) = heap (push_at (next_stamp s)) /\
  info (arrive_push s 2) 2 = info (push_at (next_stamp s)) 2.
Proof.
  cbn zeta. split; [|split; [|split]].
  - exists 0, 0, [(0, 1, 2)]. vm_compute. auto.
  - exists 0, (-1), [(0, 0, 1)]. vm_compute. auto.
  - vm_compute. auto.
  - vm_compute. auto.
Qed.

(* ---------------------------------------------------------------- the full property *)

(* For all schedules [sch] of the tree [v], with s the state they lead to and
   for all continuations:
    1  at most one signal per request (the WaitGroup never goes negative: no crash)
    2  allowed only when the quota admitted
    3  strict (priority, arrival) order at every pick
    4  |waiting| <= queue_size
    5  an effective drain leaves every registered request with exactly one signal
    6  after the drain nobody in the watch list lacks its signal
    7  a TTL scan after expiry leaves exactly one signal unless the loop holds
       the request at that moment (item 12 is the trace-level form without the
       exception)
    8  the counter is the number of registered requests and stays <= queue_size
    9  a request has a verdict exactly when its Execute call has returned
   10  a verdict, once given, never changes (exactly one verdict, literally)
   11  a verdict is reachable from s for every request that has arrived — by the
       TTL watcher and by the drain (nobody is stranded)
   12  fairness => liveness: once a registered request is served (TTL watcher
       after expiry while the loop does not hold it, or an effective drain) it
       has exactly one signal for ever,
   13  and, its own goroutine not being starved, its verdict
   14  no overtaking: if r, r' wait together and r is before r' in (priority,
       arrival) order, r' is admitted only after r has its signal
   15  a blocked verdict is a rejection on arrival or a time-out caused by a
       watcher step after the expiry or by the drain. *)
Definition C06_full (v : variant) : Prop :=
  forall c, var c = v -> forall sch, let s := run c init sch in
    (forall r, dones (info s r) <= 1) /\
    (forall r, verdict (info s r) = Some true -> In r (admits s)) /\
    (forall r r', picks s r -> is_waiting s r' -> r' <> r ->
       lex_lt (prio (info s r)) (astamp (info s r)) (prio (info s r')) (astamp (info s r'))) /\
    waiting s <= Z.max 0 (qmax c) /\
    (drained s = false -> held s = None ->
       forall r, In r (watch s) -> dones (info (step c s Drain) r) = 1) /\
    (drained s = true -> forall r, In r (watch s) -> dones (info s r) = 1) /\
    (forall now r, In r (watch s) -> expire (info s r) < now ->
       dones (info (step c s (TtlScan now)) r) = 1 \/ held (step c s (TtlScan now)) = Some r) /\
    (count s = Z.of_nat (length (watch s)) /\ count s <= Z.max 0 (qmax c)) /\
    (forall r, verdict (info s r) <> None <-> (pc (info s r) = PReturned \/ pc (info s r) = PGone)) /\
    (forall r b sch', verdict (info s r) = Some b -> verdict (info (run c s sch') r) = Some b) /\
    (forall r b, pc (info s r) <> PNew ->
       verdict (info (run c s (finish r (expire (info s r)) b)) r) <> None /\
       verdict (info (run c s (finish_drain r b)) r) <> None) /\
    (forall r sch1 a sch2, In r (watch s) -> serves (run c s sch1) a r = true ->
       dones (info (run c s (sch1 ++ a :: sch2)) r) = 1) /\
    (forall r sch1 a sch2 post, In r (watch s) -> serves (run c s sch1) a r = true ->
       In (ArrivePush r) (sch1 ++ a :: sch2) \/ pushed_pc (info s r) ->
       exists b, verdict (info (run c s ((sch1 ++ a :: sch2) ++ WaiterReturn r :: post)) r) = Some b) /\
    (forall r r' sch', is_waiting s r -> is_waiting s r' ->
       lex_lt (prio (info s r)) (astamp (info s r)) (prio (info s r')) (astamp (info s r')) ->
       In r' (admits (run c s sch')) -> dones (info (run c s sch') r) = 1) /\
    (forall r, verdict (info s r) = Some false ->
       dones (info s r) = 0 \/
       exists sch1 a sch2, sch = sch1 ++ a :: sch2 /\ times_out (run c init sch1) a r).

(* The tree with the four fixes satisfies it. *)
Theorem C06_full_fixed : C06_full fixed.
Proof.
  intros c Hv sch s.
  assert (Hg : gated_drain (var c) = true) by (rewrite Hv; reflexivity).
  assert (Ha : atomic_reg (var c) = true) by (rewrite Hv; reflexivity).
  assert (Hk : keep_stamp (var c) = true) by (rewrite Hv; reflexivity).
  assert (Hc : closed_after_drain (var c) = true) by (rewrite Hv; reflexivity).
  assert (HE : forall sch', forall r, dones (info (run c init sch') r) <= 1).
  { intros sch'. apply (ABE_run c sch' (gated_pre c sch' init Hg)). }
  pose proof (Inv_run c sch) as HI. fold s in HI. pose proof HI as (HA & HB & HC & HD).
  split; [apply HE|]. split; [exact (D_verd _ HD)|].
  split; [intros r r'; apply (pick_fifo c); assumption|].
  split; [apply (C06_bound_when_arrival_atomic c sch), atomic_pre, Ha|].
  split; [|split; [|split]].
  - intros Hd Hh r Hw.
    destruct (C06_drain_releases_all c sch r Hd Hh Hw) as [_ H1]. fold s in H1.
    specialize (HE (sch ++ [Drain]) r). rewrite run_app in HE. cbn [run fold_left] in HE.
    fold s in HE. lia.
  - intros Hd r Hw.
    destruct (C06_nobody_left_after_drain c sch r Hc Hd Hw) as [_ H1]. fold s in H1.
    specialize (HE sch r). fold s in HE. lia.
  - intros now r Hw Hx. pose proof (ttl_scan_reaches s now r Hw Hx) as Hst.
    destruct (Inv_run c (sch ++ [TtlScan now])) as (_ & HB1 & _).
    specialize (HE (sch ++ [TtlScan now]) r). rewrite run_app in HB1, HE.
    cbn [run fold_left step] in HB1, HE. fold s in HB1, HE. cbn [step].
    destruct (st (info (ttl_scan s now) r)) eqn:Est; [congruence| |].
    + right. apply HB1. exact Est.
    + left. pose proof (B_d1 _ HB1 r Est). lia.
  - split; [|split; [|split; [|split; [|split; [|split; [|split]]]]]].
    + destruct (C06_count_bound_when_slots_reserved c sch) as (H1 & H2 & _); [|split; assumption].
      apply (trace_ok_weaken c (arrival_pre c)); [apply arrival_pre_slot_pre|apply atomic_pre, Ha].
    + intros r. apply (C06_verdict_iff_returned c sch r).
    + intros r b sch' H. unfold s. rewrite <- run_app. apply C06_verdict_written_once. exact H.
    + intros r b Hp. split; [apply (C06_verdict_reachable c sch r b Hp)|].
      apply (C06_verdict_reachable_by_drain c sch r b Hc Hp).
    + intros r sch1 a sch2 Hw Hs.
      destruct (C06_liveness_fair_signal c sch r sch1 a sch2 Hw Hs) as [_ H]. apply H, Hg.
    + intros r sch1 a sch2 post Hw Hs Hp. apply (C06_liveness_fair_verdict c sch r sch1 a sch2 post Hw Hs Hp).
    + intros r r' sch' Hw Hw' Hlt Hin.
      destruct (C06_no_overtaking_fifo c sch r r' sch' Hk Hw Hw' Hlt Hin) as [_ H1].
      specialize (HE (sch ++ sch') r). rewrite run_app in HE. unfold s in *. lia.
    + intros r H. apply (C06_blocked_only_after_expiry_or_drain c sch r H).
Qed.
Print Assumptions C06_full_fixed.

(* Each fix is needed: a tree lacking any single one of them violates the full
   property, by four independent witnesses (F-C06a, F-C06b, F-C06c, F-C06d). *)

(* F-C06a: r2, r3, r4 of equal priority; the quota refuses the head r2, which is
   put back with a new stamp: the loop then takes r3 although r2 arrived first. *)
Theorem C06_full_refuted_without_fix_a :
  ~ C06_full {| keep_stamp := false; atomic_reg := true; gated_drain := true; closed_after_drain := true |}.
Proof.
  intros H.
  specialize (H {| qmax := 3; smax := -1; ttl := 10;
                   var := {| keep_stamp := false; atomic_reg := true; gated_drain := true; closed_after_drain := true |} |} eq_refl
                [ArriveCheck 2 0 0; ArriveRegister 2; ArrivePush 2;
                 ArriveCheck 3 0 0; ArriveRegister 3; ArrivePush 3;
                 ArriveCheck 4 0 0; ArriveRegister 4; ArrivePush 4;
                 TickPop; TickDecide false]).
  cbn zeta in H. destruct H as (_ & _ & H & _).
  specialize (H 3 2).
  assert (L : lex_lt 0 1 0 0); [|unfold lex_lt in L; lia].
  apply H.
  - exists 0, 1, [(0, 2, 4); (0, 3, 2)]. vm_compute. auto.
  - vm_compute. auto.
  - discriminate.
Qed.
Print Assumptions C06_full_refuted_without_fix_a.

(* F-C06b: queue_size 1; two arrivals both pass the slot check before either
   registers: two requests wait. *)
Theorem C06_full_refuted_without_fix_b :
  ~ C06_full {| keep_stamp := true; atomic_reg := false; gated_drain := true; closed_after_drain := true |}.
Proof.
  intros H.
  specialize (H {| qmax := 1; smax := -1; ttl := 10;
                   var := {| keep_stamp := true; atomic_reg := false; gated_drain := true; closed_after_drain := true |} |} eq_refl
                [ArriveCheck 1 0 0; ArriveCheck 2 0 0; ArriveRegister 1; ArriveRegister 2]).
  cbn zeta in H. destruct H as (_ & _ & _ & H & _). vm_compute in H. apply H. reflexivity.
Qed.
Print Assumptions C06_full_refuted_without_fix_b.

(* F-C06c: a request is admitted, its removal from the watch list has not run
   yet, shutdown: StopAll signals it a second time (negative WaitGroup counter). *)
Theorem C06_full_refuted_without_fix_c :
  ~ C06_full {| keep_stamp := true; atomic_reg := true; gated_drain := false; closed_after_drain := true |}.
Proof.
  intros H.
  specialize (H {| qmax := 1; smax := -1; ttl := 10;
                   var := {| keep_stamp := true; atomic_reg := true; gated_drain := false; closed_after_drain := true |} |} eq_refl
                [ArriveCheck 1 0 0; ArriveRegister 1; ArrivePush 1; TickPop; TickDecide true; Drain]).
  cbn zeta in H. destruct H as (H & _). specialize (H 1). vm_compute in H. apply H. reflexivity.
Qed.
Print Assumptions C06_full_refuted_without_fix_c.

(* F-C06d: shutdown, then a request registers: in the code the loop and the
   watcher goroutines have left (both return on the cancellation that causes the
   drain), so nobody is left to signal it.  What is refuted here is the state
   invariant 6 (after the drain nobody in the watch list lacks its signal); the
   model still offers TtlScan as an action after Drain. *)
Theorem C06_full_refuted_without_fix_d :
  ~ C06_full {| keep_stamp := true; atomic_reg := true; gated_drain := true; closed_after_drain := false |}.
Proof.
  intros H.
  specialize (H {| qmax := 1; smax := -1; ttl := 10;
                   var := {| keep_stamp := true; atomic_reg := true; gated_drain := true;
                             closed_after_drain := false |} |} eq_refl
                [Drain; ArriveCheck 1 0 0; ArriveRegister 1; ArrivePush 1]).
  cbn zeta in H. destruct H as (_ & _ & _ & _ & _ & H & _).
  specialize (H eq_refl 1 (or_introl eq_refl)). vm_compute in H. discriminate.
Qed.
Print Assumptions C06_full_refuted_without_fix_d.

(* The tree as found (none of the fixes) violates it too — here by the drain witness. *)
Theorem C06_full_refuted_as_found : ~ C06_full as_found.
Proof.
  intros H.
  specialize (H {| qmax := 1; smax := -1; ttl := 10; var := as_found |} eq_refl
                [ArriveCheck 1 0 0; ArriveRegister 1; ArrivePush 1; TickPop; TickDecide true; Drain]).
  cbn zeta in H. destruct H as (H & _). specialize (H 1). vm_compute in H. apply H. reflexivity.
Qed.
Print Assumptions C06_full_refuted_as_found.

(* ================================================================ SCHEDULING OF THE TTL WATCHER

   Sched.v: the untimed state plus a clock [clk] and the watcher's timer [nea]
   (nextExpireAt, computed as the code computes it: NewRequestsWatcher, and
   recalculateNextExpireAt at the end of every scan; a registration does not
   touch it).  Timed schedules = lists of [TAdv d] (time passes), [TWake] (the
   TTL goroutine's timer is consulted: due iff nea <= clk, then scan +
   recalculation) and [TAct a] (any untimed action, reading the clock where it
   reads one).  Ghosts: [regat r] = clock when r was registered, [lastwake] =
   clock of the watcher's last scan, [wheld] = what the loop held at that scan.
   [skip] = false is the code as it is; true is the recalculation that leaves out
   the entries whose expireAt is already in the past. *)

(* Nothing new can happen to the untimed state: every state of a timed schedule
   is the state of an untimed schedule, so every theorem above speaks about it. *)
Theorem C06_timed_states_are_untimed_states : forall skip c sch,
  exists bs, base (trun skip c (tinit c) sch) = run c init bs.
Proof. intros skip c sch. apply (reach_trun skip c sch (tinit c)), reach_init. Qed.
Print Assumptions C06_timed_states_are_untimed_states.

(* THE BOUND the code gives: whatever happened, the timer is set no later than
   (registration instant + TTL) of every entry of the table — signalled or not,
   expired or not — and the expiry of an entry is no later than that (it is
   slot-check instant + TTL; the two coincide when no time passes between the
   slot check and the registration).  Hence from registration + TTL on the
   watcher is due. *)
Theorem C06_timer_never_late : forall c sch r, 0 <= ttl c ->
  let t := trun false c (tinit c) sch in
  In r (watch (base t)) ->
  nea t <= regat t r + ttl c /\
     expire (info (base t) r) <= regat t r + ttl c /\ regat t r <= clk t /\ nea t <= clk t + ttl c.
Proof. intros c sch r Ht. exact (timer_never_late c sch r Ht). Qed.
Print Assumptions C06_timer_never_late.

(* A registered request whose (registration + TTL) has passed and which the loop
   does not hold is signalled at the next wake-up — and that wake-up is enabled
   now (the timer is due); the signal stays for ever. *)
Theorem C06_due_wake_signals : forall c sch r post, 0 <= ttl c ->
  let t := trun false c (tinit c) sch in
  In r (watch (base t)) -> regat t r + ttl c < clk t -> held (base t) <> Some r ->
  due t = true /\ 1 <= dones (info (base (trun false c t (TWake :: post))) r).
Proof. intros c sch r post Ht. exact (due_wake_signals c sch r post Ht). Qed.
Print Assumptions C06_due_wake_signals.

(* "One verdict no later than TTL plus slack", the slack explicit.  FAIRNESS
   ([wfair dl], decidable): the TTL goroutine wakes whenever enabled, with
   latency at most dl — the clock never passes more than dl beyond the later of
   the timer instant and the watcher's last scan.  Then, in every state of every
   such schedule, a registered request that has no signal more than
   TTL + dl after its registration is one the loop was holding at the watcher's
   most recent scan, and that scan is less than dl old and came after the
   request's expiry.  In other words: signal no later than
   registration + TTL + dl + (time the loop keeps the request at wake-ups: one
   quota call per pass of the 100 ms loop).  To be read with 1 <= dl: the
   instance dl = 0 is degenerate (C06_wfair_zero_is_degenerate below). *)
Theorem C06_signal_within_ttl_plus_latency : forall c dl sch r,
  0 <= ttl c -> 0 <= dl -> wfair false c dl (tinit c) sch = true ->
  let t := trun false c (tinit c) sch in
  In r (watch (base t)) -> dones (info (base t) r) = 0 -> regat t r + ttl c + dl < clk t ->
  wheld t = Some r /\ clk t - dl <= lastwake t /\ expire (info (base t) r) < lastwake t.
Proof. intros c dl sch r Ht Hd Hf. exact (late_only_if_held c dl sch r Ht Hd Hf). Qed.
Print Assumptions C06_signal_within_ttl_plus_latency.

(* the hypotheses are satisfiable (TTL 10, latency 1): the request expires at 10,
   the watcher's scan at 10 is not "after" the expiry, the loop takes the request
   at 11 and the scan at 11 finds it held; at 12 it is still without a signal —
   exactly the excepted situation; once the loop has put it back the next
   wake-up (due at once: the timer stayed on the expired entry) signals it *)
Example C06_sched_ex :
  let c := {| qmax := 1; smax := -1; ttl := 10; var := fixed |} in
  let sch := [TAct (ArriveCheck 1 0 0); TAct (ArriveRegister 1); TAct (ArrivePush 1);
              TAdv 10; TWake; TAdv 1; TAct TickPop; TWake; TAdv 1] in
  let t := trun false c (tinit c) sch in
  wfair false c 1 (tinit c) sch = true /\ In 1 (watch (base t)) /\ dones (info (base t) 1) = 0 /\
     regat t 1 + ttl c + 1 < clk t /\ wheld t = Some 1 /\ nea t = 10 /\
     let t' := trun false c t [TAct (TickDecide false); TWake] in
  dones (info (base t') 1) = 1 /\ clk t' = 12.
Proof. vm_compute. repeat split; auto. Qed.

(* dl = 0 is a DEGENERATE instance of the fairness hypothesis (integer time,
   strict scan): the wake-up at the expiry instant 10 cannot signal (the scan
   wants an instant AFTER the expiry), it leaves nea = lastwake = 10, and the
   clock step to 11 — without which the request can never be signalled — is
   already unfair at latency 0 although the watcher woke at the very instant its
   timer was due and wakes again at 11.  The same schedule is fair at latency 1.
   So the statements above are to be read with 1 <= dl (the latency of one
   wake-up is at least one clock unit = 1 ns in the harness); at dl = 0 their
   premise [regat + ttl + dl < clk] with [dones = 0] is reachable only while the
   loop holds the request from before its expiry on. *)
Example C06_wfair_zero_is_degenerate :
  let c := {| qmax := 1; smax := -1; ttl := 10; var := fixed |} in
  let pre := [TAct (ArriveCheck 1 0 0); TAct (ArriveRegister 1); TAct (ArrivePush 1);
              TAdv 10; TWake] in
  let t := trun false c (tinit c) pre in
  wfair false c 0 (tinit c) pre = true /\
     clk t = 10 /\ nea t = 10 /\ lastwake t = 10 /\ dones (info (base t) 1) = 0 /\ held (base t) = None /\
     wfair false c 0 (tinit c) (pre ++ [TAdv 1]) = false /\
     wfair false c 1 (tinit c) (pre ++ [TAdv 1; TWake]) = true /\
     dones (info (base (trun false c (tinit c) (pre ++ [TAdv 1; TWake]))) 1) = 1.
Proof. vm_compute. repeat split; reflexivity. Qed.

(* The same bound for the VERDICT (the value Execute returns), not only for the
   signal: under the same hypotheses, a request whose Execute call is waiting
   more than TTL + dl after its registration either is in the excepted situation
   (the loop held it at the watcher's most recent scan, less than dl ago) or has
   its signal — and then the return of Wait() is enabled NOW, takes no time and
   writes the verdict: allowed exactly when the result is "success".  (That the
   waiter's goroutine is scheduled is the Go scheduler's fairness, as for every
   other step; WaiterReturn has no other guard.) *)
Theorem C06_verdict_within_ttl_plus_latency : forall c dl sch r,
  0 <= ttl c -> 0 <= dl -> wfair false c dl (tinit c) sch = true ->
  let t := trun false c (tinit c) sch in
  In r (watch (base t)) -> pc (info (base t) r) = PWaiting -> regat t r + ttl c + dl < clk t ->
  (wheld t = Some r /\ clk t - dl <= lastwake t /\ expire (info (base t) r) < lastwake t) \/
  (1 <= dones (info (base t) r) /\
     let t' := tstep false c t (TAct (WaiterReturn r)) in
     clk t' = clk t /\ pc (info (base t') r) = PReturned /\
     verdict (info (base t') r) =
       Some (match res (info (base t) r) with Success => true | _ => false end)).
Proof.
  intros c dl sch r Ht Hd Hf t Hw Hp Hl.
  destruct (Z.eq_dec (dones (info (base t) r)) 0) as [H0|H0].
  - left. exact (C06_signal_within_ttl_plus_latency c dl sch r Ht Hd Hf Hw H0 Hl).
  - right. destruct (C06_timed_states_are_untimed_states false c sch) as [bs Hb]. fold t in Hb.
    assert (Hn : 0 <= dones (info (base t) r)).
    { rewrite Hb. apply InvB_nonneg. destruct (Inv_run c bs) as (_ & HB & _). exact HB. }
    assert (H1 : 1 <= dones (info (base t) r)) by lia.
    split; [exact H1|]. cbn [tstep tact base clk retime step].
    split; [reflexivity|]. apply waiter_return_verdict; assumption.
Qed.
Print Assumptions C06_verdict_within_ttl_plus_latency.

(* The excepted situation does not outlast the quota call: whatever the loop
   holds, once its decision is taken (TickDecide, either answer) the loop holds
   nothing, so for a registered request whose registration + TTL has passed the
   watcher's timer is due at once and the wake-up that follows signals it (a
   grant has signalled it already).  With the theorem above: no signal after
   registration + TTL + dl only during one quota call. *)
Theorem C06_held_escape_ends_with_decision : forall c sch r b post, 0 <= ttl c ->
  let t := trun false c (tinit c) sch in
  In r (watch (base t)) -> regat t r + ttl c < clk t ->
  let t1 := tstep false c t (TAct (TickDecide b)) in
  held (base t1) = None /\ due t1 = true /\
  1 <= dones (info (base (trun false c t (TAct (TickDecide b) :: TWake :: post))) r).
Proof.
  intros c sch r b post Ht t Hw Hl t1.
  assert (E : t1 = trun false c (tinit c) (sch ++ [TAct (TickDecide b)])).
  { rewrite trun_app. reflexivity. }
  assert (Hh : held (base t1) = None) by (unfold t1; cbn [tstep tact base retime step]; apply decide_idle).
  assert (Hw1 : In r (watch (base t1))).
  { unfold t1. cbn [tstep tact base retime step].
    destruct (tick_decide_frame c (base t) b) as (_ & W & _). rewrite W. exact Hw. }
  assert (Hl1 : regat t1 r + ttl c < clk t1) by (unfold t1; cbn [tstep tact regat clk]; exact Hl).
  assert (Hn : held (base t1) <> Some r) by (rewrite Hh; discriminate).
  rewrite E in Hw1, Hl1, Hn.
  destruct (C06_due_wake_signals c (sch ++ [TAct (TickDecide b)]) r post Ht Hw1 Hl1 Hn) as [D S].
  rewrite <- E in D, S. split; [exact Hh|]. split; [exact D|]. exact S.
Qed.
Print Assumptions C06_held_escape_ends_with_decision.

Example C06_verdict_within_ttl_plus_latency_ex :
  (* both disjuncts are inhabited under all hypotheses (TTL 10, latency 1): at 12
     the waiting request is in the excepted situation (C06_sched_ex); after the
     refusal and the next wake-up it has its signal, its Execute still waits, and
     the return of Wait() gives "blocked" at the same instant 12 *)
  let c := {| qmax := 1; smax := -1; ttl := 10; var := fixed |} in
  let sch := [TAct (ArriveCheck 1 0 0); TAct (ArriveRegister 1); TAct (ArrivePush 1);
              TAdv 10; TWake; TAdv 1; TAct TickPop; TWake; TAdv 1] in
  let t := trun false c (tinit c) sch in
  let sch2 := sch ++ [TAct (TickDecide false); TWake] in
  let t2 := trun false c (tinit c) sch2 in
  (wfair false c 1 (tinit c) sch = true /\ In 1 (watch (base t)) /\ pc (info (base t) 1) = PWaiting /\
     regat t 1 + ttl c + 1 < clk t /\ dones (info (base t) 1) = 0 /\ wheld t = Some 1) /\
  (wfair false c 1 (tinit c) sch2 = true /\ In 1 (watch (base t2)) /\ pc (info (base t2) 1) = PWaiting /\
     regat t2 1 + ttl c + 1 < clk t2 /\ dones (info (base t2) 1) = 1 /\
     verdict (info (base t2) 1) = None /\
     let t' := tstep false c t2 (TAct (WaiterReturn 1)) in
     verdict (info (base t') 1) = Some false /\ clk t' = 12).
Proof. vm_compute. repeat split; auto. Qed.

(* the three statements as one property of a recalculation variant *)
Definition C06_sched_full (skip : bool) : Prop :=
  forall c, 0 <= ttl c -> forall sch,
  let t := trun skip c (tinit c) sch in
  (forall r, In r (watch (base t)) ->
     nea t <= regat t r + ttl c /\ expire (info (base t) r) <= regat t r + ttl c) /\
     (forall r post, In r (watch (base t)) -> regat t r + ttl c < clk t -> held (base t) <> Some r ->
     due t = true /\ 1 <= dones (info (base (trun skip c t (TWake :: post))) r)) /\
     (forall dl r, 0 <= dl -> wfair skip c dl (tinit c) sch = true ->
     In r (watch (base t)) -> dones (info (base t) r) = 0 -> regat t r + ttl c + dl < clk t ->
     wheld t = Some r /\ clk t - dl <= lastwake t /\ expire (info (base t) r) < lastwake t).

Theorem C06_sched_full_holds : C06_sched_full false.
Proof.
  intros c Ht sch t. split; [|split].
  - intros r Hw. destruct (C06_timer_never_late c sch r Ht Hw) as (A & B & _). split; assumption.
  - intros r post Hw Hl Hh. exact (C06_due_wake_signals c sch r post Ht Hw Hl Hh).
  - intros dl r Hd Hf Hw H0 Hl. exact (C06_signal_within_ttl_plus_latency c dl sch r Ht Hd Hf Hw H0 Hl).
Qed.
Print Assumptions C06_sched_full_holds.

(* Seed C06-7 (recalculation skips the entries already past their expiry): the
   request expires at 10; at 11 the loop holds it (quota call) when the watcher
   scans; the scan cannot signal it and the recalculation ignores it: the timer
   goes to 11 + TTL = 21.  The quota refuses, the loop puts the request back, and
   under a perfectly fair watcher (latency 1) the clock reaches 21 = 2 x TTL + 1
   with the request still unsignalled and nobody holding it: the third statement
   fails (the last scan is 10 old, not <= 1). *)
Theorem C06_sched_full_refuted_skip_past : ~ C06_sched_full true.
Proof.
  intros H.
  set (c := {| qmax := 1; smax := -1; ttl := 10; var := fixed |}).
  assert (Ht : 0 <= ttl c) by (cbn; lia).
  specialize (H c Ht [TAct (ArriveCheck 1 0 0); TAct (ArriveRegister 1); TAct (ArrivePush 1);
                      TAdv 10; TAdv 1; TAct TickPop; TWake; TAct (TickDecide false); TAdv 10]).
  cbv zeta in H. destruct H as (_ & _ & H).
  assert (Hd : 0 <= 1) by lia.
  specialize (H 1 1 Hd).
  assert (A1 : wfair true c 1 (tinit c)
                 [TAct (ArriveCheck 1 0 0); TAct (ArriveRegister 1); TAct (ArrivePush 1);
                  TAdv 10; TAdv 1; TAct TickPop; TWake; TAct (TickDecide false); TAdv 10] = true)
    by (vm_compute; reflexivity).
  specialize (H A1). clear A1.
  match type of H with ?A -> _ => assert (A2 : A) by (vm_compute; auto) end.
  specialize (H A2). clear A2.
  match type of H with ?A -> _ => assert (A2 : A) by (vm_compute; reflexivity) end.
  specialize (H A2). clear A2.
  match type of H with ?A -> _ => assert (A2 : A) by (vm_compute; reflexivity) end.
  specialize (H A2). clear A2.
  destruct H as (_ & K & _). vm_compute in K. apply K. reflexivity.
Qed.
Print Assumptions C06_sched_full_refuted_skip_past.

(* the same schedule, statement by statement: after the loop has put the request
   back, the seeded variant's timer is not due (second statement fails: nothing
   to wake for until 21) and lies beyond registration + TTL (first statement
   fails); the code as it is has the timer on the expired entry and signals at
   the wake-up that follows *)
Example C06_seed_skip_past_ex :
  let c := {| qmax := 1; smax := -1; ttl := 10; var := fixed |} in
  let sch := [TAct (ArriveCheck 1 0 0); TAct (ArriveRegister 1); TAct (ArrivePush 1);
              TAdv 10; TAdv 1; TAct TickPop; TWake; TAct (TickDecide false)] in
  let seeded := trun true c (tinit c) sch in
  let head := trun false c (tinit c) sch in
  (In 1 (watch (base seeded)) /\ held (base seeded) = None /\ clk seeded = 11 /\
     nea seeded = 21 /\ due seeded = false /\
     dones (info (base (trun true c seeded [TWake])) 1) = 0 /\
     dones (info (base (trun true c seeded [TWake; TAdv 10; TWake])) 1) = 1) /\
     (nea head = 10 /\ due head = true /\ dones (info (base (trun false c head [TWake])) 1) = 1).
Proof. vm_compute. repeat split; auto. Qed.

(* The suite "sched" (run_scase): every state its interpreter goes through —
   untimed state, clock and timer — is the state of a timed schedule of the code
   as it is (clock steps of the suite are never negative), and a case on which
   model and implementation agree on every operation is a walk through those
   states. *)
Theorem C06_sched_suite_states_are_timed_reachable : forall c hdr groups ops,
  Forall (fun p => nonneg_adv (fst p)) ops ->
  let h := send c hdr groups
             {| sh := {| hs := init; hnow := 0; hgate := true; hpend := false |}; snea := ttl c |} ops in
  exists sch, let t := trun sched_variant c (tinit c) sch in
              base t = hs (sh h) /\ clk t = hnow (sh h) /\ nea t = snea h.
Proof.
  intros c hdr groups ops Hf. apply (tre_send c hdr groups ops _ Hf). apply tre_init.
Qed.
Print Assumptions C06_sched_suite_states_are_timed_reachable.

(* The premise "clock steps are never negative" is enforced by the suite itself,
   not left to the generator: [run_scase] rejects (reports as a mismatch) a case
   that contains a negative step before it compares anything, so a case the
   check accepts satisfies the premise of the theorem above and is a walk of
   [srun] from the initial state. *)
Theorem C06_sched_suite_clock_steps_nonneg : forall mx sm tl hdr groups ops,
  run_scase ((mx, sm, tl, hdr, groups), ops) = None ->
  Forall (fun p => nonneg_adv (fst p)) ops /\
  srun {| qmax := mx; smax := sm; ttl := tl; var := code_variant |} hdr groups
       {| sh := {| hs := init; hnow := 0; hgate := true; hpend := false |}; snea := tl |} 0%N ops = None.
Proof.
  intros mx sm tl hdr groups ops H. split.
  - exact (run_scase_none_nonneg _ ops H).
  - exact (run_scase_none_srun mx sm tl hdr groups ops H).
Qed.
Print Assumptions C06_sched_suite_clock_steps_nonneg.

Example C06_sched_suite_rejects_negative_step :
  (* the same two operations with the step 3 are accepted when the observations
     are the model's own; with the step -3 the case is rejected at index 1 *)
  let o0 : sobs := ((false, 0, false, []), 10) in
  run_scase ((1, -1, 10, false, []), [(SOp (HAdvance 5), o0); (SOp (HAdvance (-3)), o0)]) = Some (1%N, o0) /\
  run_scase ((1, -1, 10, false, []), [(SOp (HAdvance 5), o0); (SOp (HAdvance 3), o0)]) = None.
Proof. vm_compute. split; reflexivity. Qed.

Theorem C06_sched_suite_walks_send : forall c hdr groups ops1 ops2 h n,
  srun c hdr groups h n (ops1 ++ ops2) = None ->
  srun c hdr groups h n ops1 = None /\
     srun c hdr groups (send c hdr groups h ops1) (n + N.of_nat (length ops1))%N ops2 = None.
Proof. exact srun_agrees_prefix. Qed.
Print Assumptions C06_sched_suite_walks_send.
