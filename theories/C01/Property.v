(* C01 — Fixed-window quotas never admit more than their limit per window.
   Final statements only; proofs are in Proofs.v.

   A schedule is any list of atomic steps (Model.action) of any set of
   requests; [clock_ok] says the clock readings along it do not decrease.
   [wf_forest]: windows are whole seconds >= 1 s, max >= 0, every parent link
   leads to a root without repeating a quota (what the loader builds). *)
From Coq Require Import List ZArith Bool Lia.
From Verif Require Import C01.Model C01.Proofs C01.Levels C01.Weighted.
Import ListNotations.
Open Scope Z_scope.

(* For every well-formed forest, every schedule with a monotone clock, every
   key k (quota, group value) of a configured quota d:
   - the charges booked on any stored window start s of k sum to <= max
     (in particular never more than max unit-cost requests are counted in it);
   - every charge instant lies inside its window [s, s+W);
   - two windows of one key are the same or disjoint;
   - the window counter is exactly the sum of the charges logged for the stored window. *)
Theorem C01_window_bound : forall f sched clk0,
  wf_forest f = true -> clock_ok clk0 sched ->
  let w := fst (run f init sched) in
  forall k d, lookup (fst k) f = Some d ->
    (forall s, csum k s (charges w) <= q_max d) /\
    (forall c, In c (charges w) -> c_key c = k ->
       c_ws c * sec <= c_at c < c_ws c * sec + q_win d) /\
    (forall c1 c2, In c1 (charges w) -> In c2 (charges w) -> c_key c1 = k -> c_key c2 = k ->
       c_ws c1 = c_ws c2 \/ c_ws c1 * sec + q_win d <= c_ws c2 * sec
       \/ c_ws c2 * sec + q_win d <= c_ws c1 * sec) /\
    (forall s, ws (st w k) = Some s -> cnt (st w k) = csum k s (charges w)).
Proof. exact window_bound. Qed.
Print Assumptions C01_window_bound.

(* Requests counted per window, for quotas that count requests (cost 1):
   requests the whole chain let through and attributed to window s of key k
   <= true per-key verdicts there <= charges there <= max.  k ranges over the
   request's own key and the key of every ancestor (next theorem). *)
Theorem C01_admitted_bound : forall f sched clk0,
  wf_forest f = true -> clock_ok clk0 sched ->
  let w := fst (run f init sched) in
  forall k d s, lookup (fst k) f = Some d -> q_custom d = false ->
    pcount k s (passes w) <= gcount k s (grants w) /\
    gcount k s (grants w) <= ccount k s (charges w) /\
    ccount k s (charges w) <= q_max d.
Proof. exact admitted_bound. Qed.
Print Assumptions C01_admitted_bound.

(* A request let through by Allowed is logged on every key of its chain
   (its own group key and every ancestor's), with the window stored there. *)
Theorem C01_admitted_counts_on_whole_chain : forall f w q rq w' ch,
  chain_of f q = Some ch -> step f w (Allowed q rq) = (w', OBool true) ->
  passes w' = map (mk_pass w' rq) ch ++ passes w.
Proof. exact allowed_true_passes. Qed.
Print Assumptions C01_admitted_counts_on_whole_chain.

(* One request at a time (limiter = Inc;Allowed, Dec on refusal), after ANY
   such history: the verdict is "refused" exactly when some key of the chain
   has effective_count + cost > max at that instant (effective count = 0 when
   the stored window is over). *)
Theorem C01_exact_sequential : forall f hist q rq now ch,
  wf_forest f = true -> chain_of f q = Some ch ->
  let w := fst (seq_run f init hist) in
  snd (seq_step f w (q, rq, now)) = OBool (forallb (has_room w rq now) ch) /\
  (snd (seq_step f w (q, rq, now)) = OBool false <->
   exists qd, In qd ch /\
     q_max (snd qd) < eff_count (q_win (snd qd)) (st w (key_of (fst qd) (snd qd) rq)) now
                      + cost_of (snd qd) rq).
Proof.
  intros f hist q rq now ch Hwf EC w.
  destruct (seq_step_exact f w q rq now ch Hwf EC (seq_run_clean f hist init Hwf Clean_init)) as [E _].
  split; [exact E|]. rewrite E. split.
  - intros H. injection H as H.
    destruct (forallb (has_room w rq now) ch) eqn:EF; [discriminate|].
    destruct (forallb_false_exists _ _ _ EF) as [qd [HIn EX]].
    exists qd. split; [assumption|]. unfold has_room in EX. apply Z.leb_gt in EX. exact EX.
  - intros [qd [HIn Hlt]]. f_equal.
    destruct (forallb (has_room w rq now) ch) eqn:EF; [|reflexivity].
    rewrite forallb_forall in EF. specialize (EF qd HIn). unfold has_room in EF.
    apply Z.leb_le in EF. lia.
Qed.
Print Assumptions C01_exact_sequential.

(* A step leaves every key it does not address untouched: state, and the part
   of every ghost log that belongs to that key.  Requests whose grouping header
   values differ address different keys of the quota. *)
Theorem C01_group_isolation : forall f w a k,
  ~ touches f a k ->
  let w' := fst (step f w a) in
  st w' k = st w k /\ chk k w' = chk k w /\ grk k w' = grk k w /\ pak k w' = pak k w.
Proof. intros f w a k H. exact (group_isolation f w a k H). Qed.
Print Assumptions C01_group_isolation.

Theorem C01_groups_have_own_keys : forall q d rq1 rq2,
  group_of d rq1 <> group_of d rq2 -> key_of q d rq1 <> key_of q d rq2.
Proof. intros q d rq1 rq2 H E. apply H. unfold key_of in E. congruence. Qed.
Print Assumptions C01_groups_have_own_keys.

(* ---------------------------------------------------------------- F-C01
   Exactness against the requests LET THROUGH (the count the property's first
   sentence speaks of): a refusal would need some key of the chain whose stored
   window already holds max (minus cost) let-through requests. *)
Definition C01_exact_sequential_full : Prop :=
  forall f hist clk0 q rq now ch,
    wf_forest f = true -> seq_clock_ok clk0 (hist ++ [(q, rq, now)]) ->
    chain_of f q = Some ch ->
    let w := fst (seq_run f init hist) in
    snd (seq_step f w (q, rq, now)) = OBool false ->
    existsb (pass_full w rq now) ch = true.

(* witness: parent 1 = 1 request / 1 s, child 2 = 2 requests / 10 s.
   r1 passes; r2 is charged to the child, then refused by the parent; after the
   parent's window is over r3 is refused by the child, which let only r1 through. *)
Definition F_C01_forest : forest := [(1, mkq 1 1 None None false); (2, mkq 2 10 (Some 1) None false)].
Definition F_C01_hist : list (Z * request * Z) :=
  [(2, mkr 1 [] 0, 5 * sec); (2, mkr 2 [] 0, 5 * sec + 100000000)].
Definition F_C01_next : Z * request * Z := (2, mkr 3 [] 0, 6 * sec + 500000000).

Theorem C01_exact_sequential_full_refuted : ~ C01_exact_sequential_full.
Proof.
  intros H.
  specialize (H F_C01_forest F_C01_hist 0 2 (mkr 3 [] 0) (6 * sec + 500000000)
                [(2, mkq 2 10 (Some 1) None false); (1, mkq 1 1 None None false)]).
  assert (E1 : wf_forest F_C01_forest = true) by (vm_compute; reflexivity).
  assert (E2 : seq_clock_ok 0 (F_C01_hist ++ [(2, mkr 3 [] 0, 6 * sec + 500000000)])).
  { unfold F_C01_hist, sec. cbn [app seq_clock_ok]. repeat split; lia. }
  assert (E3 : chain_of F_C01_forest 2 =
               Some [(2, mkq 2 10 (Some 1) None false); (1, mkq 1 1 None None false)])
    by (vm_compute; reflexivity).
  specialize (H E1 E2 E3). cbv zeta in H.
  assert (E4 : snd (seq_step F_C01_forest (fst (seq_run F_C01_forest init F_C01_hist))
                      (2, mkr 3 [] 0, 6 * sec + 500000000)) = OBool false)
    by (vm_compute; reflexivity).
  specialize (H E4). refine (eq_true_false_abs _ H _). vm_compute; reflexivity.
Qed.
Print Assumptions C01_exact_sequential_full_refuted.

(* The strongest true statement.  Side condition (decidable, [no_phantom]): on
   no key of the request's chain does the stored window hold a charge of a
   request that was not let through — such a charge can only come from a
   request refused by an ANCESTOR after its descendants were charged.  Then
   the verdict is exact w.r.t. the requests let through: refused iff some key
   of the chain is full of let-through requests. *)
Theorem C01_exact_sequential_holds_outside_ancestor_refusal :
  forall f hist clk0 q rq now ch,
    wf_forest f = true -> seq_clock_ok clk0 (hist ++ [(q, rq, now)]) ->
    chain_of f q = Some ch ->
    let w := fst (seq_run f init hist) in
    forallb (no_phantom w rq) ch = true ->
    snd (seq_step f w (q, rq, now)) = OBool (negb (existsb (pass_full w rq now) ch)).
Proof.
  intros f hist clk0 q rq now ch Hwf Hc EC w Hp.
  destruct (seq_run_inv f hist clk0 init (q, rq, now) Hwf
              (Inv_init f clk0 (wf_forest_quotas f Hwf)) Hc) as (clk' & HI & _).
  eapply exact_outside; eauto. apply seq_run_clean; [assumption|apply Clean_init].
Qed.
Print Assumptions C01_exact_sequential_holds_outside_ancestor_refusal.

(* Keys of quotas without ancestors never hold such a charge ... *)
Theorem C01_roots_hold_only_let_through_charges : forall f hist k d s,
  wf_forest f = true -> lookup (fst k) f = Some d -> q_parent d = None ->
  let w := fst (seq_run f init hist) in
  csum k s (charges w) = psum k s (passes w).
Proof.
  intros f hist k d s Hwf HL HP w.
  apply (seq_run_root f hist init Hwf Clean_init (RootInv_init f) k d HL HP s).
Qed.
Print Assumptions C01_roots_hold_only_let_through_charges.

(* ... so for a quota without ancestors the verdict is exact w.r.t. the
   requests let through, with no side condition. *)
Theorem C01_exact_sequential_roots : forall f hist clk0 q d rq now,
  wf_forest f = true -> seq_clock_ok clk0 (hist ++ [(q, rq, now)]) ->
  lookup q f = Some d -> q_parent d = None ->
  let w := fst (seq_run f init hist) in
  snd (seq_step f w (q, rq, now)) = OBool (negb (pass_full w rq now (q, d))).
Proof.
  intros f hist clk0 q d rq now Hwf Hc HL HP w.
  pose proof (C01_exact_sequential_holds_outside_ancestor_refusal f hist clk0 q rq now [(q, d)]
                Hwf Hc (chain_root f q d HL HP)) as X.
  cbv zeta in X. fold w in X. cbn [forallb existsb] in X. rewrite orb_false_r in X. apply X.
  rewrite andb_true_r. apply (root_no_phantom f w rq q d); auto.
  apply (seq_run_root f hist init Hwf Clean_init (RootInv_init f)).
Qed.
Print Assumptions C01_exact_sequential_roots.

(* ---------------------------------------------------------------- custom counters, decomposed walks

   Counts, for EVERY quota (also fixed_window_custom_counter): requests the
   chain-level Allowed let through <= true per-key verdicts <= charges, per key
   and window.  (The bound of the count by max needs cost 1: C01_admitted_bound.) *)
Theorem C01_counts_bound : forall f sched clk0,
  wf_forest f = true -> clock_ok clk0 sched ->
  let w := fst (run f init sched) in
  forall k d s, lookup (fst k) f = Some d ->
    pcount k s (passes w) <= gcount k s (grants w) /\
    gcount k s (grants w) <= ccount k s (charges w).
Proof. exact counts_bound. Qed.
Print Assumptions C01_counts_bound.

(* In cost units (the reading of the property for custom counters): when the
   cost of a request is the same wherever the schedule names it ([kappa] of its
   id) and not negative, the cost of the requests let through, per key and
   window, is at most the charged cost, which is at most max. *)
Theorem C01_let_through_weight_bound : forall kappa f sched clk0,
  (forall r, 0 <= kappa r) ->
  wf_forest f = true -> clock_ok clk0 sched -> Forall (act_ok kappa) sched ->
  let w := fst (run f init sched) in
  forall k d s, lookup (fst k) f = Some d ->
    psum k s (passes w) <= csum k s (charges w) /\ csum k s (charges w) <= q_max d.
Proof. intros kappa f sched clk0 Hk. exact (let_through_weight_bound kappa Hk f sched clk0). Qed.
Print Assumptions C01_let_through_weight_bound.

(* [passes] is written only by the chain-level Allowed: for a walk decomposed
   into KInc / KAllowed steps (the interleavings of concurrent walks) it stays
   empty and the first inequality above says 0 <= charged cost.  The bound that
   speaks about those walks is the one on the TRUE PER-KEY VERDICTS ([grants],
   written by Allowed and KAllowed alike; [gsum_w kappa d]: cost kappa of the
   granted request for a custom counter, 1 otherwise): per key and window
      cost let through by whole walks <= cost of the true per-key verdicts
                                      <= charged cost <= max.
   Same hypotheses as above (audit 2, item 19). *)
Theorem C01_granted_weight_bound : forall kappa f sched clk0,
  (forall r, 0 <= kappa r) ->
  wf_forest f = true -> clock_ok clk0 sched -> Forall (act_ok kappa) sched ->
  let w := fst (run f init sched) in
  forall k d s, lookup (fst k) f = Some d ->
    psum k s (passes w) <= gsum_w kappa d k s (grants w) /\
    gsum_w kappa d k s (grants w) <= csum k s (charges w) /\
    csum k s (charges w) <= q_max d.
Proof. intros kappa f sched clk0 Hk. exact (granted_weight_bound kappa Hk f sched clk0). Qed.
Print Assumptions C01_granted_weight_bound.

(* A chain walk decomposed into its per-key bodies (the real interleaving of
   concurrent walks) logs nothing in [passes]; there "let through" means a true
   verdict of the per-key Allowed on every key of the chain, and every such
   verdict is a grant of that key in its stored window - the log bounded in
   COUNTS by [gcount <= ccount] (C01_counts_bound; [<= max] only for
   request-counting quotas, C01_admitted_bound) and in COST UNITS by
   C01_granted_weight_bound above. *)
Theorem C01_true_key_verdict_is_granted : forall f w q d rq w',
  lookup q f = Some d -> step f w (KAllowed q rq) = (w', OBool true) ->
  grants w' = {| g_key := key_of q d rq; g_ws := ws_or0 (st w (key_of q d rq)); g_req := r_id rq |} :: grants w.
Proof.
  intros f w q d rq w' HL H. cbn [step] in H. rewrite HL in H. unfold do_kallowed in H.
  destruct (kallowed (st w (key_of q d rq)) (r_id rq)) as [ks' b].
  inversion H; subst. reflexivity.
Qed.
Print Assumptions C01_true_key_verdict_is_granted.

(* ---------------------------------------------------------------- one clock reading per level

   fixedWindow.Inc reads the clock once per level of the chain.  [seq_step_t]
   / [seq_run_t] give every request its own list of readings: [now] for its own
   quota, [later] for the ancestors in order (when [later] is exhausted the
   clock no longer advances); [with_times ch now later] pairs every key of the
   chain with the reading of its level.  [seq_step] / [seq_run] are the case
   [later = []], so the theorems above are instances of the ones below. *)
Theorem C01_levels_generalise : forall f w x h ch now,
  seq_step_t f w (x, []) = seq_step f w x /\
  seq_run_t f w (lift_h h) = seq_run f w h /\
  with_times ch now [] = map (fun qd => (qd, now)) ch.
Proof. intros. split; [apply seq_step_t_nil|]. split; [apply seq_run_t_lift|apply with_times_nil]. Qed.
Print Assumptions C01_levels_generalise.

(* After ANY one-at-a-time history (any readings, no clock hypothesis) the
   verdict is "refused" exactly when some key of the chain has
   effective_count + cost > max AT THE READING OF ITS OWN LEVEL. *)
Theorem C01_exact_sequential_levels : forall f hist q rq now later ch,
  wf_forest f = true -> chain_of f q = Some ch ->
  let w := fst (seq_run_t f init hist) in
  let l := with_times ch now later in
  snd (seq_step_t f w (q, rq, now, later)) = OBool (forallb (has_room_at w rq) l) /\
  (snd (seq_step_t f w (q, rq, now, later)) = OBool false <->
   exists qd t, In (qd, t) l /\
     q_max (snd qd) < eff_count (q_win (snd qd)) (st w (key_of (fst qd) (snd qd) rq)) t
                      + cost_of (snd qd) rq).
Proof. exact exact_sequential_levels. Qed.
Print Assumptions C01_exact_sequential_levels.

(* ---------------------------------------------------------------- F-C01, exactly

   [phantoms f init hist]: the charges left by the requests of [hist] that were
   refused, on the keys BELOW the key that refused them (Model.v).  They are
   the whole difference between what is booked and what was let through ... *)
Theorem C01_booked_is_let_through_plus_phantoms : forall f hist,
  wf_forest f = true ->
  let w := fst (seq_run_t f init hist) in
  forall k s, csum k s (charges w) = psum k s (passes w) + csum k s (phantoms f init hist).
Proof. exact booked_is_let_through_plus_phantoms. Qed.
Print Assumptions C01_booked_is_let_through_plus_phantoms.

(* ... and a charge is a phantom exactly when an earlier request of the history
   was refused ([qa], a strict ancestor of the charged key [qt], had no room at
   its reading) after every key up to [qt] had been charged ([walk_charge]: key
   of [qt], the window stored there, the reading of that level, the request,
   its cost). *)
Theorem C01_phantoms_are_ancestor_refusals : forall f hist c,
  wf_forest f = true ->
  (In c (phantoms f init hist) <->
   exists h1 q rq now later h2 ch pre qt mid qa post,
     hist = h1 ++ (q, rq, now, later) :: h2 /\ chain_of f q = Some ch /\
     let w1 := fst (seq_run_t f init h1) in
     snd (seq_step_t f w1 (q, rq, now, later)) = OBool false /\
     with_times ch now later = pre ++ qt :: mid ++ qa :: post /\
     forallb (has_room_at w1 rq) (pre ++ qt :: mid) = true /\ has_room_at w1 rq qa = false /\
     c = walk_charge w1 rq qt).
Proof. exact phantoms_are_ancestor_refusals. Qed.
Print Assumptions C01_phantoms_are_ancestor_refusals.

(* Exactness w.r.t. the requests let through, with the finding made explicit:
   a request is refused iff some key of its chain, at the reading of its level,
   has  let-through + phantoms + cost > max  in its current window. *)
Theorem C01_exact_sequential_with_phantoms : forall f hist clk0 q rq now later ch,
  wf_forest f = true -> seq_clock_ok_t clk0 hist -> chain_of f q = Some ch ->
  let w := fst (seq_run_t f init hist) in
  let P := phantoms f init hist in
  let l := with_times ch now later in
  snd (seq_step_t f w (q, rq, now, later)) = OBool (negb (existsb (full_with_phantoms_at P w rq) l)) /\
  (snd (seq_step_t f w (q, rq, now, later)) = OBool false <->
   exists qd t, In (qd, t) l /\
     q_max (snd qd) < eff_pass w rq t qd + eff_phantom P w rq t qd + cost_of (snd qd) rq).
Proof. exact exact_sequential_with_phantoms. Qed.
Print Assumptions C01_exact_sequential_with_phantoms.

(* The same in the vocabulary of [C01_exact_sequential_full] (one reading per request). *)
Theorem C01_refused_iff_full_with_phantoms : forall f hist clk0 q rq now ch,
  wf_forest f = true -> seq_clock_ok clk0 hist -> chain_of f q = Some ch ->
  let w := fst (seq_run f init hist) in
  let P := phantoms f init (lift_h hist) in
  (forall k s, csum k s (charges w) = psum k s (passes w) + csum k s P) /\
  (snd (seq_step f w (q, rq, now)) = OBool false <->
   exists qd, In qd ch /\
     q_max (snd qd) < eff_pass w rq now qd + eff_phantom P w rq now qd + cost_of (snd qd) rq).
Proof. exact refused_iff_full_with_phantoms. Qed.
Print Assumptions C01_refused_iff_full_with_phantoms.

(* The failures of [C01_exact_sequential_full] are EXACTLY F-C01: a refusal
   with no key full of let-through requests happens iff some key of the chain
   is filled by phantoms ([phantom_fills]: not full of let-through requests,
   full once the charges of ancestor-refused requests are added). *)
Theorem C01_spurious_refusal_iff_decisive_phantom : forall f hist clk0 q rq now later ch,
  wf_forest f = true -> seq_clock_ok_t clk0 hist -> chain_of f q = Some ch ->
  let w := fst (seq_run_t f init hist) in
  let P := phantoms f init hist in
  let l := with_times ch now later in
  (snd (seq_step_t f w (q, rq, now, later)) = OBool false /\ existsb (pass_full_at w rq) l = false) <->
  (existsb (pass_full_at w rq) l = false /\ existsb (phantom_fills_at P w rq) l = true).
Proof. exact spurious_refusal_iff_decisive_phantom. Qed.
Print Assumptions C01_spurious_refusal_iff_decisive_phantom.

(* Hence, outside the finding (no key of the chain filled by phantoms - decidable):
   refused only if some key is full of requests let through. *)
Theorem C01_exact_sequential_full_holds_outside_decisive_phantom :
  forall f hist clk0 q rq now later ch,
  wf_forest f = true -> seq_clock_ok_t clk0 hist -> chain_of f q = Some ch ->
  let w := fst (seq_run_t f init hist) in
  let P := phantoms f init hist in
  let l := with_times ch now later in
  existsb (phantom_fills_at P w rq) l = false ->
  snd (seq_step_t f w (q, rq, now, later)) = OBool false ->
  existsb (pass_full_at w rq) l = true.
Proof. exact refused_only_if_full_outside_decisive_phantom. Qed.
Print Assumptions C01_exact_sequential_full_holds_outside_decisive_phantom.

(* With both directions (phantoms of negative custom-counter cost could also
   make room): no key filled by phantoms, no negative phantom sum. *)
Theorem C01_exact_sequential_holds_outside_decisive_phantom :
  forall f hist clk0 q rq now later ch,
  wf_forest f = true -> seq_clock_ok_t clk0 hist -> chain_of f q = Some ch ->
  let w := fst (seq_run_t f init hist) in
  let P := phantoms f init hist in
  let l := with_times ch now later in
  forallb (outside_decisive_phantom P w rq) l = true ->
  snd (seq_step_t f w (q, rq, now, later)) = OBool (negb (existsb (pass_full_at w rq) l)).
Proof. exact holds_outside_decisive_phantom. Qed.
Print Assumptions C01_exact_sequential_holds_outside_decisive_phantom.

(* The side condition of [C01_exact_sequential_holds_outside_ancestor_refusal]
   ([no_phantom] on every key) implies this one (strictly: Example below). *)
Theorem C01_no_phantom_implies_outside_decisive_phantom : forall f hist q rq now later ch,
  wf_forest f = true -> chain_of f q = Some ch ->
  let w := fst (seq_run_t f init hist) in
  let P := phantoms f init hist in
  forallb (no_phantom w rq) ch = true ->
  forallb (outside_decisive_phantom P w rq) (with_times ch now later) = true.
Proof. exact no_phantom_outside_decisive. Qed.
Print Assumptions C01_no_phantom_implies_outside_decisive_phantom.

(* ---------------------------------------------------------------- non-vacuity *)

(* a grouped child under a parent: roll-over, refusal by the child, refusal by
   the parent, interleaved per-key steps; the hypotheses of the theorems hold
   and the logs are not empty *)
Definition ex_forest : forest :=
  [(1, mkq 3 2 None None false); (2, mkq 2 10 (Some 1) (Some 7) false)].
Definition ex_sched : list action :=
  [Inc 2 (mkr 1 [(7, 1)] 0) (5 * sec + 300000000); KInc 2 (mkr 2 [(7, 2)] 0) (5 * sec + 300000000);
   Allowed 2 (mkr 1 [(7, 1)] 0); KInc 1 (mkr 2 [(7, 2)] 0) (5 * sec + 400000000);
   Allowed 2 (mkr 2 [(7, 2)] 0); Inc 2 (mkr 3 [(7, 1)] 0) (6 * sec);
   Inc 2 (mkr 4 [(7, 1)] 0) (6 * sec + 999999999); Allowed 2 (mkr 4 [(7, 1)] 0);
   Allowed 2 (mkr 3 [(7, 1)] 0); Inc 2 (mkr 5 [(7, 2)] 0) (7 * sec);
   Allowed 2 (mkr 5 [(7, 2)] 0); Dec 2 (mkr 5 [(7, 2)] 0)].

Example C01_example_hypotheses :
  wf_forest ex_forest = true /\ clock_ok 0 ex_sched /\
  snd (run ex_forest init ex_sched) =
    [ONone; ORes Increased; OBool true; ORes Increased; OBool true; ONone; ONone;
     OBool false; OBool true; ONone; OBool true; ONone] /\
  map c_ws (charges (fst (run ex_forest init ex_sched))) = [7; 5; 5; 5; 5; 5; 5; 5].
Proof.
  split; [vm_compute; reflexivity|]. split.
  - unfold ex_sched, sec. cbn [clock_ok time_of]. repeat split; lia.
  - split; vm_compute; reflexivity.
Qed.

Example C01_example_sequential :
  wf_forest F_C01_forest = true /\
  snd (seq_run F_C01_forest init (F_C01_hist ++ [F_C01_next])) = [OBool true; OBool false; OBool false] /\
  forallb (no_phantom (fst (seq_run F_C01_forest init F_C01_hist)) (mkr 3 [] 0))
    [(2, mkq 2 10 (Some 1) None false); (1, mkq 1 1 None None false)] = false /\
  forallb (no_phantom (fst (seq_run F_C01_forest init [(2, mkr 1 [] 0, 5 * sec)])) (mkr 2 [] 0))
    [(2, mkq 2 10 (Some 1) None false); (1, mkq 1 1 None None false)] = true.
Proof. repeat split; vm_compute; reflexivity. Qed.

(* per-level readings matter: parent 1 = 1 request / 1 s, child 2 = 5 / 10 s;
   r1 at 5.0 s; r2 reads 5.999999999 s at the child: refused when the parent is
   read at the same instant, let through when the parent is read at 6.0 s *)
Definition lv_forest : forest := [(1, mkq 1 1 None None false); (2, mkq 5 10 (Some 1) None false)].
Definition lv_hist : list treq := [(2, mkr 1 [] 0, 5 * sec, [5 * sec + 1])].
Example C01_example_levels :
  wf_forest lv_forest = true /\ seq_clock_ok_t 0 lv_hist /\
  snd (seq_run_t lv_forest init lv_hist) = [OBool true] /\
  snd (seq_step_t lv_forest (fst (seq_run_t lv_forest init lv_hist)) (2, mkr 2 [] 0, 6 * sec - 1, [])) = OBool false /\
  snd (seq_step_t lv_forest (fst (seq_run_t lv_forest init lv_hist)) (2, mkr 2 [] 0, 6 * sec - 1, [6 * sec + 1])) = OBool true.
Proof.
  split; [vm_compute; reflexivity|]. split.
  - unfold lv_hist, sec. cbn [seq_clock_ok_t mono last]. repeat split; lia.
  - repeat split; vm_compute; reflexivity.
Qed.

(* F-C01 through the phantoms: after the witness history the only phantom is
   r2's charge on the child's window 5; r3 at 6.5 s is refused, no key is full
   of let-through requests, the child is filled by the phantom.  At 5.2 s the
   parent is genuinely full (no spurious refusal although the child holds a
   phantom).  With child max 3 the phantom is there ([no_phantom] false) but not
   decisive: the new side condition holds and r3 is let through. *)
Definition F_C01_chain := [(2, mkq 2 10 (Some 1) None false); (1, mkq 1 1 None None false)].
Definition F_C01_forest3 : forest := [(1, mkq 1 1 None None false); (2, mkq 3 10 (Some 1) None false)].
Definition F_C01_chain3 := [(2, mkq 3 10 (Some 1) None false); (1, mkq 1 1 None None false)].
Example C01_example_phantoms :
  let h := lift_h F_C01_hist in
  let w := fst (seq_run_t F_C01_forest init h) in
  let P := phantoms F_C01_forest init h in
  seq_clock_ok_t 0 h /\
  P = [{| c_key := (2, 0); c_ws := 5; c_at := 5 * sec + 100000000; c_req := 2; c_cost := 1 |}] /\
  (let l := with_times F_C01_chain (6 * sec + 500000000) [] in
   existsb (pass_full_at w (mkr 3 [] 0)) l = false /\ existsb (phantom_fills_at P w (mkr 3 [] 0)) l = true) /\
  (let l := with_times F_C01_chain (5 * sec + 200000000) [] in
   existsb (pass_full_at w (mkr 3 [] 0)) l = true) /\
  (let w3 := fst (seq_run_t F_C01_forest3 init h) in
   let P3 := phantoms F_C01_forest3 init h in
   let l := with_times F_C01_chain3 (6 * sec + 500000000) [] in
   forallb (no_phantom w3 (mkr 3 [] 0)) F_C01_chain3 = false /\
   forallb (outside_decisive_phantom P3 w3 (mkr 3 [] 0)) l = true /\
   snd (seq_step_t F_C01_forest3 w3 (2, mkr 3 [] 0, 6 * sec + 500000000, [])) = OBool true).
Proof.
  cbv zeta. split.
  - unfold F_C01_hist, lift_h, sec. cbn [map seq_clock_ok_t mono last]. repeat split; lia.
  - repeat split; vm_compute; reflexivity.
Qed.

(* the same finding WITH per-level readings (audit 2, item 19): every request
   reads a later instant at the parent.  r1: child 5.0 s, parent 5.0 s + 1 ns,
   let through; r2: child 5.0 s + 100 ns, parent 5.0 s + 200 ns - refused by the
   parent, its charge stays on the child (the only phantom); r3 reads
   5.999999999 s at the child and 6.0 s at the parent (the parent's window is
   over at that reading): refused, no key full of let-through requests, the
   child filled by the phantom.  So the hypotheses of
   C01_exact_sequential_with_phantoms / C01_spurious_refusal_iff_decisive_phantom
   ([seq_clock_ok_t] on a history whose [later] lists are not empty) hold
   together with a decisive phantom, not only on [lift_h] histories. *)
Definition F_C01_hist_t : list treq :=
  [(2, mkr 1 [] 0, 5 * sec, [5 * sec + 1]); (2, mkr 2 [] 0, 5 * sec + 100, [5 * sec + 200])].
Example C01_example_phantoms_levels :
  let h := F_C01_hist_t in
  let w := fst (seq_run_t F_C01_forest init h) in
  let P := phantoms F_C01_forest init h in
  let l := with_times F_C01_chain (6 * sec - 1) [6 * sec] in
  wf_forest F_C01_forest = true /\ seq_clock_ok_t 0 h /\
  chain_of F_C01_forest 2 = Some F_C01_chain /\
  snd (seq_run_t F_C01_forest init h) = [OBool true; OBool false] /\
  P = [{| c_key := (2, 0); c_ws := 5; c_at := 5 * sec + 100; c_req := 2; c_cost := 1 |}] /\
  snd (seq_step_t F_C01_forest w (2, mkr 3 [] 0, 6 * sec - 1, [6 * sec])) = OBool false /\
  existsb (pass_full_at w (mkr 3 [] 0)) l = false /\
  existsb (phantom_fills_at P w (mkr 3 [] 0)) l = true /\
  forallb (outside_decisive_phantom P w (mkr 3 [] 0)) l = false.
Proof.
  cbv zeta. split; [vm_compute; reflexivity|]. split.
  - unfold F_C01_hist_t, sec. cbn [seq_clock_ok_t mono last]. repeat split; lia.
  - repeat split; vm_compute; reflexivity.
Qed.

(* custom counter, max 3 / 1 s: costs by request id 2, 2, 1 - the hypotheses of
   the weighted bound hold; r2 is refused, r1 and r3 are let through: 3 cost units *)
Definition cc_forest : forest := [(1, mkq 3 1 None None true)].
Definition cc_kappa (r : Z) : Z := if r =? 3 then 1 else 2.
Definition cc_sched : list action :=
  [Inc 1 (mkr 1 [] 2) (5 * sec); KInc 1 (mkr 2 [] 2) (5 * sec + 1); Allowed 1 (mkr 1 [] 2);
   KAllowed 1 (mkr 2 [] 2); Inc 1 (mkr 3 [] 1) (5 * sec + 2); Allowed 1 (mkr 3 [] 1)].
Example C01_example_weighted :
  (forall r, 0 <= cc_kappa r) /\ wf_forest cc_forest = true /\ clock_ok 0 cc_sched /\
  Forall (act_ok cc_kappa) cc_sched /\
  snd (run cc_forest init cc_sched) = [ONone; ORes Blocked; OBool true; OBool false; ONone; OBool true] /\
  psum (1, 0) 5 (passes (fst (run cc_forest init cc_sched))) = 3 /\
  gsum_w cc_kappa (mkq 3 1 None None true) (1, 0) 5 (grants (fst (run cc_forest init cc_sched))) = 3.
Proof.
  split; [intros r; unfold cc_kappa; destruct (r =? 3); lia|].
  split; [vm_compute; reflexivity|]. split.
  - unfold cc_sched, sec. cbn [clock_ok time_of]. repeat split; lia.
  - split; [repeat constructor|]. repeat split; vm_compute; reflexivity.
Qed.

(* the same three requests as walks decomposed into their per-key bodies:
   [passes] stays empty (the weighted bound on passes says nothing), the true
   per-key verdicts weigh 2 + 1 = 3 = the charged cost = max *)
Definition cc_ksched : list action :=
  [KInc 1 (mkr 1 [] 2) (5 * sec); KInc 1 (mkr 2 [] 2) (5 * sec + 1); KAllowed 1 (mkr 1 [] 2);
   KAllowed 1 (mkr 2 [] 2); KInc 1 (mkr 3 [] 1) (5 * sec + 2); KAllowed 1 (mkr 3 [] 1)].
Example C01_example_weighted_decomposed :
  clock_ok 0 cc_ksched /\ Forall (act_ok cc_kappa) cc_ksched /\
  (let w := fst (run cc_forest init cc_ksched) in
   snd (run cc_forest init cc_ksched)
     = [ORes Increased; ORes Blocked; OBool true; OBool false; ORes Increased; OBool true] /\
   passes w = [] /\ psum (1, 0) 5 (passes w) = 0 /\
   gsum_w cc_kappa (mkq 3 1 None None true) (1, 0) 5 (grants w) = 3 /\
   csum (1, 0) 5 (charges w) = 3).
Proof.
  split; [unfold cc_ksched, sec; cbn [clock_ok time_of]; repeat split; lia|].
  split; [repeat constructor|].
  vm_compute. repeat split; reflexivity.
Qed.

(* negative custom costs void the REQUEST-COUNT reading (not the theorems): max 1,
   costs -3, 1, 1, 1, 1: five requests let through in one window, the sixth refused *)
Example C01_example_negative_cost :
  let f := [(1, mkq 1 10 None None true)] in
  wf_forest f = true /\
  snd (seq_run f init [(1, mkr 1 [] (-3), 5 * sec); (1, mkr 2 [] 1, 5 * sec); (1, mkr 3 [] 1, 5 * sec);
                       (1, mkr 4 [] 1, 5 * sec); (1, mkr 5 [] 1, 5 * sec); (1, mkr 6 [] 1, 5 * sec)])
  = [OBool true; OBool true; OBool true; OBool true; OBool true; OBool false].
Proof. split; vm_compute; reflexivity. Qed.

(* ---------------------------------------------------------------- metrics reads, drops *)
From Verif Require Import C01.Metrics.

(* Metrics reads are part of the engine: a collection of the used-quota gauge
   (observeQuotaUsed -> GetQuotaGroupsCounters -> GetCounter) may come between
   any two atomic steps - between the Inc and the Allowed of a transaction, at
   a window end.  Frame: erasing the collections from ANY schedule (any start
   world) leaves the final world - every window start, counter, admission
   record, log - and the output of every other step unchanged.
   NOTE: [scrape SFaithful] is the identity BY DEFINITION (Metrics.v), so this
   theorem proves nothing about the code; that a collection changes nothing
   rests on the suites res/eng (real gauge callbacks; props `trusted`).  Its
   use: it is the bridge from what suite res evaluates ([erun] -> [mrun]) to
   the [run] of the schedule theorems, and the statement the refuted variants
   below fail. *)
Theorem C01_scrape_frame : forall f ms w,
  fst (mrun f w ms) = fst (run f w (erase ms)) /\
  erase_outs ms (snd (mrun f w ms)) = snd (run f w (erase ms)).
Proof. exact mrun_frame. Qed.
Print Assumptions C01_scrape_frame.

(* the same as a statement about a variant of the scrape step; true of the code ... *)
Theorem C01_scrape_frame_faithful : scrape_frame SFaithful.
Proof. exact scrape_frame_faithful. Qed.
Print Assumptions C01_scrape_frame_faithful.

(* ... false when the scrape starts a fresh window (seeded change C01-10: max 1 /
   10 s, the window [15 s, 25 s) filled by r2, a scrape at 16 s of a group object
   created at 5 s - older than one window, so the seed's own age test fires as
   well - and r3 let through at 17 s; Metrics.ms_reset, reset_witness_verdicts) ... *)
Theorem C01_scrape_resets_window_refuted : ~ scrape_frame SResetsWindow.
Proof. exact scrape_frame_resets_refuted. Qed.
Print Assumptions C01_scrape_resets_window_refuted.

(* ... and false when the scrape drops the admission records of a window that is
   over (seeded change C18-10: the only request, counted, is then refused) *)
Theorem C01_scrape_clears_records_refuted : ~ scrape_frame SClearsMemo.
Proof. exact scrape_frame_clears_refuted. Qed.
Print Assumptions C01_scrape_clears_records_refuted.

(* hence every schedule theorem holds with collections anywhere in the
   schedule; the window bound spelled out *)
Theorem C01_window_bound_with_scrapes : forall f ms clk0,
  wf_forest f = true -> clock_ok clk0 (erase ms) ->
  let w := fst (mrun f init ms) in
  forall k d, lookup (fst k) f = Some d ->
    (forall s, csum k s (charges w) <= q_max d) /\
    (forall c, In c (charges w) -> c_key c = k ->
       c_ws c * sec <= c_at c < c_ws c * sec + q_win d) /\
    (forall c1 c2, In c1 (charges w) -> In c2 (charges w) -> c_key c1 = k -> c_key c2 = k ->
       c_ws c1 = c_ws c2 \/ c_ws c1 * sec + q_win d <= c_ws c2 * sec
       \/ c_ws c2 * sec + q_win d <= c_ws c1 * sec) /\
    (forall s, ws (st w k) = Some s -> cnt (st w k) = csum k s (charges w)).
Proof.
  intros f ms clk0 Hwf Hclk w. subst w.
  rewrite (proj1 (mrun_frame f ms init)).
  exact (C01_window_bound f (erase ms) clk0 Hwf Hclk).
Qed.
Print Assumptions C01_window_bound_with_scrapes.

(* one-at-a-time histories with collections between the requests: the verdicts
   and the final world are those of the history without them, so the
   sequential theorems (C01_exact_sequential_levels ...) apply as they stand *)
Theorem C01_seq_scrape_frame : forall f h w,
  seq_run_m f w h = seq_run_t f w (seq_erase h).
Proof. exact seq_run_m_frame. Qed.
Print Assumptions C01_seq_scrape_frame.

(* A drop (OnRequestDrop / queue time-out -> fixedWindow.Dec, or the per-key
   quota.Dec) gives nothing back: in every state, for every key, window start
   and counter are unchanged and so are the logs - in particular a drop that
   arrives after a roll-over cannot make room in the new window (seeded change
   C01-9). *)
Theorem C01_drop_leaves_counters : forall f w q rq k,
  (let w' := fst (step f w (Dec q rq)) in
   ws (st w' k) = ws (st w k) /\ cnt (st w' k) = cnt (st w k) /\
   charges w' = charges w /\ grants w' = grants w /\ passes w' = passes w) /\
  (let w' := fst (step f w (KDec q rq)) in
   ws (st w' k) = ws (st w k) /\ cnt (st w' k) = cnt (st w k) /\
   charges w' = charges w /\ grants w' = grants w /\ passes w' = passes w).
Proof. intros. split; [apply dec_step_counters|apply kdec_step_counters]. Qed.
Print Assumptions C01_drop_leaves_counters.

(* scrapes between Inc and Allowed and at the window end, a drop after the
   roll-over: max 1 / 10 s; r1 counted at 5 s, scraped, let through; r2 opens
   the next window at 15 s; r1 dropped at 16 s; r3 at 17 s is refused *)
Example C01_example_scrapes :
  let f := [(1, mkq 1 10 None None false)] in
  let r1 := mkr 1 [] 0 in let r2 := mkr 2 [] 0 in let r3 := mkr 3 [] 0 in
  let ms := [MAct (Inc 1 r1 (5 * sec)); MScrape (15 * sec); MAct (Allowed 1 r1);
             MAct (Inc 1 r2 (15 * sec)); MScrape (15 * sec + 1); MAct (Allowed 1 r2);
             MAct (Dec 1 r1); MAct (Inc 1 r3 (17 * sec)); MAct (Allowed 1 r3)] in
  wf_forest f = true /\ clock_ok 0 (erase ms) /\
  snd (mrun f init ms) = [ONone; ONone; OBool true; ONone; ONone; OBool true; ONone; ONone; OBool false].
Proof.
  split; [vm_compute; reflexivity|]. split; [|vm_compute; reflexivity].
  unfold sec. cbn [erase clock_ok time_of]. repeat split; lia.
Qed.

(* ---------------------------------------------------------------- renewal instants, stores of group objects *)
From Verif Require Import C01.Events.

(* Two more kinds of events may lie between the atomic steps of a schedule
   (Events.v): ERenew q now - a walk through quota q reads the clock past a
   renewal instant of a `monthly_renewal` block configured for q; EStore q rq -
   a group object built for request rq by a transaction that found none is
   stored into quotaGroups of q.  On this tree neither has an effect (the block
   is decoded and validated but never handed to the strategy; look-up,
   construction and store of a group object are one critical section, so a
   store only ever concerns a key nobody was served on).  Frame: erasing them
   from ANY schedule - whatever the renewal blocks say, wherever the instants
   fall, whichever transactions overlap in the creation of a group - leaves the
   final world and the output of every other step unchanged. *)
Theorem C01_event_frame : forall f es w,
  fst (erun f w es) = fst (mrun f w (eerase es)) /\
  eerase_outs es (snd (erun f w es)) = snd (mrun f w (eerase es)).
Proof. exact erun_frame. Qed.
Print Assumptions C01_event_frame.

Theorem C01_event_frame_faithful : event_frame RInert GOnce.
Proof. exact event_frame_faithful. Qed.
Print Assumptions C01_event_frame_faithful.

(* ... false when the block is wired into the strategy (seeded change C01-12:
   max 1 per 10 s, let through at 5 s, renewal instant crossed at 7 s, a second
   request let through at 7 s - inside the configured window) ... *)
Theorem C01_renewal_resets_window_refuted : ~ event_frame RResets GOnce.
Proof. exact event_frame_renewal_resets_refuted. Qed.
Print Assumptions C01_renewal_resets_window_refuted.

(* ... and false when a late store replaces the group object other first
   transactions of the group were counted on (seeded change C18-12: max 10, two
   transactions, both counted, one refused - in both one-at-a-time orders both
   are let through, C01_example_events) *)
Theorem C01_group_store_replaces_refuted : ~ event_frame RInert GReplaces.
Proof. exact event_frame_store_replaces_refuted. Qed.
Print Assumptions C01_group_store_replaces_refuted.

(* hence the window bound for schedules with renewal instants, group-object
   stores and metrics collections anywhere: the windows the bound speaks of are
   the configured ones (length q_win d, pairwise equal or disjoint per key) -
   no renewal cuts one short *)
Theorem C01_window_bound_with_events : forall f es clk0,
  wf_forest f = true -> clock_ok clk0 (erase (eerase es)) ->
  let w := fst (erun f init es) in
  forall k d, lookup (fst k) f = Some d ->
    (forall s, csum k s (charges w) <= q_max d) /\
    (forall c, In c (charges w) -> c_key c = k ->
       c_ws c * sec <= c_at c < c_ws c * sec + q_win d) /\
    (forall c1 c2, In c1 (charges w) -> In c2 (charges w) -> c_key c1 = k -> c_key c2 = k ->
       c_ws c1 = c_ws c2 \/ c_ws c1 * sec + q_win d <= c_ws c2 * sec
       \/ c_ws c2 * sec + q_win d <= c_ws c1 * sec) /\
    (forall s, ws (st w k) = Some s -> cnt (st w k) = csum k s (charges w)).
Proof.
  intros f es clk0 Hwf Hclk w. subst w.
  rewrite (proj1 (erun_frame f es init)).
  exact (C01_window_bound_with_scrapes f (eerase es) clk0 Hwf Hclk).
Qed.
Print Assumptions C01_window_bound_with_events.

(* the two witnesses run: what this tree does, what the variants do, and the
   verdicts of the two overlapping transactions in both one-at-a-time orders *)
Example C01_example_events :
  wf_forest mf = true /\ wf_forest gf = true /\
  clock_ok 0 (erase (eerase es_renew)) /\ clock_ok 0 (erase (eerase es_store)) /\
  snd (erun mf init es_renew) = [ONone; OBool true; ONone; ONone; OBool false] /\
  snd (erun_v RResets GOnce mf init es_renew) = [ONone; OBool true; ONone; ONone; OBool true] /\
  snd (run gf init [Inc 1 mr1 (5 * sec); Allowed 1 mr1; Inc 1 mr2 (5 * sec); Allowed 1 mr2])
    = [ONone; OBool true; ONone; OBool true] /\
  snd (run gf init [Inc 1 mr2 (5 * sec); Allowed 1 mr2; Inc 1 mr1 (5 * sec); Allowed 1 mr1])
    = [ONone; OBool true; ONone; OBool true] /\
  snd (erun gf init es_store) = [ONone; ONone; ONone; OBool true; OBool true] /\
  snd (erun_v RInert GReplaces gf init es_store) = [ONone; ONone; ONone; OBool true; OBool false].
Proof.
  split; [vm_compute; reflexivity|]. split; [vm_compute; reflexivity|].
  split; [unfold es_renew; cbn [eerase erase clock_ok time_of]; unfold sec; repeat split; lia|].
  split; [unfold es_store; cbn [eerase erase clock_ok time_of]; unfold sec; repeat split; lia|].
  vm_compute. repeat split; reflexivity.
Qed.
