(* C01 — Fixed-window quotas never admit more than their limit per window.
   Final statements only; proofs are in Proofs.v.

   A schedule is any list of atomic steps (Model.action) of any set of
   requests; [clock_ok] says the clock readings along it do not decrease.
   [wf_forest]: windows are whole seconds >= 1 s, max >= 0, every parent link
   leads to a root without repeating a quota (what the loader builds). *)
From Coq Require Import List ZArith Bool Lia.
From Verif Require Import C01.Model C01.Proofs.
Import ListNotations.
Open Scope Z_scope.

(* For every well-formed forest, every schedule with a monotone clock, every
   key k (quota, group value) of a configured quota d:
   - the charges booked on any stored window start s of k sum to <= max
     (in particular never more than max unit-cost requests are counted in it);
   - every charge instant lies inside its window [s, s+W);
   - two windows of one key are the same or disjoint;
   - the window counter is exactly the sum of the charges logged for the stored window. *)
Theorem C01_window_bound : forall f sched clk0,
  wf_forest f = true -> clock_ok clk0 sched ->
  let w := fst (run f init sched) in
  forall k d, lookup (fst k) f = Some d ->
    (forall s, csum k s (charges w) <= q_max d) /\
    (forall c, In c (charges w) -> c_key c = k ->
       c_ws c * sec <= c_at c < c_ws c * sec + q_win d) /\
    (forall c1 c2, In c1 (charges w) -> In c2 (charges w) -> c_key c1 = k -> c_key c2 = k ->
       c_ws c1 = c_ws c2 \/ c_ws c1 * sec + q_win d <= c_ws c2 * sec
       \/ c_ws c2 * sec + q_win d <= c_ws c1 * sec) /\
    (forall s, ws (st w k) = Some s -> cnt (st w k) = csum k s (charges w)).
Proof. exact window_bound. Qed.
Print Assumptions C01_window_bound.

(* Requests counted per window, for quotas that count requests (cost 1):
   requests the whole chain let through and attributed to window s of key k
   <= true per-key verdicts there <= charges there <= max.  k ranges over the
   request's own key and the key of every ancestor (next theorem). *)
Theorem C01_admitted_bound : forall f sched clk0,
  wf_forest f = true -> clock_ok clk0 sched ->
  let w := fst (run f init sched) in
  forall k d s, lookup (fst k) f = Some d -> q_custom d = false ->
    pcount k s (passes w) <= gcount k s (grants w) /\
    gcount k s (grants w) <= ccount k s (charges w) /\
    ccount k s (charges w) <= q_max d.
Proof. exact admitted_bound. Qed.
Print Assumptions C01_admitted_bound.

(* A request let through by Allowed is logged on every key of its chain
   (its own group key and every ancestor's), with the window stored there. *)
Theorem C01_admitted_counts_on_whole_chain : forall f w q rq w' ch,
  chain_of f q = Some ch -> step f w (Allowed q rq) = (w', OBool true) ->
  passes w' = map (mk_pass w' rq) ch ++ passes w.
Proof. exact allowed_true_passes. Qed.
Print Assumptions C01_admitted_counts_on_whole_chain.

(* One request at a time (limiter = Inc;Allowed, Dec on refusal), after ANY
   such history: the verdict is "refused" exactly when some key of the chain
   has effective_count + cost > max at that instant (effective count = 0 when
   the stored window is over). *)
Theorem C01_exact_sequential : forall f hist q rq now ch,
  wf_forest f = true -> chain_of f q = Some ch ->
  let w := fst (seq_run f init hist) in
  snd (seq_step f w (q, rq, now)) = OBool (forallb (has_room w rq now) ch) /\
  (snd (seq_step f w (q, rq, now)) = OBool false <->
   exists qd, In qd ch /\
     q_max (snd qd) < eff_count (q_win (snd qd)) (st w (key_of (fst qd) (snd qd) rq)) now
                      + cost_of (snd qd) rq).
Proof.
  intros f hist q rq now ch Hwf EC w.
  destruct (seq_step_exact f w q rq now ch Hwf EC (seq_run_clean f hist init Hwf Clean_init)) as [E _].
  split; [exact E|]. rewrite E. split.
  - intros H. injection H as H.
    destruct (forallb (has_room w rq now) ch) eqn:EF; [discriminate|].
    destruct (forallb_false_exists _ _ _ EF) as [qd [HIn EX]].
    exists qd. split; [assumption|]. unfold has_room in EX. apply Z.leb_gt in EX. exact EX.
  - intros [qd [HIn Hlt]]. f_equal.
    destruct (forallb (has_room w rq now) ch) eqn:EF; [|reflexivity].
    rewrite forallb_forall in EF. specialize (EF qd HIn). unfold has_room in EF.
    apply Z.leb_le in EF. lia.
Qed.
Print Assumptions C01_exact_sequential.

(* A step leaves every key it does not address untouched: state, and the part
   of every ghost log that belongs to that key.  Requests whose grouping header
   values differ address different keys of the quota. *)
Theorem C01_group_isolation : forall f w a k,
  ~ touches f a k ->
  let w' := fst (step f w a) in
  st w' k = st w k /\ chk k w' = chk k w /\ grk k w' = grk k w /\ pak k w' = pak k w.
Proof. intros f w a k H. exact (group_isolation f w a k H). Qed.
Print Assumptions C01_group_isolation.

Theorem C01_groups_have_own_keys : forall q d rq1 rq2,
  group_of d rq1 <> group_of d rq2 -> key_of q d rq1 <> key_of q d rq2.
Proof. intros q d rq1 rq2 H E. apply H. unfold key_of in E. congruence. Qed.
Print Assumptions C01_groups_have_own_keys.

(* ---------------------------------------------------------------- F-C01
   Exactness against the requests LET THROUGH (the count the property's first
   sentence speaks of): a refusal would need some key of the chain whose stored
   window already holds max (minus cost) let-through requests. *)
Definition C01_exact_sequential_full : Prop :=
  forall f hist clk0 q rq now ch,
    wf_forest f = true -> seq_clock_ok clk0 (hist ++ [(q, rq, now)]) ->
    chain_of f q = Some ch ->
    let w := fst (seq_run f init hist) in
    snd (seq_step f w (q, rq, now)) = OBool false ->
    existsb (pass_full w rq now) ch = true.

(* witness: parent 1 = 1 request / 1 s, child 2 = 2 requests / 10 s.
   r1 passes; r2 is charged to the child, then refused by the parent; after the
   parent's window is over r3 is refused by the child, which let only r1 through. *)
Definition F_C01_forest : forest := [(1, mkq 1 1 None None false); (2, mkq 2 10 (Some 1) None false)].
Definition F_C01_hist : list (Z * request * Z) :=
  [(2, mkr 1 [] 0, 5 * sec); (2, mkr 2 [] 0, 5 * sec + 100000000)].
Definition F_C01_next : Z * request * Z := (2, mkr 3 [] 0, 6 * sec + 500000000).

Theorem C01_exact_sequential_full_refuted : ~ C01_exact_sequential_full.
Proof.
  intros H.
  specialize (H F_C01_forest F_C01_hist 0 2 (mkr 3 [] 0) (6 * sec + 500000000)
                [(2, mkq 2 10 (Some 1) None false); (1, mkq 1 1 None None false)]).
  assert (E1 : wf_forest F_C01_forest = true) by (vm_compute; reflexivity).
  assert (E2 : seq_clock_ok 0 (F_C01_hist ++ [(2, mkr 3 [] 0, 6 * sec + 500000000)])).
  { unfold F_C01_hist, sec. cbn [app seq_clock_ok]. repeat split; lia. }
  assert (E3 : chain_of F_C01_forest 2 =
               Some [(2, mkq 2 10 (Some 1) None false); (1, mkq 1 1 None None false)])
    by (vm_compute; reflexivity).
  specialize (H E1 E2 E3). cbv zeta in H.
  assert (E4 : snd (seq_step F_C01_forest (fst (seq_run F_C01_forest init F_C01_hist))
                      (2, mkr 3 [] 0, 6 * sec + 500000000)) = OBool false)
    by (vm_compute; reflexivity).
  specialize (H E4). refine (eq_true_false_abs _ H _). vm_compute; reflexivity.
Qed.
Print Assumptions C01_exact_sequential_full_refuted.

(* The strongest true statement.  Side condition (decidable, [no_phantom]): on
   no key of the request's chain does the stored window hold a charge of a
   request that was not let through — such a charge can only come from a
   request refused by an ANCESTOR after its descendants were charged.  Then
   the verdict is exact w.r.t. the requests let through: refused iff some key
   of the chain is full of let-through requests. *)
Theorem C01_exact_sequential_holds_outside_ancestor_refusal :
  forall f hist clk0 q rq now ch,
    wf_forest f = true -> seq_clock_ok clk0 (hist ++ [(q, rq, now)]) ->
    chain_of f q = Some ch ->
    let w := fst (seq_run f init hist) in
    forallb (no_phantom w rq) ch = true ->
    snd (seq_step f w (q, rq, now)) = OBool (negb (existsb (pass_full w rq now) ch)).
Proof.
  intros f hist clk0 q rq now ch Hwf Hc EC w Hp.
  destruct (seq_run_inv f hist clk0 init (q, rq, now) Hwf
              (Inv_init f clk0 (wf_forest_quotas f Hwf)) Hc) as (clk' & HI & _).
  eapply exact_outside; eauto. apply seq_run_clean; [assumption|apply Clean_init].
Qed.
Print Assumptions C01_exact_sequential_holds_outside_ancestor_refusal.

(* Keys of quotas without ancestors never hold such a charge ... *)
Theorem C01_roots_hold_only_let_through_charges : forall f hist k d s,
  wf_forest f = true -> lookup (fst k) f = Some d -> q_parent d = None ->
  let w := fst (seq_run f init hist) in
  csum k s (charges w) = psum k s (passes w).
Proof.
  intros f hist k d s Hwf HL HP w.
  apply (seq_run_root f hist init Hwf Clean_init (RootInv_init f) k d HL HP s).
Qed.
Print Assumptions C01_roots_hold_only_let_through_charges.

(* ... so for a quota without ancestors the verdict is exact w.r.t. the
   requests let through, with no side condition. *)
Theorem C01_exact_sequential_roots : forall f hist clk0 q d rq now,
  wf_forest f = true -> seq_clock_ok clk0 (hist ++ [(q, rq, now)]) ->
  lookup q f = Some d -> q_parent d = None ->
  let w := fst (seq_run f init hist) in
  snd (seq_step f w (q, rq, now)) = OBool (negb (pass_full w rq now (q, d))).
Proof.
  intros f hist clk0 q d rq now Hwf Hc HL HP w.
  pose proof (C01_exact_sequential_holds_outside_ancestor_refusal f hist clk0 q rq now [(q, d)]
                Hwf Hc (chain_root f q d HL HP)) as X.
  cbv zeta in X. fold w in X. cbn [forallb existsb] in X. rewrite orb_false_r in X. apply X.
  rewrite andb_true_r. apply (root_no_phantom f w rq q d); auto.
  apply (seq_run_root f hist init Hwf Clean_init (RootInv_init f)).
Qed.
Print Assumptions C01_exact_sequential_roots.

(* ---------------------------------------------------------------- non-vacuity *)

(* a grouped child under a parent: roll-over, refusal by the child, refusal by
   the parent, interleaved per-key steps; the hypotheses of the theorems hold
   and the logs are not empty *)
Definition ex_forest : forest :=
  [(1, mkq 3 2 None None false); (2, mkq 2 10 (Some 1) (Some 7) false)].
Definition ex_sched : list action :=
  [Inc 2 (mkr 1 [(7, 1)] 0) (5 * sec + 300000000); KInc 2 (mkr 2 [(7, 2)] 0) (5 * sec + 300000000);
   Allowed 2 (mkr 1 [(7, 1)] 0); KInc 1 (mkr 2 [(7, 2)] 0) (5 * sec + 400000000);
   Allowed 2 (mkr 2 [(7, 2)] 0); Inc 2 (mkr 3 [(7, 1)] 0) (6 * sec);
   Inc 2 (mkr 4 [(7, 1)] 0) (6 * sec + 999999999); Allowed 2 (mkr 4 [(7, 1)] 0);
   Allowed 2 (mkr 3 [(7, 1)] 0); Inc 2 (mkr 5 [(7, 2)] 0) (7 * sec);
   Allowed 2 (mkr 5 [(7, 2)] 0); Dec 2 (mkr 5 [(7, 2)] 0)].

Example C01_example_hypotheses :
  wf_forest ex_forest = true /\ clock_ok 0 ex_sched /\
  snd (run ex_forest init ex_sched) =
    [ONone; ORes Increased; OBool true; ORes Increased; OBool true; ONone; ONone;
     OBool false; OBool true; ONone; OBool true; ONone] /\
  map c_ws (charges (fst (run ex_forest init ex_sched))) = [7; 5; 5; 5; 5; 5; 5; 5].
Proof.
  split; [vm_compute; reflexivity|]. split.
  - unfold ex_sched, sec. cbn [clock_ok time_of]. repeat split; lia.
  - split; vm_compute; reflexivity.
Qed.

Example C01_example_sequential :
  wf_forest F_C01_forest = true /\
  snd (seq_run F_C01_forest init (F_C01_hist ++ [F_C01_next])) = [OBool true; OBool false; OBool false] /\
  forallb (no_phantom (fst (seq_run F_C01_forest init F_C01_hist)) (mkr 3 [] 0))
    [(2, mkq 2 10 (Some 1) None false); (1, mkq 1 1 None None false)] = false /\
  forallb (no_phantom (fst (seq_run F_C01_forest init [(2, mkr 1 [] 0, 5 * sec)])) (mkr 2 [] 0))
    [(2, mkq 2 10 (Some 1) None false); (1, mkq 1 1 None None false)] = true.
Proof. repeat split; vm_compute; reflexivity. Qed.
