(* C01 — the hand-written model equals what the translator reads off the source.

   theories/C01/Gen.v is regenerated from streams/lunar-context/memory_state.go on
   every check run (buildKey, setInt64, atomicGetWindow, AtomicIncWindow,
   AtomicWindowResetIn, GetQuotaCounter, Set).

   The code keeps, per quota key, two entries of a generic string-keyed store:
   "<key> // _window_start" (whole seconds) and "<key> // _counter".  The model
   keeps a [kstate] per key ({ws; cnt; memo}); [repr_ks] reads the two entries as
   the ws/cnt part (memo is the quota object's allowedByReqID, not touched here).

   Model.kinc is "quota.Inc with AtomicIncWindow inlined".  [inc_window] below is
   the AtomicIncWindow part of it, written with the model's own [expired],
   [eff_count]; [kinc_is_inc_window] shows kinc is exactly inc_window plus the memo
   bookkeeping, and C01_gen_AtomicIncWindow is the simulation square between the
   generated AtomicIncWindow and inc_window, for ALL stores, keys, costs, window
   sizes, limits and instants.

   Clock: AtomicIncWindow reads the clock twice (currentTime, and the fall-back
   reading inside atomicGetWindow used when no start is stored).  The model has
   one instant per step; the squares are stated for equal readings.  See
   notes/gotocoq.md for what happens with different readings. *)
From Coq Require Import List ZArith Bool Lia.
From Verif Require Import Lib.GoSem C01.Model.
From Verif Require C01.Gen.
Import ListNotations.
Open Scope Z_scope.

(* ---------------------------------------------------------------- representation *)

Definition wkey (key : gostring) : gostring := Gen.buildKey (Gen.mk_ms []) key Gen.windowStartKeySuffix.
Definition ckey (key : gostring) : gostring := Gen.buildKey (Gen.mk_ms []) key Gen.counterKeySuffix.

(* the int64 stored under a key of the generic store, if any *)
Definition int_at (c : ctxmem) (k : gostring) : option Z :=
  match smap_get c k with Some (VInt64 z) => Some z | _ => None end.

Definition repr_ks (p : Gen.ms) (key : gostring) (m : list (Z * bool)) : kstate :=
  {| ws := int_at (Gen.ms_contextMemory p) (wkey key);
     cnt := match int_at (Gen.ms_contextMemory p) (ckey key) with Some z => z | None => 0 end;
     memo := m |}.

(* ---------------------------------------------------------------- the model's AtomicIncWindow *)

(* new per-key state; (counter, window restarted, no error) *)
Definition inc_window (mx W : Z) (ks : kstate) (now cost : Z) : kstate * (Z * bool * bool) :=
  let restarted := expired W ks now in
  let c' := eff_count W ks now + cost in
  if mx <? c' then (ks, (0, restarted, false))
  else
    let s' := if restarted then now / sec
              else match ws ks with Some s => s | None => now / sec end in
    ({| ws := Some s'; cnt := c'; memo := memo ks |}, (c', restarted, true)).

(* Model.kinc is inc_window plus the memo bookkeeping of quota.Inc *)
Lemma kinc_is_inc_window mx W ks r now cost :
  kinc mx W ks r now cost =
  match lookup r (memo ks) with
  | Some _ => (ks, AlreadyIncreased, None)
  | None =>
      let '(ks', (_, restarted, ok)) := inc_window mx W ks now cost in
      if ok then
        ({| ws := ws ks'; cnt := cnt ks';
            memo := (r, true) :: (if restarted then [] else memo ks) |}, Increased, ws ks')
      else
        ({| ws := ws ks'; cnt := cnt ks';
            memo := if restarted then [] else (r, false) :: memo ks |}, Blocked, None)
  end.
Proof.
  unfold kinc, inc_window. destruct (lookup r (memo ks)); [reflexivity|].
  destruct (mx <? eff_count W ks now + cost); reflexivity.
Qed.

(* ---------------------------------------------------------------- facts about the keys *)

Lemma buildKey_eq p key suf : Gen.buildKey p key suf = key ++ [32;47;47;32] ++ suf.
Proof. reflexivity. Qed.

Lemma wkey_nonempty key : wkey key <> [].
Proof. unfold wkey. rewrite buildKey_eq. destruct key; discriminate. Qed.
Lemma ckey_nonempty key : ckey key <> [].
Proof. unfold ckey. rewrite buildKey_eq. destruct key; discriminate. Qed.
Lemma wkey_ckey key : wkey key <> ckey key.
Proof.
  unfold wkey, ckey. rewrite !buildKey_eq. intros H. apply app_inv_head in H.
  vm_compute in H. discriminate H.
Qed.

(* distinct quota keys have distinct store keys (the suffix is fixed) *)
Lemma buildKey_inj p q k1 k2 suf : Gen.buildKey p k1 suf = Gen.buildKey q k2 suf -> k1 = k2.
Proof. rewrite !buildKey_eq. apply app_inv_tail. Qed.

(* ---------------------------------------------------------------- the pieces *)

Lemma gen_setInt64 p k v : k <> [] ->
  Gen.setInt64 p k v = (Gen.mk_ms (smap_set (Gen.ms_contextMemory p) k (VInt64 v)), ErrNil).
Proof. intros Hk. unfold Gen.setInt64, ctx_set. destruct k; [contradiction|reflexivity]. Qed.

Lemma get_int64_fst c k :
  fst (ctx_get_int64 c k) = match int_at c k with Some z => z | None => 0 end.
Proof.
  unfold ctx_get_int64, ctx_get, int_at.
  destruct (smap_get c k) as [[| z | l | t | zi]|]; reflexivity.
Qed.

Lemma gen_atomicGetWindow p key m now :
  Gen.atomicGetWindow p (wkey key) now = win_start_ns (repr_ks p key m) now.
Proof.
  unfold Gen.atomicGetWindow, win_start_ns, repr_ks, int_at, ctx_get_int64, ctx_get. cbn [ws].
  destruct (smap_get (Gen.ms_contextMemory p) (wkey key)) as [[| z | l | t | zi]|]; cbn; try reflexivity.
  unfold time_unix, ns_per_sec, sec. lia.
Qed.

Lemma unix_of_stored s : time_to_unix (time_unix s 0) = s.
Proof. unfold time_to_unix, time_unix. rewrite Z.add_0_r. apply Z.div_mul. discriminate. Qed.

Lemma repr_after_store p key m a b :
  repr_ks (Gen.mk_ms (smap_set (smap_set (Gen.ms_contextMemory p) (wkey key) (VInt64 a))
                               (ckey key) (VInt64 b))) key m
  = {| ws := Some a; cnt := b; memo := m |}.
Proof.
  unfold repr_ks, int_at. cbn [Gen.ms_contextMemory].
  rewrite smap_get_set_same.
  rewrite smap_get_set_other by apply wkey_ckey.
  rewrite smap_get_set_same. reflexivity.
Qed.

(* ---------------------------------------------------------------- AtomicIncWindow *)

Theorem C01_gen_AtomicIncWindow : forall p key incrBy W mx now m,
  let '(p', c, restarted, err) := Gen.AtomicIncWindow p key incrBy W mx now now in
  let '(ks', (c0, restarted0, ok)) := inc_window mx W (repr_ks p key m) now incrBy in
  repr_ks p' key m = ks' /\ c = c0 /\ restarted = restarted0 /\ err_is_nil err = ok.
Proof.
  intros p key incrBy W mx now m.
  unfold Gen.AtomicIncWindow.
  change (Gen.buildKey p key Gen.windowStartKeySuffix) with (wkey key).
  change (Gen.buildKey p key Gen.counterKeySuffix) with (ckey key).
  rewrite (gen_atomicGetWindow p key m now).
  unfold inc_window, eff_count, expired, time_sub.
  set (ks := repr_ks p key m).
  destruct (W <=? now - win_start_ns ks now) eqn:Eexp.
  - (* the stored window is over: restart *)
    rewrite Z.add_0_l.
    destruct (mx <? incrBy) eqn:Emx.
    + cbv beta iota zeta. repeat split.
    + rewrite (gen_setInt64 p (wkey key)) by apply wkey_nonempty.
      cbn [err_is_nil negb].
      rewrite gen_setInt64 by apply ckey_nonempty.
      cbn [err_is_nil negb Gen.ms_contextMemory].
      rewrite repr_after_store. cbv beta iota zeta. repeat split.
  - (* inside the stored window (or no window stored yet) *)
    destruct (ctx_get_int64 (Gen.ms_contextMemory p) (ckey key)) as [z e] eqn:Eget.
    cbn [as_int64 negb].
    assert (Hz : z = cnt ks).
    { pose proof (get_int64_fst (Gen.ms_contextMemory p) (ckey key)) as H.
      rewrite Eget in H. exact H. }
    subst z.
    destruct (mx <? cnt ks + incrBy) eqn:Emx.
    + cbv beta iota zeta. repeat split.
    + rewrite (gen_setInt64 p (wkey key)) by apply wkey_nonempty.
      cbn [err_is_nil negb].
      rewrite gen_setInt64 by apply ckey_nonempty.
      cbn [err_is_nil negb Gen.ms_contextMemory].
      rewrite repr_after_store.
      assert (Hs : time_to_unix (win_start_ns ks now)
                   = match ws ks with Some s => s | None => now / sec end).
      { unfold win_start_ns. destruct (ws ks) as [s|].
        - replace (s * sec) with (time_unix s 0) by (unfold time_unix, ns_per_sec, sec; lia).
          apply unix_of_stored.
        - reflexivity. }
      rewrite Hs. cbv beta iota zeta. repeat split.
Qed.

(* what AtomicIncWindow leaves alone: every entry of the store other than the two
   entries of its key *)
Theorem C01_gen_AtomicIncWindow_frame : forall p key incrBy W mx now1 now2 k',
  k' <> wkey key -> k' <> ckey key ->
  let '(p', _, _, _) := Gen.AtomicIncWindow p key incrBy W mx now1 now2 in
  smap_get (Gen.ms_contextMemory p') k' = smap_get (Gen.ms_contextMemory p) k'.
Proof.
  intros p key incrBy W mx now1 now2 k' Hw Hc.
  unfold Gen.AtomicIncWindow.
  change (Gen.buildKey p key Gen.windowStartKeySuffix) with (wkey key).
  change (Gen.buildKey p key Gen.counterKeySuffix) with (ckey key).
  assert (Hstore : forall a b,
    (let '(p0, r1) := Gen.setInt64 p (wkey key) a in
     let err := r1 in
     smap_get (Gen.ms_contextMemory (fst (Gen.setInt64 p0 (ckey key) b))) k')
    = smap_get (Gen.ms_contextMemory p) k').
  { intros a b. rewrite (gen_setInt64 p (wkey key)) by apply wkey_nonempty.
    rewrite gen_setInt64 by apply ckey_nonempty. cbn [fst Gen.ms_contextMemory].
    rewrite smap_get_set_other by exact Hc. now rewrite smap_get_set_other by exact Hw. }
  destruct (W <=? time_sub now1 (Gen.atomicGetWindow p (wkey key) now2)).
  - destruct (mx <? 0 + incrBy); [reflexivity|].
    specialize (Hstore (time_to_unix now1) (0 + incrBy)).
    rewrite (gen_setInt64 p (wkey key)) in * by apply wkey_nonempty.
    cbn [err_is_nil negb] in *.
    rewrite gen_setInt64 in * by apply ckey_nonempty.
    cbn [err_is_nil negb fst] in *. exact Hstore.
  - destruct (ctx_get_int64 (Gen.ms_contextMemory p) (ckey key)) as [z e].
    cbn [as_int64 negb].
    destruct (mx <? z + incrBy); [reflexivity|].
    specialize (Hstore (time_to_unix (Gen.atomicGetWindow p (wkey key) now2)) (z + incrBy)).
    rewrite (gen_setInt64 p (wkey key)) in * by apply wkey_nonempty.
    cbn [err_is_nil negb] in *.
    rewrite gen_setInt64 in * by apply ckey_nonempty.
    cbn [err_is_nil negb fst] in *. exact Hstore.
Qed.

(* ---------------------------------------------------------------- AtomicWindowResetIn, GetQuotaCounter *)

(* "restarted" reported by AtomicWindowResetIn is the model's [expired]
   (Model.kresetin clears the memo exactly then); the store is not written
   (the generated function does not return a receiver) *)
Theorem C01_gen_AtomicWindowResetIn : forall p key W now m,
  let '(remaining, restarted, err) := Gen.AtomicWindowResetIn p key W now now in
  restarted = expired W (repr_ks p key m) now
  /\ remaining = win_start_ns (repr_ks p key m) now + W - now
  /\ err = ErrNil.
Proof.
  intros p key W now m. unfold Gen.AtomicWindowResetIn.
  change (Gen.buildKey p key Gen.windowStartKeySuffix) with (wkey key).
  rewrite (gen_atomicGetWindow p key m now).
  unfold expired, time_add, time_sub. repeat split.
  destruct (win_start_ns (repr_ks p key m) now + W - now <=? 0) eqn:E1,
           (W <=? now - win_start_ns (repr_ks p key m) now) eqn:E2; try reflexivity; lia.
Qed.

(* GetQuotaCounter never fails on a memoryState[int64]: it yields the stored
   int64 or 0 *)
Theorem C01_gen_GetQuotaCounter : forall p k,
  Gen.GetQuotaCounter p k
  = (match int_at (Gen.ms_contextMemory p) k with Some z => z | None => 0 end, ErrNil).
Proof.
  intros p k. unfold Gen.GetQuotaCounter.
  pose proof (get_int64_fst (Gen.ms_contextMemory p) k) as H.
  destruct (ctx_get_int64 (Gen.ms_contextMemory p) k) as [z e]. cbn in H. subst z. reflexivity.
Qed.

(* ================================================================ quota level *)

(* theories/C01/GenQuota.v is regenerated from streams/resources/quota/
   fixed_strategy.go (quota.Inc / Allowed / Dec / ResetIn and their helpers
   getCountFromContext, storeCountIntoContext, onWindowRestart); the interface
   calls q.context.* are resolved to the generated memoryState functions above.

   The code keeps the memo allowedByReqID as a Go map keyed by the request id
   STRING; the model keeps an association list keyed by Z tokens, newest first.
   Both are read only through look-ups, so the tie is a simulation RELATION
   (not a function): [R tok q ks] says the two store entries of q's key are the
   ws/cnt of ks and the two memos agree on every look-up, for an injective
   tokenisation [tok] of request ids.  The theorems say: related states, same
   inputs => same result and related states again, against Model.kinc /
   kallowed / kdec / kresetin themselves. *)
From Verif Require C01.GenQuota.

Section QuotaLevel.

Variable tok : gostring -> Z.
Hypothesis tok_inj : forall a b, tok a = tok b -> a = b.

Definition memo_rel (gm : smap bool) (mm : list (Z * bool)) : Prop :=
  forall s, map_get gostring_eqb gm s = lookup (tok s) mm.

Definition R (q : GenQuota.quota) (ks : kstate) : Prop :=
  ks = repr_ks (GenQuota.quota_context q) (GenQuota.quota_currentCountKey q) (memo ks)
  /\ memo_rel (GenQuota.quota_allowedByReqID q) (memo ks).

(* the configuration of the quota object: never changed by the translated functions *)
Definition same_config (q q' : GenQuota.quota) : Prop :=
  GenQuota.quota_window q' = GenQuota.quota_window q
  /\ GenQuota.quota_maxCount q' = GenQuota.quota_maxCount q
  /\ GenQuota.quota_currentCountKey q' = GenQuota.quota_currentCountKey q
  /\ GenQuota.quota_spilloverCountKey q' = GenQuota.quota_spilloverCountKey q
  /\ GenQuota.quota_withSpillover q' = GenQuota.quota_withSpillover q.

Definition repr_inc (r : GenQuota.incResult) : option incres :=
  match r with
  | GenQuota.alreadyIncreased => Some AlreadyIncreased
  | GenQuota.increased => Some Increased
  | GenQuota.blocked => Some Blocked
  | _ => None
  end.

(* the cost the quota charges for a stream: extractCountF's value, 0 when it fails *)
Definition cost_of_stream (a : apistream) : Z :=
  match as_count a with (c, ErrNil) => c | (_, Err _) => 0 end.

(* ---- memo facts *)

Lemma lookup_mremove z r (m : list (Z * bool)) :
  lookup z (mremove r m) = if z =? r then None else lookup z m.
Proof.
  unfold mremove. induction m as [|[y b] m IH]; cbn.
  - now destruct (z =? r).
  - destruct (y =? r) eqn:Eyr; cbn.
    + rewrite IH. destruct (z =? r) eqn:Ezr; [reflexivity|].
      destruct (z =? y) eqn:Ezy; [|reflexivity]. lia.
    + rewrite IH. destruct (z =? y) eqn:Ezy.
      * destruct (z =? r) eqn:Ezr; [lia|reflexivity].
      * reflexivity.
Qed.

Lemma tok_eqb a b : (tok a =? tok b) = gostring_eqb a b.
Proof.
  destruct (gostring_eqb a b) eqn:E.
  - apply gostring_eqb_eq in E; subst. apply Z.eqb_refl.
  - apply Z.eqb_neq. intros H. apply tok_inj in H. subst.
    now rewrite gostring_eqb_refl in E.
Qed.

Lemma memo_rel_nil : memo_rel [] [].
Proof. intros s. reflexivity. Qed.

Lemma memo_rel_set gm mm s v :
  memo_rel gm mm -> memo_rel (map_set gostring_eqb gm s v) ((tok s, v) :: mm).
Proof.
  intros H s'. cbn [lookup]. rewrite tok_eqb.
  destruct (gostring_eqb s' s) eqn:E.
  - apply gostring_eqb_eq in E; subst. apply (map_get_set_same gostring_eqb gostring_eqb_eq).
  - rewrite (map_get_set_other gostring_eqb gostring_eqb_eq); [apply H|].
    intros ->. now rewrite gostring_eqb_refl in E.
Qed.

Lemma memo_rel_set2 gm mm s v w :
  memo_rel gm mm ->
  memo_rel (map_set gostring_eqb (map_set gostring_eqb gm s w) s v) ((tok s, v) :: mm).
Proof.
  intros H s'. cbn [lookup]. rewrite tok_eqb.
  destruct (gostring_eqb s' s) eqn:E.
  - apply gostring_eqb_eq in E; subst. apply (map_get_set_same gostring_eqb gostring_eqb_eq).
  - assert (Hn : s' <> s) by (intros ->; now rewrite gostring_eqb_refl in E).
    rewrite !(map_get_set_other gostring_eqb gostring_eqb_eq) by exact Hn. apply H.
Qed.

Lemma memo_rel_delete gm mm s :
  memo_rel gm mm -> memo_rel (map_delete gostring_eqb gm s) (mremove (tok s) mm).
Proof.
  intros H s'. rewrite lookup_mremove, tok_eqb.
  destruct (gostring_eqb s' s) eqn:E.
  - apply gostring_eqb_eq in E; subst. apply map_get_delete_same.
  - rewrite (map_get_delete_other gostring_eqb gostring_eqb_eq); [apply H|].
    intros ->. now rewrite gostring_eqb_refl in E.
Qed.

(* ---- store facts *)

Lemma key_not_built key suf : key <> Gen.buildKey (Gen.mk_ms []) key suf.
Proof.
  rewrite buildKey_eq. intros H.
  rewrite <- (app_nil_r key) in H at 1. apply app_inv_head in H. discriminate H.
Qed.

(* a write to the raw key (storeCountIntoContext) does not touch the two built
   entries the window logic reads *)
Lemma repr_ks_raw_store p key v m :
  repr_ks (fst (Gen.ms_Set p key v)) key m = repr_ks p key m.
Proof.
  unfold Gen.ms_Set.
  destruct (ctx_set (Gen.ms_contextMemory p) key (VInt64 v)) as [o r] eqn:E. cbn [fst].
  unfold ctx_set in E. destruct key as [|x k'].
  - inversion E; subst. destruct p; reflexivity.
  - inversion E; subst. unfold repr_ks, int_at.
    cbn [Gen.ms_contextMemory Gen.set_ms_contextMemory].
    rewrite !smap_get_set_other; [reflexivity| |].
    + intros H; symmetry in H; revert H; apply key_not_built.
    + intros H; symmetry in H; revert H; apply key_not_built.
Qed.

Lemma gen_store q c k :
  GenQuota.storeCountIntoContext q c k
  = GenQuota.set_quota_context (fst (Gen.ms_Set (GenQuota.quota_context q) k c)) q.
Proof.
  unfold GenQuota.storeCountIntoContext.
  destruct (Gen.ms_Set (GenQuota.quota_context q) k c) as [o r]. cbn [fst].
  destruct (negb (err_is_nil r)); reflexivity.
Qed.

(* ---- quota.Inc *)

Theorem C01_gen_quota_Inc : forall q ks a now,
  GenQuota.quota_withSpillover q = false ->
  R q ks ->
  let '(q', res) := GenQuota.quota_Inc q a now now in
  let '(ks', res', _) := kinc (GenQuota.quota_maxCount q) (GenQuota.quota_window q) ks
                              (tok (as_id a)) now (cost_of_stream a) in
  R q' ks' /\ repr_inc res = Some res' /\ same_config q q'.
Proof.
  intros q ks a now Hsp [Hks Hm].
  destruct q as [W mx K SK wsp ctx al]. cbn in Hsp, Hks, Hm. subst wsp.
  cbn [GenQuota.quota_maxCount GenQuota.quota_window].
  rewrite kinc_is_inc_window.
  unfold GenQuota.quota_Inc, map_lookup.
  cbn [GenQuota.quota_allowedByReqID].
  rewrite (Hm (as_id a)).
  destruct (lookup (tok (as_id a)) (memo ks)) as [b|] eqn:Elk.
  { (* already counted *)
    split; [split; [exact Hks|exact Hm]|]. split; [reflexivity|]. repeat split. }
  cbn [GenQuota.quota_withSpillover GenQuota.set_quota_allowedByReqID GenQuota.quota_window
       GenQuota.quota_maxCount GenQuota.quota_currentCountKey GenQuota.quota_spilloverCountKey
       GenQuota.quota_context GenQuota.quota_allowedByReqID].
  change (0 <? 0) with false. cbv iota.
  (* the charge: extractCountF's value, 0 on error — the same continuation either way *)
  destruct (as_count a) as [c0 [|t0]] eqn:Eas; unfold cost_of_stream; rewrite Eas;
    cbn [err_is_nil negb]; cbv zeta.
  all: match goal with |- context [Gen.AtomicIncWindow ?cx ?k ?cost ?w ?m ?n ?n] =>
         pose proof (C01_gen_AtomicIncWindow cx k cost w m n (memo ks)) as H;
         destruct (Gen.AtomicIncWindow cx k cost w m n n) as [[[p' c'] rst] err];
         rewrite <- Hks in H;
         destruct (inc_window m w ks n cost) as [ks1 [[c1 r1] ok]];
         destruct H as (Hks1 & Hc & Hr & Hok); subst c1 r1 ok
       end.
  all: rewrite ?gen_store;
       cbn [GenQuota.onWindowRestart GenQuota.set_quota_allowedByReqID GenQuota.set_quota_context
            GenQuota.quota_allowedByReqID GenQuota.quota_context GenQuota.quota_currentCountKey
            GenQuota.quota_window GenQuota.quota_maxCount GenQuota.quota_spilloverCountKey
            GenQuota.quota_withSpillover].
  all: destruct rst; destruct (err_is_nil err); cbn [negb]; unfold map_index;
       rewrite ?(map_get_set_same gostring_eqb gostring_eqb_eq); cbn [map_get]; cbv iota beta.
  all: (split; [split|split; [reflexivity|repeat split]]).
  all: cbn [memo ws cnt GenQuota.onWindowRestart GenQuota.set_quota_allowedByReqID GenQuota.set_quota_context
            GenQuota.quota_allowedByReqID GenQuota.quota_context GenQuota.quota_currentCountKey
            GenQuota.quota_window GenQuota.quota_maxCount GenQuota.quota_spilloverCountKey
            GenQuota.quota_withSpillover].
  all: try (rewrite repr_ks_raw_store; rewrite <- Hks1; reflexivity).
  all: try (apply memo_rel_set2; exact Hm).
  all: try (apply memo_rel_set; first [exact Hm | apply memo_rel_nil]).
  all: try apply memo_rel_nil.
Qed.

(* ---- quota.Allowed, quota.Dec, quota.ResetIn *)

Lemma repr_ks_memo p K ks M :
  ks = repr_ks p K (memo ks) -> {| ws := ws ks; cnt := cnt ks; memo := M |} = repr_ks p K M.
Proof. intros H. rewrite H. reflexivity. Qed.

Theorem C01_gen_quota_Allowed : forall q ks a,
  R q ks ->
  let '(q', b) := GenQuota.quota_Allowed q a in
  let '(ks', b') := kallowed ks (tok (as_id a)) in
  R q' ks' /\ b = b' /\ same_config q q'.
Proof.
  intros q ks a [Hks Hm].
  destruct q as [W mx K SK wsp ctx al]. cbn in Hks, Hm.
  unfold GenQuota.quota_Allowed, map_lookup, kallowed.
  cbn [GenQuota.quota_allowedByReqID]. rewrite (Hm (as_id a)).
  destruct (lookup (tok (as_id a)) (memo ks)) as [v|]; cbn [negb].
  - split; [split|split; [reflexivity|repeat split]].
    + cbn. apply repr_ks_memo. exact Hks.
    + cbn. apply memo_rel_delete. exact Hm.
  - split; [split; [exact Hks|exact Hm]|]. split; [reflexivity|repeat split].
Qed.

Theorem C01_gen_quota_Dec : forall q ks a,
  R q ks ->
  R (GenQuota.quota_Dec q a) (kdec ks (tok (as_id a)))
  /\ same_config q (GenQuota.quota_Dec q a).
Proof.
  intros q ks a [Hks Hm].
  destruct q as [W mx K SK wsp ctx al]. cbn in Hks, Hm.
  unfold GenQuota.quota_Dec, kdec. split; [split|repeat split].
  - cbn. apply repr_ks_memo. exact Hks.
  - cbn. apply memo_rel_delete. exact Hm.
Qed.

Theorem C01_gen_quota_ResetIn : forall q ks now,
  R q ks ->
  let '(q', _) := GenQuota.quota_ResetIn q now now in
  R q' (kresetin (GenQuota.quota_window q) ks now) /\ same_config q q'.
Proof.
  intros q ks now [Hks Hm].
  destruct q as [W mx K SK wsp ctx al]. cbn in Hks, Hm.
  unfold GenQuota.quota_ResetIn, kresetin.
  cbn [GenQuota.quota_context GenQuota.quota_currentCountKey GenQuota.quota_window].
  pose proof (C01_gen_AtomicWindowResetIn ctx K W now (memo ks)) as H.
  destruct (Gen.AtomicWindowResetIn ctx K W now now) as [[rem rst] err].
  destruct H as (Hr & _ & He). subst err rst. rewrite <- Hks. cbn [err_is_nil negb].
  destruct (expired W ks now).
  - split; [split|repeat split].
    + cbn. apply repr_ks_memo. exact Hks.
    + cbn. apply memo_rel_nil.
  - split; [split; [exact Hks|exact Hm]|repeat split].
Qed.

End QuotaLevel.
