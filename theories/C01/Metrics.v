(* C01 - metrics reads (the used-quota gauge) as steps of a schedule.

   The OTel reader calls quotaResource.observeQuotaUsed on every collection;
   that walks fixedWindow.GetQuotaGroupsCounters -> quota.GetCounter of every
   group object of every quota of the resource.  On this tree the whole path
   only READS (<key>_currentCount under q.mutex.RLock).  A scrape is therefore
   a step that may be put anywhere in a schedule - between the Inc and the
   Allowed of a transaction, at a window end - and must change nothing.

   [scrape_variant] switches the step between what the code does (SFaithful)
   and two plausible "metrics fixes":
     SResetsWindow - the scrape starts a fresh window (start := now, counter
                     := 0, admission records dropped) for the group objects it
                     visits (seeded change C01-10; the seed's own test "object
                     older than one window" - now minus the instant the group
                     object was created / last Reset at >= window - is abstracted
                     to "always"; the witness [ms_reset] below scrapes an object
                     11 s old with a 10 s window, so it is a run of the seeded
                     code as well as of this over-approximation);
     SClearsMemo   - the scrape calls ResetIn: the admission records of a key
                     whose window is over are dropped (seeded change C18-10).
   Definitions and lemmas; the final statements are in Property.v. *)
From Coq Require Import List ZArith Bool Lia.
From Verif Require Import C01.Model.
Import ListNotations.
Open Scope Z_scope.

Inductive scrape_variant := SFaithful | SResetsWindow | SClearsMemo.

Inductive maction :=
| MAct (a : action)
| MScrape (now : Z).     (* one collection: every quota, every group object *)

Definition scrape (v : scrape_variant) (f : forest) (w : world) (now : Z) : world :=
  match v with
  | SFaithful => w
  | SResetsWindow =>
      {| st := fun k => match lookup (fst k) f with
                        | Some _ => {| ws := Some (now / sec); cnt := 0; memo := [] |}
                        | None => st w k
                        end;
         charges := charges w; grants := grants w; passes := passes w |}
  | SClearsMemo =>
      {| st := fun k => match lookup (fst k) f with
                        | Some d => kresetin (q_win d) (st w k) now
                        | None => st w k
                        end;
         charges := charges w; grants := grants w; passes := passes w |}
  end.

Definition mstep_v (v : scrape_variant) (f : forest) (w : world) (ma : maction) : world * out :=
  match ma with
  | MAct a => step f w a
  | MScrape now => (scrape v f w now, ONone)
  end.

Fixpoint mrun_v (v : scrape_variant) (f : forest) (w : world) (ms : list maction) : world * list out :=
  match ms with
  | [] => (w, [])
  | a :: rest =>
      let '(w', o) := mstep_v v f w a in
      let '(w'', os) := mrun_v v f w' rest in
      (w'', o :: os)
  end.

Definition mstep := mstep_v SFaithful.
Definition mrun := mrun_v SFaithful.

(* the schedule without its metrics reads, and the outputs of the other steps *)
Fixpoint erase (ms : list maction) : list action :=
  match ms with
  | [] => []
  | MAct a :: rest => a :: erase rest
  | MScrape _ :: rest => erase rest
  end.

Fixpoint erase_outs (ms : list maction) (os : list out) : list out :=
  match ms, os with
  | MAct _ :: rest, o :: os' => o :: erase_outs rest os'
  | MScrape _ :: rest, _ :: os' => erase_outs rest os'
  | _, _ => []
  end.

(* the frame property, as a statement about a variant *)
Definition scrape_frame (v : scrape_variant) : Prop :=
  forall f ms w,
    (forall k, st (fst (mrun_v v f w ms)) k = st (fst (run f w (erase ms))) k) /\
    erase_outs ms (snd (mrun_v v f w ms)) = snd (run f w (erase ms)).

Lemma mrun_frame : forall f ms w,
  fst (mrun f w ms) = fst (run f w (erase ms)) /\
  erase_outs ms (snd (mrun f w ms)) = snd (run f w (erase ms)).
Proof.
  intros f ms. induction ms as [|a rest IH]; intros w.
  - split; reflexivity.
  - destruct a as [a|now].
    + unfold mrun in *. cbn [mrun_v mstep_v erase run].
      destruct (step f w a) as [w1 o] eqn:ES.
      specialize (IH w1).
      destruct (mrun_v SFaithful f w1 rest) as [w2 os] eqn:EM.
      destruct (run f w1 (erase rest)) as [w3 os3] eqn:ER.
      cbn [fst snd] in *. destruct IH as [IH1 IH2].
      cbn [erase_outs]. split; [exact IH1|]. rewrite IH2. reflexivity.
    + unfold mrun in *. cbn [mrun_v mstep_v erase scrape].
      specialize (IH w).
      destruct (mrun_v SFaithful f w rest) as [w2 os] eqn:EM.
      cbn [fst snd erase_outs] in *. exact IH.
Qed.

Lemma scrape_frame_faithful : scrape_frame SFaithful.
Proof.
  intros f ms w. destruct (mrun_frame f ms w) as [H1 H2].
  split; [|exact H2]. intros k. unfold mrun in H1. rewrite H1. reflexivity.
Qed.

(* a schedule of plain steps is a schedule without scrapes *)
Lemma mrun_lift : forall f acts w, mrun f w (map MAct acts) = run f w acts.
Proof.
  intros f acts. induction acts as [|a rest IH]; intros w; [reflexivity|].
  unfold mrun in *. cbn [map mrun_v mstep_v run].
  destruct (step f w a) as [w1 o]. rewrite IH. reflexivity.
Qed.

(* witnesses against the two variants: quota 1, max 1, window 10 s *)
Definition mf : forest := [(1, mkq 1 10 None None false)].
Definition mr1 := mkr 1 [] 0.
Definition mr2 := mkr 2 [] 0.
Definition mr3 := mkr 3 [] 0.
(* C01-10: r1 opens the window [5 s, 15 s) (the group object is created then);
   r2 at 15 s opens the window [15 s, 25 s) and fills it (verdict true); a
   scrape at 16 s - the object is 11 s old, older than one window, so the
   seed's age test fires too; r3 at 17 s: refused on this tree (window of r2
   full), let through after the resetting scrape - two requests let through
   inside [15 s, 25 s), max 1.  (Audit 2: the former witness scraped at 6 s an
   object 1 s old, which the seeded code would not have reset.) *)
Definition ms_reset : list maction :=
  [MAct (Inc 1 mr1 (5 * sec)); MAct (Allowed 1 mr1);
   MAct (Inc 1 mr2 (15 * sec)); MAct (Allowed 1 mr2); MScrape (16 * sec);
   MAct (Inc 1 mr3 (17 * sec)); MAct (Allowed 1 mr3)].
(* C18-10: counted at 5 s, the window is over at 15 s, the scrape comes then,
   the verdict is fetched afterwards *)
Definition ms_clear : list maction :=
  [MAct (Inc 1 mr1 (5 * sec)); MScrape (15 * sec); MAct (Allowed 1 mr1)].

Lemma scrape_frame_resets_refuted : ~ scrape_frame SResetsWindow.
Proof.
  intros H. destruct (H mf ms_reset init) as [_ H2]. vm_compute in H2. discriminate.
Qed.

Lemma scrape_frame_clears_refuted : ~ scrape_frame SClearsMemo.
Proof.
  intros H. destruct (H mf ms_clear init) as [_ H2]. vm_compute in H2. discriminate.
Qed.

(* the witness run: what this tree does, what the resetting scrape does *)
Lemma reset_witness_verdicts :
  snd (mrun mf init ms_reset) = [ONone; OBool true; ONone; OBool true; ONone; ONone; OBool false] /\
  snd (mrun_v SResetsWindow mf init ms_reset) = [ONone; OBool true; ONone; OBool true; ONone; ONone; OBool true].
Proof. vm_compute. split; reflexivity. Qed.

(* ---------------------------------------------------------------- one request at a time *)

(* a one-at-a-time history with collections between the requests *)
Inductive seq_item := SReq (x : treq) | SScrape (now : Z).

Fixpoint seq_run_m (f : forest) (w : world) (h : list seq_item) : world * list out :=
  match h with
  | [] => (w, [])
  | SReq x :: rest =>
      let '(w', o) := seq_step_t f w x in
      let '(w'', os) := seq_run_m f w' rest in
      (w'', o :: os)
  | SScrape now :: rest => seq_run_m f (scrape SFaithful f w now) rest
  end.

Fixpoint seq_erase (h : list seq_item) : list treq :=
  match h with
  | [] => []
  | SReq x :: rest => x :: seq_erase rest
  | SScrape _ :: rest => seq_erase rest
  end.

Lemma seq_run_m_frame : forall f h w, seq_run_m f w h = seq_run_t f w (seq_erase h).
Proof.
  intros f h. induction h as [|x rest IH]; intros w; [reflexivity|].
  destruct x as [x|now]; cbn [seq_run_m seq_erase seq_run_t scrape].
  - destruct (seq_step_t f w x) as [w1 o]. rewrite IH. reflexivity.
  - apply IH.
Qed.

(* ---------------------------------------------------------------- Dec *)

(* quota.Dec / fixedWindow.Dec (OnRequestDrop, queue time-out) only forget the
   request's admission record: no window start, no counter, no log changes -
   in particular nothing is given back to whatever window is current when the
   drop arrives *)
Lemma do_kdec_counters : forall k w rq k',
  ws (st (do_kdec k w rq) k') = ws (st w k') /\ cnt (st (do_kdec k w rq) k') = cnt (st w k').
Proof.
  intros k w rq k'. unfold do_kdec, upd. cbn [st].
  destruct (key_eqb k' k) eqn:E; [|split; reflexivity].
  unfold key_eqb in E. apply andb_prop in E. destruct E as [E1 E2].
  apply Z.eqb_eq in E1. apply Z.eqb_eq in E2.
  assert (k' = k) as -> by (destruct k', k; cbn in *; subst; reflexivity).
  unfold kdec. cbn [ws cnt]. split; reflexivity.
Qed.

Lemma do_kdec_logs : forall k w rq,
  charges (do_kdec k w rq) = charges w /\ grants (do_kdec k w rq) = grants w /\
  passes (do_kdec k w rq) = passes w.
Proof. intros. unfold do_kdec. cbn. repeat split; reflexivity. Qed.

Lemma dec_chain_counters : forall ch w rq k',
  ws (st (dec_chain ch w rq) k') = ws (st w k') /\ cnt (st (dec_chain ch w rq) k') = cnt (st w k').
Proof.
  intros ch. induction ch as [|[q d] up IH]; intros w rq k'; [split; reflexivity|].
  cbn [dec_chain]. destruct (IH (do_kdec (key_of q d rq) w rq) rq k') as [H1 H2].
  destruct (do_kdec_counters (key_of q d rq) w rq k') as [H3 H4].
  rewrite H1, H2, H3, H4. split; reflexivity.
Qed.

Lemma dec_chain_logs : forall ch w rq,
  charges (dec_chain ch w rq) = charges w /\ grants (dec_chain ch w rq) = grants w /\
  passes (dec_chain ch w rq) = passes w.
Proof.
  intros ch. induction ch as [|[q d] up IH]; intros w rq; [repeat split; reflexivity|].
  cbn [dec_chain]. destruct (IH (do_kdec (key_of q d rq) w rq) rq) as [H1 [H2 H3]].
  destruct (do_kdec_logs (key_of q d rq) w rq) as [H4 [H5 H6]].
  rewrite H1, H2, H3, H4, H5, H6. repeat split; reflexivity.
Qed.

Lemma dec_step_counters : forall f w q rq k',
  let w' := fst (step f w (Dec q rq)) in
  ws (st w' k') = ws (st w k') /\ cnt (st w' k') = cnt (st w k') /\
  charges w' = charges w /\ grants w' = grants w /\ passes w' = passes w.
Proof.
  intros f w q rq k'. cbn [step]. destruct (chain_of f q) as [ch|]; cbn [fst].
  - destruct (dec_chain_counters ch w rq k') as [H1 H2].
    destruct (dec_chain_logs ch w rq) as [H3 [H4 H5]]. repeat split; assumption.
  - repeat split; reflexivity.
Qed.

Lemma kdec_step_counters : forall f w q rq k',
  let w' := fst (step f w (KDec q rq)) in
  ws (st w' k') = ws (st w k') /\ cnt (st w' k') = cnt (st w k') /\
  charges w' = charges w /\ grants w' = grants w /\ passes w' = passes w.
Proof.
  intros f w q rq k'. cbn [step]. destruct (lookup q f) as [d|]; cbn [fst].
  - destruct (do_kdec_counters (key_of q d rq) w rq k') as [H1 H2].
    destruct (do_kdec_logs (key_of q d rq) w rq) as [H3 [H4 H5]]. repeat split; assumption.
  - repeat split; reflexivity.
Qed.

(* ---------------------------------------------------------------- correspondence *)

(* res suite: schedules with scrapes.  NOT EVALUATED BY ANY SUITE ANY MORE:
   suite res is Events.case_rese / run_rese (erun, which is mrun on schedules
   without renewal / store events: C01_event_frame); nothing refers to it. *)
Definition case_resm := (forest * list maction * list out)%type.
Definition run_resm (k : case_resm) : option (list out) :=
  let '(f, ms, obs) := k in
  if negb (wf_forest f) then Some [OBad]
  else
    let m := snd (mrun f init ms) in
    if outs_eqb m obs then None else Some m.

(* eng suite: one-at-a-time histories with scrapes between the requests *)
Definition case_engm := (forest * list seq_item * list bool)%type.
Definition run_engm (k : case_engm) : option (list out) :=
  let '(f, h, obs) := k in
  if negb (wf_forest f) then Some [OBad]
  else
    let m := snd (seq_run_m f init h) in
    if outs_eqb m (map OBool obs) then None else Some m.
