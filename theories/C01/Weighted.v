(* C01 — the bound in COST UNITS for the requests let through (custom counters).

   Proofs.KInv bounds the charged cost per window (csum <= max) and, for
   request-counting quotas, the number of requests let through.  For
   fixed_window_custom_counter quotas the natural reading of the property is in
   cost units: the cost of the requests let through within one window never
   exceeds max.  That needs the cost of a request to be the same whenever the
   request is seen (a schedule names the request in every action) and not
   negative: [kappa] gives the cost of a request id.  The weighted invariant
   [WInv] runs beside KInv: weighted grants + weighted true memo entries <=
   charged cost, per stored window.  Lemmas only; statements in Property.v. *)
From Coq Require Import List ZArith Bool Lia.
From Verif Require Import C01.Model C01.Proofs.
Import ListNotations.
Open Scope Z_scope.

Section Weighted.

Variable kappa : Z -> Z.
Hypothesis kappa_nonneg : forall r, 0 <= kappa r.

Definition cw (d : quota) (r : Z) : Z := if q_custom d then kappa r else 1.

Lemma cw_nonneg d r : 0 <= cw d r.
Proof. unfold cw. destruct (q_custom d); [apply kappa_nonneg|lia]. Qed.

Definition req_ok (rq : request) : Prop := r_cost rq = kappa (r_id rq).

Lemma cost_of_cw d rq : req_ok rq -> cost_of d rq = cw d (r_id rq).
Proof. unfold req_ok, cost_of, cw. intros ->. reflexivity. Qed.

Definition act_ok (a : action) : Prop :=
  match a with
  | Inc _ rq _ | Allowed _ rq | Dec _ rq | KInc _ rq _ | KAllowed _ rq | KDec _ rq => req_ok rq
  | ResetIn _ _ => True
  end.

Fixpoint gsum_w (d : quota) (k : key) (s : Z) (l : list grant) : Z :=
  match l with
  | [] => 0
  | g :: t => if key_eqb (g_key g) k && (g_ws g =? s) then cw d (g_req g) + gsum_w d k s t else gsum_w d k s t
  end.
Fixpoint msum_w (d : quota) (m : list (Z * bool)) : Z :=
  match m with
  | [] => 0
  | e :: t => if snd e then cw d (fst e) + msum_w d t else msum_w d t
  end.

Lemma gsum_w_nonneg d k s l : 0 <= gsum_w d k s l.
Proof. induction l as [|g l IH]; cbn [gsum_w]; [lia|]. pose proof (cw_nonneg d (g_req g)). destruct (_ && _); lia. Qed.
Lemma msum_w_nonneg d m : 0 <= msum_w d m.
Proof. induction m as [|[r b] m IH]; cbn [msum_w fst snd]; [lia|]. pose proof (cw_nonneg d r). destruct b; lia. Qed.

Lemma gsum_w_filter d k s l : gsum_w d k s (filter (fun g => key_eqb (g_key g) k) l) = gsum_w d k s l.
Proof.
  induction l as [|g l IH]; cbn [filter gsum_w]; [reflexivity|].
  destruct (key_eqb (g_key g) k) eqn:E; cbn [gsum_w andb]; rewrite ?E; cbn [andb]; rewrite IH; reflexivity.
Qed.

Lemma gsum_w_mkg d k s0 s r G :
  gsum_w d k s0 (mkg k s r :: G) = if s =? s0 then cw d r + gsum_w d k s0 G else gsum_w d k s0 G.
Proof. cbn [gsum_w mkg g_key g_ws g_req]. rewrite key_eqb_refl. reflexivity. Qed.

Lemma msum_w_mremove_le d r m : msum_w d (mremove r m) <= msum_w d m.
Proof.
  induction m as [|[x b] t IH]; cbn [mremove filter fst msum_w snd]; [lia|].
  fold (mremove r t). pose proof (cw_nonneg d x).
  destruct (x =? r); cbn [negb msum_w snd fst]; destruct b; lia.
Qed.

Lemma msum_w_mremove_true d r m :
  lookup r m = Some true -> msum_w d (mremove r m) + cw d r <= msum_w d m.
Proof.
  induction m as [|[x b] t IH]; cbn [lookup]; intros H; [discriminate|].
  cbn [mremove filter fst]. fold (mremove r t). rewrite Z.eqb_sym in H.
  destruct (x =? r) eqn:E; cbn [negb].
  - inversion H; subst. apply Z.eqb_eq in E. subst x. cbn [msum_w snd fst].
    pose proof (msum_w_mremove_le d r t). lia.
  - cbn [msum_w snd fst]. specialize (IH H). destruct b; lia.
Qed.

Lemma tcount_zero_msum d m : tcount m = 0 -> msum_w d m = 0.
Proof.
  induction m as [|[r b] t IH]; cbn [tcount msum_w snd fst]; [reflexivity|].
  pose proof (tcount_nonneg t) as Hn. destruct b; intros H; [lia|auto].
Qed.

(* ------------------------------------------------------------ the weighted per-key invariant *)

Record WInv (d : quota) (k : key) (ks : kstate)
            (C : list charge) (G : list grant) (P : list pass) : Prop := {
  wi_cur : forall s, ws ks = Some s -> gsum_w d k s G + msum_w d (memo ks) <= csum k s C;
  wi_g : forall s, gsum_w d k s G <= csum k s C;
  wi_p : forall s, psum k s P <= gsum_w d k s G
}.

Lemma WInv_init d k : WInv d k kinit [] [] [].
Proof. constructor; cbn; intros; try discriminate; lia. Qed.

Lemma kinc_winv : forall d clk k ks C G P r now cost ks' res chg,
  wf_quota d = true -> KInv d clk k ks C G P -> WInv d k ks C G P -> clk <= now ->
  cost = cw d r ->
  kinc (q_max d) (q_win d) ks r now cost = (ks', res, chg) ->
  WInv d k ks' (match chg with Some s => mkc k s now r cost :: C | None => C end) G P.
Proof.
  intros d clk k ks C G P r now cost ks' res chg Hwf HI HW Hclk Hcost HK.
  destruct (wf_quota_facts d Hwf) as (HW1 & HW2 & HM).
  pose proof (cw_nonneg d r) as Hcw.
  unfold kinc in HK.
  destruct (lookup r (memo ks)) eqn:EL.
  { inversion HK; subst. exact HW. }
  destruct HW as [W1 W2 W3].
  destruct (q_max d <? eff_count (q_win d) ks now + cost) eqn:ER.
  { inversion HK; subst; clear HK. constructor; cbn [ws cnt memo]; auto.
    intros s Hs. specialize (W1 s Hs). pose proof (msum_w_nonneg d (memo ks)).
    destruct (expired _ _ _); cbn [msum_w snd fst]; lia. }
  unfold eff_count, expired, win_start_ns in *.
  destruct HI as [H1 H2 H3 H4 H5 H6 H7 H8].
  destruct (ws ks) as [s|] eqn:EW.
  - destruct (H2 s eq_refl) as (A & B & Cc & D).
    destruct (q_win d <=? now - s * sec) eqn:EX.
    + apply Z.leb_le in EX. inversion HK; subst; clear HK.
      set (s' := now / sec).
      assert (Hs' : s * sec + q_win d <= s' * sec) by (unfold s', sec in *; lia).
      assert (Hab : forall c, In c C -> c_ws c <> s').
      { intros c Hc E. destruct (D c Hc) as [E1|E1]; rewrite E in *; unfold sec in *; lia. }
      assert (G0 : gsum_w d k s' G = 0).
      { pose proof (W2 s'). rewrite (csum_absent k s' C Hab) in H. pose proof (gsum_w_nonneg d k s' G). lia. }
      constructor; cbn [ws cnt memo].
      * intros s0 E0. inversion E0; subst s0.
        rewrite csum_mkc, Z.eqb_refl, (csum_absent k s' C Hab), G0. cbn [msum_w snd fst]. lia.
      * intros s0. rewrite csum_mkc. specialize (W2 s0). destruct (s' =? s0); lia.
      * exact W3.
    + apply Z.leb_gt in EX. inversion HK; subst; clear HK.
      constructor; cbn [ws cnt memo].
      * intros s0 E0. inversion E0; subst s0.
        rewrite csum_mkc, Z.eqb_refl. specialize (W1 s eq_refl). cbn [msum_w snd fst]. lia.
      * intros s0. rewrite csum_mkc. specialize (W2 s0). destruct (s =? s0); lia.
      * exact W3.
  - destruct (H1 eq_refl) as (A & B & Cc & D). subst C G.
    assert (EX : (q_win d <=? now - now) = false) by (apply Z.leb_gt; unfold sec in *; lia).
    rewrite EX in HK, ER. inversion HK; subst; clear HK.
    constructor; cbn [ws cnt memo].
    * intros s0 E0. inversion E0; subst s0.
      rewrite csum_mkc, Z.eqb_refl. cbn [gsum_w csum msum_w snd fst].
      rewrite (tcount_zero_msum d _ B). lia.
    * intros s0. rewrite csum_mkc. cbn [gsum_w csum]. destruct (_ =? s0); lia.
    * exact W3.
Qed.

Lemma kallowed_winv : forall d clk k ks C G P r ks' b,
  KInv d clk k ks C G P -> WInv d k ks C G P -> kallowed ks r = (ks', b) ->
  WInv d k ks' C (if b then mkg k (ws_or0 ks) r :: G else G) P.
Proof.
  intros d clk k ks C G P r ks' b HI [W1 W2 W3] HK.
  unfold kallowed in HK. destruct (lookup r (memo ks)) as [v|] eqn:EL.
  2:{ inversion HK; subst. constructor; auto. }
  inversion HK; subst; clear HK.
  pose proof (msum_w_mremove_le d r (memo ks)) as Hle.
  pose proof (cw_nonneg d r) as Hcw.
  destruct b.
  - pose proof (msum_w_mremove_true d r (memo ks) EL) as Ht.
    destruct (ws ks) as [s|] eqn:EW.
    + unfold ws_or0. rewrite EW. specialize (W1 s eq_refl).
      constructor; cbn [ws cnt memo]; rewrite ?EW.
      * intros s0 E0. inversion E0; subst s0. rewrite gsum_w_mkg, Z.eqb_refl. lia.
      * intros s0. rewrite gsum_w_mkg. destruct (s =? s0) eqn:E0; [|apply W2].
        apply Z.eqb_eq in E0; subst s0. pose proof (msum_w_nonneg d (mremove r (memo ks))). lia.
      * intros s0. rewrite gsum_w_mkg. specialize (W3 s0). destruct (s =? s0); lia.
    + destruct (ki_none _ _ _ _ _ _ _ HI EW) as (_ & B & _).
      pose proof (lookup_true_tcount r (memo ks) EL). lia.
  - constructor; cbn [ws cnt memo]; auto.
    intros s Hs. specialize (W1 s Hs). lia.
Qed.

Lemma kdec_winv : forall d k ks C G P r, WInv d k ks C G P -> WInv d k (kdec ks r) C G P.
Proof.
  intros d k ks C G P r [W1 W2 W3]. pose proof (msum_w_mremove_le d r (memo ks)).
  unfold kdec. constructor; cbn [ws cnt memo]; auto. intros s Hs. specialize (W1 s Hs). lia.
Qed.

Lemma kresetin_winv : forall d k ks C G P W now, WInv d k ks C G P -> WInv d k (kresetin W ks now) C G P.
Proof.
  intros d k ks C G P W now HW. unfold kresetin. destruct (expired W ks now); [|assumption].
  destruct HW as [W1 W2 W3]. pose proof (msum_w_nonneg d (memo ks)).
  constructor; cbn [ws cnt memo msum_w]; auto. intros s Hs. specialize (W1 s Hs). lia.
Qed.

(* ------------------------------------------------------------ the world *)

Definition WInvW (f : forest) (w : world) : Prop :=
  forall k d, lookup (fst k) f = Some d -> WInv d k (st w k) (chk k w) (grk k w) (pak k w).

Lemma WInvW_init f : WInvW f init.
Proof. intros k d _. apply WInv_init. Qed.

Lemma do_kinc_winv : forall f clk w q d rq now,
  wf_quotas f -> Inv f clk w -> WInvW f w -> lookup q f = Some d -> clk <= now -> req_ok rq ->
  WInvW f (fst (do_kinc d (key_of q d rq) w rq now)).
Proof.
  intros f clk w q d rq now Hwf HI HW HL Hclk Hrq k' d' HL'.
  unfold do_kinc.
  destruct (kinc (q_max d) (q_win d) (st w (key_of q d rq)) (r_id rq) now (cost_of d rq))
    as [[ks' res] chg] eqn:EK.
  cbn [fst]. unfold chk, grk, pak. cbn [st charges grants passes].
  destruct (key_eqb k' (key_of q d rq)) eqn:EQ.
  - apply key_eqb_eq in EQ. subst k'. cbn [key_of fst] in HL'. rewrite HL in HL'.
    inversion HL'; subst d'. rewrite upd_same.
    pose proof (kinc_winv d clk (key_of q d rq) _ _ _ _ (r_id rq) now (cost_of d rq) ks' res chg
                  (Hwf _ _ HL) (HI (key_of q d rq) d HL) (HW (key_of q d rq) d HL) Hclk
                  (cost_of_cw d rq Hrq) EK) as X.
    destruct chg as [s|]; [|exact X].
    cbn [filter c_key]. rewrite key_eqb_refl. exact X.
  - assert (Hne : k' <> key_of q d rq) by (apply key_eqb_neq; assumption).
    rewrite upd_other by assumption.
    assert (E : filter (fun c => key_eqb (c_key c) k')
                  match chg with
                  | Some s => {| c_key := key_of q d rq; c_ws := s; c_at := now;
                                 c_req := r_id rq; c_cost := cost_of d rq |} :: charges w
                  | None => charges w
                  end = chk k' w).
    { destruct chg; [|reflexivity]. cbn [filter c_key]. rewrite key_eqb_sym, EQ. reflexivity. }
    rewrite E. apply HW; assumption.
Qed.

Lemma do_kallowed_winv : forall f clk w q d rq,
  Inv f clk w -> WInvW f w -> lookup q f = Some d ->
  WInvW f (fst (do_kallowed (key_of q d rq) w rq)).
Proof.
  intros f clk w q d rq HI HW HL k' d' HL'.
  unfold do_kallowed.
  destruct (kallowed (st w (key_of q d rq)) (r_id rq)) as [ks' b] eqn:EK.
  cbn [fst]. unfold chk, grk, pak. cbn [st charges grants passes].
  destruct (key_eqb k' (key_of q d rq)) eqn:EQ.
  - apply key_eqb_eq in EQ. subst k'. cbn [key_of fst] in HL'. rewrite HL in HL'.
    inversion HL'; subst d'. rewrite upd_same.
    pose proof (kallowed_winv d clk (key_of q d rq) _ _ _ _ (r_id rq) ks' b
                  (HI (key_of q d rq) d HL) (HW (key_of q d rq) d HL) EK) as X.
    destruct b; [|exact X].
    cbn [filter g_key]. rewrite key_eqb_refl. exact X.
  - assert (Hne : k' <> key_of q d rq) by (apply key_eqb_neq; assumption).
    rewrite upd_other by assumption.
    assert (E : filter (fun g => key_eqb (g_key g) k')
                  (if b then {| g_key := key_of q d rq; g_ws := ws_or0 (st w (key_of q d rq));
                                g_req := r_id rq |} :: grants w else grants w) = grk k' w).
    { destruct b; [|reflexivity]. cbn [filter g_key]. rewrite key_eqb_sym, EQ. reflexivity. }
    rewrite E. apply HW; assumption.
Qed.

Lemma do_kdec_winv : forall f w k rq, WInvW f w -> WInvW f (do_kdec k w rq).
Proof.
  intros f w k rq HW k' d' HL'.
  unfold do_kdec, chk, grk, pak. cbn [st charges grants passes].
  destruct (key_eqb k' k) eqn:EQ.
  - apply key_eqb_eq in EQ. subst k'. rewrite upd_same. apply kdec_winv. apply HW; assumption.
  - rewrite upd_other by (apply key_eqb_neq; assumption). apply HW; assumption.
Qed.

Lemma do_resetin_winv : forall f w q d now, WInvW f w -> WInvW f (do_resetin q d w now).
Proof.
  intros f w q d now HW k' d' HL'.
  unfold do_resetin, chk, grk, pak. cbn [st charges grants passes].
  destruct (fst k' =? q); [apply kresetin_winv|]; apply HW; assumption.
Qed.

Lemma inc_chain_winv : forall f rq now ch clk w,
  wf_quotas f -> chain_ok f ch -> Inv f clk w -> WInvW f w -> clk <= now -> req_ok rq ->
  WInvW f (inc_chain ch w rq now).
Proof.
  induction ch as [|[q d] up IH]; intros clk w Hwf Hok HI HW Hclk Hrq; cbn [inc_chain]; [assumption|].
  pose proof (do_kinc_inv f clk w q d rq now Hwf HI (Hok q d (or_introl eq_refl)) Hclk) as X.
  pose proof (do_kinc_winv f clk w q d rq now Hwf HI HW (Hok q d (or_introl eq_refl)) Hclk Hrq) as Y.
  destruct (do_kinc d (key_of q d rq) w rq now) as [w' res]. cbn [fst] in X, Y.
  destruct res; auto.
  apply (IH now w' Hwf (chain_ok_tail _ _ _ Hok) X Y); [lia|assumption].
Qed.

Lemma pop_chain_winv : forall f rq ch clk w,
  chain_ok f ch -> Inv f clk w -> WInvW f w ->
  WInvW f (fst (pop_chain ch w rq)).
Proof.
  induction ch as [|[q d] up IH]; intros clk w Hok HI HW; cbn [pop_chain]; [assumption|].
  pose proof (do_kallowed_inv f clk w q d rq HI (Hok q d (or_introl eq_refl))) as X.
  pose proof (do_kallowed_winv f clk w q d rq HI HW (Hok q d (or_introl eq_refl))) as Y.
  destruct (do_kallowed (key_of q d rq) w rq) as [w' b]. cbn [fst] in X, Y.
  destruct b; [|assumption]. apply (IH clk); [eapply chain_ok_tail; eauto | assumption | assumption].
Qed.

(* the grants a successful Allowed walk adds, weighted, are the passes it logs *)
Lemma pop_chain_true_w : forall f rq ch w w',
  chain_ok f ch -> req_ok rq ->
  pop_chain ch w rq = (w', true) ->
  forall k d s, lookup (fst k) f = Some d ->
    gsum_w d k s (grants w') = gsum_w d k s (grants w) + psum k s (map (mk_pass w' rq) ch).
Proof.
  induction ch as [|[q d0] up IH]; intros w w' Hok Hrq H k d s HL; cbn [pop_chain] in H.
  - inversion H; subst. cbn [map psum]. lia.
  - pose proof (do_kallowed_ws (key_of q d0 rq) w rq) as Hws.
    destruct (pop_chain_true rq ((q, d0) :: up) w w' H) as (A & _).
    unfold do_kallowed in *.
    destruct (kallowed (st w (key_of q d0 rq)) (r_id rq)) as [ks' b] eqn:EK.
    cbn [fst] in Hws.
    destruct b; [|discriminate].
    rewrite (IH _ _ (chain_ok_tail _ _ _ Hok) Hrq H k d s HL). cbn [grants].
    cbn [map psum gsum_w mk_pass p_key p_ws p_cost fst snd g_key g_ws g_req].
    assert (E : ws_or0 (st w' (key_of q d0 rq)) = ws_or0 (st w (key_of q d0 rq))).
    { unfold ws_or0. rewrite (A (key_of q d0 rq)). reflexivity. }
    rewrite E.
    destruct (key_eqb (key_of q d0 rq) k && (ws_or0 (st w (key_of q d0 rq)) =? s)) eqn:EB; [|lia].
    apply andb_true_iff in EB. destruct EB as [EB _]. apply key_eqb_eq in EB. subst k.
    cbn [key_of fst] in HL. rewrite (Hok q d0 (or_introl eq_refl)) in HL. inversion HL; subst d.
    rewrite (cost_of_cw d0 rq Hrq). lia.
Qed.

Lemma WInv_P : forall d k ks C G P P',
  WInv d k ks C G P -> (forall s, psum k s P' <= gsum_w d k s G) -> WInv d k ks C G P'.
Proof. intros d k ks C G P P' [W1 W2 W3] H. constructor; auto. Qed.

Lemma allowed_chain_winv : forall f rq ch clk w,
  chain_ok f ch -> Inv f clk w -> WInvW f w -> req_ok rq ->
  WInvW f (fst (allowed_chain ch w rq)).
Proof.
  intros f rq ch clk w Hok HI HW Hrq. unfold allowed_chain.
  pose proof (pop_chain_winv f rq ch clk w Hok HI HW) as X.
  destruct (pop_chain ch w rq) as [w' b] eqn:EP. cbn [fst] in X.
  destruct b; [|assumption].
  destruct (pop_chain_true _ _ _ _ EP) as (A & B & Cc & D).
  intros k d HL. cbn [fst]. unfold chk, grk, pak. cbn [st charges grants passes].
  eapply WInv_P; [apply (X k d HL)|].
  intros s. unfold grk. rewrite psum_filter, gsum_w_filter, psum_app, Cc.
  rewrite (pop_chain_true_w f rq ch w w' Hok Hrq EP k d s HL).
  pose proof (wi_p _ _ _ _ _ _ (HW k d HL) s) as Y. unfold pak, grk in Y.
  rewrite psum_filter, gsum_w_filter in Y. lia.
Qed.

Lemma dec_chain_winv : forall f rq ch w, WInvW f w -> WInvW f (dec_chain ch w rq).
Proof.
  induction ch as [|[q d] up IH]; intros w HW; cbn [dec_chain]; [assumption|].
  apply IH. apply do_kdec_winv. assumption.
Qed.

Lemma step_winv : forall f clk w a,
  wf_forest f = true -> Inv f clk w -> WInvW f w ->
  (forall now, time_of a = Some now -> clk <= now) -> act_ok a ->
  WInvW f (fst (step f w a)).
Proof.
  intros f clk w a Hwf HI HW Ht Ha. pose proof (wf_forest_quotas f Hwf) as Hq.
  destruct a as [q rq now|q rq|q rq|q now|q rq now|q rq|q rq]; cbn [time_of step act_ok] in *.
  - destruct (chain_of f q) as [ch|] eqn:EC; cbn [fst]; [|assumption].
    eapply inc_chain_winv; eauto using chain_of_ok.
  - destruct (chain_of f q) as [ch|] eqn:EC; cbn [fst]; [|assumption].
    pose proof (allowed_chain_winv f rq ch clk w (chain_of_ok _ _ _ EC) HI HW Ha) as X.
    destruct (allowed_chain ch w rq). exact X.
  - destruct (chain_of f q) as [ch|] eqn:EC; cbn [fst]; [|assumption].
    apply dec_chain_winv; assumption.
  - destruct (lookup q f) as [d|] eqn:EL; cbn [fst]; [|assumption].
    apply do_resetin_winv; assumption.
  - destruct (lookup q f) as [d|] eqn:EL; cbn [fst]; [|assumption].
    pose proof (do_kinc_winv f clk w q d rq now Hq HI HW EL (Ht _ eq_refl) Ha) as X.
    destruct (do_kinc d (key_of q d rq) w rq now). exact X.
  - destruct (lookup q f) as [d|] eqn:EL; cbn [fst]; [|assumption].
    pose proof (do_kallowed_winv f clk w q d rq HI HW EL) as X.
    destruct (do_kallowed (key_of q d rq) w rq). exact X.
  - destruct (lookup q f) as [d|] eqn:EL; cbn [fst]; [|assumption].
    apply do_kdec_winv; assumption.
Qed.

Lemma run_winv : forall f acts clk w,
  wf_forest f = true -> Inv f clk w -> WInvW f w -> clock_ok clk acts -> Forall act_ok acts ->
  WInvW f (fst (run f w acts)).
Proof.
  induction acts as [|a rest IH]; intros clk w Hwf HI HW Hc Ha; cbn [run]; [assumption|].
  inversion Ha as [|x l Ha1 Ha2]; subst.
  pose proof (step_inv f clk w a Hwf HI) as X.
  pose proof (step_winv f clk w a Hwf HI HW) as Y.
  destruct (step f w a) as [w' o] eqn:ES. cbn [fst] in X, Y.
  cbn [clock_ok] in Hc. unfold clk_after in X.
  destruct (time_of a) as [now|] eqn:ET.
  - destruct Hc as [Hle Hc].
    assert (HI' : Inv f now w') by (apply X; intros n E; inversion E; subst; assumption).
    assert (HW' : WInvW f w') by (apply Y; [intros n E; inversion E; subst; assumption|assumption]).
    specialize (IH now w' Hwf HI' HW' Hc Ha2).
    destruct (run f w' rest) as [w'' os]. exact IH.
  - assert (HI' : Inv f clk w') by (apply X; intros n E; discriminate).
    assert (HW' : WInvW f w') by (apply Y; [intros n E; discriminate|assumption]).
    specialize (IH clk w' Hwf HI' HW' Hc Ha2).
    destruct (run f w' rest) as [w'' os]. exact IH.
Qed.

(* the cost of the requests let through in a window <= the charged cost <= max *)
Lemma let_through_weight_bound : forall f sched clk0,
  wf_forest f = true -> clock_ok clk0 sched -> Forall act_ok sched ->
  let w := fst (run f init sched) in
  forall k d s, lookup (fst k) f = Some d ->
    psum k s (passes w) <= csum k s (charges w) /\ csum k s (charges w) <= q_max d.
Proof.
  intros f sched clk0 Hwf Hc Ha w k d s HL.
  pose proof (run_winv f sched clk0 init Hwf (Inv_init f clk0 (wf_forest_quotas f Hwf)) (WInvW_init f) Hc Ha) as HW.
  fold w in HW. destruct (HW k d HL) as [W1 W2 W3].
  destruct (window_bound f sched clk0 Hwf Hc k d HL) as (B & _). fold w in B.
  specialize (W2 s). specialize (W3 s). unfold pak, grk, chk in *.
  rewrite psum_filter, gsum_w_filter in W3. rewrite gsum_w_filter, csum_filter in W2.
  split; [lia|apply B].
Qed.

(* the same chain with its middle term: the cost of the TRUE PER-KEY VERDICTS
   (grants - written by the chain-level Allowed and by KAllowed alike, so this
   is the bound that speaks about walks decomposed into their per-key bodies,
   where [passes] stays empty) *)
Lemma granted_weight_bound : forall f sched clk0,
  wf_forest f = true -> clock_ok clk0 sched -> Forall act_ok sched ->
  let w := fst (run f init sched) in
  forall k d s, lookup (fst k) f = Some d ->
    psum k s (passes w) <= gsum_w d k s (grants w) /\
    gsum_w d k s (grants w) <= csum k s (charges w) /\ csum k s (charges w) <= q_max d.
Proof.
  intros f sched clk0 Hwf Hc Ha w k d s HL.
  pose proof (run_winv f sched clk0 init Hwf (Inv_init f clk0 (wf_forest_quotas f Hwf)) (WInvW_init f) Hc Ha) as HW.
  fold w in HW. destruct (HW k d HL) as [W1 W2 W3].
  destruct (window_bound f sched clk0 Hwf Hc k d HL) as (B & _). fold w in B.
  specialize (W2 s). specialize (W3 s). unfold pak, grk, chk in *.
  rewrite psum_filter, gsum_w_filter in W3. rewrite gsum_w_filter, csum_filter in W2.
  split; [exact W3|]. split; [exact W2|apply B].
Qed.

End Weighted.

(* counts, for every quota (also custom counters) *)
Lemma counts_bound : forall f sched clk0,
  wf_forest f = true -> clock_ok clk0 sched ->
  let w := fst (run f init sched) in
  forall k d s, lookup (fst k) f = Some d ->
    pcount k s (passes w) <= gcount k s (grants w) /\
    gcount k s (grants w) <= ccount k s (charges w).
Proof.
  intros f sched clk0 Hwf Hc w k d s HL.
  destruct (run_inv f sched clk0 init Hwf (Inv_init f clk0 (wf_forest_quotas f Hwf)) Hc) as [clk' HI].
  fold w in HI. specialize (HI k d HL). destruct HI as [H1 H2 H3 H4 H5 H6 H7 H8].
  specialize (H8 s). specialize (H5 s).
  unfold pak, grk, chk in *. rewrite ?pcount_filter, ?gcount_filter, ?ccount_filter in *. lia.
Qed.
