(* C01 - two more kinds of events between the atomic steps of a schedule:

   ERenew q now : a walk through quota q reads the clock at [now], past a
                  renewal instant of a `monthly_renewal` block configured for q
                  (fixedWindow.windowAligning -> aligningMonthlyReset).  On this
                  tree no constructor hands the block to the strategy
                  (fixedWindow.monthlyRenewal stays nil): the event has no
                  effect, whatever the block says and wherever the instant
                  falls (RInert).  RResets: the block is wired in - every group
                  object of q starts a fresh window at [now] with counter 0 and
                  no admission records (resetQuota -> quota.Reset; seeded change
                  C01-12).

   EStore q rq  : a group object built for request rq by a transaction that
                  found none in quotaGroups of q is stored there.  On this tree
                  look-up, construction and store are one critical section
                  (getQuotaLock): a store happens only for a key that has no
                  object yet, whose state is the initial one - and a store that
                  comes after other first transactions of the group were served
                  does not happen at all (GOnce: no effect on a key that has
                  been used).  GReplaces: look-up and store are separate
                  critical sections and the store does not re-check - the
                  object other transactions were counted on is replaced by a
                  fresh one: the admission records (allowedByReqID, kept in
                  the object) are gone, window start and counter (kept in the
                  store shared by the quota) stay (seeded change C18-12).

   Definitions and lemmas; the final statements are in Property.v. *)
From Coq Require Import List ZArith Bool Lia.
From Verif Require Import C01.Model C01.Metrics.
Import ListNotations.
Open Scope Z_scope.

Inductive renew_variant := RInert | RResets.
Inductive store_variant := GOnce | GReplaces.

Inductive eaction :=
| EAct (ma : maction)            (* atomic steps and metrics reads *)
| ERenew (q : Z) (now : Z)
| EStore (q : Z) (rq : request).

Definition renew (v : renew_variant) (w : world) (q now : Z) : world :=
  match v with
  | RInert => w
  | RResets =>
      {| st := fun k => if fst k =? q
                        then {| ws := Some (now / sec); cnt := 0; memo := [] |}
                        else st w k;
         charges := charges w; grants := grants w; passes := passes w |}
  end.

Definition store (v : store_variant) (f : forest) (w : world) (q : Z) (rq : request) : world :=
  match v with
  | GOnce => w
  | GReplaces =>
      match lookup q f with
      | Some d =>
          let k := key_of q d rq in
          {| st := upd (st w) k {| ws := ws (st w k); cnt := cnt (st w k); memo := [] |};
             charges := charges w; grants := grants w; passes := passes w |}
      | None => w
      end
  end.

Definition estep_v (rv : renew_variant) (gv : store_variant) (f : forest) (w : world) (ea : eaction)
  : world * out :=
  match ea with
  | EAct ma => mstep f w ma
  | ERenew q now => (renew rv w q now, ONone)
  | EStore q rq => (store gv f w q rq, ONone)
  end.

Fixpoint erun_v (rv : renew_variant) (gv : store_variant) (f : forest) (w : world) (es : list eaction)
  : world * list out :=
  match es with
  | [] => (w, [])
  | a :: rest =>
      let '(w', o) := estep_v rv gv f w a in
      let '(w'', os) := erun_v rv gv f w' rest in
      (w'', o :: os)
  end.

Definition erun := erun_v RInert GOnce.

(* the schedule without these events, and the outputs of the other steps *)
Fixpoint eerase (es : list eaction) : list maction :=
  match es with
  | [] => []
  | EAct ma :: rest => ma :: eerase rest
  | _ :: rest => eerase rest
  end.

Fixpoint eerase_outs (es : list eaction) (os : list out) : list out :=
  match es, os with
  | EAct _ :: rest, o :: os' => o :: eerase_outs rest os'
  | _ :: rest, _ :: os' => eerase_outs rest os'
  | _, _ => []
  end.

(* the frame property, as a statement about a pair of variants *)
Definition event_frame (rv : renew_variant) (gv : store_variant) : Prop :=
  forall f es w,
    (forall k, st (fst (erun_v rv gv f w es)) k = st (fst (mrun f w (eerase es))) k) /\
    eerase_outs es (snd (erun_v rv gv f w es)) = snd (mrun f w (eerase es)).

Lemma erun_frame : forall f es w,
  fst (erun f w es) = fst (mrun f w (eerase es)) /\
  eerase_outs es (snd (erun f w es)) = snd (mrun f w (eerase es)).
Proof.
  intros f es. induction es as [|a rest IH]; intros w.
  - split; reflexivity.
  - destruct a as [ma|q now|q rq].
    + unfold erun, mrun in *. cbn [erun_v estep_v eerase mrun_v].
      change (mstep f w ma) with (mstep_v SFaithful f w ma).
      destruct (mstep_v SFaithful f w ma) as [w1 o] eqn:ES.
      specialize (IH w1).
      destruct (erun_v RInert GOnce f w1 rest) as [w2 os] eqn:EM.
      destruct (mrun_v SFaithful f w1 (eerase rest)) as [w3 os3] eqn:ER.
      cbn [fst snd] in *. destruct IH as [IH1 IH2].
      cbn [eerase_outs]. split; [exact IH1|]. rewrite IH2. reflexivity.
    + unfold erun in *. cbn [erun_v estep_v eerase renew].
      specialize (IH w).
      destruct (erun_v RInert GOnce f w rest) as [w2 os] eqn:EM.
      cbn [fst snd eerase_outs] in *. exact IH.
    + unfold erun in *. cbn [erun_v estep_v eerase store].
      specialize (IH w).
      destruct (erun_v RInert GOnce f w rest) as [w2 os] eqn:EM.
      cbn [fst snd eerase_outs] in *. exact IH.
Qed.

Lemma event_frame_faithful : event_frame RInert GOnce.
Proof.
  intros f es w. destruct (erun_frame f es w) as [H1 H2].
  split; [|exact H2]. intros k. unfold erun in H1. rewrite H1. reflexivity.
Qed.

(* a schedule without such events *)
Lemma erun_lift : forall rv gv f ms w, erun_v rv gv f w (map EAct ms) = mrun f w ms.
Proof.
  intros rv gv f ms. induction ms as [|a rest IH]; intros w; [reflexivity|].
  unfold mrun in *. cbn [map erun_v estep_v mrun_v].
  change (mstep f w a) with (mstep_v SFaithful f w a).
  destruct (mstep_v SFaithful f w a) as [w1 o]. rewrite IH. reflexivity.
Qed.

(* ---------------------------------------------------------------- witnesses *)

(* C01-12: quota 1, max 1, window 10 s; the window [5 s, 15 s) is full; the
   renewal instant is crossed by the reading at 7 s of the next request *)
Definition es_renew : list eaction :=
  [EAct (MAct (Inc 1 mr1 (5 * sec))); EAct (MAct (Allowed 1 mr1));
   ERenew 1 (7 * sec);
   EAct (MAct (Inc 1 mr2 (7 * sec))); EAct (MAct (Allowed 1 mr2))].

(* C18-12: quota 1, max 10, window 60 s; two first-ever transactions A (mr1) and
   B (mr2) of the group: A looks the group up (none) and is parked while it
   builds the object; B runs to completion (counted, marked allowed on ITS
   object); A's store replaces that object; A is counted; the verdicts *)
Definition gf : forest := [(1, mkq 10 60 None None false)].
Definition es_store : list eaction :=
  [EAct (MAct (Inc 1 mr2 (5 * sec)));
   EStore 1 mr1;
   EAct (MAct (Inc 1 mr1 (5 * sec)));
   EAct (MAct (Allowed 1 mr1)); EAct (MAct (Allowed 1 mr2))].

Lemma event_frame_renewal_resets_refuted : ~ event_frame RResets GOnce.
Proof.
  intros H. destruct (H mf es_renew init) as [_ H2]. vm_compute in H2. discriminate.
Qed.

Lemma event_frame_store_replaces_refuted : ~ event_frame RInert GReplaces.
Proof.
  intros H. destruct (H gf es_store init) as [_ H2]. vm_compute in H2. discriminate.
Qed.

(* the verdicts of the two transactions of es_store in both one-at-a-time
   orders, and what the replacing store makes of them *)
Lemma store_witness_verdicts :
  snd (run gf init [Inc 1 mr1 (5 * sec); Allowed 1 mr1; Inc 1 mr2 (5 * sec); Allowed 1 mr2])
    = [ONone; OBool true; ONone; OBool true] /\
  snd (run gf init [Inc 1 mr2 (5 * sec); Allowed 1 mr2; Inc 1 mr1 (5 * sec); Allowed 1 mr1])
    = [ONone; OBool true; ONone; OBool true] /\
  snd (erun gf init es_store) = [ONone; ONone; ONone; OBool true; OBool true] /\
  snd (erun_v RInert GReplaces gf init es_store) = [ONone; ONone; ONone; OBool true; OBool false] /\
  cnt (st (fst (erun_v RInert GReplaces gf init es_store)) (1, 0)) = 2.
Proof. vm_compute. repeat split; reflexivity. Qed.

(* the renewal witness: with the block wired in, two requests are let through
   at 5 s and at 7 s - inside one 10 s window, max 1 *)
Lemma renew_witness_verdicts :
  snd (erun mf init es_renew) = [ONone; OBool true; ONone; ONone; OBool false] /\
  snd (erun_v RResets GOnce mf init es_renew) = [ONone; OBool true; ONone; ONone; OBool true].
Proof. vm_compute. split; reflexivity. Qed.

(* ---------------------------------------------------------------- correspondence *)

(* res suite: schedules with metrics reads, renewal instants (where the harness
   moved the clock past the instant a configured block would renew at) and
   group-object stores (where the harness released a transaction it had parked
   while its group was being created, after another one had been served) *)
Definition case_rese := (forest * list eaction * list out)%type.
Definition run_rese (k : case_rese) : option (list out) :=
  let '(f, es, obs) := k in
  if negb (wf_forest f) then Some [OBad]
  else
    let m := snd (erun f init es) in
    if outs_eqb m obs then None else Some m.
