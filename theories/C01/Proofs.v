(* C01 — proofs.  Per-key invariant tying the counter to the ghost charge log,
   its preservation by every atomic step, the schedule induction, and the
   sequential exactness results. *)
From Coq Require Import List ZArith Bool Lia.
From Verif Require Import C01.Model.
Import ListNotations.
Open Scope Z_scope.

Ltac Zify.zify_post_hook ::= Z.to_euclidean_division_equations.

(* ------------------------------------------------------------ basics *)

Lemma key_eqb_eq : forall a b : key, key_eqb a b = true <-> a = b.
Proof.
  intros [a1 a2] [b1 b2]; unfold key_eqb; cbn [fst snd].
  rewrite andb_true_iff, !Z.eqb_eq. split.
  - intros [H1 H2]; subst; reflexivity.
  - intros H; inversion H; auto.
Qed.

Lemma key_eqb_refl : forall a, key_eqb a a = true.
Proof. intros; apply key_eqb_eq; reflexivity. Qed.

Lemma key_eqb_neq : forall a b : key, key_eqb a b = false <-> a <> b.
Proof.
  intros a b. split.
  - intros H E. apply key_eqb_eq in E. congruence.
  - intros H. destruct (key_eqb a b) eqn:E; [apply key_eqb_eq in E; contradiction | reflexivity].
Qed.

Lemma key_eqb_sym : forall a b, key_eqb a b = key_eqb b a.
Proof.
  intros a b. destruct (key_eqb a b) eqn:E.
  - apply key_eqb_eq in E; subst. symmetry; apply key_eqb_refl.
  - apply key_eqb_neq in E. symmetry. apply key_eqb_neq. congruence.
Qed.

Lemma upd_same : forall s k v, upd s k v k = v.
Proof. intros; unfold upd; rewrite key_eqb_refl; reflexivity. Qed.

Lemma upd_other : forall s k v k', k' <> k -> upd s k v k' = s k'.
Proof. intros s k v k' H; unfold upd. apply key_eqb_neq in H. rewrite H. reflexivity. Qed.

Lemma lookup_In : forall (A : Type) x (l : list (Z * A)%type) a, lookup x l = Some a -> In (x, a) l.
Proof.
  induction l as [|[y b] t IH]; cbn [lookup]; intros a H; [discriminate|].
  destruct (x =? y) eqn:E.
  - apply Z.eqb_eq in E. inversion H; subst. left; reflexivity.
  - right; auto.
Qed.

(* true entries of a memo *)
Fixpoint tcount (m : list (Z * bool)%type) : Z :=
  match m with
  | [] => 0
  | e :: t => if snd e then 1 + tcount t else tcount t
  end.

Lemma tcount_nonneg : forall m, 0 <= tcount m.
Proof. induction m as [|[r b] t IH]; cbn [tcount snd]; [lia|]. destruct b; lia. Qed.

Lemma tcount_mremove_le : forall r m, tcount (mremove r m) <= tcount m.
Proof.
  induction m as [|[x b] t IH]; cbn [mremove filter fst tcount snd]; [lia|].
  fold (mremove r t).
  destruct (x =? r); cbn [negb tcount snd]; destruct b; lia.
Qed.

Lemma tcount_mremove_true : forall r m, lookup r m = Some true -> tcount (mremove r m) + 1 <= tcount m.
Proof.
  induction m as [|[x b] t IH]; cbn [lookup]; intros H; [discriminate|].
  cbn [mremove filter fst]. fold (mremove r t). rewrite Z.eqb_sym in H.
  destruct (x =? r) eqn:E; cbn [negb].
  - inversion H; subst. cbn [tcount snd].
    pose proof (tcount_mremove_le r t). lia.
  - cbn [tcount snd]. specialize (IH H). destruct b; lia.
Qed.

Lemma lookup_mremove_nil : forall r, mremove r [] = [].
Proof. reflexivity. Qed.

(* ------------------------------------------------------------ sums over the logs *)

Definition chk (k : key) (w : world) := filter (fun c => key_eqb (c_key c) k) (charges w).
Definition grk (k : key) (w : world) := filter (fun g => key_eqb (g_key g) k) (grants w).
Definition pak (k : key) (w : world) := filter (fun p => key_eqb (p_key p) k) (passes w).

Lemma csum_app : forall k s a b, csum k s (a ++ b) = csum k s a + csum k s b.
Proof. induction a as [|c a IH]; intros b; cbn [app csum]; [lia|]. rewrite IH. destruct (_ && _); lia. Qed.
Lemma ccount_app : forall k s a b, ccount k s (a ++ b) = ccount k s a + ccount k s b.
Proof. induction a as [|c a IH]; intros b; cbn [app ccount]; [lia|]. rewrite IH. destruct (_ && _); lia. Qed.
Lemma gcount_app : forall k s a b, gcount k s (a ++ b) = gcount k s a + gcount k s b.
Proof. induction a as [|c a IH]; intros b; cbn [app gcount]; [lia|]. rewrite IH. destruct (_ && _); lia. Qed.
Lemma psum_app : forall k s a b, psum k s (a ++ b) = psum k s a + psum k s b.
Proof. induction a as [|c a IH]; intros b; cbn [app psum]; [lia|]. rewrite IH. destruct (_ && _); lia. Qed.
Lemma pcount_app : forall k s a b, pcount k s (a ++ b) = pcount k s a + pcount k s b.
Proof. induction a as [|c a IH]; intros b; cbn [app pcount]; [lia|]. rewrite IH. destruct (_ && _); lia. Qed.

Lemma csum_filter : forall k s l, csum k s (filter (fun c => key_eqb (c_key c) k) l) = csum k s l.
Proof.
  induction l as [|c l IH]; cbn [filter csum]; [reflexivity|].
  destruct (key_eqb (c_key c) k) eqn:E; cbn [csum andb]; rewrite ?E; cbn [andb]; rewrite IH; reflexivity.
Qed.
Lemma ccount_filter : forall k s l, ccount k s (filter (fun c => key_eqb (c_key c) k) l) = ccount k s l.
Proof.
  induction l as [|c l IH]; cbn [filter ccount]; [reflexivity|].
  destruct (key_eqb (c_key c) k) eqn:E; cbn [ccount andb]; rewrite ?E; cbn [andb]; rewrite IH; reflexivity.
Qed.
Lemma gcount_filter : forall k s l, gcount k s (filter (fun c => key_eqb (g_key c) k) l) = gcount k s l.
Proof.
  induction l as [|c l IH]; cbn [filter gcount]; [reflexivity|].
  destruct (key_eqb (g_key c) k) eqn:E; cbn [gcount andb]; rewrite ?E; cbn [andb]; rewrite IH; reflexivity.
Qed.
Lemma pcount_filter : forall k s l, pcount k s (filter (fun c => key_eqb (p_key c) k) l) = pcount k s l.
Proof.
  induction l as [|c l IH]; cbn [filter pcount]; [reflexivity|].
  destruct (key_eqb (p_key c) k) eqn:E; cbn [pcount andb]; rewrite ?E; cbn [andb]; rewrite IH; reflexivity.
Qed.
Lemma psum_filter : forall k s l, psum k s (filter (fun c => key_eqb (p_key c) k) l) = psum k s l.
Proof.
  induction l as [|c l IH]; cbn [filter psum]; [reflexivity|].
  destruct (key_eqb (p_key c) k) eqn:E; cbn [psum andb]; rewrite ?E; cbn [andb]; rewrite IH; reflexivity.
Qed.

Lemma ccount_nonneg : forall k s l, 0 <= ccount k s l.
Proof. induction l as [|c l IH]; cbn [ccount]; [lia|]. destruct (_ && _); lia. Qed.
Lemma gcount_nonneg : forall k s l, 0 <= gcount k s l.
Proof. induction l as [|c l IH]; cbn [gcount]; [lia|]. destruct (_ && _); lia. Qed.
Lemma pcount_nonneg : forall k s l, 0 <= pcount k s l.
Proof. induction l as [|c l IH]; cbn [pcount]; [lia|]. destruct (_ && _); lia. Qed.

Lemma csum_absent : forall k s l, (forall c, In c l -> c_ws c <> s) -> csum k s l = 0.
Proof.
  induction l as [|c l IH]; intros H; cbn [csum]; [reflexivity|].
  assert (E : (c_ws c =? s) = false) by (apply Z.eqb_neq, H; left; reflexivity).
  rewrite E, andb_false_r. apply IH. intros; apply H; right; assumption.
Qed.
Lemma ccount_absent : forall k s l, (forall c, In c l -> c_ws c <> s) -> ccount k s l = 0.
Proof.
  induction l as [|c l IH]; intros H; cbn [ccount]; [reflexivity|].
  assert (E : (c_ws c =? s) = false) by (apply Z.eqb_neq, H; left; reflexivity).
  rewrite E, andb_false_r. apply IH. intros; apply H; right; assumption.
Qed.

Lemma csum_unit : forall k s l, (forall c, In c l -> c_cost c = 1) -> csum k s l = ccount k s l.
Proof.
  induction l as [|c l IH]; intros H; cbn [csum ccount]; [reflexivity|].
  rewrite IH by (intros; apply H; right; assumption).
  rewrite (H c) by (left; reflexivity). reflexivity.
Qed.

(* ------------------------------------------------------------ the per-key invariant *)

Record KInv (d : quota) (clk : Z) (k : key) (ks : kstate)
            (C : list charge) (G : list grant) (P : list pass) : Prop := {
  ki_none : ws ks = None -> cnt ks = 0 /\ tcount (memo ks) = 0 /\ C = [] /\ G = [];
  ki_some : forall s, ws ks = Some s ->
      csum k s C = cnt ks /\ s * sec <= clk /\
      gcount k s G + tcount (memo ks) <= ccount k s C /\
      (forall c, In c C -> c_ws c = s \/ c_ws c * sec + q_win d <= s * sec);
  ki_max : forall s, csum k s C <= q_max d;
  ki_at : forall c, In c C ->
      c_key c = k /\ c_ws c * sec <= c_at c < c_ws c * sec + q_win d /\ c_at c <= clk;
  ki_g : forall s, gcount k s G <= ccount k s C;
  ki_disj : forall c1 c2, In c1 C -> In c2 C ->
      c_ws c1 = c_ws c2 \/ c_ws c1 * sec + q_win d <= c_ws c2 * sec
      \/ c_ws c2 * sec + q_win d <= c_ws c1 * sec;
  ki_unit : q_custom d = false -> forall c, In c C -> c_cost c = 1;
  ki_p : forall s, pcount k s P <= gcount k s G
}.

Lemma KInv_init : forall d clk k, 0 <= q_max d -> KInv d clk k kinit [] [] [].
Proof.
  intros d clk k Hm. constructor; cbn [ws cnt memo kinit tcount csum ccount gcount pcount In];
    intros; try discriminate; try contradiction; try lia; auto.
Qed.

Lemma KInv_clk : forall d clk clk' k ks C G P,
  KInv d clk k ks C G P -> clk <= clk' -> KInv d clk' k ks C G P.
Proof.
  intros d clk clk' k ks C G P [H1 H2 H3 H4 H5 H6 H7 H8] Hle. constructor; auto.
  - intros s Hs. destruct (H2 s Hs) as (A & B & Cc & D). repeat split; auto; lia.
  - intros c Hc. destruct (H4 c Hc) as (A & B & Cc). repeat split; auto; lia.
Qed.

Lemma wf_quota_facts : forall d, wf_quota d = true ->
  sec <= q_win d /\ q_win d mod sec = 0 /\ 0 <= q_max d.
Proof.
  intros d H. unfold wf_quota in H. rewrite !andb_true_iff in H.
  destruct H as [[H1 H2] H3]. apply Z.leb_le in H1, H3. apply Z.eqb_eq in H2. auto.
Qed.

(* ------------------------------------------------------------ quota.Inc keeps the invariant *)

Definition mkc (k : key) (s now r cost : Z) : charge :=
  {| c_key := k; c_ws := s; c_at := now; c_req := r; c_cost := cost |}.

Lemma csum_mkc : forall k s0 s now r cost C,
  csum k s0 (mkc k s now r cost :: C) = if s =? s0 then cost + csum k s0 C else csum k s0 C.
Proof. intros. cbn [csum mkc c_key c_ws c_cost]. rewrite key_eqb_refl. reflexivity. Qed.
Lemma ccount_mkc : forall k s0 s now r cost C,
  ccount k s0 (mkc k s now r cost :: C) = if s =? s0 then 1 + ccount k s0 C else ccount k s0 C.
Proof. intros. cbn [ccount mkc c_key c_ws c_cost]. rewrite key_eqb_refl. reflexivity. Qed.

Lemma kinc_inv : forall d clk k ks C G P r now cost ks' res chg,
  wf_quota d = true -> KInv d clk k ks C G P -> clk <= now ->
  (q_custom d = false -> cost = 1) ->
  kinc (q_max d) (q_win d) ks r now cost = (ks', res, chg) ->
  KInv d now k ks' (match chg with Some s => mkc k s now r cost :: C | None => C end) G P.
Proof.
  intros d clk k ks C G P r now cost ks' res chg Hwf HI Hclk Hunit HK.
  destruct (wf_quota_facts d Hwf) as (HW1 & HW2 & HM).
  unfold kinc in HK.
  destruct (lookup r (memo ks)) eqn:EL.
  { inversion HK; subst. eapply KInv_clk; eauto. }
  destruct (q_max d <? eff_count (q_win d) ks now + cost) eqn:ER.
  { (* refused: nothing stored *)
    inversion HK; subst; clear HK. destruct HI as [H1 H2 H3 H4 H5 H6 H7 H8].
    constructor; cbn [ws cnt memo]; auto.
    - intros Hn. destruct (H1 Hn) as (A & B & Cc & D). repeat split; auto.
      destruct (expired _ _ _); cbn [tcount snd]; auto.
    - intros s Hs. destruct (H2 s Hs) as (A & B & Cc & D). repeat split; auto; try lia.
      pose proof (tcount_nonneg (memo ks)). destruct (expired _ _ _); cbn [tcount snd]; lia.
    - intros c Hc. destruct (H4 c Hc) as (A & B & Cc). repeat split; auto; lia. }
  apply Z.ltb_ge in ER.
  unfold eff_count, expired, win_start_ns in *.
  destruct HI as [H1 H2 H3 H4 H5 H6 H7 H8].
  destruct (ws ks) as [s|] eqn:EW.
  - destruct (H2 s eq_refl) as (A & B & Cc & D).
    destruct (q_win d <=? now - s * sec) eqn:EX.
    + (* the window is over: restart *)
      apply Z.leb_le in EX.
      inversion HK; subst; clear HK.
      set (s' := now / sec).
      assert (Hs' : s * sec + q_win d <= s' * sec) by (unfold s', sec in *; lia).
      assert (Hfl : s' * sec <= now < s' * sec + sec) by (unfold s', sec in *; lia).
      assert (Hold : forall c, In c C -> c_ws c * sec + q_win d <= s' * sec).
      { intros c Hc. destruct (D c Hc) as [E|E]; [rewrite E|]; lia. }
      assert (Hab : forall c, In c C -> c_ws c <> s').
      { intros c Hc E. specialize (Hold c Hc). rewrite E in Hold. unfold sec in *; lia. }
      constructor; cbn [ws cnt memo].
      * discriminate.
      * intros s0 E0. inversion E0; subst s0; clear E0.
        rewrite csum_mkc, ccount_mkc, Z.eqb_refl, (csum_absent k s' C Hab), (ccount_absent k s' C Hab).
        repeat split; try lia.
        -- pose proof (H5 s'). rewrite (ccount_absent k s' C Hab) in H.
           pose proof (gcount_nonneg k s' G). cbn [tcount snd]. lia.
        -- intros c [Hc|Hc]; [subst c; left; reflexivity | right; auto].
      * intros s0. rewrite csum_mkc. destruct (s' =? s0) eqn:E0; [|apply H3].
        apply Z.eqb_eq in E0; subst s0. rewrite (csum_absent k s' C Hab). lia.
      * intros c [Hc|Hc].
        -- subst c. cbn [mkc c_key c_ws c_at]. repeat split; try lia.
        -- destruct (H4 c Hc) as (X & Y & Z0). repeat split; auto; lia.
      * intros s0. rewrite ccount_mkc. destruct (s' =? s0) eqn:E0.
        -- pose proof (H5 s0). lia.
        -- apply H5.
      * intros c1 c2 [E1|E1] [E2|E2]; try subst c1; try subst c2; cbn [mkc c_ws].
        -- left; reflexivity.
        -- right; right. apply Hold; assumption.
        -- right; left. apply Hold; assumption.
        -- apply H6; assumption.
      * intros Hu c [Hc|Hc]; [subst c; cbn [mkc c_cost]; auto | apply H7; auto].
      * apply H8.
    + (* same window *)
      apply Z.leb_gt in EX.
      inversion HK; subst; clear HK.
      constructor; cbn [ws cnt memo].
      * discriminate.
      * intros s0 E0. inversion E0; subst s0; clear E0.
        rewrite csum_mkc, ccount_mkc, Z.eqb_refl.
        repeat split; try lia.
        -- cbn [tcount snd]. lia.
        -- intros c [Hc|Hc]; [subst c; left; reflexivity | auto].
      * intros s0. rewrite csum_mkc. destruct (s =? s0) eqn:E0; [|apply H3].
        apply Z.eqb_eq in E0; subst s0. lia.
      * intros c [Hc|Hc].
        -- subst c. cbn [mkc c_key c_ws c_at]. repeat split; try lia.
        -- destruct (H4 c Hc) as (X & Y & Z0). repeat split; auto; lia.
      * intros s0. rewrite ccount_mkc. destruct (s =? s0) eqn:E0.
        -- apply Z.eqb_eq in E0; subst s0. pose proof (tcount_nonneg (memo ks)). lia.
        -- apply H5.
      * intros c1 c2 [E1|E1] [E2|E2]; try subst c1; try subst c2; cbn [mkc c_ws].
        -- left; reflexivity.
        -- destruct (D c2 E2) as [E|E]; [left; auto | right; right; auto].
        -- destruct (D c1 E1) as [E|E]; [left; auto | right; left; auto].
        -- apply H6; assumption.
      * intros Hu c [Hc|Hc]; [subst c; cbn [mkc c_cost]; auto | apply H7; auto].
      * apply H8.
  - (* first use of the key *)
    destruct (H1 eq_refl) as (A & B & Cc & D). subst C G.
    assert (EX : (q_win d <=? now - now) = false) by (apply Z.leb_gt; unfold sec in *; lia).
    rewrite EX in HK, ER. inversion HK; subst; clear HK.
    set (s' := now / sec).
    assert (Hfl : s' * sec <= now < s' * sec + sec) by (unfold s', sec in *; lia).
    constructor; cbn [ws cnt memo].
    * discriminate.
    * intros s0 E0. inversion E0; subst s0; clear E0.
      rewrite csum_mkc, ccount_mkc, Z.eqb_refl. cbn [csum ccount gcount tcount snd].
      repeat split; try lia.
      intros c [Hc|[]]. subst c; left; reflexivity.
    * intros s0. rewrite csum_mkc. cbn [csum]. destruct (s' =? s0); lia.
    * intros c [Hc|[]]. subst c. cbn [mkc c_key c_ws c_at]. repeat split; lia.
    * intros s0. rewrite ccount_mkc. cbn [gcount ccount]. destruct (s' =? s0); lia.
    * intros c1 c2 [E1|[]] [E2|[]]. subst c1 c2. left; reflexivity.
    * intros Hu c [Hc|[]]. subst c; cbn [mkc c_cost]; auto.
    * apply H8.
Qed.

(* ------------------------------------------------------------ Allowed / Dec / ResetIn *)

Lemma lookup_true_tcount : forall r m, lookup r m = Some true -> 1 <= tcount m.
Proof.
  intros r m H. pose proof (tcount_mremove_true r m H). pose proof (tcount_nonneg (mremove r m)). lia.
Qed.

Definition mkg (k : key) (s r : Z) : grant := {| g_key := k; g_ws := s; g_req := r |}.

Lemma gcount_mkg : forall k s0 s r G,
  gcount k s0 (mkg k s r :: G) = if s =? s0 then 1 + gcount k s0 G else gcount k s0 G.
Proof. intros. cbn [gcount mkg g_key g_ws]. rewrite key_eqb_refl. reflexivity. Qed.

Lemma kallowed_inv : forall d clk k ks C G P r ks' b,
  KInv d clk k ks C G P -> kallowed ks r = (ks', b) ->
  KInv d clk k ks' C (if b then mkg k (ws_or0 ks) r :: G else G) P.
Proof.
  intros d clk k ks C G P r ks' b [H1 H2 H3 H4 H5 H6 H7 H8] HK.
  unfold kallowed in HK. destruct (lookup r (memo ks)) as [v|] eqn:EL.
  2:{ inversion HK; subst. constructor; auto. }
  inversion HK; subst; clear HK.
  pose proof (tcount_mremove_le r (memo ks)) as Hle.
  pose proof (tcount_nonneg (mremove r (memo ks))) as Hnn.
  destruct b.
  - pose proof (tcount_mremove_true r (memo ks) EL) as Ht.
    destruct (ws ks) as [s|] eqn:EW.
    + destruct (H2 s eq_refl) as (A & B & Cc & D).
      unfold ws_or0. rewrite EW.
      constructor; cbn [ws cnt memo]; auto.
      * rewrite ?EW. discriminate.
      * rewrite ?EW. intros s0 E0. inversion E0; subst s0. rewrite gcount_mkg, Z.eqb_refl.
        repeat split; auto. lia.
      * intros s0. rewrite gcount_mkg. destruct (s =? s0) eqn:E0; [|apply H5].
        apply Z.eqb_eq in E0; subst s0. lia.
      * intros s0. rewrite gcount_mkg. pose proof (H8 s0). destruct (s =? s0); lia.
    + destruct (H1 eq_refl) as (A & B & _). lia.
  - constructor; cbn [ws cnt memo]; auto.
    + intros Hn. destruct (H1 Hn) as (A & B & Cc & D). repeat split; auto. lia.
    + intros s Hs. destruct (H2 s Hs) as (A & B & Cc & D). repeat split; auto. lia.
Qed.

Lemma kdec_inv : forall d clk k ks C G P r,
  KInv d clk k ks C G P -> KInv d clk k (kdec ks r) C G P.
Proof.
  intros d clk k ks C G P r [H1 H2 H3 H4 H5 H6 H7 H8].
  pose proof (tcount_mremove_le r (memo ks)) as Hle.
  pose proof (tcount_nonneg (mremove r (memo ks))) as Hnn.
  unfold kdec. constructor; cbn [ws cnt memo]; auto.
  - intros Hn. destruct (H1 Hn) as (A & B & Cc & D). repeat split; auto. lia.
  - intros s Hs. destruct (H2 s Hs) as (A & B & Cc & D). repeat split; auto. lia.
Qed.

Lemma kresetin_inv : forall d clk k ks C G P W now,
  KInv d clk k ks C G P -> KInv d clk k (kresetin W ks now) C G P.
Proof.
  intros d clk k ks C G P W now HI. unfold kresetin.
  destruct (expired W ks now); [|assumption].
  destruct HI as [H1 H2 H3 H4 H5 H6 H7 H8].
  pose proof (tcount_nonneg (memo ks)) as Hnn.
  constructor; cbn [ws cnt memo tcount]; auto.
  - intros Hn. destruct (H1 Hn) as (A & B & Cc & D). repeat split; auto.
  - intros s Hs. destruct (H2 s Hs) as (A & B & Cc & D). repeat split; auto. lia.
Qed.

(* ------------------------------------------------------------ the invariant of the world *)

Definition Inv (f : forest) (clk : Z) (w : world) : Prop :=
  forall k d, lookup (fst k) f = Some d ->
    KInv d clk k (st w k) (chk k w) (grk k w) (pak k w).

Definition wf_quotas (f : forest) : Prop := forall q d, lookup q f = Some d -> wf_quota d = true.

Lemma wf_forest_quotas : forall f, wf_forest f = true -> wf_quotas f.
Proof.
  intros f H q d HL. unfold wf_forest in H. rewrite forallb_forall in H.
  specialize (H (q, d) (lookup_In _ _ _ _ HL)). cbn [fst snd] in H.
  apply andb_true_iff in H. tauto.
Qed.

Lemma Inv_init : forall f clk, wf_quotas f -> Inv f clk init.
Proof.
  intros f clk Hwf k d HL. cbn. apply KInv_init.
  destruct (wf_quota_facts d (Hwf _ _ HL)) as (_ & _ & H). exact H.
Qed.

Lemma Inv_clk : forall f clk clk' w, Inv f clk w -> clk <= clk' -> Inv f clk' w.
Proof. intros f clk clk' w H Hle k d HL. eapply KInv_clk; eauto. Qed.

Lemma do_kinc_inv : forall f clk w q d rq now,
  wf_quotas f -> Inv f clk w -> lookup q f = Some d -> clk <= now ->
  Inv f now (fst (do_kinc d (key_of q d rq) w rq now)).
Proof.
  intros f clk w q d rq now Hwf HI HL Hclk k' d' HL'.
  unfold do_kinc.
  destruct (kinc (q_max d) (q_win d) (st w (key_of q d rq)) (r_id rq) now (cost_of d rq))
    as [[ks' res] chg] eqn:EK.
  cbn [fst]. unfold chk, grk, pak. cbn [st charges grants passes].
  destruct (key_eqb k' (key_of q d rq)) eqn:EQ.
  - apply key_eqb_eq in EQ. subst k'. cbn [key_of fst] in HL'. rewrite HL in HL'.
    inversion HL'; subst d'. rewrite upd_same.
    assert (Hu : q_custom d = false -> cost_of d rq = 1) by (unfold cost_of; intros ->; reflexivity).
    pose proof (kinc_inv d clk (key_of q d rq) _ _ _ _ (r_id rq) now (cost_of d rq) ks' res chg
                  (Hwf _ _ HL) (HI (key_of q d rq) d HL) Hclk Hu EK) as X.
    destruct chg as [s|]; [|exact X].
    cbn [filter c_key]. rewrite key_eqb_refl. exact X.
  - assert (Hne : k' <> key_of q d rq) by (apply key_eqb_neq; assumption).
    rewrite upd_other by assumption.
    assert (E : filter (fun c => key_eqb (c_key c) k')
                  match chg with
                  | Some s => {| c_key := key_of q d rq; c_ws := s; c_at := now;
                                 c_req := r_id rq; c_cost := cost_of d rq |} :: charges w
                  | None => charges w
                  end = chk k' w).
    { destruct chg; [|reflexivity]. cbn [filter c_key]. rewrite key_eqb_sym, EQ. reflexivity. }
    rewrite E. eapply KInv_clk; [apply HI; assumption | assumption].
Qed.

Lemma do_kallowed_inv : forall f clk w q d rq,
  Inv f clk w -> lookup q f = Some d ->
  Inv f clk (fst (do_kallowed (key_of q d rq) w rq)).
Proof.
  intros f clk w q d rq HI HL k' d' HL'.
  unfold do_kallowed.
  destruct (kallowed (st w (key_of q d rq)) (r_id rq)) as [ks' b] eqn:EK.
  cbn [fst]. unfold chk, grk, pak. cbn [st charges grants passes].
  destruct (key_eqb k' (key_of q d rq)) eqn:EQ.
  - apply key_eqb_eq in EQ. subst k'. cbn [key_of fst] in HL'. rewrite HL in HL'.
    inversion HL'; subst d'. rewrite upd_same.
    pose proof (kallowed_inv d clk (key_of q d rq) _ _ _ _ (r_id rq) ks' b
                  (HI (key_of q d rq) d HL) EK) as X.
    destruct b; [|exact X].
    cbn [filter g_key]. rewrite key_eqb_refl. exact X.
  - assert (Hne : k' <> key_of q d rq) by (apply key_eqb_neq; assumption).
    rewrite upd_other by assumption.
    assert (E : filter (fun g => key_eqb (g_key g) k')
                  (if b then {| g_key := key_of q d rq; g_ws := ws_or0 (st w (key_of q d rq));
                                g_req := r_id rq |} :: grants w else grants w) = grk k' w).
    { destruct b; [|reflexivity]. cbn [filter g_key]. rewrite key_eqb_sym, EQ. reflexivity. }
    rewrite E. apply HI; assumption.
Qed.

Lemma do_kdec_inv : forall f clk w k rq,
  Inv f clk w -> Inv f clk (do_kdec k w rq).
Proof.
  intros f clk w k rq HI k' d' HL'.
  unfold do_kdec, chk, grk, pak. cbn [st charges grants passes].
  destruct (key_eqb k' k) eqn:EQ.
  - apply key_eqb_eq in EQ. subst k'. rewrite upd_same. apply kdec_inv. apply HI; assumption.
  - rewrite upd_other by (apply key_eqb_neq; assumption). apply HI; assumption.
Qed.

Lemma do_resetin_inv : forall f clk w q d now,
  Inv f clk w -> Inv f clk (do_resetin q d w now).
Proof.
  intros f clk w q d now HI k' d' HL'.
  unfold do_resetin, chk, grk, pak. cbn [st charges grants passes].
  destruct (fst k' =? q); [apply kresetin_inv|]; apply HI; assumption.
Qed.

(* ------------------------------------------------------------ chains *)

Lemma chain_lookup : forall f n q ch, chain f n q = Some ch ->
  forall q' d', In (q', d') ch -> lookup q' f = Some d'.
Proof.
  induction n as [|n IH]; intros q ch H q' d' HIn; cbn [chain] in H; [discriminate|].
  destruct (lookup q f) as [d|] eqn:EL; [|discriminate].
  destruct (q_parent d) as [p|].
  - destruct (chain f n p) as [l|] eqn:EC; [|discriminate].
    inversion H; subst ch. destruct HIn as [E|HIn].
    + inversion E; subst; assumption.
    + eapply IH; eauto.
  - inversion H; subst ch. destruct HIn as [E|[]]. inversion E; subst; assumption.
Qed.

Definition chain_ok (f : forest) (ch : list (Z * quota)) : Prop :=
  forall q d, In (q, d) ch -> lookup q f = Some d.

Lemma chain_of_ok : forall f q ch, chain_of f q = Some ch -> chain_ok f ch.
Proof. intros f q ch H q' d' HIn. eapply chain_lookup; eauto. Qed.

Lemma chain_ok_tail : forall f x ch, chain_ok f (x :: ch) -> chain_ok f ch.
Proof. intros f x ch H q d HIn. apply H. right; assumption. Qed.

Lemma inc_chain_inv : forall f rq now ch clk w,
  wf_quotas f -> chain_ok f ch -> Inv f clk w -> clk <= now ->
  Inv f now (inc_chain ch w rq now).
Proof.
  induction ch as [|[q d] up IH]; intros clk w Hwf Hok HI Hclk; cbn [inc_chain].
  - eapply Inv_clk; eauto.
  - pose proof (do_kinc_inv f clk w q d rq now Hwf HI (Hok q d (or_introl eq_refl)) Hclk) as X.
    destruct (do_kinc d (key_of q d rq) w rq now) as [w' res]. cbn [fst] in X.
    destruct res; auto.
    apply (IH now w' Hwf (chain_ok_tail _ _ _ Hok) X). lia.
Qed.

Lemma kallowed_ws : forall ks r, ws (fst (kallowed ks r)) = ws ks.
Proof. intros. unfold kallowed. destruct (lookup r (memo ks)); reflexivity. Qed.

Lemma do_kallowed_ws : forall k w rq k', ws (st (fst (do_kallowed k w rq)) k') = ws (st w k').
Proof.
  intros. unfold do_kallowed. pose proof (kallowed_ws (st w k) (r_id rq)) as H.
  destruct (kallowed (st w k) (r_id rq)) as [ks' b]. cbn [fst st] in *.
  unfold upd. destruct (key_eqb k' k) eqn:E; [|reflexivity].
  apply key_eqb_eq in E. subst. assumption.
Qed.

Lemma pop_chain_inv : forall f rq ch clk w,
  chain_ok f ch -> Inv f clk w -> Inv f clk (fst (pop_chain ch w rq)).
Proof.
  induction ch as [|[q d] up IH]; intros clk w Hok HI; cbn [pop_chain]; [assumption|].
  pose proof (do_kallowed_inv f clk w q d rq HI (Hok q d (or_introl eq_refl))) as X.
  destruct (do_kallowed (key_of q d rq) w rq) as [w' b]. cbn [fst] in X.
  destruct b; [|assumption]. apply IH; [eapply chain_ok_tail; eauto | assumption].
Qed.

Lemma pop_chain_true : forall rq ch w w',
  pop_chain ch w rq = (w', true) ->
  (forall k, ws (st w' k) = ws (st w k)) /\ charges w' = charges w /\ passes w' = passes w /\
  forall k s, gcount k s (grants w') = gcount k s (grants w) + pcount k s (map (mk_pass w' rq) ch).
Proof.
  induction ch as [|[q d] up IH]; intros w w' H; cbn [pop_chain] in H.
  - inversion H; subst. cbn [map pcount]. repeat split; auto. intros; lia.
  - pose proof (do_kallowed_ws (key_of q d rq) w rq) as Hws.
    unfold do_kallowed in *.
    destruct (kallowed (st w (key_of q d rq)) (r_id rq)) as [ks' b] eqn:EK.
    cbn [fst] in Hws.
    destruct b; [|discriminate].
    destruct (IH _ _ H) as (A & B & Cc & D). cbn [st charges grants passes] in *.
    repeat split; auto.
    + intros k. rewrite A. apply Hws.
    + intros k s. rewrite D. cbn [map pcount gcount mk_pass p_key p_ws fst snd g_key g_ws].
      assert (E : ws_or0 (st w' (key_of q d rq)) = ws_or0 (st w (key_of q d rq))).
      { unfold ws_or0. rewrite (A (key_of q d rq)), Hws. reflexivity. }
      rewrite E.
      destruct (key_eqb (key_of q d rq) k && (ws_or0 (st w (key_of q d rq)) =? s)); lia.
Qed.

Lemma KInv_P : forall d clk k ks C G P P',
  KInv d clk k ks C G P -> (forall s, pcount k s P' <= gcount k s G) -> KInv d clk k ks C G P'.
Proof. intros d clk k ks C G P P' [H1 H2 H3 H4 H5 H6 H7 H8] H. constructor; auto. Qed.

Lemma allowed_chain_inv : forall f rq ch clk w,
  chain_ok f ch -> Inv f clk w -> Inv f clk (fst (allowed_chain ch w rq)).
Proof.
  intros f rq ch clk w Hok HI. unfold allowed_chain.
  pose proof (pop_chain_inv f rq ch clk w Hok HI) as X.
  destruct (pop_chain ch w rq) as [w' b] eqn:EP. cbn [fst] in X.
  destruct b; [|assumption].
  destruct (pop_chain_true _ _ _ _ EP) as (A & B & Cc & D).
  intros k d HL. cbn [fst]. unfold chk, grk, pak. cbn [st charges grants passes].
  eapply KInv_P; [apply (X k d HL)|].
  intros s. unfold grk. rewrite pcount_filter, gcount_filter, pcount_app, D, Cc.
  pose proof (ki_p _ _ _ _ _ _ _ (HI k d HL) s) as Y. unfold pak, grk in Y.
  rewrite pcount_filter, gcount_filter in Y. lia.
Qed.

Lemma dec_chain_inv : forall f rq ch clk w, Inv f clk w -> Inv f clk (dec_chain ch w rq).
Proof.
  induction ch as [|[q d] up IH]; intros clk w HI; cbn [dec_chain]; [assumption|].
  apply IH. apply do_kdec_inv. assumption.
Qed.

(* ------------------------------------------------------------ steps and schedules *)

Definition clk_after (clk : Z) (a : action) : Z :=
  match time_of a with Some now => now | None => clk end.

Lemma step_inv : forall f clk w a,
  wf_forest f = true -> Inv f clk w ->
  (forall now, time_of a = Some now -> clk <= now) ->
  Inv f (clk_after clk a) (fst (step f w a)).
Proof.
  intros f clk w a Hwf HI Ht. pose proof (wf_forest_quotas f Hwf) as Hq.
  destruct a as [q rq now|q rq|q rq|q now|q rq now|q rq|q rq];
    unfold clk_after; cbn [time_of step].
  - destruct (chain_of f q) as [ch|] eqn:EC; cbn [fst].
    + eapply inc_chain_inv; eauto using chain_of_ok.
    + eapply Inv_clk; eauto.
  - destruct (chain_of f q) as [ch|] eqn:EC; cbn [fst]; [|assumption].
    pose proof (allowed_chain_inv f rq ch clk w (chain_of_ok _ _ _ EC) HI) as X.
    destruct (allowed_chain ch w rq). exact X.
  - destruct (chain_of f q) as [ch|] eqn:EC; cbn [fst]; [|assumption].
    apply dec_chain_inv; assumption.
  - destruct (lookup q f) as [d|] eqn:EL; cbn [fst].
    + eapply Inv_clk; [apply do_resetin_inv; eassumption | auto].
    + eapply Inv_clk; eauto.
  - destruct (lookup q f) as [d|] eqn:EL; cbn [fst].
    + pose proof (do_kinc_inv f clk w q d rq now Hq HI EL (Ht _ eq_refl)) as X.
      destruct (do_kinc d (key_of q d rq) w rq now). exact X.
    + eapply Inv_clk; eauto.
  - destruct (lookup q f) as [d|] eqn:EL; cbn [fst]; [|assumption].
    pose proof (do_kallowed_inv f clk w q d rq HI EL) as X.
    destruct (do_kallowed (key_of q d rq) w rq). exact X.
  - destruct (lookup q f) as [d|] eqn:EL; cbn [fst]; [|assumption].
    apply do_kdec_inv; assumption.
Qed.

Lemma run_inv : forall f acts clk w,
  wf_forest f = true -> Inv f clk w -> clock_ok clk acts ->
  exists clk', Inv f clk' (fst (run f w acts)).
Proof.
  induction acts as [|a rest IH]; intros clk w Hwf HI Hc; cbn [run].
  - exists clk; assumption.
  - pose proof (step_inv f clk w a Hwf HI) as X.
    destruct (step f w a) as [w' o] eqn:ES. cbn [fst] in X.
    cbn [clock_ok] in Hc. unfold clk_after in X.
    destruct (time_of a) as [now|] eqn:ET.
    + destruct Hc as [Hle Hc].
      assert (HI' : Inv f now w') by (apply X; intros n E; inversion E; subst; assumption).
      destruct (IH now w' Hwf HI' Hc) as [clk' Y].
      destruct (run f w' rest) as [w'' os]. exists clk'. exact Y.
    + assert (HI' : Inv f clk w') by (apply X; intros n E; discriminate).
      destruct (IH clk w' Hwf HI' Hc) as [clk' Y].
      destruct (run f w' rest) as [w'' os]. exists clk'. exact Y.
Qed.

(* ------------------------------------------------------------ the bound, for every schedule *)

Lemma in_chk : forall k w c, In c (charges w) -> c_key c = k -> In c (chk k w).
Proof. intros k w c H E. unfold chk. apply filter_In. split; [assumption|]. apply key_eqb_eq; assumption. Qed.

Lemma window_bound : forall f sched clk0,
  wf_forest f = true -> clock_ok clk0 sched ->
  let w := fst (run f init sched) in
  forall k d, lookup (fst k) f = Some d ->
    (forall s, csum k s (charges w) <= q_max d) /\
    (forall c, In c (charges w) -> c_key c = k ->
       c_ws c * sec <= c_at c < c_ws c * sec + q_win d) /\
    (forall c1 c2, In c1 (charges w) -> In c2 (charges w) -> c_key c1 = k -> c_key c2 = k ->
       c_ws c1 = c_ws c2 \/ c_ws c1 * sec + q_win d <= c_ws c2 * sec
       \/ c_ws c2 * sec + q_win d <= c_ws c1 * sec) /\
    (forall s, ws (st w k) = Some s -> cnt (st w k) = csum k s (charges w)).
Proof.
  intros f sched clk0 Hwf Hc w k d HL.
  destruct (run_inv f sched clk0 init Hwf (Inv_init f clk0 (wf_forest_quotas f Hwf)) Hc) as [clk' HI].
  fold w in HI. specialize (HI k d HL). destruct HI as [H1 H2 H3 H4 H5 H6 H7 H8].
  repeat split.
  - intros s. specialize (H3 s). unfold chk in H3. rewrite csum_filter in H3. exact H3.
  - destruct (H4 c (in_chk k w c H H0)) as (_ & X & _). apply X.
  - destruct (H4 c (in_chk k w c H H0)) as (_ & X & _). apply X.
  - intros c1 c2 I1 I2 E1 E2. apply H6; apply in_chk; assumption.
  - intros s Hs. destruct (H2 s Hs) as (A & _). unfold chk in A. rewrite csum_filter in A. auto.
Qed.

Lemma admitted_bound : forall f sched clk0,
  wf_forest f = true -> clock_ok clk0 sched ->
  let w := fst (run f init sched) in
  forall k d s, lookup (fst k) f = Some d -> q_custom d = false ->
    pcount k s (passes w) <= gcount k s (grants w) /\
    gcount k s (grants w) <= ccount k s (charges w) /\
    ccount k s (charges w) <= q_max d.
Proof.
  intros f sched clk0 Hwf Hc w k d s HL Hu.
  destruct (run_inv f sched clk0 init Hwf (Inv_init f clk0 (wf_forest_quotas f Hwf)) Hc) as [clk' HI].
  fold w in HI. specialize (HI k d HL). destruct HI as [H1 H2 H3 H4 H5 H6 H7 H8].
  specialize (H8 s). specialize (H5 s). specialize (H3 s).
  unfold pak, grk, chk in *. rewrite ?pcount_filter, ?gcount_filter, ?ccount_filter in *.
  rewrite (csum_unit k s _ (H7 Hu)), ccount_filter in H3. lia.
Qed.

(* a true chain-level verdict logs one pass per key of the chain *)
Lemma allowed_true_passes : forall f w q rq w' ch,
  chain_of f q = Some ch -> step f w (Allowed q rq) = (w', OBool true) ->
  passes w' = map (mk_pass w' rq) ch ++ passes w.
Proof.
  intros f w q rq w' ch EC H. cbn [step] in H. rewrite EC in H. unfold allowed_chain in H.
  destruct (pop_chain ch w rq) as [w1 b] eqn:EP. destruct b.
  - inversion H; subst; clear H. cbn [passes]. destruct (pop_chain_true _ _ _ _ EP) as (_ & _ & Cc & _).
    rewrite Cc. reflexivity.
  - inversion H.
Qed.

(* ------------------------------------------------------------ group isolation *)

Definition keys_of (rq : request) (ch : list (Z * quota)) : list key :=
  map (fun qd => key_of (fst qd) (snd qd) rq) ch.

Definition touches (f : forest) (a : action) (k : key) : Prop :=
  match a with
  | Inc q rq _ | Allowed q rq | Dec q rq =>
      match chain_of f q with Some ch => In k (keys_of rq ch) | None => False end
  | KInc q rq _ | KAllowed q rq | KDec q rq =>
      match lookup q f with Some d => k = key_of q d rq | None => False end
  | ResetIn q _ => fst k = q
  end.

Definition same_at (k : key) (w w' : world) : Prop :=
  st w' k = st w k /\ chk k w' = chk k w /\ grk k w' = grk k w /\ pak k w' = pak k w.

Lemma same_at_refl : forall k w, same_at k w w.
Proof. intros; repeat split. Qed.
Lemma same_at_trans : forall k w1 w2 w3, same_at k w1 w2 -> same_at k w2 w3 -> same_at k w1 w3.
Proof. intros k w1 w2 w3 (A & B & C & D) (A' & B' & C' & D'). repeat split; congruence. Qed.

Lemma do_kinc_same : forall d k w rq now k', k' <> k -> same_at k' w (fst (do_kinc d k w rq now)).
Proof.
  intros d k w rq now k' Hne. unfold do_kinc.
  destruct (kinc (q_max d) (q_win d) (st w k) (r_id rq) now (cost_of d rq)) as [[ks' res] chg].
  cbn [fst]. unfold same_at, chk, grk, pak. cbn [st charges grants passes].
  rewrite upd_other by assumption. repeat split.
  destruct chg; [|reflexivity]. cbn [filter c_key].
  apply not_eq_sym in Hne. apply key_eqb_neq in Hne. rewrite Hne. reflexivity.
Qed.

Lemma do_kallowed_same : forall k w rq k', k' <> k -> same_at k' w (fst (do_kallowed k w rq)).
Proof.
  intros k w rq k' Hne. unfold do_kallowed.
  destruct (kallowed (st w k) (r_id rq)) as [ks' b].
  cbn [fst]. unfold same_at, chk, grk, pak. cbn [st charges grants passes].
  rewrite upd_other by assumption. repeat split.
  destruct b; [|reflexivity]. cbn [filter g_key].
  apply not_eq_sym in Hne. apply key_eqb_neq in Hne. rewrite Hne. reflexivity.
Qed.

Lemma do_kdec_same : forall k w rq k', k' <> k -> same_at k' w (do_kdec k w rq).
Proof.
  intros k w rq k' Hne. unfold do_kdec, same_at, chk, grk, pak. cbn [st charges grants passes].
  rewrite upd_other by assumption. repeat split.
Qed.

Lemma inc_chain_same : forall rq now k' ch w,
  ~ In k' (keys_of rq ch) -> same_at k' w (inc_chain ch w rq now).
Proof.
  induction ch as [|[q d] up IH]; intros w Hn; cbn [inc_chain]; [apply same_at_refl|].
  cbn [keys_of map In fst snd] in Hn.
  assert (Hne : k' <> key_of q d rq) by (intros E; apply Hn; left; auto).
  pose proof (do_kinc_same d (key_of q d rq) w rq now k' Hne) as X.
  destruct (do_kinc d (key_of q d rq) w rq now) as [w' res]. cbn [fst] in X.
  destruct res; auto.
  eapply same_at_trans; [exact X|]. apply IH. intros HIn. apply Hn. right. exact HIn.
Qed.

Lemma pop_chain_same : forall rq k' ch w,
  ~ In k' (keys_of rq ch) -> same_at k' w (fst (pop_chain ch w rq)).
Proof.
  induction ch as [|[q d] up IH]; intros w Hn; cbn [pop_chain]; [apply same_at_refl|].
  cbn [keys_of map In fst snd] in Hn.
  assert (Hne : k' <> key_of q d rq) by (intros E; apply Hn; left; auto).
  pose proof (do_kallowed_same (key_of q d rq) w rq k' Hne) as X.
  destruct (do_kallowed (key_of q d rq) w rq) as [w' b]. cbn [fst] in X.
  destruct b; auto.
  eapply same_at_trans; [exact X|]. apply IH. intros HIn. apply Hn. right. exact HIn.
Qed.

Lemma pak_passes_other : forall rq k' ch w0 l,
  ~ In k' (keys_of rq ch) ->
  filter (fun p => key_eqb (p_key p) k') (map (mk_pass w0 rq) ch ++ l) =
  filter (fun p => key_eqb (p_key p) k') l.
Proof.
  induction ch as [|[q d] up IH]; intros w0 l Hn; cbn [map app]; [reflexivity|].
  cbn [keys_of map In fst snd] in Hn. cbn [filter mk_pass p_key fst snd].
  assert (Hne : key_of q d rq <> k') by (intros E; apply Hn; left; auto).
  apply key_eqb_neq in Hne. rewrite Hne. apply IH. intros HIn. apply Hn. right. exact HIn.
Qed.

Lemma allowed_chain_same : forall rq k' ch w,
  ~ In k' (keys_of rq ch) -> same_at k' w (fst (allowed_chain ch w rq)).
Proof.
  intros rq k' ch w Hn. unfold allowed_chain.
  pose proof (pop_chain_same rq k' ch w Hn) as X.
  destruct (pop_chain ch w rq) as [w' b]. cbn [fst] in X.
  destruct b; [|assumption]. cbn [fst].
  destruct X as (A & B & C & D). unfold same_at, chk, grk, pak in *. cbn [st charges grants passes].
  repeat split; auto. rewrite pak_passes_other by assumption. assumption.
Qed.

Lemma dec_chain_same : forall rq k' ch w,
  ~ In k' (keys_of rq ch) -> same_at k' w (dec_chain ch w rq).
Proof.
  induction ch as [|[q d] up IH]; intros w Hn; cbn [dec_chain]; [apply same_at_refl|].
  cbn [keys_of map In fst snd] in Hn.
  assert (Hne : k' <> key_of q d rq) by (intros E; apply Hn; left; auto).
  eapply same_at_trans; [apply (do_kdec_same (key_of q d rq) w rq k' Hne)|].
  apply IH. intros HIn. apply Hn. right. exact HIn.
Qed.

Lemma group_isolation : forall f w a k,
  ~ touches f a k -> same_at k w (fst (step f w a)).
Proof.
  intros f w a k Hn.
  destruct a as [q rq now|q rq|q rq|q now|q rq now|q rq|q rq]; cbn [touches step] in *.
  - destruct (chain_of f q) as [ch|]; cbn [fst]; [apply inc_chain_same; assumption | apply same_at_refl].
  - destruct (chain_of f q) as [ch|]; cbn [fst]; [|apply same_at_refl].
    pose proof (allowed_chain_same rq k ch w Hn) as X. destruct (allowed_chain ch w rq). exact X.
  - destruct (chain_of f q) as [ch|]; cbn [fst]; [apply dec_chain_same; assumption | apply same_at_refl].
  - destruct (lookup q f) as [d|]; cbn [fst]; [|apply same_at_refl].
    unfold do_resetin, same_at, chk, grk, pak. cbn [st charges grants passes].
    apply Z.eqb_neq in Hn. rewrite Hn. repeat split.
  - destruct (lookup q f) as [d|]; cbn [fst]; [|apply same_at_refl].
    pose proof (do_kinc_same d (key_of q d rq) w rq now k Hn) as X.
    destruct (do_kinc d (key_of q d rq) w rq now). exact X.
  - destruct (lookup q f) as [d|]; cbn [fst]; [|apply same_at_refl].
    pose proof (do_kallowed_same (key_of q d rq) w rq k Hn) as X.
    destruct (do_kallowed (key_of q d rq) w rq). exact X.
  - destruct (lookup q f) as [d|]; cbn [fst]; [|apply same_at_refl].
    apply do_kdec_same. assumption.
Qed.

(* ------------------------------------------------------------ one request at a time *)

Definition Clean (w : world) : Prop := forall k, memo (st w k) = [].

Lemma key_eq_dec : forall a b : key, {a = b} + {a <> b}.
Proof. decide equality; apply Z.eq_dec. Qed.

Lemma nodupb_NoDup : forall l, nodupb l = true -> NoDup l.
Proof.
  induction l as [|x t IH]; intros H; [constructor|].
  cbn [nodupb] in H. apply andb_true_iff in H. destruct H as [H1 H2].
  constructor; [|auto].
  intros HIn. apply negb_true_iff in H1.
  assert (existsb (Z.eqb x) t = true) by (apply existsb_exists; exists x; split; [assumption|apply Z.eqb_refl]).
  congruence.
Qed.

Lemma keys_of_fst : forall rq ch, map fst (keys_of rq ch) = map fst ch.
Proof. induction ch as [|[q d] t IH]; cbn [keys_of map key_of fst snd] in *; [reflexivity|]. f_equal. exact IH. Qed.

Lemma keys_nodup : forall rq ch, NoDup (map fst ch) -> NoDup (keys_of rq ch).
Proof. intros rq ch H. rewrite <- (keys_of_fst rq) in H. eapply NoDup_map_inv; eauto. Qed.

Lemma wf_forest_chain_nodup : forall f q ch,
  wf_forest f = true -> chain_of f q = Some ch -> NoDup (map fst ch).
Proof.
  intros f q ch Hwf EC. unfold wf_forest in Hwf. rewrite forallb_forall in Hwf.
  assert (exists d, lookup q f = Some d) as [d HL].
  { unfold chain_of in EC. destruct (length f); cbn [chain] in EC; [discriminate|].
    destruct (lookup q f) as [d|]; [eauto|discriminate]. }
  specialize (Hwf (q, d) (lookup_In _ _ _ _ HL)). cbn [fst snd] in Hwf.
  apply andb_true_iff in Hwf. destruct Hwf as [_ H]. rewrite EC in H.
  apply nodupb_NoDup; assumption.
Qed.

Lemma forallb_ext_in : forall (A : Type) (g h : A -> bool) l,
  (forall x, In x l -> g x = h x) -> forallb g l = forallb h l.
Proof.
  induction l as [|x t IH]; intros H; cbn [forallb]; [reflexivity|].
  rewrite (H x) by (left; reflexivity). rewrite IH; [reflexivity|]. intros; apply H; right; assumption.
Qed.

Lemma st_same : forall k w w', same_at k w w' -> st w' k = st w k.
Proof. intros k w w' (A & _). exact A. Qed.

(* quota.Inc on a key whose memo is empty *)
Lemma do_kinc_clean : forall d k w rq now,
  memo (st w k) = [] ->
  let room := eff_count (q_win d) (st w k) now + cost_of d rq <=? q_max d in
  let w' := fst (do_kinc d k w rq now) in
  (room = true -> snd (do_kinc d k w rq now) = Increased /\ memo (st w' k) = [(r_id rq, true)]) /\
  (room = false -> snd (do_kinc d k w rq now) = Blocked /\
                   (memo (st w' k) = [] \/ memo (st w' k) = [(r_id rq, false)])).
Proof.
  intros d k w rq now Hm room w'. subst w'. unfold do_kinc, kinc. rewrite Hm. cbn [lookup].
  rewrite Z.ltb_antisym. fold room.
  destruct room; cbn [negb fst snd st memo]; rewrite upd_same; cbn [memo]; split; intros E; try discriminate.
  - split; [reflexivity|]. destruct (expired _ _ _); reflexivity.
  - split; [reflexivity|]. destruct (expired _ _ _); auto.
Qed.

Lemma seq_core : forall rq now ch w w1 w2 b,
  NoDup (keys_of rq ch) ->
  (forall k, In k (keys_of rq ch) -> st w1 k = st (inc_chain ch w rq now) k) ->
  (forall k, In k (keys_of rq ch) -> memo (st w k) = []) ->
  pop_chain ch w1 rq = (w2, b) ->
  b = forallb (has_room w rq now) ch /\
  (forall k, In k (keys_of rq ch) -> memo (st w2 k) = []) /\
  (forall k, ~ In k (keys_of rq ch) -> st w2 k = st w1 k).
Proof.
  induction ch as [|[q d] up IH]; intros w w1 w2 b Hnd H1 Hm HP.
  - cbn [pop_chain] in HP. inversion HP; subst. cbn [forallb keys_of map In]. repeat split; auto. intros k [].
  - cbn [keys_of map fst snd] in Hnd, H1, Hm. fold (keys_of rq up) in Hnd, H1, Hm.
    set (k0 := key_of q d rq) in *.
    inversion Hnd as [|x l Hnot Hnd' E]; subst x l.
    assert (Hm0 : memo (st w k0) = []) by (apply Hm; left; reflexivity).
    destruct (do_kinc_clean d k0 w rq now Hm0) as [Hroom Hfull].
    cbn [inc_chain] in H1. fold k0 in H1.
    pose proof (do_kinc_same d k0 w rq now) as Hsame.
    destruct (do_kinc d k0 w rq now) as [w' res] eqn:EK. cbn [fst snd] in *.
    cbn [pop_chain] in HP. fold k0 in HP.
    cbn [forallb]. unfold has_room at 1. cbn [fst snd]. fold k0.
    destruct (eff_count (q_win d) (st w k0) now + cost_of d rq <=? q_max d) eqn:ER.
    + (* room: charged, walk on *)
      destruct (Hroom eq_refl) as [Eres Ememo]. subst res.
      assert (E0 : st w1 k0 = st w' k0).
      { rewrite (H1 k0 (or_introl eq_refl)). apply st_same. apply inc_chain_same. assumption. }
      unfold do_kallowed, kallowed in HP. rewrite E0, Ememo in HP. cbn [lookup] in HP.
      rewrite Z.eqb_refl in HP.
      match type of HP with pop_chain up ?W rq = _ => set (w1' := W) in * end.
      assert (Hst1' : forall k, k <> k0 -> st w1' k = st w1 k).
      { intros k Hk. unfold w1'. cbn [st]. apply upd_other; assumption. }
      assert (IHa : forall k, In k (keys_of rq up) -> st w1' k = st (inc_chain up w' rq now) k).
      { intros k Hk. rewrite Hst1' by (intros E; subst; contradiction). apply H1. right; assumption. }
      assert (IHb : forall k, In k (keys_of rq up) -> memo (st w' k) = []).
      { intros k Hk. rewrite (st_same k w w') by (apply Hsame; intros E; subst; contradiction).
        apply Hm. right; assumption. }
      destruct (IH w' w1' w2 b Hnd' IHa IHb HP) as (A & B & C).
      cbn [andb]. repeat split.
      * rewrite A. apply forallb_ext_in. intros [q' d'] HIn. unfold has_room. cbn [fst snd].
        rewrite (st_same (key_of q' d' rq) w w'); [reflexivity|].
        apply Hsame. intros E. apply Hnot. rewrite <- E.
        unfold keys_of. apply (in_map (fun qd => key_of (fst qd) (snd qd) rq) up (q', d') HIn).
      * intros k [Hk|Hk]; [|apply B; assumption]. cbn [fst snd] in Hk. fold k0 in Hk. subst k.
        rewrite (C k0 Hnot). unfold w1'. cbn [st]. rewrite upd_same. cbn [memo mremove filter fst].
        rewrite Z.eqb_refl. reflexivity.
      * intros k Hk. rewrite C by (intros X; apply Hk; right; assumption).
        apply Hst1'. intros E; apply Hk; left; auto.
    + (* full: blocked here *)
      destruct (Hfull eq_refl) as [Eres Ememo]. subst res.
      assert (E0 : st w1 k0 = st w' k0) by (apply H1; left; reflexivity).
      cbn [andb].
      assert (Hb : b = false /\ memo (st w2 k0) = [] /\ forall k, k <> k0 -> st w2 k = st w1 k).
      { unfold do_kallowed, kallowed in HP. rewrite E0 in HP.
        destruct Ememo as [Em|Em]; rewrite Em in HP; cbn [lookup] in HP.
        - inversion HP; subst. cbn [st]. rewrite upd_same. repeat split; auto.
          intros k Hk. apply upd_other; assumption.
        - rewrite Z.eqb_refl in HP. inversion HP; subst. cbn [st]. rewrite upd_same. cbn [memo mremove filter fst].
          rewrite Z.eqb_refl. repeat split; auto. intros k Hk. apply upd_other; assumption. }
      destruct Hb as (Hb & Hk0 & Hoth). repeat split; auto.
      * intros k [Hk|Hk]; [cbn [fst snd] in Hk; fold k0 in Hk; subst k; assumption|].
        assert (k <> k0) by (intros E; subst; contradiction).
        rewrite Hoth by assumption. rewrite H1 by (right; assumption).
        rewrite (st_same k w w') by (apply Hsame; assumption). apply Hm. right; assumption.
      * intros k Hk. apply Hoth. intros E; apply Hk; left; auto.
Qed.

Lemma dec_chain_clean : forall rq ch w, Clean w -> Clean (dec_chain ch w rq).
Proof.
  induction ch as [|[q d] up IH]; intros w H; cbn [dec_chain]; [assumption|].
  apply IH. intros k. unfold do_kdec. cbn [st]. unfold upd.
  destruct (key_eqb k (key_of q d rq)) eqn:E; [|apply H].
  unfold kdec. cbn [memo]. rewrite (H (key_of q d rq)). reflexivity.
Qed.

Lemma seq_step_exact : forall f w q rq now ch,
  wf_forest f = true -> chain_of f q = Some ch -> Clean w ->
  snd (seq_step f w (q, rq, now)) = OBool (forallb (has_room w rq now) ch) /\
  Clean (fst (seq_step f w (q, rq, now))).
Proof.
  intros f w q rq now ch Hwf EC Hc.
  pose proof (keys_nodup rq ch (wf_forest_chain_nodup f q ch Hwf EC)) as Hnd.
  unfold seq_step. cbn [step]. rewrite EC. unfold allowed_chain.
  destruct (pop_chain ch (inc_chain ch w rq now) rq) as [w2 b] eqn:EP.
  destruct (seq_core rq now ch w (inc_chain ch w rq now) w2 b Hnd (fun _ _ => eq_refl)
              (fun k _ => Hc k) EP) as (A & B & C).
  assert (Hc2 : Clean w2).
  { intros k. destruct (in_dec key_eq_dec k (keys_of rq ch)) as [HIn|HIn].
    - apply B; assumption.
    - rewrite (C k HIn). rewrite (st_same k w (inc_chain ch w rq now)) by (apply inc_chain_same; assumption).
      apply Hc. }
  destruct b; cbn [fst snd].
  - split; [rewrite A; reflexivity|]. intros k. cbn [st]. apply Hc2.
  - split; [rewrite A; reflexivity|]. apply dec_chain_clean; assumption.
Qed.

Lemma seq_step_unknown : forall f w q rq now,
  chain_of f q = None -> seq_step f w (q, rq, now) = (w, OBad).
Proof. intros f w q rq now E. unfold seq_step. cbn [step]. rewrite E. reflexivity. Qed.

Lemma seq_run_clean : forall f h w, wf_forest f = true -> Clean w -> Clean (fst (seq_run f w h)).
Proof.
  induction h as [|[[q rq] now] rest IH]; intros w Hwf Hc; cbn [seq_run]; [assumption|].
  assert (Hc' : Clean (fst (seq_step f w (q, rq, now)))).
  { destruct (chain_of f q) as [ch|] eqn:EC.
    - apply (seq_step_exact f w q rq now ch Hwf EC Hc).
    - rewrite seq_step_unknown by assumption. assumption. }
  destruct (seq_step f w (q, rq, now)) as [w' o]. cbn [fst] in Hc'.
  specialize (IH w' Hwf Hc'). destruct (seq_run f w' rest) as [w'' os]. exact IH.
Qed.

(* ------------------------------------------------------------ sequential runs keep the invariant *)

Fixpoint seq_clock_ok (clk : Z) (h : list (Z * request * Z)) : Prop :=
  match h with
  | [] => True
  | (_, _, now) :: rest => clk <= now /\ seq_clock_ok now rest
  end.

Lemma seq_step_inv : forall f clk w q rq now,
  wf_forest f = true -> Inv f clk w -> clk <= now ->
  Inv f now (fst (seq_step f w (q, rq, now))).
Proof.
  intros f clk w q rq now Hwf HI Hle. unfold seq_step.
  pose proof (step_inv f clk w (Inc q rq now) Hwf HI) as X1.
  destruct (step f w (Inc q rq now)) as [w1 o1]. cbn [fst clk_after time_of] in X1.
  assert (HI1 : Inv f now w1) by (apply X1; intros n E; inversion E; subst; assumption).
  pose proof (step_inv f now w1 (Allowed q rq) Hwf HI1) as X2.
  destruct (step f w1 (Allowed q rq)) as [w2 o2]. cbn [fst clk_after time_of] in X2.
  assert (HI2 : Inv f now w2) by (apply X2; intros n E; discriminate).
  pose proof (step_inv f now w2 (Dec q rq) Hwf HI2) as X3. cbn [clk_after time_of] in X3.
  destruct o2 as [|[|]| |]; cbn [fst]; auto. apply X3. intros n E; discriminate.
Qed.

Lemma seq_run_inv : forall f h clk w x,
  wf_forest f = true -> Inv f clk w -> seq_clock_ok clk (h ++ [x]) ->
  exists clk', Inv f clk' (fst (seq_run f w h)) /\ clk' <= snd x.
Proof.
  induction h as [|[[q rq] now] rest IH]; intros clk w x Hwf HI Hc; cbn [seq_run app] in *.
  - exists clk. destruct x as [[q rq] now]. cbn [seq_clock_ok snd fst] in *. split; [assumption|tauto].
  - cbn [seq_clock_ok] in Hc. destruct Hc as [Hle Hc].
    pose proof (seq_step_inv f clk w q rq now Hwf HI Hle) as X.
    destruct (seq_step f w (q, rq, now)) as [w' o]. cbn [fst] in X.
    destruct (IH now w' x Hwf X Hc) as (clk' & Y & Hle').
    destruct (seq_run f w' rest) as [w'' os]. exists clk'. cbn [fst] in *. auto.
Qed.

(* ------------------------------------------------------------ let-through counts *)

Lemma forallb_negb_existsb : forall (A : Type) (g : A -> bool) l,
  forallb (fun x => negb (g x)) l = negb (existsb g l).
Proof.
  induction l as [|x t IH]; cbn [forallb existsb]; [reflexivity|].
  rewrite IH, negb_orb. reflexivity.
Qed.

Lemma room_iff_not_full : forall f clk w rq now q d,
  Inv f clk w -> lookup q f = Some d -> no_phantom w rq (q, d) = true ->
  has_room w rq now (q, d) = negb (pass_full w rq now (q, d)).
Proof.
  intros f clk w rq now q d HI HL Hp.
  unfold has_room, pass_full, eff_pass, eff_count, no_phantom in *. cbn [fst snd] in *.
  set (k := key_of q d rq) in *.
  specialize (HI k d HL). destruct HI as [H1 H2 _ _ _ _ _ _].
  rewrite Z.ltb_antisym, negb_involutive.
  destruct (expired (q_win d) (st w k) now); [reflexivity|].
  destruct (ws (st w k)) as [s|] eqn:EW.
  - destruct (H2 s eq_refl) as (A & _). apply Z.eqb_eq in Hp.
    unfold chk in A. rewrite csum_filter in A. rewrite <- A, Hp. reflexivity.
  - destruct (H1 eq_refl) as (A & _). rewrite A. reflexivity.
Qed.

Lemma exact_outside : forall f clk w q rq now ch,
  wf_forest f = true -> chain_of f q = Some ch -> Clean w -> Inv f clk w ->
  forallb (no_phantom w rq) ch = true ->
  snd (seq_step f w (q, rq, now)) = OBool (negb (existsb (pass_full w rq now) ch)).
Proof.
  intros f clk w q rq now ch Hwf EC Hc HI Hp.
  destruct (seq_step_exact f w q rq now ch Hwf EC Hc) as [E _]. rewrite E. f_equal.
  rewrite <- forallb_negb_existsb. apply forallb_ext_in. intros [q' d'] HIn.
  rewrite forallb_forall in Hp.
  eapply room_iff_not_full; eauto. eapply chain_of_ok; eauto.
Qed.

(* the charges a lone request makes: the keys of the chain up to the first full one *)
Definition ws_after (w : world) (rq : request) (now : Z) (qd : Z * quota) : Z :=
  let ks := st w (key_of (fst qd) (snd qd) rq) in
  if expired (q_win (snd qd)) ks now then now / sec
  else match ws ks with Some s => s | None => now / sec end.

Fixpoint new_charges (rq : request) (now : Z) (ch : list (Z * quota)) (w : world) : list charge :=
  match ch with
  | [] => []
  | qd :: up =>
      if has_room w rq now qd
      then mkc (key_of (fst qd) (snd qd) rq) (ws_after w rq now qd) now (r_id rq) (cost_of (snd qd) rq)
           :: new_charges rq now up w
      else []
  end.

Lemma new_charges_ext : forall rq now ch w w',
  (forall k, In k (keys_of rq ch) -> st w' k = st w k) ->
  new_charges rq now ch w' = new_charges rq now ch w.
Proof.
  induction ch as [|[q d] up IH]; intros w w' H; cbn [new_charges]; [reflexivity|].
  cbn [keys_of map fst snd] in H. fold (keys_of rq up) in H.
  unfold has_room, ws_after. cbn [fst snd]. rewrite (H (key_of q d rq)) by (left; reflexivity).
  rewrite (IH w w') by (intros; apply H; right; assumption). reflexivity.
Qed.

Lemma do_kinc_room : forall d k w rq now,
  memo (st w k) = [] ->
  eff_count (q_win d) (st w k) now + cost_of d rq <=? q_max d = true ->
  let w' := fst (do_kinc d k w rq now) in
  let s' := if expired (q_win d) (st w k) now then now / sec
            else match ws (st w k) with Some s => s | None => now / sec end in
  charges w' = mkc k s' now (r_id rq) (cost_of d rq) :: charges w /\ ws (st w' k) = Some s'.
Proof.
  intros d k w rq now Hm Hr w' s'. subst w' s'. unfold do_kinc, kinc. rewrite Hm. cbn [lookup].
  rewrite Z.ltb_antisym, Hr. cbn [negb fst st charges]. rewrite upd_same. cbn [ws].
  split; reflexivity.
Qed.

Lemma do_kinc_full : forall d k w rq now,
  memo (st w k) = [] ->
  eff_count (q_win d) (st w k) now + cost_of d rq <=? q_max d = false ->
  charges (fst (do_kinc d k w rq now)) = charges w.
Proof.
  intros d k w rq now Hm Hr. unfold do_kinc, kinc. rewrite Hm. cbn [lookup].
  rewrite Z.ltb_antisym, Hr. reflexivity.
Qed.

Lemma inc_chain_room : forall rq now ch w,
  NoDup (keys_of rq ch) -> (forall k, In k (keys_of rq ch) -> memo (st w k) = []) ->
  let w1 := inc_chain ch w rq now in
  charges w1 = rev (new_charges rq now ch w) ++ charges w /\
  (forallb (has_room w rq now) ch = true ->
   forall qd, In qd ch -> ws (st w1 (key_of (fst qd) (snd qd) rq)) = Some (ws_after w rq now qd)).
Proof.
  induction ch as [|[q d] up IH]; intros w Hnd Hm; cbn zeta.
  - cbn [inc_chain new_charges rev app]. split; [reflexivity|]. intros _ qd [].
  - cbn [keys_of map fst snd] in Hnd, Hm. fold (keys_of rq up) in Hnd, Hm.
    set (k0 := key_of q d rq) in *.
    inversion Hnd as [|x l Hnot Hnd' E]; subst x l.
    assert (Hm0 : memo (st w k0) = []) by (apply Hm; left; reflexivity).
    cbn [inc_chain new_charges forallb]. fold k0.
    change (has_room w rq now (q, d)) with (eff_count (q_win d) (st w k0) now + cost_of d rq <=? q_max d).
    cbn [fst snd]. fold k0.
    destruct (do_kinc_clean d k0 w rq now Hm0) as [Hroom Hfull].
    pose proof (do_kinc_same d k0 w rq now) as Hsame.
    destruct (eff_count (q_win d) (st w k0) now + cost_of d rq <=? q_max d) eqn:ER.
    + destruct (do_kinc_room d k0 w rq now Hm0 ER) as [Ec Ews].
      destruct (Hroom eq_refl) as [Eres _].
      destruct (do_kinc d k0 w rq now) as [w' res]. cbn [fst snd] in *. subst res.
      assert (Hst : forall k, In k (keys_of rq up) -> st w' k = st w k).
      { intros k Hk. apply st_same. apply Hsame. intros E; subst; contradiction. }
      assert (Hm' : forall k, In k (keys_of rq up) -> memo (st w' k) = []).
      { intros k Hk. rewrite Hst by assumption. apply Hm. right; assumption. }
      destruct (IH w' Hnd' Hm') as [A B]. rewrite (new_charges_ext rq now up w w' Hst) in A.
      split.
      * rewrite A, Ec. cbn [rev]. rewrite <- app_assoc. reflexivity.
      * cbn [andb]. intros Hall qd [E|HIn].
        -- subst qd. cbn [fst snd]. fold k0.
           rewrite (st_same k0 w' (inc_chain up w' rq now)) by (apply inc_chain_same; assumption).
           rewrite Ews. reflexivity.
        -- assert (Hall' : forallb (has_room w' rq now) up = true).
           { rewrite <- Hall. apply forallb_ext_in. intros [q' d'] HI'. unfold has_room. cbn [fst snd].
             rewrite Hst; [reflexivity|].
             apply (in_map (fun qd => key_of (fst qd) (snd qd) rq) up (q', d') HI'). }
           rewrite (B Hall' qd HIn). unfold ws_after. rewrite Hst; [reflexivity|].
           apply (in_map (fun qd => key_of (fst qd) (snd qd) rq) up qd HIn).
    + pose proof (do_kinc_full d k0 w rq now Hm0 ER) as Ec.
      destruct (Hfull eq_refl) as [Eres _].
      destruct (do_kinc d k0 w rq now) as [w' res]. cbn [fst snd] in *. subst res.
      cbn [rev app andb]. split; [assumption|discriminate].
Qed.

Lemma csum_rev : forall k s l, csum k s (rev l) = csum k s l.
Proof.
  induction l as [|c l IH]; cbn [rev]; [reflexivity|].
  rewrite csum_app, IH. cbn [csum]. destruct (_ && _); lia.
Qed.

Lemma csum_no_key : forall k s l, (forall c, In c l -> c_key c <> k) -> csum k s l = 0.
Proof.
  induction l as [|c l IH]; intros H; cbn [csum]; [reflexivity|].
  assert (E : key_eqb (c_key c) k = false) by (apply key_eqb_neq, H; left; reflexivity).
  rewrite E. cbn [andb]. apply IH. intros; apply H; right; assumption.
Qed.

Lemma new_charges_all : forall rq now ch w,
  forallb (has_room w rq now) ch = true ->
  new_charges rq now ch w =
  map (fun qd => mkc (key_of (fst qd) (snd qd) rq) (ws_after w rq now qd) now (r_id rq)
                     (cost_of (snd qd) rq)) ch.
Proof.
  induction ch as [|qd up IH]; intros w H; cbn [new_charges map]; [reflexivity|].
  cbn [forallb] in H. apply andb_true_iff in H. destruct H as [H1 H2].
  rewrite H1, (IH w H2). reflexivity.
Qed.

Lemma psum_passes_charges : forall rq now k s w w2 ch,
  (forall qd, In qd ch -> ws_or0 (st w2 (key_of (fst qd) (snd qd) rq)) = ws_after w rq now qd) ->
  psum k s (map (mk_pass w2 rq) ch) =
  csum k s (map (fun qd => mkc (key_of (fst qd) (snd qd) rq) (ws_after w rq now qd) now (r_id rq)
                               (cost_of (snd qd) rq)) ch).
Proof.
  induction ch as [|qd up IH]; intros H; cbn [map psum csum]; [reflexivity|].
  cbn [mk_pass p_key p_ws p_cost mkc c_key c_ws c_cost].
  rewrite (H qd (or_introl eq_refl)). rewrite IH by (intros; apply H; right; assumption).
  reflexivity.
Qed.

Lemma new_charges_not_last : forall rq now ch w,
  forallb (has_room w rq now) ch = false ->
  forall c, In c (new_charges rq now ch w) ->
  exists pre qd post, ch = pre ++ qd :: post /\ post <> [] /\
                      c_key c = key_of (fst qd) (snd qd) rq.
Proof.
  induction ch as [|qd0 up IH]; intros w H c HIn; cbn [new_charges] in HIn; [contradiction|].
  cbn [forallb] in H. destruct (has_room w rq now qd0) eqn:ER; [|contradiction].
  cbn [andb] in H. destruct HIn as [E|HIn].
  - subst c. exists [], qd0, up. cbn [app mkc c_key]. repeat split; auto.
    intros E; subst up. discriminate.
  - destruct (IH w H c HIn) as (pre & qd & post & E1 & E2 & E3).
    exists (qd0 :: pre), qd, post. subst up. repeat split; auto.
Qed.

Lemma chain_parent : forall f n q ch, chain f n q = Some ch ->
  forall pre qd post, ch = pre ++ qd :: post -> post <> [] -> q_parent (snd qd) <> None.
Proof.
  induction n as [|n IH]; intros q ch H pre qd post E Hne; cbn [chain] in H; [discriminate|].
  destruct (lookup q f) as [d|] eqn:EL; [|discriminate].
  destruct (q_parent d) as [p|] eqn:EP.
  - destruct (chain f n p) as [l|] eqn:EC; [|discriminate].
    injection H as H. rewrite <- H in E. destruct pre as [|x pre]; cbn [app] in E.
    + injection E as E1 E2. subst qd. cbn [snd]. congruence.
    + injection E as E1 E2. eapply IH; eauto.
  - injection H as H. rewrite <- H in E. destruct pre as [|x pre]; cbn [app] in E.
    + injection E as E1 E2. subst post. contradiction.
    + injection E as E1 E2. destruct pre; discriminate.
Qed.

Definition RootInv (f : forest) (w : world) : Prop :=
  forall k d, lookup (fst k) f = Some d -> q_parent d = None ->
  forall s, csum k s (charges w) = psum k s (passes w).

Lemma dec_chain_logs : forall rq ch w,
  charges (dec_chain ch w rq) = charges w /\ passes (dec_chain ch w rq) = passes w.
Proof.
  induction ch as [|[q d] up IH]; intros w; cbn [dec_chain]; [auto|].
  destruct (IH (do_kdec (key_of q d rq) w rq)) as [A B]. rewrite A, B. auto.
Qed.

Lemma pop_chain_charges : forall rq ch w, charges (fst (pop_chain ch w rq)) = charges w /\
  (snd (pop_chain ch w rq) = false -> passes (fst (pop_chain ch w rq)) = passes w).
Proof.
  induction ch as [|[q d] up IH]; intros w; cbn [pop_chain]; [auto|].
  unfold do_kallowed. destruct (kallowed (st w (key_of q d rq)) (r_id rq)) as [ks' b].
  destruct b; [|auto].
  match goal with |- context [pop_chain up ?W rq] => destruct (IH W) as [A B] end.
  cbn [charges passes] in *. auto.
Qed.

Lemma inc_chain_passes : forall rq now ch w, passes (inc_chain ch w rq now) = passes w.
Proof.
  induction ch as [|[q d] up IH]; intros w; cbn [inc_chain]; [reflexivity|].
  unfold do_kinc.
  destruct (kinc (q_max d) (q_win d) (st w (key_of q d rq)) (r_id rq) now (cost_of d rq)) as [[ks' res] chg].
  destruct res; try reflexivity. rewrite IH. reflexivity.
Qed.

Lemma seq_step_root : forall f w q rq now ch,
  wf_forest f = true -> chain_of f q = Some ch -> Clean w -> RootInv f w ->
  RootInv f (fst (seq_step f w (q, rq, now))).
Proof.
  intros f w q rq now ch Hwf EC Hc HR k d HL HP s.
  pose proof (keys_nodup rq ch (wf_forest_chain_nodup f q ch Hwf EC)) as Hnd.
  destruct (inc_chain_room rq now ch w Hnd (fun k _ => Hc k)) as [Ech Ews].
  unfold seq_step. cbn [step]. rewrite EC. unfold allowed_chain.
  destruct (pop_chain ch (inc_chain ch w rq now) rq) as [w2 b] eqn:EP.
  destruct (seq_core rq now ch w (inc_chain ch w rq now) w2 b Hnd (fun _ _ => eq_refl)
              (fun k _ => Hc k) EP) as (A & _ & _).
  destruct b; cbn [fst snd].
  - (* let through: one charge and one pass per key of the chain, same window, same cost *)
    destruct (pop_chain_true _ _ _ _ EP) as (Pws & Pch & Ppa & _).
    cbn [charges passes]. rewrite Pch, Ppa, inc_chain_passes, Ech, csum_app, psum_app, csum_rev, (HR k d HL HP s).
    rewrite (new_charges_all rq now ch w (eq_sym A)).
    rewrite (psum_passes_charges rq now k s w w2 ch); [reflexivity|].
    intros qd HIn. unfold ws_or0. rewrite Pws, (Ews (eq_sym A) qd HIn). reflexivity.
  - (* refused: the root of the chain was not charged *)
    cbn [fst].
    destruct (dec_chain_logs rq ch w2) as [Dc Dp]. rewrite Dc, Dp.
    pose proof (pop_chain_charges rq ch (inc_chain ch w rq now)) as [Pc Pp].
    rewrite EP in Pc, Pp. cbn [fst snd] in Pc, Pp. rewrite Pc, (Pp eq_refl).
    rewrite inc_chain_passes, Ech, csum_app, csum_rev, <- (HR k d HL HP s).
    rewrite (csum_no_key k s (new_charges rq now ch w)); [lia|].
    intros c HIn Ek.
    destruct (new_charges_not_last rq now ch w (eq_sym A) c HIn) as (pre & [q' d'] & post & E1 & E2 & E3).
    cbn [fst snd] in E3.
    assert (HL' : lookup q' f = Some d').
    { eapply chain_of_ok; eauto. rewrite E1. apply in_or_app. right. left. reflexivity. }
    rewrite Ek in E3. rewrite E3 in HL. cbn [key_of fst] in HL. rewrite HL' in HL. inversion HL; subst d'.
    unfold chain_of in EC. eapply (chain_parent f _ q ch EC pre (q', d) post E1 E2). exact HP.
Qed.

Lemma seq_run_root : forall f h w, wf_forest f = true -> Clean w -> RootInv f w ->
  RootInv f (fst (seq_run f w h)).
Proof.
  induction h as [|[[q rq] now] rest IH]; intros w Hwf Hc HR; cbn [seq_run]; [assumption|].
  assert (H' : Clean (fst (seq_step f w (q, rq, now))) /\ RootInv f (fst (seq_step f w (q, rq, now)))).
  { destruct (chain_of f q) as [ch|] eqn:EC.
    - split; [apply (seq_step_exact f w q rq now ch Hwf EC Hc) | eapply seq_step_root; eauto].
    - rewrite seq_step_unknown by assumption. auto. }
  destruct H' as [Hc' HR'].
  destruct (seq_step f w (q, rq, now)) as [w' o]. cbn [fst] in Hc', HR'.
  specialize (IH w' Hwf Hc' HR'). destruct (seq_run f w' rest) as [w'' os]. exact IH.
Qed.

Lemma Clean_init : Clean init.
Proof. intros k. reflexivity. Qed.
Lemma RootInv_init : forall f, RootInv f init.
Proof. intros f k d _ _ s. reflexivity. Qed.

Lemma chain_root : forall f q d, lookup q f = Some d -> q_parent d = None ->
  chain_of f q = Some [(q, d)].
Proof.
  intros f q d HL HP. unfold chain_of. destruct f as [|x f']; [discriminate|].
  cbn [length chain]. rewrite HL, HP. reflexivity.
Qed.

Lemma root_no_phantom : forall f w rq q d,
  RootInv f w -> lookup q f = Some d -> q_parent d = None -> no_phantom w rq (q, d) = true.
Proof.
  intros f w rq q d HR HL HP. unfold no_phantom. cbn [fst snd].
  destruct (ws (st w (key_of q d rq))) as [s|]; [|reflexivity].
  apply Z.eqb_eq. apply (HR (key_of q d rq) d); assumption.
Qed.

Lemma forallb_false_exists : forall (A : Type) (g : A -> bool) l,
  forallb g l = false -> exists x, In x l /\ g x = false.
Proof.
  induction l as [|x t IH]; cbn [forallb]; intros H; [discriminate|].
  destruct (g x) eqn:E.
  - destruct (IH H) as [y [A1 A2]]. exists y. split; [right; assumption|assumption].
  - exists x. split; [left; reflexivity|assumption].
Qed.
