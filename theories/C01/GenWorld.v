(* C01 — the translator tie lifted from one quota object to the WORLD.

   C01.GenEquiv ties the generated quota.Inc / Allowed / Dec / ResetIn to
   Model.kinc / kallowed / kdec / kresetin for ONE quota object that owns its
   store.  In the code the group objects of one fixedWindow share the store
   fw.context, and quota.Inc is entered with withSpillover = (spillover
   configured).  This file
   - removes the hypothesis withSpillover = false: the spill-over counter is
     never positive (nothing ever writes it), an invariant of the generated code
     ([spill_quiet], preserved by every translated function);
   - proves what quota.Inc leaves alone in the shared store (frame), including
     the raw write storeCountIntoContext(currentCountKey);
   - defines a Go-side world (one store per quota id, one memo per key), the
     per-key steps on it through the GENERATED functions, and proves the
     simulation with Model.step for KInc / KAllowed / KDec / ResetIn, anchored at
     the initial state, hence for every schedule of such steps.
   Key names: newQuota builds currentCountKey = <quotaKey>_currentCount and
   spilloverCountKey = <quotaKey>_spilloverCount with quotaKey =
   <quotaID>_<group value> (calculateContextKey); these two Sprintf calls are
   read, not translated ([cck], [sck], [nm] below). *)
From Coq Require Import List ZArith Bool Lia.
From Verif Require Import Lib.GoSem C01.Model C01.Proofs C01.GenEquiv.
From Verif Require C01.Gen C01.GenQuota.
Import ListNotations.
Open Scope Z_scope.

Definition cc_suffix : gostring := [95;99;117;114;114;101;110;116;67;111;117;110;116].          (* "_currentCount" *)
Definition sc_suffix : gostring := [95;115;112;105;108;108;111;118;101;114;67;111;117;110;116].  (* "_spilloverCount" *)

Definition ctx_of (q : GenQuota.quota) : ctxmem := Gen.ms_contextMemory (GenQuota.quota_context q).

(* the spill-over counter is absent or not positive *)
Definition spill_quiet (q : GenQuota.quota) : Prop :=
  match int_at (ctx_of q) (GenQuota.quota_spilloverCountKey q) with
  | Some z => z <= 0
  | None => True
  end.

Definition well_keyed (q : GenQuota.quota) : Prop :=
  exists N, GenQuota.quota_currentCountKey q = N ++ cc_suffix /\
            GenQuota.quota_spilloverCountKey q = N ++ sc_suffix.

(* ---------------------------------------------------------------- what quota.Inc does, in one piece *)

Lemma spill_count_quiet q : spill_quiet q ->
  (0 <? GenQuota.getCountFromContext q (GenQuota.quota_spilloverCountKey q)) = false.
Proof.
  intros H. unfold GenQuota.getCountFromContext. rewrite C01_gen_GetQuotaCounter. cbn [err_is_nil negb].
  unfold spill_quiet, ctx_of in H.
  destruct (int_at (Gen.ms_contextMemory (GenQuota.quota_context q)) (GenQuota.quota_spilloverCountKey q));
    apply Z.ltb_ge; lia.
Qed.

Definition inc_memo (al : smap bool) (id : gostring) (rst ok : bool) : smap bool :=
  if rst then (if ok then map_set gostring_eqb [] id true else [])
  else (if ok then map_set gostring_eqb (map_set gostring_eqb al id false) id true
        else map_set gostring_eqb al id false).

Lemma quota_Inc_shape : forall q a now1 now2,
  spill_quiet q ->
  GenQuota.quota_Inc q a now1 now2 =
  match map_get gostring_eqb (GenQuota.quota_allowedByReqID q) (as_id a) with
  | Some _ => (q, GenQuota.alreadyIncreased)
  | None =>
      let '(p', c, rst, err) :=
        Gen.AtomicIncWindow (GenQuota.quota_context q) (GenQuota.quota_currentCountKey q)
          (cost_of_stream a) (GenQuota.quota_window q) (GenQuota.quota_maxCount q) now1 now2 in
      (GenQuota.set_quota_context (fst (Gen.ms_Set p' (GenQuota.quota_currentCountKey q) c))
         (GenQuota.set_quota_allowedByReqID
            (inc_memo (GenQuota.quota_allowedByReqID q) (as_id a) rst (err_is_nil err)) q),
       if err_is_nil err then GenQuota.increased else GenQuota.blocked)
  end.
Proof.
  intros q a now1 now2 Hq.
  pose proof (spill_count_quiet _ Hq) as Hsc.
  destruct q as [W mx K SK wsp ctx al].
  unfold GenQuota.quota_Inc, map_lookup. cbn [GenQuota.quota_allowedByReqID].
  destruct (map_get gostring_eqb al (as_id a)) as [b|] eqn:Elk; [reflexivity|].
  cbn [GenQuota.quota_withSpillover GenQuota.set_quota_allowedByReqID GenQuota.quota_window
       GenQuota.quota_maxCount GenQuota.quota_currentCountKey GenQuota.quota_spilloverCountKey
       GenQuota.quota_context GenQuota.quota_allowedByReqID] in *.
  assert (Hsc' : forall q', GenQuota.quota_context q' = ctx ->
                 (0 <? GenQuota.getCountFromContext q' SK) = false).
  { intros q' E. unfold GenQuota.getCountFromContext in *. cbn [GenQuota.quota_context] in Hsc.
    rewrite E. exact Hsc. }
  destruct wsp; [rewrite Hsc' by reflexivity | change (0 <? 0) with false]; cbv iota.
  all: destruct (as_count a) as [c0 [|t0]] eqn:Eas; unfold cost_of_stream; rewrite Eas;
       cbn [err_is_nil negb]; cbv zeta.
  all: match goal with |- context [Gen.AtomicIncWindow ?cx ?k ?cost ?w ?m ?n1 ?n2] =>
         destruct (Gen.AtomicIncWindow cx k cost w m n1 n2) as [[[p' c'] rst] err]
       end.
  all: rewrite ?gen_store;
       cbn [GenQuota.onWindowRestart GenQuota.set_quota_allowedByReqID GenQuota.set_quota_context
            GenQuota.quota_allowedByReqID GenQuota.quota_context GenQuota.quota_currentCountKey
            GenQuota.quota_window GenQuota.quota_maxCount GenQuota.quota_spilloverCountKey
            GenQuota.quota_withSpillover].
  all: destruct rst; destruct (err_is_nil err); cbn [negb]; unfold map_index, inc_memo;
       rewrite ?gen_store;
       cbn [GenQuota.onWindowRestart GenQuota.set_quota_allowedByReqID GenQuota.set_quota_context
            GenQuota.quota_allowedByReqID GenQuota.quota_context GenQuota.quota_currentCountKey
            GenQuota.quota_window GenQuota.quota_maxCount GenQuota.quota_spilloverCountKey
            GenQuota.quota_withSpillover];
       rewrite ?(map_get_set_same gostring_eqb gostring_eqb_eq); cbn [map_get]; reflexivity.
Qed.

(* ---------------------------------------------------------------- key names *)

Ltac by_suffix H :=
  apply (f_equal (@rev Z)) in H; repeat rewrite rev_app_distr in H;
  cbn [rev app Gen.windowStartKeySuffix Gen.counterKeySuffix cc_suffix sc_suffix] in H;
  discriminate H.

Lemma wkey_eq K : wkey K = K ++ [32;47;47;32] ++ Gen.windowStartKeySuffix.
Proof. reflexivity. Qed.
Lemma ckey_eq K : ckey K = K ++ [32;47;47;32] ++ Gen.counterKeySuffix.
Proof. reflexivity. Qed.

Lemma wkey_inj K K' : wkey K = wkey K' -> K = K'.
Proof. apply buildKey_inj. Qed.
Lemma ckey_inj K K' : ckey K = ckey K' -> K = K'.
Proof. apply buildKey_inj. Qed.
Lemma wkey_not_ckey K K' : wkey K <> ckey K'.
Proof. rewrite wkey_eq, ckey_eq. intros H. by_suffix H. Qed.
Lemma wkey_not_cc K N : wkey K <> N ++ cc_suffix.
Proof. rewrite wkey_eq. intros H. by_suffix H. Qed.
Lemma ckey_not_cc K N : ckey K <> N ++ cc_suffix.
Proof. rewrite ckey_eq. intros H. by_suffix H. Qed.
Lemma sc_not_cc N N' : N ++ sc_suffix <> N' ++ cc_suffix.
Proof. intros H. by_suffix H. Qed.
Lemma sc_not_wkey N K : N ++ sc_suffix <> wkey K.
Proof. rewrite wkey_eq. intros H. by_suffix H. Qed.
Lemma sc_not_ckey N K : N ++ sc_suffix <> ckey K.
Proof. rewrite ckey_eq. intros H. by_suffix H. Qed.

(* ---------------------------------------------------------------- frame of quota.Inc on the shared store *)

Lemma ms_Set_frame p key v k' : k' <> key ->
  smap_get (Gen.ms_contextMemory (fst (Gen.ms_Set p key v))) k' = smap_get (Gen.ms_contextMemory p) k'.
Proof.
  intros Hn. unfold Gen.ms_Set, ctx_set. destruct key as [|x key]; cbn [fst]; [reflexivity|].
  cbn [Gen.ms_contextMemory Gen.set_ms_contextMemory]. apply smap_get_set_other. exact Hn.
Qed.

(* quota.Inc writes at most three entries of the store: the two built entries of
   its key and the raw entry <currentCountKey> (storeCountIntoContext) *)
Theorem C01_gen_quota_Inc_frame : forall q a now1 now2 k',
  spill_quiet q ->
  k' <> wkey (GenQuota.quota_currentCountKey q) -> k' <> ckey (GenQuota.quota_currentCountKey q) ->
  k' <> GenQuota.quota_currentCountKey q ->
  smap_get (ctx_of (fst (GenQuota.quota_Inc q a now1 now2))) k' = smap_get (ctx_of q) k'.
Proof.
  intros q a now1 now2 k' Hq Hw Hc Hr. rewrite quota_Inc_shape by exact Hq.
  destruct (map_get gostring_eqb (GenQuota.quota_allowedByReqID q) (as_id a)); [reflexivity|].
  pose proof (C01_gen_AtomicIncWindow_frame (GenQuota.quota_context q) (GenQuota.quota_currentCountKey q)
                (cost_of_stream a) (GenQuota.quota_window q) (GenQuota.quota_maxCount q) now1 now2 k' Hw Hc) as F.
  destruct (Gen.AtomicIncWindow _ _ _ _ _ _ _) as [[[p' c] rst] err].
  cbn [fst]. unfold ctx_of. destruct q as [W mx K SK wsp ctx al].
  cbn [GenQuota.set_quota_context GenQuota.set_quota_allowedByReqID GenQuota.quota_context
       GenQuota.quota_currentCountKey] in *.
  rewrite ms_Set_frame by exact Hr. exact F.
Qed.

Lemma well_keyed_spill_fresh q : well_keyed q ->
  GenQuota.quota_spilloverCountKey q <> wkey (GenQuota.quota_currentCountKey q) /\
  GenQuota.quota_spilloverCountKey q <> ckey (GenQuota.quota_currentCountKey q) /\
  GenQuota.quota_spilloverCountKey q <> GenQuota.quota_currentCountKey q.
Proof.
  intros (N & E1 & E2). rewrite E2. repeat split.
  - apply sc_not_wkey.
  - apply sc_not_ckey.
  - rewrite E1. apply sc_not_cc.
Qed.

Section WorldLevel.

Variable tok : gostring -> Z.
Hypothesis tok_inj : forall a b, tok a = tok b -> a = b.

(* ---------------------------------------------------------------- quota.Inc, any withSpillover *)

Theorem C01_gen_quota_Inc_any_spill : forall q ks a now,
  spill_quiet q -> R tok q ks ->
  let '(q', res) := GenQuota.quota_Inc q a now now in
  let '(ks', res', _) := kinc (GenQuota.quota_maxCount q) (GenQuota.quota_window q) ks
                              (tok (as_id a)) now (cost_of_stream a) in
  R tok q' ks' /\ repr_inc res = Some res' /\ same_config q q' /\
  (well_keyed q -> spill_quiet q').
Proof.
  intros q ks a now Hq HR.
  assert (Hfr : well_keyed q -> spill_quiet (fst (GenQuota.quota_Inc q a now now))).
  { intros Hk. destruct (well_keyed_spill_fresh q Hk) as (F1 & F2 & F3).
    pose proof (C01_gen_quota_Inc_frame q a now now _ Hq F1 F2 F3) as F.
    assert (ESK : GenQuota.quota_spilloverCountKey (fst (GenQuota.quota_Inc q a now now))
                  = GenQuota.quota_spilloverCountKey q).
    { rewrite quota_Inc_shape by exact Hq.
      destruct (map_get _ _ _); [reflexivity|].
      destruct (Gen.AtomicIncWindow _ _ _ _ _ _ _) as [[[p' c] rst] err]. destruct q; reflexivity. }
    unfold spill_quiet, int_at in *. rewrite ESK, F. exact Hq. }
  revert Hfr. rewrite quota_Inc_shape by exact Hq. destruct HR as [Hks Hm].
  destruct q as [W mx K SK wsp ctx al]. cbn in Hks, Hm.
  cbn [GenQuota.quota_maxCount GenQuota.quota_window GenQuota.quota_allowedByReqID
       GenQuota.quota_context GenQuota.quota_currentCountKey].
  rewrite kinc_is_inc_window, (Hm (as_id a)).
  destruct (lookup (tok (as_id a)) (memo ks)) as [b|] eqn:Elk.
  { intros Hfr. split; [split; [exact Hks|exact Hm]|]. split; [reflexivity|]. split; [repeat split|exact Hfr]. }
  pose proof (C01_gen_AtomicIncWindow ctx K (cost_of_stream a) W mx now (memo ks)) as H.
  destruct (Gen.AtomicIncWindow ctx K (cost_of_stream a) W mx now now) as [[[p' c'] rst] err].
  rewrite <- Hks in H.
  destruct (inc_window mx W ks now (cost_of_stream a)) as [ks1 [[c1 r1] ok]].
  destruct H as (Hks1 & Hc & Hr & Hok); subst c1 r1 ok.
  cbn [GenQuota.set_quota_context GenQuota.set_quota_allowedByReqID fst]. intros Hfr.
  destruct rst; destruct (err_is_nil err); unfold inc_memo.
  all: (split; [split|split; [reflexivity|split; [repeat split|exact Hfr]]]).
  all: cbn [memo ws cnt GenQuota.quota_allowedByReqID GenQuota.quota_context GenQuota.quota_currentCountKey
            GenQuota.set_quota_context GenQuota.set_quota_allowedByReqID].
  all: try (rewrite repr_ks_raw_store; rewrite <- Hks1; reflexivity).
  all: try (apply memo_rel_set2; [exact tok_inj|exact Hm]).
  all: try (apply memo_rel_set; [exact tok_inj|first [exact Hm | apply memo_rel_nil]]).
  all: try apply memo_rel_nil.
Qed.


(* ---------------------------------------------------------------- the Go-side world

   One store per quota id (fixedWindow.context, shared by the group objects of
   that fixedWindow), one memo (allowedByReqID) per key.  [qname] / [gname]:
   the strings behind the quota-id and header-value tokens of the model;
   [spill q]: whether quota q is configured with spill-over.  The quota object
   of key k is rebuilt from the world for every call and written back after it:
   the sharing of the store between the objects is explicit. *)
Variable qname gname : Z -> gostring.
Hypothesis gname_inj : forall a b, gname a = gname b -> a = b.
Variable spill : Z -> bool.

Definition nm (k : key) : gostring := qname (fst k) ++ [95] ++ gname (snd k).   (* calculateContextKey *)
Definition cck (k : key) : gostring := nm k ++ cc_suffix.                       (* newQuota: currentCountKey *)
Definition sck (k : key) : gostring := nm k ++ sc_suffix.                       (* newQuota: spilloverCountKey *)

Lemma cck_inj k k' : fst k = fst k' -> cck k = cck k' -> k = k'.
Proof.
  intros Hf H. unfold cck, nm in H. apply app_inv_tail in H. rewrite Hf in H.
  apply app_inv_head in H. apply app_inv_head in H. apply gname_inj in H.
  destruct k, k'; cbn in *; congruence.
Qed.

Record gworld := { g_store : Z -> Gen.ms; g_memo : key -> smap bool }.
Definition ginit : gworld := {| g_store := fun _ => Gen.mk_ms []; g_memo := fun _ => [] |}.

Definition gobj (gw : gworld) (k : key) (d : quota) : GenQuota.quota :=
  GenQuota.mk_quota (q_win d) (q_max d) (cck k) (sck k) (spill (fst k)) (g_store gw (fst k)) (g_memo gw k).

Definition gput (gw : gworld) (k : key) (o : GenQuota.quota) : gworld :=
  {| g_store := fun q => if q =? fst k then GenQuota.quota_context o else g_store gw q;
     g_memo := fun k' => if key_eqb k' k then GenQuota.quota_allowedByReqID o else g_memo gw k' |}.

(* per-key steps of a schedule, on the Go side: the APIStream as the quota
   object sees it (id, extractCountF's result) and the grouping headers *)
Inductive gaction :=
| GKInc (q : Z) (a : apistream) (hdrs : list (Z * Z)) (now : Z)
| GKAllowed (q : Z) (a : apistream) (hdrs : list (Z * Z))
| GKDec (q : Z) (a : apistream) (hdrs : list (Z * Z))
| GResetIn (q : Z) (now : Z).

Definition req_of (a : apistream) (hdrs : list (Z * Z)) : request :=
  {| r_id := tok (as_id a); r_hdrs := hdrs; r_cost := cost_of_stream a |}.

Definition act_of (ga : gaction) : action :=
  match ga with
  | GKInc q a h now => KInc q (req_of a h) now
  | GKAllowed q a h => KAllowed q (req_of a h)
  | GKDec q a h => KDec q (req_of a h)
  | GResetIn q now => ResetIn q now
  end.

(* a request-counting quota's extractCountF yields 1 (newTransactionalFixedWindow) *)
Definition gact_ok (f : forest) (ga : gaction) : Prop :=
  match ga with
  | GKInc q a _ _ =>
      match lookup q f with
      | Some d => q_custom d = false -> cost_of_stream a = 1
      | None => True
      end
  | _ => True
  end.

Definition gstep (f : forest) (gw : gworld) (ga : gaction) : gworld * out :=
  match ga with
  | GKInc q a h now =>
      match lookup q f with
      | Some d =>
          let k := key_of q d (req_of a h) in
          let '(o', res) := GenQuota.quota_Inc (gobj gw k d) a now now in
          (gput gw k o', match repr_inc res with Some r => ORes r | None => OBad end)
      | None => (gw, OBad)
      end
  | GKAllowed q a h =>
      match lookup q f with
      | Some d =>
          let k := key_of q d (req_of a h) in
          let '(o', b) := GenQuota.quota_Allowed (gobj gw k d) a in
          (gput gw k o', OBool b)
      | None => (gw, OBad)
      end
  | GKDec q a h =>
      match lookup q f with
      | Some d =>
          let k := key_of q d (req_of a h) in
          (gput gw k (GenQuota.quota_Dec (gobj gw k d) a), ONone)
      | None => (gw, OBad)
      end
  | GResetIn q now =>
      match lookup q f with
      | Some d =>
          ({| g_store := g_store gw;
              g_memo := fun k' => if fst k' =? q
                                  then GenQuota.quota_allowedByReqID
                                         (fst (GenQuota.quota_ResetIn (gobj gw k' d) now now))
                                  else g_memo gw k' |}, ONone)
      | None => (gw, OBad)
      end
  end.

Fixpoint grun (f : forest) (gw : gworld) (gas : list gaction) : gworld * list out :=
  match gas with
  | [] => (gw, [])
  | ga :: rest =>
      let '(gw', o) := gstep f gw ga in
      let '(gw'', os) := grun f gw' rest in
      (gw'', o :: os)
  end.

(* the simulation relation of the world: every quota object is related to its
   model state, and its spill-over counter is quiet *)
Definition RW (f : forest) (gw : gworld) (w : world) : Prop :=
  forall k d, lookup (fst k) f = Some d ->
    R tok (gobj gw k d) (st w k) /\ spill_quiet (gobj gw k d).

Lemma gobj_well_keyed gw k d : well_keyed (gobj gw k d).
Proof. exists (nm k). split; reflexivity. Qed.

Theorem C01_gen_world_init : forall f, RW f ginit init.
Proof.
  intros f k d _. split; [split|].
  - reflexivity.
  - apply memo_rel_nil.
  - unfold spill_quiet. cbn. exact I.
Qed.

(* an object other than the one that ran: same store entries, same memo *)
Lemma other_object_kept : forall gw k d o' k' d' ks',
  k' <> k ->
  GenQuota.quota_currentCountKey o' = cck k ->
  (fst k' = fst k ->
   forall x, x <> wkey (cck k) -> x <> ckey (cck k) -> x <> cck k ->
     smap_get (ctx_of o') x = smap_get (ctx_of (gobj gw k d)) x) ->
  R tok (gobj gw k' d') ks' /\ spill_quiet (gobj gw k' d') ->
  R tok (gobj (gput gw k o') k' d') ks' /\ spill_quiet (gobj (gput gw k o') k' d').
Proof.
  intros gw k d o' k' d' ks' Hne HK Hfr [[Hks Hm] Hsq].
  assert (Em : g_memo (gput gw k o') k' = g_memo gw k').
  { cbn [gput g_memo]. apply key_eqb_neq in Hne. rewrite Hne. reflexivity. }
  destruct (Z.eq_dec (fst k') (fst k)) as [Ef|Ef].
  - assert (Hcc : cck k' <> cck k) by (intros E; apply Hne; apply cck_inj; assumption).
    assert (Hget : forall x, x <> wkey (cck k) -> x <> ckey (cck k) -> x <> cck k ->
              smap_get (Gen.ms_contextMemory (g_store (gput gw k o') (fst k'))) x
              = smap_get (Gen.ms_contextMemory (g_store gw (fst k'))) x).
    { intros x X1 X2 X3. cbn [gput g_store]. rewrite Ef, Z.eqb_refl.
      rewrite <- Ef. pose proof (Hfr Ef x X1 X2 X3) as F. unfold ctx_of in F.
      cbn [gobj GenQuota.quota_context] in F. rewrite <- Ef in F. exact F. }
    split; [split|].
    + cbn [gobj GenQuota.quota_context GenQuota.quota_currentCountKey GenQuota.quota_allowedByReqID] in *.
      rewrite Hks at 1. unfold repr_ks, int_at. rewrite !Hget; try reflexivity.
      * intros E. apply (wkey_not_ckey (cck k) (cck k')). symmetry. exact E.
      * intros E. apply Hcc. apply ckey_inj. exact E.
      * apply ckey_not_cc.
      * intros E. apply Hcc. apply wkey_inj. exact E.
      * apply wkey_not_ckey.
      * apply wkey_not_cc.
    + cbn [gobj GenQuota.quota_allowedByReqID] in *. rewrite Em. exact Hm.
    + unfold spill_quiet, int_at, ctx_of in *.
      cbn [gobj GenQuota.quota_context GenQuota.quota_spilloverCountKey] in *.
      rewrite Hget; [exact Hsq| apply sc_not_wkey | apply sc_not_ckey | apply sc_not_cc].
  - assert (Es : g_store (gput gw k o') (fst k') = g_store gw (fst k')).
    { cbn [gput g_store]. apply Z.eqb_neq in Ef. rewrite Ef. reflexivity. }
    unfold gobj, spill_quiet, ctx_of, R in *.
    cbn [GenQuota.quota_context GenQuota.quota_currentCountKey GenQuota.quota_allowedByReqID
         GenQuota.quota_spilloverCountKey] in *.
    rewrite Es, Em. repeat split; assumption.
Qed.

(* the object that ran is read back from the world as it was written *)
Lemma same_object_back : forall gw k d o',
  same_config (gobj gw k d) o' -> gobj (gput gw k o') k d = o'.
Proof.
  intros gw k d o' (E1 & E2 & E3 & E4 & E5). destruct o' as [W mx K SK wsp ctx al].
  cbn in E1, E2, E3, E4, E5. subst. unfold gobj, gput. cbn [g_store g_memo].
  rewrite Z.eqb_refl, key_eqb_refl. reflexivity.
Qed.

Lemma context_Allowed q a : GenQuota.quota_context (fst (GenQuota.quota_Allowed q a)) = GenQuota.quota_context q.
Proof.
  unfold GenQuota.quota_Allowed.
  destruct (map_lookup gostring_eqb false (GenQuota.quota_allowedByReqID q) (as_id a)) as [v fd].
  destruct fd; destruct q; reflexivity.
Qed.
Lemma context_Dec q a : GenQuota.quota_context (GenQuota.quota_Dec q a) = GenQuota.quota_context q.
Proof. destruct q; reflexivity. Qed.
Lemma context_ResetIn q n1 n2 :
  GenQuota.quota_context (fst (GenQuota.quota_ResetIn q n1 n2)) = GenQuota.quota_context q.
Proof.
  unfold GenQuota.quota_ResetIn.
  destruct (Gen.AtomicWindowResetIn _ _ _ _ _) as [[r rst] e].
  destruct (negb (err_is_nil e)); [reflexivity|]. destruct rst; destruct q; reflexivity.
Qed.

Lemma spill_quiet_same_store q q' :
  GenQuota.quota_context q' = GenQuota.quota_context q ->
  GenQuota.quota_spilloverCountKey q' = GenQuota.quota_spilloverCountKey q ->
  spill_quiet q -> spill_quiet q'.
Proof. intros E1 E2 H. unfold spill_quiet, ctx_of in *. rewrite E1, E2. exact H. Qed.


(* one step: related worlds, same action (tokenised) => same output, related worlds *)
Theorem C01_gen_world_step : forall f gw w ga,
  RW f gw w -> gact_ok f ga ->
  let '(gw', o) := gstep f gw ga in
  let '(w', o') := step f w (act_of ga) in
  RW f gw' w' /\ o = o'.
Proof.
  intros f gw w ga HR Hok.
  destruct ga as [q a h now|q a h|q a h|q now]; cbn [gstep act_of step gact_ok] in *.
  - (* quota.Inc *)
    destruct (lookup q f) as [d|] eqn:EL; [|split; [exact HR|reflexivity]].
    set (rq := req_of a h). set (k := key_of q d rq).
    assert (HLk : lookup (fst k) f = Some d) by exact EL.
    destruct (HR k d HLk) as [HRk Hsq].
    pose proof (C01_gen_quota_Inc_any_spill (gobj gw k d) (st w k) a now Hsq HRk) as X.
    pose proof (C01_gen_quota_Inc_frame (gobj gw k d) a now now) as Fr.
    destruct (GenQuota.quota_Inc (gobj gw k d) a now now) as [o' res].
    unfold do_kinc.
    assert (Ecost : cost_of d rq = cost_of_stream a).
    { unfold cost_of, rq, req_of. cbn [r_cost]. destruct (q_custom d) eqn:EC; [reflexivity|].
      symmetry. apply Hok. reflexivity. }
    rewrite Ecost. change (r_id rq) with (tok (as_id a)).
    cbn [gobj GenQuota.quota_maxCount GenQuota.quota_window] in X.
    destruct (kinc (q_max d) (q_win d) (st w k) (tok (as_id a)) now (cost_of_stream a)) as [[ks' res'] chg].
    destruct X as (HR' & Hres & Hcfg & Hsq').
    split; [|rewrite Hres; reflexivity].
    intros k' d' HL'. cbn [st].
    destruct (key_eq_dec k' k) as [E|Hne].
    + subst k'. rewrite HL' in HLk. inversion HLk; subst d'. rewrite upd_same.
      rewrite (same_object_back gw k d o' Hcfg). split; [exact HR'|].
      apply Hsq'. apply gobj_well_keyed.
    + rewrite upd_other by exact Hne.
      apply (other_object_kept gw k d o' k' d' (st w k') Hne).
      * destruct Hcfg as (_ & _ & E3 & _). exact E3.
      * intros _ x X1 X2 X3. cbn [fst] in Fr. apply (Fr x Hsq X1 X2 X3).
      * apply HR. exact HL'.
  - (* quota.Allowed *)
    destruct (lookup q f) as [d|] eqn:EL; [|split; [exact HR|reflexivity]].
    set (rq := req_of a h). set (k := key_of q d rq).
    assert (HLk : lookup (fst k) f = Some d) by exact EL.
    destruct (HR k d HLk) as [HRk Hsq].
    pose proof (C01_gen_quota_Allowed tok tok_inj (gobj gw k d) (st w k) a HRk) as X.
    pose proof (context_Allowed (gobj gw k d) a) as Ectx.
    destruct (GenQuota.quota_Allowed (gobj gw k d) a) as [o' b]. cbn [fst] in Ectx.
    unfold do_kallowed. change (r_id rq) with (tok (as_id a)).
    destruct (kallowed (st w k) (tok (as_id a))) as [ks' b'].
    destruct X as (HR' & Hb & Hcfg). subst b'.
    split; [|reflexivity].
    intros k' d' HL'. cbn [st].
    destruct (key_eq_dec k' k) as [E|Hne].
    + subst k'. rewrite HL' in HLk. inversion HLk; subst d'. rewrite upd_same.
      rewrite (same_object_back gw k d o' Hcfg). split; [exact HR'|].
      destruct Hcfg as (_ & _ & _ & E4 & _).
      apply (spill_quiet_same_store (gobj gw k d) o' Ectx E4 Hsq).
    + rewrite upd_other by exact Hne.
      apply (other_object_kept gw k d o' k' d' (st w k') Hne).
      * destruct Hcfg as (_ & _ & E3 & _). exact E3.
      * intros _ x _ _ _. unfold ctx_of. rewrite Ectx. reflexivity.
      * apply HR. exact HL'.
  - (* quota.Dec *)
    destruct (lookup q f) as [d|] eqn:EL; [|split; [exact HR|reflexivity]].
    set (rq := req_of a h). set (k := key_of q d rq).
    assert (HLk : lookup (fst k) f = Some d) by exact EL.
    destruct (HR k d HLk) as [HRk Hsq].
    destruct (C01_gen_quota_Dec tok tok_inj (gobj gw k d) (st w k) a HRk) as (HR' & Hcfg).
    pose proof (context_Dec (gobj gw k d) a) as Ectx.
    set (o' := GenQuota.quota_Dec (gobj gw k d) a) in *.
    split; [|reflexivity].
    intros k' d' HL'. unfold do_kdec. cbn [st]. change (r_id rq) with (tok (as_id a)).
    destruct (key_eq_dec k' k) as [E|Hne].
    + subst k'. rewrite HL' in HLk. inversion HLk; subst d'. rewrite upd_same.
      rewrite (same_object_back gw k d o' Hcfg). split; [exact HR'|].
      destruct Hcfg as (_ & _ & _ & E4 & _).
      apply (spill_quiet_same_store (gobj gw k d) o' Ectx E4 Hsq).
    + rewrite upd_other by exact Hne.
      apply (other_object_kept gw k d o' k' d' (st w k') Hne).
      * destruct Hcfg as (_ & _ & E3 & _). exact E3.
      * intros _ x _ _ _. unfold ctx_of. rewrite Ectx. reflexivity.
      * apply HR. exact HL'.
  - (* fixedWindow.ResetIn: every group object of the quota *)
    destruct (lookup q f) as [d|] eqn:EL; [|split; [exact HR|reflexivity]].
    split; [|reflexivity].
    intros k' d' HL'. unfold do_resetin. cbn [st].
    destruct (HR k' d' HL') as [HRk Hsq].
    destruct (fst k' =? q) eqn:EQ.
    + apply Z.eqb_eq in EQ. rewrite EQ in HL'. rewrite EL in HL'. inversion HL'; subst d'. subst q.
      pose proof (C01_gen_quota_ResetIn tok (gobj gw k' d) (st w k') now HRk) as X.
      pose proof (context_ResetIn (gobj gw k' d) now now) as Ectx.
      match goal with |- R tok ?G _ /\ _ => set (g' := G) end.
      assert (Eo : g' = fst (GenQuota.quota_ResetIn (gobj gw k' d) now now)).
      { unfold g', gobj at 1. cbn [g_store g_memo]. rewrite Z.eqb_refl.
        destruct (GenQuota.quota_ResetIn (gobj gw k' d) now now) as [o' rin]. cbn [fst] in *.
        destruct X as (_ & E1 & E2 & E3 & E4 & E5). destruct o' as [W mx K SK wsp ctx al].
        cbn in E1, E2, E3, E4, E5, Ectx. subst. reflexivity. }
      rewrite Eo. clear Eo g'.
      destruct (GenQuota.quota_ResetIn (gobj gw k' d) now now) as [o' rin]. cbn [fst] in *.
      destruct X as (HR' & Hcfg). cbn [gobj GenQuota.quota_window] in HR'. split; [exact HR'|].
      destruct Hcfg as (_ & _ & _ & E4 & _).
      apply (spill_quiet_same_store (gobj gw k' d) o' Ectx E4 Hsq).
    + match goal with |- R tok ?G _ /\ _ => assert (Eo : G = gobj gw k' d') end.
      { unfold gobj. cbn [g_store g_memo]. rewrite EQ. reflexivity. }
      rewrite Eo. split; assumption.
Qed.

(* every schedule of per-key steps, from the initial state: same outputs *)
Theorem C01_gen_world_run : forall f gas gw w,
  RW f gw w -> Forall (gact_ok f) gas ->
  RW f (fst (grun f gw gas)) (fst (run f w (map act_of gas))) /\
  snd (grun f gw gas) = snd (run f w (map act_of gas)).
Proof.
  induction gas as [|ga rest IH]; intros gw w HR Hok; cbn [grun run map fst snd]; [auto|].
  inversion Hok as [|x l Hok1 Hok2]; subst.
  pose proof (C01_gen_world_step f gw w ga HR Hok1) as X.
  destruct (gstep f gw ga) as [gw' o]. destruct (step f w (act_of ga)) as [w' o'].
  destruct X as [HR' Eo]. subst o'.
  destruct (IH gw' w' HR' Hok2) as [A B].
  destruct (grun f gw' rest) as [gw'' os]. destruct (run f w' (map act_of rest)) as [w'' os'].
  cbn [fst snd] in *. split; [exact A|]. rewrite B. reflexivity.
Qed.

Corollary C01_gen_world_schedules : forall f gas,
  Forall (gact_ok f) gas ->
  snd (grun f ginit gas) = snd (run f init (map act_of gas)).
Proof. intros f gas Hok. apply (C01_gen_world_run f gas ginit init (C01_gen_world_init f) Hok). Qed.

End WorldLevel.

Print Assumptions C01_gen_quota_Inc_frame.
Print Assumptions C01_gen_quota_Inc_any_spill.
Print Assumptions C01_gen_world_init.
Print Assumptions C01_gen_world_step.
Print Assumptions C01_gen_world_run.
Print Assumptions C01_gen_world_schedules.

(* ---------------------------------------------------------------- the premises are satisfiable

   an injective tokenisation of strings (the premise [tok_inj] of every quota-
   and world-level theorem), built from a prefix-free code *)
Definition zp (z : Z) : positive :=
  match z with Z0 => xH | Zpos p => xO p | Zneg p => xI p end.
Fixpoint enc_p (p acc : positive) : positive :=
  match p with
  | xH => xO acc
  | xO p' => xI (xO (enc_p p' acc))
  | xI p' => xI (xI (enc_p p' acc))
  end.
Fixpoint enc_l (l : list positive) : positive :=
  match l with [] => xH | p :: r => enc_p p (enc_l r) end.
Definition tok_std (s : gostring) : Z := Zpos (enc_l (map zp s)).

Lemma zp_inj a b : zp a = zp b -> a = b.
Proof. destruct a, b; cbn; intros H; try discriminate; try reflexivity; inversion H; reflexivity. Qed.
Lemma enc_p_inj : forall p p' acc acc', enc_p p acc = enc_p p' acc' -> p = p' /\ acc = acc'.
Proof.
  induction p as [p IH|p IH|]; intros [p'|p'|] acc acc' H; cbn [enc_p] in H; try discriminate H.
  - injection H as H. destruct (IH _ _ _ H). subst. auto.
  - injection H as H. destruct (IH _ _ _ H). subst. auto.
  - injection H as H. auto.
Qed.
Lemma enc_l_inj : forall l l', enc_l l = enc_l l' -> l = l'.
Proof.
  induction l as [|p l IH]; intros [|p' l'] H; cbn [enc_l] in H.
  - reflexivity.
  - destruct p'; discriminate H.
  - destruct p; discriminate H.
  - destruct (enc_p_inj _ _ _ _ H) as [E1 E2]. subst. f_equal. apply IH. exact E2.
Qed.
Theorem C01_tok_std_injective : forall a b, tok_std a = tok_std b -> a = b.
Proof.
  intros a b H. unfold tok_std in H. injection H as H. apply enc_l_inj in H.
  revert b H. induction a as [|x a IH]; intros [|y b] H; cbn [map] in H; try discriminate; [reflexivity|].
  injection H as H1 H2. apply zp_inj in H1. subst. f_equal. apply IH. exact H2.
Qed.
Print Assumptions C01_tok_std_injective.

(* every schedule of per-key steps of the GENERATED code, on objects sharing
   their fixedWindow's store, any spill-over flags: the verdicts of Model.run *)
Theorem C01_gen_world_schedules_std : forall spill f gas,
  Forall (gact_ok f) gas ->
  snd (grun tok_std (fun z => [z]) (fun z => [z]) spill f (ginit) gas)
  = snd (run f init (map (act_of tok_std) gas)).
Proof.
  intros spill f gas H.
  apply (C01_gen_world_schedules tok_std C01_tok_std_injective (fun z => [z]) (fun z => [z])).
  - intros a b E. injection E as E. exact E.
  - exact H.
Qed.
Print Assumptions C01_gen_world_schedules_std.

(* the generated code run in Coq: a grouped child under a parent (both
   spill-over flags set), two groups sharing the child's store, a refusal, a
   roll-over *)
Definition gw_forest : forest := [(1, mkq 3 2 None None false); (2, mkq 1 10 (Some 1) (Some 7) false)].
Definition gw_s (id : Z) : apistream := mk_apistream [id] (1, ErrNil) [] [].
Definition gw_sched : list gaction :=
  [GKInc 2 (gw_s 1) [(7, 1)] (5 * sec); GKInc 2 (gw_s 2) [(7, 2)] (5 * sec); GKInc 2 (gw_s 3) [(7, 1)] (5 * sec + 1);
   GKAllowed 2 (gw_s 1) [(7, 1)]; GKAllowed 2 (gw_s 3) [(7, 1)]; GKInc 1 (gw_s 1) [] (5 * sec + 2);
   GResetIn 2 (15 * sec); GKInc 2 (gw_s 4) [(7, 1)] (15 * sec); GKDec 2 (gw_s 4) [(7, 1)]; GKAllowed 2 (gw_s 4) [(7, 1)]].
Example C01_example_world :
  Forall (gact_ok gw_forest) gw_sched /\
  snd (grun tok_std (fun z => [z]) (fun z => [z]) (fun _ => true) gw_forest ginit gw_sched) =
    [ORes Increased; ORes Increased; ORes Blocked; OBool true; OBool false; ORes Increased;
     ONone; ORes Increased; ONone; OBool false].
Proof.
  split.
  - repeat constructor; cbn; intros; reflexivity.
  - vm_compute. reflexivity.
Qed.
