(* C01 — model of the fixed-window quota resource
   (streams/resources/quota/fixed_strategy.go, lunar-context/memory_state.go
   AtomicIncWindow / AtomicWindowResetIn, processors/limiter).

   Time is Z nanoseconds.  Identifiers (quota ids, request ids, header names,
   header values) are Z tokens interned by the harness; header VALUE token 0 is
   the string "default" (the group used when there is no grouping header or the
   request does not carry it).

   State, per key (quota id, group value) — one [quota] object of the code:
     ws   : stored window start, in WHOLE SECONDS ("<key> // _window_start",
            written as windowStart.Unix()), None before the first successful charge
     cnt  : the window counter ("<key> // _counter")
     memo : allowedByReqID (request id -> counted-and-allowed?)
   Ghost (not in the code): the log of successful charges, of true verdicts of
   the per-key [Allowed] and of requests the whole chain let through.

   Atomic steps.  The body of quota.Inc / quota.Allowed / quota.Dec /
   quota.ResetIn runs under that key's q.mutex (AtomicIncWindow additionally
   under the memoryState mutex of its fixedWindow): these are the K* actions.
   fixedWindow.Inc/Allowed/Dec walk the chain child -> parent -> ... calling
   them one after the other; the chain-level actions Inc/Allowed/Dec of the
   model do the same walk with one clock reading.  A schedule is ANY list of
   actions, so every interleaving of the per-key bodies of concurrent chain
   walks is a schedule (written with K* actions).

   Case formats (harness -> shards):
     res suite : (forest, list action, observed list out)
     eng suite : (forest, list (quota id, request, instant), observed verdicts)
                 verdict true = request let through (no early response). *)
From Coq Require Import List ZArith Bool.
Import ListNotations.
Open Scope Z_scope.

Definition sec : Z := 1000000000.

(* ---------------------------------------------------------------- configuration *)

Record quota := {
  q_max : Z;              (* strategy.*.max *)
  q_win : Z;              (* ParseWindow(): interval x unit, nanoseconds *)
  q_parent : option Z;    (* internal_limits[].parent_id *)
  q_group : option Z;     (* group_by_header (header name token) *)
  q_custom : bool         (* fixed_window_custom_counter: cost taken from the request *)
}.
Definition forest := list (Z * quota).

Fixpoint lookup {A : Type} (x : Z) (l : list (Z * A)) : option A :=
  match l with
  | [] => None
  | (y, a) :: t => if x =? y then Some a else lookup x t
  end.

Record request := {
  r_id : Z;
  r_hdrs : list (Z * Z);  (* header name token -> value token *)
  r_cost : Z              (* what counter_value_path extracts (0 when absent / unparsable) *)
}.

Definition key := (Z * Z)%type.
Definition key_eqb (a b : key) : bool := (fst a =? fst b) && (snd a =? snd b).

(* calculateContextKey *)
Definition group_of (d : quota) (rq : request) : Z :=
  match q_group d with
  | None => 0
  | Some h => match lookup h (r_hdrs rq) with Some v => v | None => 0 end
  end.
Definition key_of (q : Z) (d : quota) (rq : request) : key := (q, group_of d rq).
Definition cost_of (d : quota) (rq : request) : Z := if q_custom d then r_cost rq else 1.

(* the quota and its ancestors, child first; None = unknown id / dangling or
   cyclic parent link (excluded by [wf_forest]) *)
Fixpoint chain (f : forest) (fuel : nat) (q : Z) : option (list (Z * quota)) :=
  match fuel with
  | O => None
  | S n =>
      match lookup q f with
      | None => None
      | Some d =>
          match q_parent d with
          | None => Some [(q, d)]
          | Some p => match chain f n p with
                      | Some l => Some ((q, d) :: l)
                      | None => None
                      end
          end
      end
  end.
Definition chain_of (f : forest) (q : Z) := chain f (length f) q.

Fixpoint nodupb (l : list Z) : bool :=
  match l with
  | [] => true
  | x :: t => negb (existsb (Z.eqb x) t) && nodupb t
  end.

(* windows are whole seconds >= 1 s (interval > 0 validated, units second..month) *)
Definition wf_quota (d : quota) : bool :=
  (sec <=? q_win d) && (q_win d mod sec =? 0) && (0 <=? q_max d).
Definition wf_forest (f : forest) : bool :=
  forallb (fun qd => wf_quota (snd qd) &&
                     match chain_of f (fst qd) with
                     | Some ch => nodupb (map fst ch)
                     | None => false
                     end) f.

(* ---------------------------------------------------------------- one key *)

Record kstate := { ws : option Z; cnt : Z; memo : list (Z * bool) }.
Definition kinit : kstate := {| ws := None; cnt := 0; memo := [] |}.

Definition mremove (r : Z) (m : list (Z * bool)) : list (Z * bool) :=
  filter (fun e => negb (fst e =? r)) m.

(* atomicGetWindow: the stored start (seconds -> ns), or "now" when none is stored *)
Definition win_start_ns (ks : kstate) (now : Z) : Z :=
  match ws ks with Some s => s * sec | None => now end.
(* currentTime.Sub(windowStart) >= windowSize *)
Definition expired (W : Z) (ks : kstate) (now : Z) : bool := W <=? now - win_start_ns ks now.
Definition eff_count (W : Z) (ks : kstate) (now : Z) : Z := if expired W ks now then 0 else cnt ks.

Inductive incres := AlreadyIncreased | Increased | Blocked.

(* quota.Inc (with AtomicIncWindow inlined).  Third component: the stored
   window the charge was booked on, when there was a charge. *)
Definition kinc (mx W : Z) (ks : kstate) (r now cost : Z) : kstate * incres * option Z :=
  match lookup r (memo ks) with
  | Some _ => (ks, AlreadyIncreased, None)
  | None =>
      let restarted := expired W ks now in
      let c' := eff_count W ks now + cost in
      if mx <? c' then
        (* refused: neither start nor counter is stored; onWindowRestart still
           clears the memo (including the entry just made for r) *)
        ({| ws := ws ks; cnt := cnt ks;
            memo := if restarted then [] else (r, false) :: memo ks |}, Blocked, None)
      else
        let s' := if restarted then now / sec
                  else match ws ks with Some s => s | None => now / sec end in
        ({| ws := Some s'; cnt := c';
            memo := (r, true) :: (if restarted then [] else memo ks) |}, Increased, Some s')
  end.

(* quota.Allowed *)
Definition kallowed (ks : kstate) (r : Z) : kstate * bool :=
  match lookup r (memo ks) with
  | None => (ks, false)
  | Some v => ({| ws := ws ks; cnt := cnt ks; memo := mremove r (memo ks) |}, v)
  end.

(* quota.Dec *)
Definition kdec (ks : kstate) (r : Z) : kstate :=
  {| ws := ws ks; cnt := cnt ks; memo := mremove r (memo ks) |}.

(* quota.ResetIn: AtomicWindowResetIn reports "restarted" when the window is
   over; the memo is then cleared (start and counter stay) *)
Definition kresetin (W : Z) (ks : kstate) (now : Z) : kstate :=
  if expired W ks now then {| ws := ws ks; cnt := cnt ks; memo := [] |} else ks.

(* ---------------------------------------------------------------- the world *)

Record charge := { c_key : key; c_ws : Z; c_at : Z; c_req : Z; c_cost : Z }.
Record grant := { g_key : key; g_ws : Z; g_req : Z }.
Record pass := { p_key : key; p_ws : Z; p_req : Z; p_cost : Z }.

Record world := {
  st : key -> kstate;
  charges : list charge;   (* ghost: successful charges, newest first *)
  grants : list grant;     (* ghost: per-key Allowed = true *)
  passes : list pass       (* ghost: chain-level Allowed = true, one entry per chain key *)
}.

Definition init : world :=
  {| st := fun _ => kinit; charges := []; grants := []; passes := [] |}.

Definition upd (s : key -> kstate) (k : key) (v : kstate) : key -> kstate :=
  fun k' => if key_eqb k' k then v else s k'.

Definition ws_or0 (ks : kstate) : Z := match ws ks with Some s => s | None => 0 end.

Definition do_kinc (d : quota) (k : key) (w : world) (rq : request) (now : Z) : world * incres :=
  let '(ks', res, chg) := kinc (q_max d) (q_win d) (st w k) (r_id rq) now (cost_of d rq) in
  ({| st := upd (st w) k ks';
      charges := match chg with
                 | Some s => {| c_key := k; c_ws := s; c_at := now; c_req := r_id rq;
                                c_cost := cost_of d rq |} :: charges w
                 | None => charges w
                 end;
      grants := grants w; passes := passes w |}, res).

Definition do_kallowed (k : key) (w : world) (rq : request) : world * bool :=
  let '(ks', b) := kallowed (st w k) (r_id rq) in
  ({| st := upd (st w) k ks'; charges := charges w;
      grants := if b then {| g_key := k; g_ws := ws_or0 (st w k); g_req := r_id rq |} :: grants w
                else grants w;
      passes := passes w |}, b).

Definition do_kdec (k : key) (w : world) (rq : request) : world :=
  {| st := upd (st w) k (kdec (st w k) (r_id rq)); charges := charges w;
     grants := grants w; passes := passes w |}.

(* fixedWindow.ResetIn visits every group object of the quota *)
Definition do_resetin (q : Z) (d : quota) (w : world) (now : Z) : world :=
  {| st := fun k => if fst k =? q then kresetin (q_win d) (st w k) now else st w k;
     charges := charges w; grants := grants w; passes := passes w |}.

(* fixedWindow.Inc: charge this level; only when that charged, go on to the parent *)
Fixpoint inc_chain (ch : list (Z * quota)) (w : world) (rq : request) (now : Z) : world :=
  match ch with
  | [] => w
  | (q, d) :: up =>
      let '(w', res) := do_kinc d (key_of q d rq) w rq now in
      match res with
      | Increased => inc_chain up w' rq now
      | _ => w'
      end
  end.

(* fixedWindow.Allowed: conjunction upwards, stopping at the first false *)
Fixpoint pop_chain (ch : list (Z * quota)) (w : world) (rq : request) : world * bool :=
  match ch with
  | [] => (w, true)
  | (q, d) :: up =>
      let '(w', b) := do_kallowed (key_of q d rq) w rq in
      if b then pop_chain up w' rq else (w', false)
  end.

Definition mk_pass (w : world) (rq : request) (qd : Z * quota) : pass :=
  let k := key_of (fst qd) (snd qd) rq in
  {| p_key := k; p_ws := ws_or0 (st w k); p_req := r_id rq; p_cost := cost_of (snd qd) rq |}.

Definition allowed_chain (ch : list (Z * quota)) (w : world) (rq : request) : world * bool :=
  let '(w', b) := pop_chain ch w rq in
  if b then
    ({| st := st w'; charges := charges w'; grants := grants w';
        passes := map (mk_pass w' rq) ch ++ passes w' |}, true)
  else (w', false).

(* fixedWindow.Dec *)
Fixpoint dec_chain (ch : list (Z * quota)) (w : world) (rq : request) : world :=
  match ch with
  | [] => w
  | (q, d) :: up => dec_chain up (do_kdec (key_of q d rq) w rq) rq
  end.

(* ---------------------------------------------------------------- actions, schedules *)

Inductive action :=
| Inc (q : Z) (rq : request) (now : Z)
| Allowed (q : Z) (rq : request)
| Dec (q : Z) (rq : request)
| ResetIn (q : Z) (now : Z)
| KInc (q : Z) (rq : request) (now : Z)   (* this level only: getQuota(..).Inc *)
| KAllowed (q : Z) (rq : request)
| KDec (q : Z) (rq : request).

Inductive out := ONone | OBool (b : bool) | ORes (r : incres) | OBad.

Definition step (f : forest) (w : world) (a : action) : world * out :=
  match a with
  | Inc q rq now =>
      match chain_of f q with
      | Some ch => (inc_chain ch w rq now, ONone)
      | None => (w, OBad)
      end
  | Allowed q rq =>
      match chain_of f q with
      | Some ch => let '(w', b) := allowed_chain ch w rq in (w', OBool b)
      | None => (w, OBad)
      end
  | Dec q rq =>
      match chain_of f q with
      | Some ch => (dec_chain ch w rq, ONone)
      | None => (w, OBad)
      end
  | ResetIn q now =>
      match lookup q f with
      | Some d => (do_resetin q d w now, ONone)
      | None => (w, OBad)
      end
  | KInc q rq now =>
      match lookup q f with
      | Some d => let '(w', r) := do_kinc d (key_of q d rq) w rq now in (w', ORes r)
      | None => (w, OBad)
      end
  | KAllowed q rq =>
      match lookup q f with
      | Some d => let '(w', b) := do_kallowed (key_of q d rq) w rq in (w', OBool b)
      | None => (w, OBad)
      end
  | KDec q rq =>
      match lookup q f with
      | Some d => (do_kdec (key_of q d rq) w rq, ONone)
      | None => (w, OBad)
      end
  end.

Fixpoint run (f : forest) (w : world) (acts : list action) : world * list out :=
  match acts with
  | [] => (w, [])
  | a :: rest =>
      let '(w', o) := step f w a in
      let '(w'', os) := run f w' rest in
      (w'', o :: os)
  end.

(* clock readings along a schedule are non-decreasing *)
Definition time_of (a : action) : option Z :=
  match a with
  | Inc _ _ now | ResetIn _ now | KInc _ _ now => Some now
  | _ => None
  end.
Fixpoint clock_ok (clk : Z) (acts : list action) : Prop :=
  match acts with
  | [] => True
  | a :: rest =>
      match time_of a with
      | Some now => clk <= now /\ clock_ok now rest
      | None => clock_ok clk rest
      end
  end.

(* the limiter processor: Inc then Allowed *)
Definition limiter (q : Z) (rq : request) (now : Z) : list action :=
  [Inc q rq now; Allowed q rq].

(* one request handled alone by the engine: limiter, and on above_limit the
   GenerateResponse early return makes stream.ExecuteFlow call OnRequestDrop -> Dec *)
Definition seq_step (f : forest) (w : world) (x : Z * request * Z) : world * out :=
  let '(q, rq, now) := x in
  let '(w1, _) := step f w (Inc q rq now) in
  let '(w2, o) := step f w1 (Allowed q rq) in
  match o with
  | OBool false => (fst (step f w2 (Dec q rq)), o)
  | _ => (w2, o)
  end.

Fixpoint seq_run (f : forest) (w : world) (h : list (Z * request * Z)) : world * list out :=
  match h with
  | [] => (w, [])
  | x :: rest =>
      let '(w', o) := seq_step f w x in
      let '(w'', os) := seq_run f w' rest in
      (w'', o :: os)
  end.

(* ---------------------------------------------------------------- one clock reading per level

   fixedWindow.Inc reads the clock once per level of the chain (inside each
   quota object's AtomicIncWindow), not once per walk.  [inc_chain_t] is the
   same walk with the reading [now] for this level and the readings [later]
   for the levels above, in order; when [later] is exhausted the clock has
   stopped advancing ([hd now later] = the previous reading).
   [inc_chain ch w rq now] is [inc_chain_t ch w rq now []]. *)
Fixpoint inc_chain_t (ch : list (Z * quota)) (w : world) (rq : request) (now : Z) (later : list Z) : world :=
  match ch with
  | [] => w
  | (q, d) :: up =>
      let '(w', res) := do_kinc d (key_of q d rq) w rq now in
      match res with
      | Increased => inc_chain_t up w' rq (hd now later) (tl later)
      | _ => w'
      end
  end.

(* every key of the chain with the clock reading of its own level *)
Fixpoint with_times (ch : list (Z * quota)) (now : Z) (later : list Z) : list ((Z * quota) * Z) :=
  match ch with
  | [] => []
  | qd :: up => (qd, now) :: with_times up (hd now later) (tl later)
  end.

(* one request handled alone by the engine, with per-level clock readings *)
Definition treq := (Z * request * Z * list Z)%type.
Definition seq_step_t (f : forest) (w : world) (x : treq) : world * out :=
  let '(q, rq, now, later) := x in
  match chain_of f q with
  | Some ch =>
      let w1 := inc_chain_t ch w rq now later in
      let '(w2, b) := allowed_chain ch w1 rq in
      if b then (w2, OBool true) else (dec_chain ch w2 rq, OBool false)
  | None => (w, OBad)
  end.

Fixpoint seq_run_t (f : forest) (w : world) (h : list treq) : world * list out :=
  match h with
  | [] => (w, [])
  | x :: rest =>
      let '(w', o) := seq_step_t f w x in
      let '(w'', os) := seq_run_t f w' rest in
      (w'', o :: os)
  end.

(* the readings of one request do not decrease, and requests follow each other in time.
   [seq_clock_ok_t] threads [last later now] to the next request even when
   [later] is longer than the chain or the walk stopped before using all of it:
   readings nobody took still constrain the next request.  That only makes the
   hypothesis stronger than needed (harmless; suite engt emits such an extra
   reading for about 1 request of 8). *)
Fixpoint mono (clk : Z) (l : list Z) : Prop :=
  match l with
  | [] => True
  | t :: r => clk <= t /\ mono t r
  end.
Fixpoint seq_clock_ok_t (clk : Z) (h : list treq) : Prop :=
  match h with
  | [] => True
  | (_, _, now, later) :: rest => mono clk (now :: later) /\ seq_clock_ok_t (last later now) rest
  end.

(* sums over the ghost logs *)
Fixpoint csum (k : key) (s : Z) (l : list charge) : Z :=
  match l with
  | [] => 0
  | c :: t => if key_eqb (c_key c) k && (c_ws c =? s) then c_cost c + csum k s t else csum k s t
  end.
Fixpoint ccount (k : key) (s : Z) (l : list charge) : Z :=
  match l with
  | [] => 0
  | c :: t => if key_eqb (c_key c) k && (c_ws c =? s) then 1 + ccount k s t else ccount k s t
  end.
Fixpoint gcount (k : key) (s : Z) (l : list grant) : Z :=
  match l with
  | [] => 0
  | g :: t => if key_eqb (g_key g) k && (g_ws g =? s) then 1 + gcount k s t else gcount k s t
  end.
Fixpoint psum (k : key) (s : Z) (l : list pass) : Z :=
  match l with
  | [] => 0
  | p :: t => if key_eqb (p_key p) k && (p_ws p =? s) then p_cost p + psum k s t else psum k s t
  end.
Fixpoint pcount (k : key) (s : Z) (l : list pass) : Z :=
  match l with
  | [] => 0
  | p :: t => if key_eqb (p_key p) k && (p_ws p =? s) then 1 + pcount k s t else pcount k s t
  end.

(* "has room" on the charged counter, and on the let-through count *)
Definition has_room (w : world) (rq : request) (now : Z) (qd : Z * quota) : bool :=
  let d := snd qd in
  eff_count (q_win d) (st w (key_of (fst qd) d rq)) now + cost_of d rq <=? q_max d.

Definition eff_pass (w : world) (rq : request) (now : Z) (qd : Z * quota) : Z :=
  let d := snd qd in
  let k := key_of (fst qd) d rq in
  if expired (q_win d) (st w k) now then 0
  else match ws (st w k) with Some s => psum k s (passes w) | None => 0 end.
(* full w.r.t. the requests let through *)
Definition pass_full (w : world) (rq : request) (now : Z) (qd : Z * quota) : bool :=
  q_max (snd qd) <? eff_pass w rq now qd + cost_of (snd qd) rq.

(* decidable side condition of the F-C01 theorem: on no key of the chain does the
   stored window hold a charge of a request that was not let through *)
Definition no_phantom (w : world) (rq : request) (qd : Z * quota) : bool :=
  let k := key_of (fst qd) (snd qd) rq in
  match ws (st w k) with
  | Some s => csum k s (charges w) =? psum k s (passes w)
  | None => true
  end.

(* ---------------------------------------------------------------- F-C01, history-based

   What a request handled alone charges: the keys of its chain, each at the
   reading of its own level, up to (not including) the first key without room.
   When the request is refused, these charges - on the keys BELOW the key that
   refused it - stay booked although the request was not let through:
   [phantoms] collects them along a one-at-a-time history (newest first). *)
Definition has_room_at (w : world) (rq : request) (qt : (Z * quota) * Z) : bool :=
  has_room w rq (snd qt) (fst qt).
Definition pass_full_at (w : world) (rq : request) (qt : (Z * quota) * Z) : bool :=
  pass_full w rq (snd qt) (fst qt).

(* the window a charge made now is booked on *)
Definition stored_after (w : world) (rq : request) (qt : (Z * quota) * Z) : Z :=
  let d := snd (fst qt) in
  let ks := st w (key_of (fst (fst qt)) d rq) in
  if expired (q_win d) ks (snd qt) then snd qt / sec
  else match ws ks with Some s => s | None => snd qt / sec end.

Definition walk_charge (w : world) (rq : request) (qt : (Z * quota) * Z) : charge :=
  {| c_key := key_of (fst (fst qt)) (snd (fst qt)) rq; c_ws := stored_after w rq qt;
     c_at := snd qt; c_req := r_id rq; c_cost := cost_of (snd (fst qt)) rq |}.

Fixpoint walk_charges (w : world) (rq : request) (l : list ((Z * quota) * Z)) : list charge :=
  match l with
  | [] => []
  | qt :: up => if has_room_at w rq qt then walk_charge w rq qt :: walk_charges w rq up else []
  end.

Definition refused_charges (f : forest) (w : world) (x : treq) : list charge :=
  let '(q, rq, now, later) := x in
  match chain_of f q with
  | Some ch =>
      let l := with_times ch now later in
      if forallb (has_room_at w rq) l then [] else walk_charges w rq l
  | None => []
  end.

Fixpoint phantoms (f : forest) (w : world) (h : list treq) : list charge :=
  match h with
  | [] => []
  | x :: rest => phantoms f (fst (seq_step_t f w x)) rest ++ refused_charges f w x
  end.

(* what the phantom charges P add to the stored window of a key, at instant now *)
Definition eff_phantom (P : list charge) (w : world) (rq : request) (now : Z) (qd : Z * quota) : Z :=
  let d := snd qd in
  let k := key_of (fst qd) d rq in
  if expired (q_win d) (st w k) now then 0
  else match ws (st w k) with Some s => csum k s P | None => 0 end.

(* full once the phantom charges are added to the requests let through *)
Definition full_with_phantoms (P : list charge) (w : world) (rq : request) (now : Z) (qd : Z * quota) : bool :=
  q_max (snd qd) <? eff_pass w rq now qd + eff_phantom P w rq now qd + cost_of (snd qd) rq.
(* the finding's situation on one key: not full of requests let through, full with the phantoms *)
Definition phantom_fills (P : list charge) (w : world) (rq : request) (now : Z) (qd : Z * quota) : bool :=
  full_with_phantoms P w rq now qd && negb (pass_full w rq now qd).
Definition full_with_phantoms_at P w rq (qt : (Z * quota) * Z) := full_with_phantoms P w rq (snd qt) (fst qt).
Definition phantom_fills_at P w rq (qt : (Z * quota) * Z) := phantom_fills P w rq (snd qt) (fst qt).
Definition eff_phantom_at P w rq (qt : (Z * quota) * Z) := eff_phantom P w rq (snd qt) (fst qt).
(* side condition of the two-sided F-C01 theorem on one key: not filled by
   phantoms, and the phantoms of its window do not sum to a negative cost *)
Definition outside_decisive_phantom P w rq (qt : (Z * quota) * Z) : bool :=
  negb (phantom_fills_at P w rq qt) && (0 <=? eff_phantom_at P w rq qt).

(* a one-at-a-time history with one reading per request, as one with per-level readings *)
Definition lift_h (h : list (Z * request * Z)) : list treq := map (fun x => (x, [])) h.

(* ---------------------------------------------------------------- correspondence *)

Definition mkq (mx wsec : Z) (parent group : option Z) (custom : bool) : quota :=
  {| q_max := mx; q_win := wsec * sec; q_parent := parent; q_group := group; q_custom := custom |}.
Definition mkr (id : Z) (hdrs : list (Z * Z)) (cost : Z) : request :=
  {| r_id := id; r_hdrs := hdrs; r_cost := cost |}.

Definition incres_eqb (a b : incres) : bool :=
  match a, b with
  | AlreadyIncreased, AlreadyIncreased | Increased, Increased | Blocked, Blocked => true
  | _, _ => false
  end.
Definition out_eqb (a b : out) : bool :=
  match a, b with
  | ONone, ONone => true
  | OBool x, OBool y => eqb x y
  | ORes x, ORes y => incres_eqb x y
  | OBad, OBad => true
  | _, _ => false
  end.
Fixpoint outs_eqb (a b : list out) : bool :=
  match a, b with
  | [], [] => true
  | x :: a', y :: b' => out_eqb x y && outs_eqb a' b'
  | _, _ => false
  end.

(* UNUSED since the metrics round: no suite evaluates [run_res] / [run_eng] any
   more (suite res = Events.run_rese, suite eng = Metrics.run_engm; they reduce
   to [run] / [seq_run_t] by C01_event_frame + C01_scrape_frame and
   C01_seq_scrape_frame + C01_levels_generalise).  Nothing in /verif/theories
   or /verif/harness refers to them. *)
Definition case_res := (forest * list action * list out)%type.
Definition run_res (k : case_res) : option (list out) :=
  let '(f, acts, obs) := k in
  if negb (wf_forest f) then Some [OBad]
  else
    let m := snd (run f init acts) in
    if outs_eqb m obs then None else Some m.

Definition case_eng := (forest * list (Z * request * Z) * list bool)%type.
Definition run_eng (k : case_eng) : option (list out) :=
  let '(f, h, obs) := k in
  if negb (wf_forest f) then Some [OBad]
  else
    let m := snd (seq_run f init h) in
    if outs_eqb m (map OBool obs) then None else Some m.

(* eng suite with one clock reading per level of the chain: (quota, request,
   reading of the first level, readings of the levels above) *)
Definition case_engt := (forest * list treq * list bool)%type.
Definition run_engt (k : case_engt) : option (list out) :=
  let '(f, h, obs) := k in
  if negb (wf_forest f) then Some [OBad]
  else
    let m := snd (seq_run_t f init h) in
    if outs_eqb m (map OBool obs) then None else Some m.
