(* C01 — one request at a time with ONE CLOCK READING PER LEVEL of the chain
   (Model.inc_chain_t / seq_step_t / seq_run_t), and the history-based account of
   F-C01: the charges that are booked but belong to no request let through are
   exactly the charges left on the keys below the key that refused a request
   (Model.phantoms).  Lemmas only; the final statements are in Property.v. *)
From Coq Require Import List ZArith Bool Lia.
From Verif Require Import C01.Model C01.Proofs.
Import ListNotations.
Open Scope Z_scope.

(* ------------------------------------------------------------ readings *)

Lemma last_cons : forall (A : Type) (l : list A) a d, last (a :: l) d = last l a.
Proof.
  induction l as [|b l IH]; intros a d; [reflexivity|].
  change (last (a :: b :: l) d) with (last (b :: l) d). rewrite !IH. reflexivity.
Qed.

Lemma mono_le_last : forall l clk, mono clk l -> clk <= last l clk.
Proof.
  induction l as [|t r IH]; intros clk H; [cbn [last]; lia|].
  cbn [mono] in H. destruct H as [H1 H2]. specialize (IH t H2).
  rewrite last_cons. lia.
Qed.

Lemma mono_step : forall now later, mono now later ->
  now <= hd now later /\ mono (hd now later) (tl later) /\
  last (tl later) (hd now later) = last later now.
Proof.
  intros now [|t r] H; cbn [hd tl mono] in *.
  - repeat split; auto; lia.
  - destruct H as [H1 H2]. repeat split; auto. rewrite last_cons. reflexivity.
Qed.

Lemma with_times_in : forall ch now later qd t, In (qd, t) (with_times ch now later) -> In qd ch.
Proof.
  induction ch as [|x up IH]; intros now later qd t H; cbn [with_times] in H; [contradiction|].
  destruct H as [E|H]; [inversion E; left; reflexivity | right; eapply IH; eauto].
Qed.

Lemma with_times_nil : forall ch now, with_times ch now [] = map (fun qd => (qd, now)) ch.
Proof. induction ch as [|x up IH]; intros now; cbn [with_times map hd tl]; [reflexivity|]. rewrite IH. reflexivity. Qed.

Lemma with_times_fst : forall ch now later, map fst (with_times ch now later) = ch.
Proof. induction ch as [|x up IH]; intros; cbn [with_times map fst]; [reflexivity|]. rewrite IH. reflexivity. Qed.

(* ------------------------------------------------------------ the old walk is the new one with no later reading *)

Lemma inc_chain_t_nil : forall ch w rq now, inc_chain_t ch w rq now [] = inc_chain ch w rq now.
Proof.
  induction ch as [|[q d] up IH]; intros w rq now; cbn [inc_chain_t inc_chain hd tl]; [reflexivity|].
  destruct (do_kinc d (key_of q d rq) w rq now) as [w' res]. destruct res; auto.
Qed.

Lemma seq_step_t_nil : forall f w x, seq_step_t f w (x, []) = seq_step f w x.
Proof.
  intros f w [[q rq] now]. unfold seq_step_t, seq_step. cbn [step].
  destruct (chain_of f q) as [ch|] eqn:EC; [|reflexivity].
  rewrite inc_chain_t_nil.
  destruct (allowed_chain ch (inc_chain ch w rq now) rq) as [w2 b].
  destruct b; cbn [step fst]; rewrite ?EC; reflexivity.
Qed.

Lemma seq_run_t_lift : forall f h w, seq_run_t f w (lift_h h) = seq_run f w h.
Proof.
  induction h as [|x rest IH]; intros w; cbn [lift_h map seq_run_t seq_run]; [reflexivity|].
  rewrite seq_step_t_nil. destruct (seq_step f w x) as [w' o].
  fold (lift_h rest). rewrite IH. reflexivity.
Qed.

Lemma seq_clock_ok_lift : forall h clk, seq_clock_ok clk h -> seq_clock_ok_t clk (lift_h h).
Proof.
  induction h as [|[[q rq] now] rest IH]; intros clk H; cbn [lift_h map seq_clock_ok_t]; [exact I|].
  cbn [seq_clock_ok] in H. destruct H as [H1 H2]. cbn [mono last]. fold (lift_h rest). split; [split; [assumption|exact I]|].
  apply IH. assumption.
Qed.

(* ------------------------------------------------------------ invariants along the walk *)

Lemma inc_chain_t_inv : forall f rq ch now later clk w,
  wf_quotas f -> chain_ok f ch -> Inv f clk w -> clk <= now -> mono now later ->
  Inv f (last later now) (inc_chain_t ch w rq now later).
Proof.
  induction ch as [|[q d] up IH]; intros now later clk w Hwf Hok HI Hclk Hm; cbn [inc_chain_t].
  - eapply Inv_clk; eauto. pose proof (mono_le_last later now Hm). lia.
  - pose proof (do_kinc_inv f clk w q d rq now Hwf HI (Hok q d (or_introl eq_refl)) Hclk) as X.
    destruct (do_kinc d (key_of q d rq) w rq now) as [w' res]. cbn [fst] in X.
    pose proof (mono_le_last later now Hm) as Hl.
    destruct (mono_step now later Hm) as (M1 & M2 & M3).
    destruct res.
    + eapply Inv_clk; [exact X|lia].
    + rewrite <- M3. apply (IH (hd now later) (tl later) now w' Hwf (chain_ok_tail _ _ _ Hok) X M1 M2).
    + eapply Inv_clk; [exact X|lia].
Qed.

Lemma inc_chain_t_same : forall rq k' ch now later w,
  ~ In k' (keys_of rq ch) -> same_at k' w (inc_chain_t ch w rq now later).
Proof.
  induction ch as [|[q d] up IH]; intros now later w Hn; cbn [inc_chain_t]; [apply same_at_refl|].
  cbn [keys_of map In fst snd] in Hn.
  assert (Hne : k' <> key_of q d rq) by (intros E; apply Hn; left; auto).
  pose proof (do_kinc_same d (key_of q d rq) w rq now k' Hne) as X.
  destruct (do_kinc d (key_of q d rq) w rq now) as [w' res]. cbn [fst] in X.
  destruct res; auto.
  eapply same_at_trans; [exact X|]. apply IH. intros HIn. apply Hn. right. exact HIn.
Qed.

Lemma inc_chain_t_passes : forall rq ch now later w, passes (inc_chain_t ch w rq now later) = passes w.
Proof.
  induction ch as [|[q d] up IH]; intros now later w; cbn [inc_chain_t]; [reflexivity|].
  unfold do_kinc.
  destruct (kinc (q_max d) (q_win d) (st w (key_of q d rq)) (r_id rq) now (cost_of d rq)) as [[ks' res] chg].
  destruct res; try reflexivity. rewrite IH. reflexivity.
Qed.

(* ------------------------------------------------------------ the verdict of a lone request *)

Lemma in_keys_of : forall rq ch qd, In qd ch -> In (key_of (fst qd) (snd qd) rq) (keys_of rq ch).
Proof. intros rq ch qd H. unfold keys_of. apply (in_map (fun qd => key_of (fst qd) (snd qd) rq) ch qd H). Qed.

Lemma seq_core_t : forall rq ch now later w w1 w2 b,
  NoDup (keys_of rq ch) ->
  (forall k, In k (keys_of rq ch) -> st w1 k = st (inc_chain_t ch w rq now later) k) ->
  (forall k, In k (keys_of rq ch) -> memo (st w k) = []) ->
  pop_chain ch w1 rq = (w2, b) ->
  b = forallb (has_room_at w rq) (with_times ch now later) /\
  (forall k, In k (keys_of rq ch) -> memo (st w2 k) = []) /\
  (forall k, ~ In k (keys_of rq ch) -> st w2 k = st w1 k).
Proof.
  induction ch as [|[q d] up IH]; intros now later w w1 w2 b Hnd H1 Hm HP.
  - cbn [pop_chain] in HP. inversion HP; subst. cbn [with_times forallb keys_of map In]. repeat split; auto. intros k [].
  - cbn [keys_of map fst snd] in Hnd, H1, Hm. fold (keys_of rq up) in Hnd, H1, Hm.
    set (k0 := key_of q d rq) in *.
    inversion Hnd as [|x l Hnot Hnd' E]; subst x l.
    assert (Hm0 : memo (st w k0) = []) by (apply Hm; left; reflexivity).
    destruct (do_kinc_clean d k0 w rq now Hm0) as [Hroom Hfull].
    cbn [inc_chain_t] in H1. fold k0 in H1.
    pose proof (do_kinc_same d k0 w rq now) as Hsame.
    destruct (do_kinc d k0 w rq now) as [w' res] eqn:EK. cbn [fst snd] in *.
    cbn [pop_chain] in HP. fold k0 in HP.
    cbn [with_times forallb]. unfold has_room_at at 1, has_room. cbn [fst snd]. fold k0.
    destruct (eff_count (q_win d) (st w k0) now + cost_of d rq <=? q_max d) eqn:ER.
    + destruct (Hroom eq_refl) as [Eres Ememo]. subst res.
      assert (E0 : st w1 k0 = st w' k0).
      { rewrite (H1 k0 (or_introl eq_refl)). apply st_same. apply inc_chain_t_same. assumption. }
      unfold do_kallowed, kallowed in HP. rewrite E0, Ememo in HP. cbn [lookup] in HP.
      rewrite Z.eqb_refl in HP.
      match type of HP with pop_chain up ?W rq = _ => set (w1' := W) in * end.
      assert (Hst1' : forall k, k <> k0 -> st w1' k = st w1 k).
      { intros k Hk. unfold w1'. cbn [st]. apply upd_other; assumption. }
      assert (IHa : forall k, In k (keys_of rq up) ->
                st w1' k = st (inc_chain_t up w' rq (hd now later) (tl later)) k).
      { intros k Hk. rewrite Hst1' by (intros E; subst; contradiction). apply H1. right; assumption. }
      assert (IHb : forall k, In k (keys_of rq up) -> memo (st w' k) = []).
      { intros k Hk. rewrite (st_same k w w') by (apply Hsame; intros E; subst; contradiction).
        apply Hm. right; assumption. }
      destruct (IH (hd now later) (tl later) w' w1' w2 b Hnd' IHa IHb HP) as (A & B & C).
      cbn [andb]. repeat split.
      * rewrite A. apply forallb_ext_in. intros [[q' d'] t'] HIn. unfold has_room_at, has_room. cbn [fst snd].
        rewrite (st_same (key_of q' d' rq) w w'); [reflexivity|].
        apply Hsame. intros E. apply Hnot. rewrite <- E.
        apply (in_keys_of rq up (q', d')). eapply with_times_in; eauto.
      * intros k [Hk|Hk]; [|apply B; assumption]. cbn [fst snd] in Hk. fold k0 in Hk. subst k.
        rewrite (C k0 Hnot). unfold w1'. cbn [st]. rewrite upd_same. cbn [memo mremove filter fst].
        rewrite Z.eqb_refl. reflexivity.
      * intros k Hk. rewrite C by (intros X; apply Hk; right; assumption).
        apply Hst1'. intros E; apply Hk; left; auto.
    + destruct (Hfull eq_refl) as [Eres Ememo]. subst res.
      assert (E0 : st w1 k0 = st w' k0) by (apply H1; left; reflexivity).
      cbn [andb].
      assert (Hb : b = false /\ memo (st w2 k0) = [] /\ forall k, k <> k0 -> st w2 k = st w1 k).
      { unfold do_kallowed, kallowed in HP. rewrite E0 in HP.
        destruct Ememo as [Em|Em]; rewrite Em in HP; cbn [lookup] in HP.
        - inversion HP; subst. cbn [st]. rewrite upd_same. repeat split; auto.
          intros k Hk. apply upd_other; assumption.
        - rewrite Z.eqb_refl in HP. inversion HP; subst. cbn [st]. rewrite upd_same. cbn [memo mremove filter fst].
          rewrite Z.eqb_refl. repeat split; auto. intros k Hk. apply upd_other; assumption. }
      destruct Hb as (Hb & Hk0 & Hoth). repeat split; auto.
      * intros k [Hk|Hk]; [cbn [fst snd] in Hk; fold k0 in Hk; subst k; assumption|].
        assert (k <> k0) by (intros E; subst; contradiction).
        rewrite Hoth by assumption. rewrite H1 by (right; assumption).
        rewrite (st_same k w w') by (apply Hsame; assumption). apply Hm. right; assumption.
      * intros k Hk. apply Hoth. intros E; apply Hk; left; auto.
Qed.

Lemma seq_step_t_exact : forall f w q rq now later ch,
  wf_forest f = true -> chain_of f q = Some ch -> Clean w ->
  snd (seq_step_t f w (q, rq, now, later)) =
    OBool (forallb (has_room_at w rq) (with_times ch now later)) /\
  Clean (fst (seq_step_t f w (q, rq, now, later))).
Proof.
  intros f w q rq now later ch Hwf EC Hc.
  pose proof (keys_nodup rq ch (wf_forest_chain_nodup f q ch Hwf EC)) as Hnd.
  unfold seq_step_t. rewrite EC. unfold allowed_chain.
  destruct (pop_chain ch (inc_chain_t ch w rq now later) rq) as [w2 b] eqn:EP.
  destruct (seq_core_t rq ch now later w (inc_chain_t ch w rq now later) w2 b Hnd (fun _ _ => eq_refl)
              (fun k _ => Hc k) EP) as (A & B & C).
  assert (Hc2 : Clean w2).
  { intros k. destruct (in_dec key_eq_dec k (keys_of rq ch)) as [HIn|HIn].
    - apply B; assumption.
    - rewrite (C k HIn). rewrite (st_same k w (inc_chain_t ch w rq now later)) by (apply inc_chain_t_same; assumption).
      apply Hc. }
  destruct b; cbn [fst snd].
  - split; [rewrite A; reflexivity|]. intros k. cbn [st]. apply Hc2.
  - split; [rewrite A; reflexivity|]. apply dec_chain_clean; assumption.
Qed.

Lemma seq_step_t_unknown : forall f w q rq now later,
  chain_of f q = None -> seq_step_t f w (q, rq, now, later) = (w, OBad).
Proof. intros f w q rq now later E. unfold seq_step_t. rewrite E. reflexivity. Qed.

Lemma seq_step_t_clean : forall f w x, wf_forest f = true -> Clean w -> Clean (fst (seq_step_t f w x)).
Proof.
  intros f w [[[q rq] now] later] Hwf Hc.
  destruct (chain_of f q) as [ch|] eqn:EC.
  - apply (seq_step_t_exact f w q rq now later ch Hwf EC Hc).
  - rewrite seq_step_t_unknown by assumption. assumption.
Qed.

Lemma seq_run_t_clean : forall f h w, wf_forest f = true -> Clean w -> Clean (fst (seq_run_t f w h)).
Proof.
  induction h as [|x rest IH]; intros w Hwf Hc; cbn [seq_run_t]; [assumption|].
  pose proof (seq_step_t_clean f w x Hwf Hc) as Hc'.
  destruct (seq_step_t f w x) as [w' o]. cbn [fst] in Hc'.
  specialize (IH w' Hwf Hc'). destruct (seq_run_t f w' rest) as [w'' os]. exact IH.
Qed.

Lemma seq_step_t_inv : forall f clk w q rq now later,
  wf_forest f = true -> Inv f clk w -> mono clk (now :: later) ->
  Inv f (last later now) (fst (seq_step_t f w (q, rq, now, later))).
Proof.
  intros f clk w q rq now later Hwf HI Hm. cbn [mono] in Hm. destruct Hm as [Hle Hm].
  unfold seq_step_t.
  destruct (chain_of f q) as [ch|] eqn:EC; cbn [fst].
  - pose proof (inc_chain_t_inv f rq ch now later clk w (wf_forest_quotas f Hwf) (chain_of_ok _ _ _ EC) HI Hle Hm) as X1.
    pose proof (allowed_chain_inv f rq ch _ _ (chain_of_ok _ _ _ EC) X1) as X2.
    destruct (allowed_chain ch (inc_chain_t ch w rq now later) rq) as [w2 b]. cbn [fst] in X2.
    destruct b; cbn [fst]; [assumption|]. apply dec_chain_inv; assumption.
  - eapply Inv_clk; eauto. pose proof (mono_le_last later now Hm). lia.
Qed.

Lemma seq_run_t_inv : forall f h clk w,
  wf_forest f = true -> Inv f clk w -> seq_clock_ok_t clk h ->
  exists clk', Inv f clk' (fst (seq_run_t f w h)).
Proof.
  induction h as [|[[[q rq] now] later] rest IH]; intros clk w Hwf HI Hc; cbn [seq_run_t].
  - exists clk. assumption.
  - cbn [seq_clock_ok_t] in Hc. destruct Hc as [Hm Hc].
    pose proof (seq_step_t_inv f clk w q rq now later Hwf HI Hm) as X.
    destruct (seq_step_t f w (q, rq, now, later)) as [w' o]. cbn [fst] in X.
    destruct (IH _ w' Hwf X Hc) as (clk' & Y).
    destruct (seq_run_t f w' rest) as [w'' os]. exists clk'. exact Y.
Qed.

(* ------------------------------------------------------------ the charges of a lone request *)

Lemma walk_charges_ext : forall rq l w w',
  (forall qt, In qt l -> st w' (key_of (fst (fst qt)) (snd (fst qt)) rq) = st w (key_of (fst (fst qt)) (snd (fst qt)) rq)) ->
  walk_charges w' rq l = walk_charges w rq l.
Proof.
  induction l as [|qt up IH]; intros w w' H; cbn [walk_charges]; [reflexivity|].
  unfold has_room_at, has_room, walk_charge, stored_after.
  rewrite (H qt (or_introl eq_refl)).
  rewrite (IH w w') by (intros; apply H; right; assumption). reflexivity.
Qed.

Lemma inc_chain_t_room : forall rq ch now later w,
  NoDup (keys_of rq ch) -> (forall k, In k (keys_of rq ch) -> memo (st w k) = []) ->
  let w1 := inc_chain_t ch w rq now later in
  let l := with_times ch now later in
  charges w1 = rev (walk_charges w rq l) ++ charges w /\
  (forallb (has_room_at w rq) l = true ->
   forall qt, In qt l -> ws (st w1 (key_of (fst (fst qt)) (snd (fst qt)) rq)) = Some (stored_after w rq qt)).
Proof.
  induction ch as [|[q d] up IH]; intros now later w Hnd Hm; cbn zeta.
  - cbn [inc_chain_t with_times walk_charges rev app]. split; [reflexivity|]. intros _ qt [].
  - cbn [keys_of map fst snd] in Hnd, Hm. fold (keys_of rq up) in Hnd, Hm.
    set (k0 := key_of q d rq) in *.
    inversion Hnd as [|x l Hnot Hnd' E]; subst x l.
    assert (Hm0 : memo (st w k0) = []) by (apply Hm; left; reflexivity).
    cbn [inc_chain_t with_times walk_charges forallb]. fold k0.
    change (has_room_at w rq (q, d, now)) with (eff_count (q_win d) (st w k0) now + cost_of d rq <=? q_max d).
    destruct (do_kinc_clean d k0 w rq now Hm0) as [Hroom Hfull].
    pose proof (do_kinc_same d k0 w rq now) as Hsame.
    destruct (eff_count (q_win d) (st w k0) now + cost_of d rq <=? q_max d) eqn:ER.
    + destruct (do_kinc_room d k0 w rq now Hm0 ER) as [Ec Ews].
      destruct (Hroom eq_refl) as [Eres _].
      destruct (do_kinc d k0 w rq now) as [w' res]. cbn [fst snd] in *. subst res.
      assert (Hst : forall k, In k (keys_of rq up) -> st w' k = st w k).
      { intros k Hk. apply st_same. apply Hsame. intros E; subst; contradiction. }
      assert (Hst' : forall qt, In qt (with_times up (hd now later) (tl later)) ->
                st w' (key_of (fst (fst qt)) (snd (fst qt)) rq) = st w (key_of (fst (fst qt)) (snd (fst qt)) rq)).
      { intros [qd t] HIn. apply Hst. apply in_keys_of. eapply with_times_in; eauto. }
      assert (Hm' : forall k, In k (keys_of rq up) -> memo (st w' k) = []).
      { intros k Hk. rewrite Hst by assumption. apply Hm. right; assumption. }
      destruct (IH (hd now later) (tl later) w' Hnd' Hm') as [A B].
      rewrite (walk_charges_ext rq _ w w' Hst') in A.
      split.
      * rewrite A, Ec. cbn [rev]. rewrite <- app_assoc. reflexivity.
      * cbn [andb]. intros Hall qt [E|HIn].
        -- subst qt. cbn [fst snd]. fold k0.
           rewrite (st_same k0 w' (inc_chain_t up w' rq (hd now later) (tl later)))
             by (apply inc_chain_t_same; assumption).
           rewrite Ews. reflexivity.
        -- assert (Hall' : forallb (has_room_at w' rq) (with_times up (hd now later) (tl later)) = true).
           { rewrite <- Hall. apply forallb_ext_in. intros qt' HI'. unfold has_room_at, has_room.
             rewrite (Hst' qt' HI'). reflexivity. }
           rewrite (B Hall' qt HIn). unfold stored_after. rewrite (Hst' qt HIn). reflexivity.
    + pose proof (do_kinc_full d k0 w rq now Hm0 ER) as Ec.
      destruct (Hfull eq_refl) as [Eres _].
      destruct (do_kinc d k0 w rq now) as [w' res]. cbn [fst snd] in *. subst res.
      cbn [rev app andb]. split; [assumption|discriminate].
Qed.

Lemma walk_charges_all : forall rq w l,
  forallb (has_room_at w rq) l = true -> walk_charges w rq l = map (walk_charge w rq) l.
Proof.
  induction l as [|qt up IH]; intros H; cbn [walk_charges map]; [reflexivity|].
  cbn [forallb] in H. apply andb_true_iff in H. destruct H as [H1 H2].
  rewrite H1, (IH H2). reflexivity.
Qed.

Lemma psum_passes_walk : forall rq k s w w2 ch now later,
  (forall qt, In qt (with_times ch now later) ->
     ws_or0 (st w2 (key_of (fst (fst qt)) (snd (fst qt)) rq)) = stored_after w rq qt) ->
  psum k s (map (mk_pass w2 rq) ch) = csum k s (map (walk_charge w rq) (with_times ch now later)).
Proof.
  induction ch as [|qd up IH]; intros now later H; cbn [with_times map psum csum]; [reflexivity|].
  cbn [mk_pass walk_charge p_key p_ws p_cost c_key c_ws c_cost fst snd].
  pose proof (H (qd, now) (or_introl eq_refl)) as X. cbn [fst snd] in X. rewrite X.
  rewrite (IH (hd now later) (tl later)) by (intros; apply H; right; assumption).
  reflexivity.
Qed.

(* the charges of a refused request: on keys that had room, below a key that had none *)
Lemma walk_charges_blocked : forall rq w l,
  forallb (has_room_at w rq) l = false ->
  forall c, In c (walk_charges w rq l) ->
  exists pre qt mid qa post,
    l = pre ++ qt :: mid ++ qa :: post /\ c = walk_charge w rq qt /\
    forallb (has_room_at w rq) (pre ++ qt :: mid) = true /\ has_room_at w rq qa = false.
Proof.
  induction l as [|qt0 up IH]; intros H c HIn; cbn [walk_charges] in HIn; [contradiction|].
  cbn [forallb] in H. destruct (has_room_at w rq qt0) eqn:ER; [|contradiction].
  cbn [andb] in H. destruct HIn as [E|HIn].
  - subst c. clear IH.
    assert (X : exists mid qa post, up = mid ++ qa :: post /\
              forallb (has_room_at w rq) mid = true /\ has_room_at w rq qa = false).
    { clear ER. induction up as [|y up IHu]; cbn [forallb] in H; [discriminate|].
      destruct (has_room_at w rq y) eqn:EY.
      - cbn [andb] in H. destruct (IHu H) as (mid & qa & post & E1 & E2 & E3).
        exists (y :: mid), qa, post. subst up. cbn [forallb app]. rewrite EY, E2. auto.
      - exists [], y, up. cbn [forallb app]. auto. }
    destruct X as (mid & qa & post & E1 & E2 & E3).
    exists [], qt0, mid, qa, post. cbn [app forallb]. rewrite ER, E2, E1. auto.
  - destruct (IH H c HIn) as (pre & qt & mid & qa & post & E1 & E2 & E3 & E4).
    exists (qt0 :: pre), qt, mid, qa, post. subst up. cbn [app forallb]. rewrite ER, E3. auto.
Qed.

(* ------------------------------------------------------------ booked = let through + phantoms *)

Definition PhInv (w : world) (P : list charge) : Prop :=
  forall k s, csum k s (charges w) = psum k s (passes w) + csum k s P.

Lemma PhInv_init : PhInv init [].
Proof. intros k s. reflexivity. Qed.

Lemma seq_step_t_ph : forall f w x P,
  wf_forest f = true -> Clean w -> PhInv w P ->
  PhInv (fst (seq_step_t f w x)) (refused_charges f w x ++ P).
Proof.
  intros f w [[[q rq] now] later] P Hwf Hc HR k s.
  unfold refused_charges.
  destruct (chain_of f q) as [ch|] eqn:EC.
  2:{ rewrite seq_step_t_unknown by assumption. cbn [fst app]. apply HR. }
  pose proof (keys_nodup rq ch (wf_forest_chain_nodup f q ch Hwf EC)) as Hnd.
  destruct (inc_chain_t_room rq ch now later w Hnd (fun k _ => Hc k)) as [Ech Ews].
  unfold seq_step_t. rewrite EC. unfold allowed_chain.
  destruct (pop_chain ch (inc_chain_t ch w rq now later) rq) as [w2 b] eqn:EP.
  destruct (seq_core_t rq ch now later w (inc_chain_t ch w rq now later) w2 b Hnd (fun _ _ => eq_refl)
              (fun k _ => Hc k) EP) as (A & _ & _).
  rewrite <- A.
  destruct b; cbn [fst snd app].
  - destruct (pop_chain_true _ _ _ _ EP) as (Pws & Pch & Ppa & _).
    cbn [charges passes]. rewrite Pch, Ppa, inc_chain_t_passes, Ech, csum_app, psum_app, csum_rev, (HR k s).
    rewrite (walk_charges_all rq w _ (eq_sym A)).
    rewrite (psum_passes_walk rq k s w w2 ch now later); [lia|].
    intros qt HIn. unfold ws_or0. rewrite Pws, (Ews (eq_sym A) qt HIn). reflexivity.
  - destruct (dec_chain_logs rq ch w2) as [Dc Dp]. rewrite Dc, Dp.
    pose proof (pop_chain_charges rq ch (inc_chain_t ch w rq now later)) as [Pc Pp].
    rewrite EP in Pc, Pp. cbn [fst snd] in Pc, Pp. rewrite Pc, (Pp eq_refl).
    rewrite inc_chain_t_passes, Ech, !csum_app, csum_rev, (HR k s). lia.
Qed.

Lemma seq_run_t_ph : forall f h w P,
  wf_forest f = true -> Clean w -> PhInv w P ->
  PhInv (fst (seq_run_t f w h)) (phantoms f w h ++ P).
Proof.
  induction h as [|x rest IH]; intros w P Hwf Hc HR; cbn [seq_run_t phantoms app]; [assumption|].
  pose proof (seq_step_t_clean f w x Hwf Hc) as Hc'.
  pose proof (seq_step_t_ph f w x P Hwf Hc HR) as HR'.
  destruct (seq_step_t f w x) as [w' o]. cbn [fst] in *.
  specialize (IH w' _ Hwf Hc' HR'). destruct (seq_run_t f w' rest) as [w'' os].
  cbn [fst] in *. rewrite <- app_assoc. exact IH.
Qed.

(* where a phantom charge comes from *)
Lemma phantoms_origin : forall f h w c, In c (phantoms f w h) ->
  exists h1 x h2, h = h1 ++ x :: h2 /\ In c (refused_charges f (fst (seq_run_t f w h1)) x).
Proof.
  induction h as [|x rest IH]; intros w c HIn; cbn [phantoms] in HIn; [contradiction|].
  apply in_app_or in HIn. destruct HIn as [HIn|HIn].
  - destruct (IH _ c HIn) as (h1 & y & h2 & E1 & E2).
    exists (x :: h1), y, h2. subst rest. split; [reflexivity|].
    cbn [seq_run_t]. destruct (seq_step_t f w x) as [w' o]. cbn [fst] in *.
    destruct (seq_run_t f w' h1) as [w'' os]. exact E2.
  - exists [], x, rest. split; [reflexivity|exact HIn].
Qed.

Lemma phantoms_complete : forall f h1 x h2 w c,
  In c (refused_charges f (fst (seq_run_t f w h1)) x) -> In c (phantoms f w (h1 ++ x :: h2)).
Proof.
  induction h1 as [|y h1 IH]; intros x h2 w c HIn; cbn [app phantoms seq_run_t] in *.
  - apply in_or_app. right. exact HIn.
  - apply in_or_app. left. destruct (seq_step_t f w y) as [w' o]. cbn [fst].
    apply IH. destruct (seq_run_t f w' h1) as [w'' os]. exact HIn.
Qed.

(* ------------------------------------------------------------ exactness with the phantoms *)

Lemma csum_nonneg : forall k s l, (forall c, In c l -> 0 <= c_cost c) -> 0 <= csum k s l.
Proof.
  induction l as [|c l IH]; intros H; cbn [csum]; [lia|].
  pose proof (H c (or_introl eq_refl)). specialize (IH (fun c' Hc' => H c' (or_intror Hc'))).
  destruct (_ && _); lia.
Qed.

Lemma room_iff_not_full_ph : forall f clk w P rq now q d,
  Inv f clk w -> PhInv w P -> lookup q f = Some d ->
  has_room w rq now (q, d) = negb (full_with_phantoms P w rq now (q, d)).
Proof.
  intros f clk w P rq now q d HI HR HL.
  unfold has_room, full_with_phantoms, eff_pass, eff_phantom, eff_count. cbn [fst snd].
  set (k := key_of q d rq) in *.
  specialize (HI k d HL). destruct HI as [H1 H2 _ _ _ _ _ _].
  rewrite Z.ltb_antisym, negb_involutive.
  destruct (expired (q_win d) (st w k) now); [reflexivity|].
  destruct (ws (st w k)) as [s|] eqn:EW.
  - destruct (H2 s eq_refl) as (A & _).
    unfold chk in A. rewrite csum_filter in A. rewrite <- A, (HR k s). reflexivity.
  - destruct (H1 eq_refl) as (A & _). rewrite A. reflexivity.
Qed.

Lemma exact_with_phantoms : forall f clk w P q rq now later ch,
  wf_forest f = true -> chain_of f q = Some ch -> Clean w -> Inv f clk w -> PhInv w P ->
  snd (seq_step_t f w (q, rq, now, later)) =
    OBool (negb (existsb (full_with_phantoms_at P w rq) (with_times ch now later))).
Proof.
  intros f clk w P q rq now later ch Hwf EC Hc HI HR.
  destruct (seq_step_t_exact f w q rq now later ch Hwf EC Hc) as [E _]. rewrite E. f_equal.
  rewrite <- forallb_negb_existsb. apply forallb_ext_in. intros [[q' d'] t'] HIn.
  unfold has_room_at, full_with_phantoms_at. cbn [fst snd].
  eapply room_iff_not_full_ph; eauto.
  eapply chain_of_ok; eauto. eapply with_times_in; eauto.
Qed.

Lemma existsb_false_forall : forall (A : Type) (g : A -> bool) l,
  existsb g l = false -> forall x, In x l -> g x = false.
Proof.
  intros A g l H x HIn. destruct (g x) eqn:E; [|reflexivity].
  assert (existsb g l = true) by (apply existsb_exists; exists x; auto). congruence.
Qed.

(* no_phantom (the old, state-based side condition) makes the phantoms of the key vanish *)
Lemma no_phantom_eff_phantom : forall w P rq now qd,
  PhInv w P -> no_phantom w rq qd = true -> eff_phantom P w rq now qd = 0.
Proof.
  intros w P rq now qd HR Hp. unfold eff_phantom, no_phantom in *.
  destruct (expired _ _ _); [reflexivity|].
  destruct (ws (st w (key_of (fst qd) (snd qd) rq))) as [s|]; [|reflexivity].
  apply Z.eqb_eq in Hp. pose proof (HR (key_of (fst qd) (snd qd) rq) s). lia.
Qed.

(* ------------------------------------------------------------ final lemmas (stated in Property.v) *)

Lemma exact_sequential_levels : forall f hist q rq now later ch,
  wf_forest f = true -> chain_of f q = Some ch ->
  let w := fst (seq_run_t f init hist) in
  let l := with_times ch now later in
  snd (seq_step_t f w (q, rq, now, later)) = OBool (forallb (has_room_at w rq) l) /\
  (snd (seq_step_t f w (q, rq, now, later)) = OBool false <->
   exists qd t, In (qd, t) l /\
     q_max (snd qd) < eff_count (q_win (snd qd)) (st w (key_of (fst qd) (snd qd) rq)) t
                      + cost_of (snd qd) rq).
Proof.
  intros f hist q rq now later ch Hwf EC w l.
  destruct (seq_step_t_exact f w q rq now later ch Hwf EC (seq_run_t_clean f hist init Hwf Clean_init)) as [E _].
  fold l in E. split; [exact E|]. rewrite E. split.
  - intros H. injection H as H.
    destruct (forallb_false_exists _ _ _ H) as [[qd t] [HIn EX]].
    exists qd, t. split; [assumption|]. unfold has_room_at, has_room in EX. cbn [fst snd] in EX.
    apply Z.leb_gt in EX. exact EX.
  - intros (qd & t & HIn & Hlt). f_equal.
    destruct (forallb (has_room_at w rq) l) eqn:EF; [|reflexivity].
    rewrite forallb_forall in EF. specialize (EF (qd, t) HIn). unfold has_room_at, has_room in EF.
    cbn [fst snd] in EF. apply Z.leb_le in EF. lia.
Qed.

Lemma booked_is_let_through_plus_phantoms : forall f hist,
  wf_forest f = true ->
  let w := fst (seq_run_t f init hist) in
  forall k s, csum k s (charges w) = psum k s (passes w) + csum k s (phantoms f init hist).
Proof.
  intros f hist Hwf w k s.
  pose proof (seq_run_t_ph f hist init [] Hwf Clean_init PhInv_init k s) as X.
  rewrite app_nil_r in X. exact X.
Qed.

Lemma walk_charges_prefix : forall rq w pre qt rest,
  forallb (has_room_at w rq) (pre ++ [qt]) = true ->
  In (walk_charge w rq qt) (walk_charges w rq (pre ++ qt :: rest)).
Proof.
  induction pre as [|y pre IH]; intros qt rest H; cbn [app forallb walk_charges] in *.
  - rewrite andb_true_r in H. rewrite H. left; reflexivity.
  - apply andb_true_iff in H. destruct H as [H1 H2]. rewrite H1. right. apply IH; assumption.
Qed.

Lemma phantoms_are_ancestor_refusals : forall f hist c,
  wf_forest f = true ->
  (In c (phantoms f init hist) <->
   exists h1 q rq now later h2 ch pre qt mid qa post,
     hist = h1 ++ (q, rq, now, later) :: h2 /\ chain_of f q = Some ch /\
     let w1 := fst (seq_run_t f init h1) in
     snd (seq_step_t f w1 (q, rq, now, later)) = OBool false /\
     with_times ch now later = pre ++ qt :: mid ++ qa :: post /\
     forallb (has_room_at w1 rq) (pre ++ qt :: mid) = true /\ has_room_at w1 rq qa = false /\
     c = walk_charge w1 rq qt).
Proof.
  intros f hist c Hwf. split.
  - intros HIn. destruct (phantoms_origin f hist init c HIn) as (h1 & [[[q rq] now] later] & h2 & E1 & E2).
    unfold refused_charges in E2.
    destruct (chain_of f q) as [ch|] eqn:EC; [|contradiction].
    set (w1 := fst (seq_run_t f init h1)) in *.
    destruct (forallb (has_room_at w1 rq) (with_times ch now later)) eqn:EF; [contradiction|].
    destruct (walk_charges_blocked rq w1 _ EF c E2) as (pre & qt & mid & qa & post & A1 & A2 & A3 & A4).
    exists h1, q, rq, now, later, h2, ch, pre, qt, mid, qa, post.
    cbv zeta. fold w1. split; [assumption|]. split; [assumption|]. split.
    { destruct (seq_step_t_exact f w1 q rq now later ch Hwf EC (seq_run_t_clean f h1 init Hwf Clean_init)) as [E _].
      rewrite E, EF. reflexivity. }
    repeat split; auto.
  - intros (h1 & q & rq & now & later & h2 & ch & pre & qt & mid & qa & post & E1 & EC & _ & E3 & E4 & E5 & E6).
    subst hist. apply phantoms_complete. unfold refused_charges. rewrite EC.
    set (w1 := fst (seq_run_t f init h1)) in *. rewrite E3.
    assert (EF : forallb (has_room_at w1 rq) (pre ++ qt :: mid ++ qa :: post) = false).
    { replace (pre ++ qt :: mid ++ qa :: post) with ((pre ++ qt :: mid) ++ qa :: post)
        by (rewrite <- app_assoc; reflexivity).
      rewrite forallb_app. cbn [forallb]. rewrite E5. apply andb_false_r. }
    rewrite EF. subst c. apply walk_charges_prefix.
    replace (pre ++ qt :: mid) with ((pre ++ [qt]) ++ mid) in E4 by (rewrite <- app_assoc; reflexivity).
    rewrite forallb_app in E4. apply andb_true_iff in E4. tauto.
Qed.

Lemma seq_ctx : forall f hist clk0, wf_forest f = true -> seq_clock_ok_t clk0 hist ->
  let w := fst (seq_run_t f init hist) in
  Clean w /\ (exists clk, Inv f clk w) /\ PhInv w (phantoms f init hist).
Proof.
  intros f hist clk0 Hwf Hc w. split; [|split].
  - apply seq_run_t_clean; [assumption|apply Clean_init].
  - apply (seq_run_t_inv f hist clk0 init Hwf (Inv_init f clk0 (wf_forest_quotas f Hwf)) Hc).
  - pose proof (seq_run_t_ph f hist init [] Hwf Clean_init PhInv_init) as X.
    rewrite app_nil_r in X. exact X.
Qed.

Lemma exact_sequential_with_phantoms : forall f hist clk0 q rq now later ch,
  wf_forest f = true -> seq_clock_ok_t clk0 hist -> chain_of f q = Some ch ->
  let w := fst (seq_run_t f init hist) in
  let P := phantoms f init hist in
  let l := with_times ch now later in
  snd (seq_step_t f w (q, rq, now, later)) = OBool (negb (existsb (full_with_phantoms_at P w rq) l)) /\
  (snd (seq_step_t f w (q, rq, now, later)) = OBool false <->
   exists qd t, In (qd, t) l /\
     q_max (snd qd) < eff_pass w rq t qd + eff_phantom P w rq t qd + cost_of (snd qd) rq).
Proof.
  intros f hist clk0 q rq now later ch Hwf Hc EC w P l.
  destruct (seq_ctx f hist clk0 Hwf Hc) as (Hcl & [clk HI] & HR). fold w in Hcl, HI, HR. fold P in HR.
  pose proof (exact_with_phantoms f clk w P q rq now later ch Hwf EC Hcl HI HR) as E. fold l in E.
  split; [exact E|]. rewrite E. split.
  - intros H. injection H as H. apply negb_false_iff in H. apply existsb_exists in H.
    destruct H as [[qd t] [HIn HF]]. exists qd, t. split; [assumption|].
    unfold full_with_phantoms_at, full_with_phantoms in HF. cbn [fst snd] in HF. apply Z.ltb_lt in HF. exact HF.
  - intros (qd & t & HIn & Hlt). f_equal. apply negb_false_iff. apply existsb_exists.
    exists (qd, t). split; [assumption|]. unfold full_with_phantoms_at, full_with_phantoms. cbn [fst snd].
    apply Z.ltb_lt. exact Hlt.
Qed.

Lemma spurious_refusal_iff_decisive_phantom : forall f hist clk0 q rq now later ch,
  wf_forest f = true -> seq_clock_ok_t clk0 hist -> chain_of f q = Some ch ->
  let w := fst (seq_run_t f init hist) in
  let P := phantoms f init hist in
  let l := with_times ch now later in
  (snd (seq_step_t f w (q, rq, now, later)) = OBool false /\ existsb (pass_full_at w rq) l = false) <->
  (existsb (pass_full_at w rq) l = false /\ existsb (phantom_fills_at P w rq) l = true).
Proof.
  intros f hist clk0 q rq now later ch Hwf Hc EC w P l.
  destruct (exact_sequential_with_phantoms f hist clk0 q rq now later ch Hwf Hc EC) as [E _].
  fold w P l in E. rewrite E. split.
  - intros [H1 H2]. split; [assumption|]. injection H1 as H1. apply negb_false_iff in H1.
    apply existsb_exists in H1. destruct H1 as [qt [HIn HF]].
    apply existsb_exists. exists qt. split; [assumption|].
    unfold phantom_fills_at, phantom_fills. unfold full_with_phantoms_at in HF. rewrite HF.
    pose proof (existsb_false_forall _ _ _ H2 qt HIn) as X. unfold pass_full_at in X. rewrite X. reflexivity.
  - intros [H2 H1]. split; [|assumption]. f_equal. apply negb_false_iff.
    apply existsb_exists in H1. destruct H1 as [qt [HIn HF]].
    apply existsb_exists. exists qt. split; [assumption|].
    unfold phantom_fills_at, phantom_fills in HF. apply andb_true_iff in HF. apply HF.
Qed.

Lemma holds_outside_decisive_phantom : forall f hist clk0 q rq now later ch,
  wf_forest f = true -> seq_clock_ok_t clk0 hist -> chain_of f q = Some ch ->
  let w := fst (seq_run_t f init hist) in
  let P := phantoms f init hist in
  let l := with_times ch now later in
  forallb (outside_decisive_phantom P w rq) l = true ->
  snd (seq_step_t f w (q, rq, now, later)) = OBool (negb (existsb (pass_full_at w rq) l)).
Proof.
  intros f hist clk0 q rq now later ch Hwf Hc EC w P l Hs.
  destruct (exact_sequential_with_phantoms f hist clk0 q rq now later ch Hwf Hc EC) as [E _].
  fold w P l in E. rewrite E. do 2 f_equal.
  clear E. induction l as [|qt l IH]; cbn [existsb forallb] in *; [reflexivity|].
  apply andb_true_iff in Hs. destruct Hs as [H1 H2]. rewrite (IH H2). f_equal.
  unfold outside_decisive_phantom, phantom_fills_at, phantom_fills, eff_phantom_at in H1.
  apply andb_true_iff in H1. destruct H1 as [H1 H3]. apply Z.leb_le in H3.
  unfold full_with_phantoms_at, pass_full_at in *.
  destruct (pass_full w rq (snd qt) (fst qt)) eqn:EPF.
  - unfold full_with_phantoms. unfold pass_full in EPF. apply Z.ltb_lt in EPF. apply Z.ltb_lt. lia.
  - rewrite andb_true_r in H1. apply negb_true_iff in H1. exact H1.
Qed.

Lemma refused_only_if_full_outside_decisive_phantom : forall f hist clk0 q rq now later ch,
  wf_forest f = true -> seq_clock_ok_t clk0 hist -> chain_of f q = Some ch ->
  let w := fst (seq_run_t f init hist) in
  let P := phantoms f init hist in
  let l := with_times ch now later in
  existsb (phantom_fills_at P w rq) l = false ->
  snd (seq_step_t f w (q, rq, now, later)) = OBool false ->
  existsb (pass_full_at w rq) l = true.
Proof.
  intros f hist clk0 q rq now later ch Hwf Hc EC w P l Hs Hv.
  destruct (existsb (pass_full_at w rq) l) eqn:EP; [reflexivity|].
  destruct (spurious_refusal_iff_decisive_phantom f hist clk0 q rq now later ch Hwf Hc EC) as [X _].
  fold w P l in X. destruct (X (conj Hv EP)) as [_ Y]. congruence.
Qed.

(* the old side condition implies the new one *)
Lemma no_phantom_outside_decisive : forall f hist q rq now later ch,
  wf_forest f = true -> chain_of f q = Some ch ->
  let w := fst (seq_run_t f init hist) in
  let P := phantoms f init hist in
  forallb (no_phantom w rq) ch = true ->
  forallb (outside_decisive_phantom P w rq) (with_times ch now later) = true.
Proof.
  intros f hist q rq now later ch Hwf EC w P Hn.
  pose proof (booked_is_let_through_plus_phantoms f hist Hwf) as HR. fold w P in HR.
  apply forallb_forall. intros [qd t] HIn. rewrite forallb_forall in Hn.
  specialize (Hn qd (with_times_in _ _ _ _ _ HIn)).
  pose proof (no_phantom_eff_phantom w P rq t qd HR Hn) as E0.
  unfold outside_decisive_phantom, phantom_fills_at, phantom_fills, full_with_phantoms_at, full_with_phantoms,
    eff_phantom_at. cbn [fst snd]. rewrite E0, Z.add_0_r. fold (pass_full w rq t qd).
  destruct (pass_full w rq t qd); reflexivity.
Qed.

(* phantom charges have the cost of their request; non-negative costs give non-negative phantoms *)
Lemma phantoms_cost : forall f hist c, In c (phantoms f init hist) ->
  exists q rq now later d, In (q, rq, now, later) hist /\ c_req c = r_id rq /\ c_cost c = cost_of d rq.
Proof.
  intros f hist c HIn.
  destruct (phantoms_origin f hist init c HIn) as (h1 & [[[q rq] now] later] & h2 & E1 & E2).
  unfold refused_charges in E2. destruct (chain_of f q) as [ch|]; [|contradiction].
  destruct (forallb _ _); [contradiction|].
  assert (X : forall w l, In c (walk_charges w rq l) -> exists qt, c = walk_charge w rq qt).
  { intros w l. induction l as [|qt l IH]; cbn [walk_charges]; [contradiction|].
    destruct (has_room_at w rq qt); [|contradiction]. intros [E|H]; [exists qt; auto | auto]. }
  destruct (X _ _ E2) as [qt E]. exists q, rq, now, later, (snd (fst qt)). subst c hist.
  repeat split. apply in_or_app. right. left. reflexivity.
Qed.

(* ------------------------------------------------------------ the same, one reading per request *)

Lemma in_with_times_nil : forall ch now qd t, In (qd, t) (with_times ch now []) <-> In qd ch /\ t = now.
Proof.
  intros ch now qd t. rewrite with_times_nil, in_map_iff. split.
  - intros [x [E H]]. inversion E; subst. auto.
  - intros [H E]. subst. exists qd. auto.
Qed.

Lemma refused_iff_full_with_phantoms : forall f hist clk0 q rq now ch,
  wf_forest f = true -> seq_clock_ok clk0 hist -> chain_of f q = Some ch ->
  let w := fst (seq_run f init hist) in
  let P := phantoms f init (lift_h hist) in
  (forall k s, csum k s (charges w) = psum k s (passes w) + csum k s P) /\
  (snd (seq_step f w (q, rq, now)) = OBool false <->
   exists qd, In qd ch /\
     q_max (snd qd) < eff_pass w rq now qd + eff_phantom P w rq now qd + cost_of (snd qd) rq).
Proof.
  intros f hist clk0 q rq now ch Hwf Hc EC w P.
  pose proof (booked_is_let_through_plus_phantoms f (lift_h hist) Hwf) as HB.
  destruct (exact_sequential_with_phantoms f (lift_h hist) clk0 q rq now [] ch Hwf
              (seq_clock_ok_lift hist clk0 Hc) EC) as [_ X].
  cbv zeta in X, HB. rewrite seq_run_t_lift in X, HB. fold w P in X, HB.
  change (q, rq, now, @nil Z) with ((q, rq, now), @nil Z) in X. rewrite seq_step_t_nil in X.
  split; [exact HB|]. rewrite X. split.
  - intros (qd & t & HIn & H). apply in_with_times_nil in HIn. destruct HIn as [HIn ->]. eauto.
  - intros (qd & HIn & H). exists qd, now. split; [apply in_with_times_nil; auto | exact H].
Qed.
