(* Lib/UrlTree — model of the URL trie of toolkit-core/urltree:
     url_tree_utils.go   splitURL / trimURL / validateURL / TryExtractPathParameter
     url_tree_insert.go  InsertDeclaredURL (declaredURL = true, no assumed path
                         parameters: the configuration of EndpointTree / FilterTree)
     url_tree_lookup.go  Lookup (the POLICY lookup)
     url_tree_declared.go LookupDeclaredURL (exact accessor, added by fix F-C13)
   and an independent specification matcher [matches] written from the text
   of the properties (C13, C14), not from the code.

   The model describes the code AFTER the repairs patches/C13/fix-F-C13c
   (a wildcard match reports the wildcard node's own URL and parameters),
   fix-F-C13d (validateURL: wildcard only at the last index) and fix-F-C13g
   (Lookup remembers a wildcard child only when its kind — host label / path
   segment — is the kind of the first part it would stand for).  The code
   before fix-F-C13g is the variant [walk_v false] (see [lookup_v]).

   Representation.  A trie is a finite map from step paths to node infos, so it
   is modelled flat: [tree V = list (key * ninfo V)], first binding wins.  A
   key is the path from the root to the node, stored REVERSED (the child of
   [K] by step [s] is [s :: K]); the root is [[]] and carries no info (in Go the
   root never holds a value).  Children are keyed by VALUE only, exactly as in
   Go (ConstantChildren is a map by string, one ParametricChild, one
   WildcardChild): the host/path flag [n_host] is fixed by whichever insertion
   created the node and is NOT compared at insertion — only at lookup.  The
   parameter name, which Go keeps in the parent's ParametricChild.Name, is kept
   in the child's info [n_pname].  A wildcard insertion creates a fresh node
   (new binding shadowing the old one; the subtree of the old node is always
   empty because validateURL rejects a non-trailing wildcard).

   Strings are [list Z] of byte codes. *)
From Coq Require Import List ZArith Bool Lia.
Import ListNotations.
Open Scope Z_scope.

Definition str := list Z.

Fixpoint str_eqb (a b : str) : bool :=
  match a, b with
  | [], [] => true
  | x :: a', y :: b' => (x =? y) && str_eqb a' b'
  | _, _ => false
  end.

Lemma str_eqb_eq : forall a b, str_eqb a b = true <-> a = b.
Proof.
  induction a as [|x a IH]; destruct b as [|y b]; cbn; split; intro H;
    try reflexivity; try discriminate.
  - apply andb_true_iff in H. destruct H as [H1 H2].
    apply Z.eqb_eq in H1. apply IH in H2. congruence.
  - inversion H; subst. rewrite Z.eqb_refl. cbn. apply IH. reflexivity.
Qed.

Lemma str_eqb_refl : forall a, str_eqb a a = true.
Proof. intro a. apply str_eqb_eq. reflexivity. Qed.

Lemma str_eqb_neq : forall a b, str_eqb a b = false <-> a <> b.
Proof.
  intros a b. split; intro H.
  - intro E. apply str_eqb_eq in E. congruence.
  - destruct (str_eqb a b) eqn:E; [|reflexivity].
    apply str_eqb_eq in E. contradiction.
Qed.

(* ------------------------------------------------------------------ *)
(* URL syntax (url_tree_utils.go)                                      *)

Definition c_dot : Z := 46.
Definition c_slash : Z := 47.
Definition c_star : Z := 42.
Definition c_lbrace : Z := 123.
Definition c_rbrace : Z := 125.
Definition star : str := [c_star].

Fixpoint drop_while (p : Z -> bool) (s : str) : str :=
  match s with
  | [] => []
  | c :: s' => if p c then drop_while p s' else s
  end.

(* strings.Trim(s, cutset) *)
Definition trim (p : Z -> bool) (s : str) : str :=
  rev (drop_while p (rev (drop_while p s))).

Definition is_dot_slash (c : Z) : bool := (c =? c_dot) || (c =? c_slash).
Definition is_brace_char (c : Z) : bool := (c =? c_lbrace) || (c =? c_rbrace).

(* trimURL *)
Definition trim_url (u : str) : str := trim is_dot_slash u.

(* strings.Split(s, sep) for a one-byte separator: always >= 1 field *)
Fixpoint split_on (c : Z) (s : str) : list str :=
  match s with
  | [] => [[]]
  | x :: s' =>
      if x =? c then [] :: split_on c s'
      else match split_on c s' with
           | h :: t => (x :: h) :: t
           | [] => [[x]]
           end
  end.

(* a URL part: (IsPartOfHost, Value) *)
Definition part := (bool * str)%type.

(* splitURL *)
Definition split_url (u : str) : list part :=
  match split_on c_slash (trim_url u) with
  | host :: path =>
      map (fun s => (true, s)) (split_on c_dot host) ++
      map (fun s => (false, s)) path
  | [] => []
  end.

(* TryExtractPathParameter: HasPrefix "{" && HasSuffix "}", name = Trim "{}" *)
Definition is_brace (s : str) : bool :=
  match s with
  | c :: _ =>
      (c =? c_lbrace) &&
      match rev s with
      | d :: _ => d =? c_rbrace
      | [] => false
      end
  | [] => false
  end.
Definition brace_name (s : str) : str := trim is_brace_char s.

(* the three kinds of steps of a declared URL, in the order the insertion
   tests them: "*" first, then "{name}", else a constant *)
Inductive pstep := PConst (s : str) | PParam (name : str) | PWild.

Definition classify (s : str) : pstep :=
  if str_eqb s star then PWild
  else if is_brace s then PParam (brace_name s)
  else PConst s.

Definition pattern := list (bool * pstep).

Definition parse_pattern (parts : list part) : pattern :=
  map (fun p => (fst p, classify (snd p))) parts.

(* validateURL (after fix F-C13d: the wildcard test is by index) *)
Definition is_nil {A} (l : list A) : bool :=
  match l with [] => true | _ => false end.

Fixpoint validate (parts : list part) : bool :=
  match parts with
  | [] => true
  | (_, s) :: rest =>
      negb (is_nil s) && (negb (str_eqb s star) || is_nil rest) && validate rest
  end.

Definition delim (host : bool) : str := if host then [c_dot] else [c_slash].

(* canonical spelling of a declared pattern: what Lookup reports as the
   normalised URL of the node the pattern denotes *)
Definition step_text (ps : pstep) : str :=
  match ps with
  | PConst s => s
  | PParam n => [c_lbrace] ++ n ++ [c_rbrace]
  | PWild => star
  end.

Fixpoint render_raw (pat : pattern) : str :=
  match pat with
  | [] => []
  | (k, ps) :: rest => delim k ++ step_text ps ++ render_raw rest
  end.

Definition render_pattern (pat : pattern) : str := trim_url (render_raw pat).

(* ------------------------------------------------------------------ *)
(* The trie                                                            *)

Inductive skey := KConst (s : str) | KParam | KWild.

Definition skey_eqb (a b : skey) : bool :=
  match a, b with
  | KConst s, KConst s' => str_eqb s s'
  | KParam, KParam => true
  | KWild, KWild => true
  | _, _ => false
  end.

Definition key := list skey.   (* reversed path: last step first *)

Fixpoint key_eqb (a b : key) : bool :=
  match a, b with
  | [], [] => true
  | x :: a', y :: b' => skey_eqb x y && key_eqb a' b'
  | _, _ => false
  end.

Definition skey_of (ps : pstep) : skey :=
  match ps with
  | PConst s => KConst s
  | PParam _ => KParam
  | PWild => KWild
  end.

(* the key of the node a pattern denotes, below the node [K] *)
Definition key_from (K : key) (pat : pattern) : key :=
  rev (map (fun p => skey_of (snd p)) pat) ++ K.
Definition key_of (pat : pattern) : key := key_from [] pat.

Section Tree.
  Context {V : Type}.

  Record ninfo := { n_host : bool; n_pname : str; n_val : option V }.

  Definition tree := list (key * ninfo).

  Definition empty_tree : tree := [].

  Fixpoint find_node (K : key) (t : tree) : option ninfo :=
    match t with
    | [] => None
    | (K', ni) :: t' => if key_eqb K K' then Some ni else find_node K t'
    end.

  Definition node_val (t : tree) (K : key) : option V :=
    match find_node K t with
    | Some ni => n_val ni
    | None => None
    end.

  Definition fresh_node (host : bool) (name : str) : ninfo :=
    {| n_host := host; n_pname := name; n_val := None |}.

  (* the walk of insertWithConvergenceIndication: creates the missing nodes,
     returns the tree and the key of the node reached; None = error
     (parameter name differs from the existing one) *)
  Fixpoint insert_steps (t : tree) (K : key) (pat : pattern)
    : option (tree * key) :=
    match pat with
    | [] => Some (t, K)
    | (k, PWild) :: rest =>
        (* always a fresh wildcard child *)
        insert_steps ((KWild :: K, fresh_node k []) :: t) (KWild :: K) rest
    | (k, PParam nm) :: rest =>
        match find_node (KParam :: K) t with
        | Some ni =>
            if str_eqb nm (n_pname ni)
            then insert_steps t (KParam :: K) rest
            else None
        | None =>
            insert_steps ((KParam :: K, fresh_node k nm) :: t) (KParam :: K) rest
        end
    | (k, PConst s) :: rest =>
        match find_node (KConst s :: K) t with
        | Some _ => insert_steps t (KConst s :: K) rest
        | None =>
            insert_steps ((KConst s :: K, fresh_node k []) :: t) (KConst s :: K) rest
        end
    end.

  (* currentNode.Value = value *)
  Definition set_val (t : tree) (K : key) (v : V) : tree :=
    match find_node K t with
    | Some ni =>
        (K, {| n_host := n_host ni; n_pname := n_pname ni; n_val := Some v |}) :: t
    | None => t      (* only the root, which splitURL never denotes *)
    end.

  (* InsertDeclaredURL on the split URL; None = error *)
  Definition insert_parts (t : tree) (parts : list part) (v : V) : option tree :=
    if validate parts then
      match insert_steps t [] (parse_pattern parts) with
      | Some (t', K) => Some (set_val t' K v)
      | None => None
      end
    else None.

  Definition insert_declared (t : tree) (url : str) (v : V) : option tree :=
    insert_parts t (split_url url) v.

  (* LookupDeclaredURL: the value at exactly the node the URL denotes *)
  Definition get_exact_parts (t : tree) (parts : list part) : option V :=
    node_val t (key_of (parse_pattern parts)).

  Definition get_exact (t : tree) (url : str) : option V :=
    get_exact_parts t (split_url url).

  (* ---------------- Lookup ---------------- *)

  Definition params := list (str * str).   (* newest binding first *)

  Fixpoint assoc (n : str) (ps : params) : option str :=
    match ps with
    | [] => None
    | (n', v) :: ps' => if str_eqb n n' then Some v else assoc n ps'
    end.

  Record lres := {
    l_match : bool;
    l_key : key;               (* node selected (model-internal) *)
    l_val : option V;          (* LookupResult.Value *)
    l_params : params;         (* LookupResult.PathParams *)
    l_norm : str               (* LookupResult.NormalizedURL *)
  }.

  Definition no_match : lres :=
    {| l_match := false; l_key := []; l_val := None; l_params := []; l_norm := [] |}.

  Definition hit (t : tree) (K : key) (ps : params) (path : str) : lres :=
    {| l_match := true; l_key := K; l_val := node_val t K; l_params := ps;
       l_norm := trim_url path |}.

  (* the wildcard remembered on the way down: its key, its own URL and the
     parameters bound above it *)
  Definition wfound := option (key * str * params).

  (* [ck] = variant switch: true = the code after fix F-C13g, false = before.
     [nxt] = kind of the request part about to be consumed at node [K]
     (None = the URL ends at [K]).  With the fix a wildcard child is
     remembered only when it is of the kind of that part: "a.com/*" (path
     wildcard) is not remembered in front of a further host label, "a.*"
     (host wildcard) not in front of a path segment; at the end of the URL
     there is no part to compare with. *)
  Definition note_wild (ck : bool) (t : tree) (K : key) (path : str) (ps : params)
             (nxt : option bool) (fw : wfound) : wfound :=
    match find_node (KWild :: K) t with
    | Some wi =>
        if match nxt with
           | Some k => negb ck || eqb (n_host wi) k
           | None => true
           end
        then Some (KWild :: K, path ++ delim (n_host wi) ++ star, ps)
        else fw
    | None => fw
    end.

  Definition child_ok (t : tree) (K : key) (k : bool) : option ninfo :=
    match find_node K t with
    | Some ci => if eqb (n_host ci) k then Some ci else None
    | None => None
    end.

  Fixpoint walk_v (ck : bool) (t : tree) (K : key) (parts : list part) (fw : wfound)
           (ps : params) (path : str) : lres :=
    match parts with
    | [] =>
        match node_val t K with
        | Some _ => hit t K ps path
        | None =>
            match note_wild ck t K path ps None fw with
            | Some (W, wpath, wps) => hit t W wps wpath
            | None => no_match
            end
        end
    | (k, s) :: rest =>
        let fw' := note_wild ck t K path ps (Some k) fw in
        match child_ok t (KConst s :: K) k with
        | Some _ => walk_v ck t (KConst s :: K) rest fw' ps (path ++ delim k ++ s)
        | None =>
            match child_ok t (KParam :: K) k with
            | Some pi =>
                walk_v ck t (KParam :: K) rest fw'
                     (if is_brace s then ps else (n_pname pi, s) :: ps)
                     (path ++ delim k ++ [c_lbrace] ++ n_pname pi ++ [c_rbrace])
            | None =>
                if is_brace s then no_match
                else match fw' with
                     | Some (W, wpath, wps) => hit t W wps wpath
                     | None => no_match
                     end
            end
        end
    end.

  Definition lookup_parts_v (ck : bool) (t : tree) (parts : list part) : lres :=
    walk_v ck t [] parts None [] [].

  Definition lookup_v (ck : bool) (t : tree) (url : str) : lres :=
    lookup_parts_v ck t (split_url url).

  (* Lookup as repaired *)
  Definition lookup_parts (t : tree) (parts : list part) : lres :=
    lookup_parts_v true t parts.

  Definition lookup (t : tree) (url : str) : lres :=
    lookup_parts t (split_url url).
End Tree.

Arguments ninfo : clear implicits.
Arguments tree : clear implicits.
Arguments lres : clear implicits.

(* ------------------------------------------------------------------ *)
(* Specification matchers, written from the property text:
   a literal step matches the equal part of the same kind (host label / path
   segment); {param} matches exactly one part of the same kind; a trailing
   wildcard stands for everything that follows (also nothing: the registered
   HAProxy expression makes the rest optional, and a test of the repository
   expects the pattern twitter.com/user/[wildcard] to cover twitter.com/user).  A non-trailing wildcard
   matches nothing (such a pattern is not a valid declaration).

   [matches_kind] is the reading of the property text: the wildcard is itself a
   step of a kind — written as a path segment ("a.com/*") it stands for path
   segments, so what follows must start with a path segment; written as a
   host label ("a.*") it stands for further host labels (and whatever path
   follows them), so what follows must start with a host label.  In a split
   URL the host labels precede the path segments, hence for a path wildcard
   "starts with a path segment" = "consists of path segments"
   ([split_url_host_first]).  "a.com/*" does NOT match "a.com.evil.org/x".

   [matches] is the lax reading (a trailing wildcard swallows parts of any
   kind): what Lookup implemented before fix F-C13g and what lookupFlow still
   implements (F-C03f).  [matches_kind] implies [matches]. *)
Fixpoint matches (pat : pattern) (parts : list part) : bool :=
  match pat with
  | [] => is_nil parts
  | (_, PWild) :: pat' => is_nil pat'
  | (k, PConst s) :: pat' =>
      match parts with
      | (k', s') :: parts' => eqb k k' && str_eqb s s' && matches pat' parts'
      | [] => false
      end
  | (k, PParam _) :: pat' =>
      match parts with
      | (k', _) :: parts' => eqb k k' && matches pat' parts'
      | [] => false
      end
  end.

Fixpoint matches_kind (pat : pattern) (parts : list part) : bool :=
  match pat with
  | [] => is_nil parts
  | (k, PWild) :: pat' =>
      is_nil pat' &&
      match parts with
      | [] => true
      | (k', _) :: _ => eqb k k'
      end
  | (k, PConst s) :: pat' =>
      match parts with
      | (k', s') :: parts' => eqb k k' && str_eqb s s' && matches_kind pat' parts'
      | [] => false
      end
  | (k, PParam _) :: pat' =>
      match parts with
      | (k', _) :: parts' => eqb k k' && matches_kind pat' parts'
      | [] => false
      end
  end.

(* the request's parts at the parameter positions of the pattern, as
   (parameter name, part) pairs, last position first *)
Fixpoint params_at (pat : pattern) (parts : list part) (acc : list (str * str))
  : list (str * str) :=
  match pat, parts with
  | (_, PParam n) :: pat', (_, s) :: parts' => params_at pat' parts' ((n, s) :: acc)
  | (_, PConst _) :: pat', _ :: parts' => params_at pat' parts' acc
  | _, _ => acc
  end.

(* What Lookup reports for ALL requests: a request part spelled "{..}" is
   taken for a parameter reference (TryExtractPathParameter), it passes a
   parameter step but binds nothing.  Equal to [params_at] when no request
   part has that form ([params_at_nb_nobrace]). *)
Fixpoint params_at_nb (pat : pattern) (parts : list part) (acc : list (str * str))
  : list (str * str) :=
  match pat, parts with
  | (_, PParam n) :: pat', (_, s) :: parts' =>
      params_at_nb pat' parts' (if is_brace s then acc else (n, s) :: acc)
  | (_, PConst _) :: pat', _ :: parts' => params_at_nb pat' parts' acc
  | _, _ => acc
  end.

(* Specificity order of the property text ("literal over path parameter over
   wildcard"), on the step paths of two patterns that match the same request,
   compared left to right at the first step where they differ; a pattern that
   has ended (it matches the request exactly) is above one that continues
   with a wildcard there.  [spec_leb p q] = q is at least as specific as p.
   Every other combination (two different literals, a pattern ending where
   the other continues with a literal / parameter: the two cannot match one
   request) is answered false. *)
Definition srank (s : skey) : nat :=
  match s with KConst _ => 3 | KParam => 2 | KWild => 1 end.

Fixpoint spec_leb (p q : list skey) : bool :=
  match p, q with
  | [], [] => true
  | x :: p', y :: q' =>
      if skey_eqb x y then spec_leb p' q' else Nat.ltb (srank x) (srank y)
  | x :: _, [] => skey_eqb x KWild
  | [], _ :: _ => false
  end.

(* the step path of a pattern, root first *)
Definition steps_of (pat : pattern) : list skey :=
  map (fun p => skey_of (snd p)) pat.

(* Two declared patterns agree on the kind (host label / path segment) of
   every step along their common node path.  The insertion does not compare
   kinds (the node keeps the kind of whichever declaration created it), so
   the theorems about trees built from several declarations assume it. *)
Fixpoint kind_agree (p q : pattern) : bool :=
  match p, q with
  | (k1, s1) :: p', (k2, s2) :: q' =>
      if skey_eqb (skey_of s1) (skey_of s2) then eqb k1 k2 && kind_agree p' q'
      else true
  | _, _ => true
  end.
