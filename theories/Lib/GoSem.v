(* GoSem — the hand-written prelude of the Go-to-Gallina translator /verif/gotocoq.

   Every definition here is the MEANING the translator gives to a Go construct
   it does not look into (an "intrinsic").  These meanings are part of the
   trusted base of every theories/Cxx/GenEquiv.v; each generated file lists the
   ones it uses in its header.  Definitions only (a few evident lemmas about
   them are at the end, proved, for use by the GenEquiv files).

   Conventions
     int, int64, uint*, time.Duration  ->  Z, UNBOUNDED (wrap-around not modelled)
     time.Time                         ->  Z nanoseconds since the Unix epoch
                                           (location and monotonic reading not modelled:
                                           == on time.Time compares instants)
     string                            ->  gostring = list Z of byte codes
     error                             ->  goerror (nil, or a token = the format string)
     interface{} holding stored values ->  goval
     []T                               ->  list T  (a VALUE: sharing of backing arrays
                                           between slices is not modelled)
     map[K]V                           ->  association list with replace-in-place update
     *T (pointer to a translated struct) -> the record itself; the receiver is threaded
                                           through as state (aliasing not modelled)
     run-time panic (integer division by zero, failed single-value type
     assertion, nil map write)         ->  [Panicked s] carrying the state at that point *)
From Coq Require Import List ZArith Bool Lia.
Import ListNotations.
Open Scope Z_scope.

(* ------------------------------------------------------------------ results *)

(* result of a translated function that can panic: normal completion with the
   (possibly updated) state and the results, or a run-time panic with the state
   reached so far *)
Inductive outcome (S A : Type) : Type :=
| Normal (s : S) (a : A)
| Panicked (s : S).
Arguments Normal {S A} s a.
Arguments Panicked {S A} s.

(* ------------------------------------------------------------------ strings *)

Definition gostring := list Z.

Fixpoint gostring_eqb (a b : gostring) : bool :=
  match a, b with
  | [], [] => true
  | x :: a', y :: b' => (x =? y) && gostring_eqb a' b'
  | _, _ => false
  end.

(* ------------------------------------------------------------------ errors *)

(* an error value: nil, or a token.  fmt.Errorf(format, ...) and errors.New(format)
   become [Err format] (the arguments are dropped: only the class of the error
   is kept). *)
Inductive goerror := ErrNil | Err (token : gostring).

Definition err_is_nil (e : goerror) : bool :=
  match e with ErrNil => true | Err _ => false end.

(* ------------------------------------------------------------------ time *)

Definition ns_per_sec : Z := 1000000000.

Definition time_unix (sec nsec : Z) : Z := sec * ns_per_sec + nsec.   (* time.Unix(sec, nsec) *)
Definition time_sub (t u : Z) : Z := t - u.                            (* t.Sub(u), no saturation *)
Definition time_add (t d : Z) : Z := t + d.                            (* t.Add(d) *)
Definition time_after (t u : Z) : bool := u <? t.                      (* t.After(u) *)
Definition time_before (t u : Z) : bool := t <? u.                     (* t.Before(u) *)
Definition time_to_unix (t : Z) : Z := t / ns_per_sec.                 (* t.Unix(): whole seconds, floor *)
Definition time_to_unixnano (t : Z) : Z := t.                          (* t.UnixNano() *)
(* the zero time.Time: January 1, year 1, 00:00 UTC *)
Definition time_zero : Z := -62135596800 * ns_per_sec.
Definition time_is_zero (t : Z) : bool := t =? time_zero.               (* t.IsZero() *)
(* clock.Since(t) with the clock read as [now] (no saturation at the maximal Duration) *)
Definition clock_since (t now : Z) : Z := now - t.

(* t.Day() for an instant read in UTC (days-to-civil, proleptic Gregorian) *)
Definition time_day (t : Z) : Z :=
  let days := t / 86400000000000 in
  let z := days + 719468 in
  let era := z / 146097 in
  let doe := z - era * 146097 in
  let yoe := (doe - doe / 1460 + doe / 36524 - doe / 146096) / 365 in
  let doy := doe - (365 * yoe + yoe / 4 - yoe / 100) in
  let mp := (5 * doy + 2) / 153 in
  doy - (153 * mp + 2) / 5 + 1.

(* ------------------------------------------------------------------ stored values *)

(* the dynamic values the translated code keeps behind interface{} *)
Inductive goval :=
| VNil                              (* nil interface *)
| VInt64 (z : Z)
| VStrs (l : list gostring)         (* []string *)
| VOther (tag : Z)                  (* anything else (opaque) *)
| VInt (z : Z).                     (* Go int (a dynamic type different from int64) *)

(* v, ok := x.(int64) *)
Definition as_int64 (v : goval) : Z * bool :=
  match v with VInt64 z => (z, true) | _ => (0, false) end.
(* x.(int): [is_int] is the panic guard of the single-value form *)
Definition is_int (v : goval) : bool := match v with VInt _ => true | _ => false end.
Definition int_of (v : goval) : Z := match v with VInt z => z | _ => 0 end.
(* x.([]string): [is_strs] is the panic guard of the single-value form *)
Definition is_strs (v : goval) : bool := match v with VStrs _ => true | _ => false end.
Definition strs_of (v : goval) : list gostring := match v with VStrs l => l | _ => [] end.

(* ------------------------------------------------------------------ maps *)

Section Maps.
  Context {K V : Type} (keqb : K -> K -> bool).

  Fixpoint map_get (m : list (K * V)) (k : K) : option V :=
    match m with
    | [] => None
    | (k', v) :: r => if keqb k k' then Some v else map_get r k
    end.

  (* m[k] = v *)
  Fixpoint map_set (m : list (K * V)) (k : K) (v : V) : list (K * V) :=
    match m with
    | [] => [(k, v)]
    | (k', v') :: r => if keqb k k' then (k, v) :: r else (k', v') :: map_set r k v
    end.

  (* delete(m, k) *)
  Fixpoint map_delete (m : list (K * V)) (k : K) : list (K * V) :=
    match m with
    | [] => []
    | (k', v') :: r => if keqb k k' then map_delete r k else (k', v') :: map_delete r k
    end.

  (* v, ok := m[k]   (zero value when absent) *)
  Definition map_lookup (zero : V) (m : list (K * V)) (k : K) : V * bool :=
    match map_get m k with Some v => (v, true) | None => (zero, false) end.

  (* m[k] *)
  Definition map_index (zero : V) (m : list (K * V)) (k : K) : V :=
    match map_get m k with Some v => v | None => zero end.
End Maps.

(* string-keyed maps *)
Definition smap (V : Type) := list (gostring * V).
Definition smap_get {V} := @map_get gostring V gostring_eqb.
Definition smap_set {V} := @map_set gostring V gostring_eqb.
Definition smap_delete {V} := @map_delete gostring V gostring_eqb.
Definition smap_lookup {V} := @map_lookup gostring V gostring_eqb.
Definition smap_index {V} := @map_index gostring V gostring_eqb.

(* ------------------------------------------------------------------ the generic
   key/value store (lunar-context contextMemory behind public_types.ContextI) *)

Definition ctxmem := smap goval.

Definition err_empty_key : gostring :=          (* "key cannot be empty" *)
  [107;101;121;32;99;97;110;110;111;116;32;98;101;32;101;109;112;116;121].
Definition err_not_found : gostring :=          (* "key %s not found" *)
  [107;101;121;32;37;115;32;110;111;116;32;102;111;117;110;100].

(* c.Set(key, value): refuses the empty key, else stores *)
Definition ctx_set (c : ctxmem) (k : gostring) (v : goval) : ctxmem * goerror :=
  match k with
  | [] => (c, Err err_empty_key)
  | _ => (smap_set c k v, ErrNil)
  end.
(* c.Get(key) *)
Definition ctx_get (c : ctxmem) (k : gostring) : goval * goerror :=
  match smap_get c k with
  | Some v => (v, ErrNil)
  | None => (VNil, Err err_not_found)
  end.
(* c.Exists(key) *)
Definition ctx_exists (c : ctxmem) (k : gostring) : bool :=
  match smap_get c k with Some _ => true | None => false end.

(* c.Pop(key): removes and returns the value *)
Definition ctx_pop (c : ctxmem) (k : gostring) : ctxmem * goval * goerror :=
  match smap_get c k with
  | Some v => (smap_delete c k, v, ErrNil)
  | None => (c, VNil, Err err_not_found)
  end.

Definition err_cast : gostring :=               (* "failed to cast value to type %T" *)
  [102;97;105;108;101;100;32;116;111;32;99;97;115;116;32;118;97;108;117;101;32;116;111;32;116;121;112;101;32;37;84].

(* memoryState[int64].Get(key) = memoryStateRetrieve(key, contextMemory.Get):
   the stored value asserted to T = int64; the zero value and an error otherwise *)
Definition ctx_get_int64 (c : ctxmem) (k : gostring) : Z * goerror :=
  match ctx_get c k with
  | (v, ErrNil) =>
      match as_int64 v with
      | (z, true) => (z, ErrNil)
      | (_, false) => (0, Err err_cast)
      end
  | (_, e) => (0, e)
  end.

(* ------------------------------------------------------------------ API streams *)

(* what the translated quota code observes of an APIStream: its request id
   (GetID()) and what the quota's extractCountF yields for it (1 for a
   request-counting quota, the value at counter_value_path otherwise) *)
(* ... its sequence id (GetSequenceID()) and the per-transaction flow context
   (GetContext().GetFlowContext(), a contextMemory) *)
Record apistream := mk_apistream {
  as_id : gostring;
  as_count : Z * goerror;
  as_seq : gostring;
  as_flow : ctxmem
}.
Definition set_as_flow (c : ctxmem) (a : apistream) : apistream :=
  mk_apistream (as_id a) (as_count a) (as_seq a) c.

(* ------------------------------------------------------------------ slices *)

Definition slice_len {A} (l : list A) : Z := Z.of_nat (length l).
Definition slice_append1 {A} (l : list A) (x : A) : list A := l ++ [x].      (* append(l, x) *)
Definition slice_appendv {A} (l r : list A) : list A := l ++ r.              (* append(l, r...) *)
Definition slice_to {A} (l : list A) (j : Z) : list A := firstn (Z.to_nat j) l.   (* l[:j] *)
Definition slice_from {A} (l : list A) (i : Z) : list A := skipn (Z.to_nat i) l.  (* l[i:] *)

(* ------------------------------------------------------------------ loops *)

(* what one execution of a loop body does: go on with the next element
   (`continue` or falling off the end of the body), leave the loop (`break`), or
   leave the enclosing function (`return`) *)
Inductive loop_ctl (A R : Type) : Type :=
| LNext (a : A)
| LBreak (a : A)
| LReturn (r : R).
Arguments LNext {A R} a.
Arguments LBreak {A R} a.
Arguments LReturn {A R} r.

(* for i, x := range l { body }   with the loop-carried variables in [a] *)
Fixpoint range_loop {E A R : Type} (body : Z -> E -> A -> loop_ctl A R)
         (i : Z) (l : list E) (a : A) : A + R :=
  match l with
  | [] => inl a
  | x :: r =>
      match body i x a with
      | LNext a' => range_loop body (i + 1) r a'
      | LBreak a' => inl a'
      | LReturn res => inr res
      end
  end.

(* ------------------------------------------------------------------ evident facts *)

Lemma gostring_eqb_refl s : gostring_eqb s s = true.
Proof. induction s as [|x s IH]; cbn; [reflexivity|]. now rewrite Z.eqb_refl, IH. Qed.

Lemma gostring_eqb_eq a b : gostring_eqb a b = true <-> a = b.
Proof.
  revert b; induction a as [|x a IH]; intros [|y b]; cbn; split; intros H;
    try reflexivity; try discriminate.
  - apply andb_true_iff in H as [H1 H2]. apply Z.eqb_eq in H1. apply IH in H2. now subst.
  - inversion H; subst. now rewrite Z.eqb_refl, gostring_eqb_refl.
Qed.

Lemma gostring_eqb_sym a b : gostring_eqb a b = gostring_eqb b a.
Proof.
  destruct (gostring_eqb a b) eqn:E1, (gostring_eqb b a) eqn:E2; try reflexivity.
  - apply gostring_eqb_eq in E1; subst. now rewrite gostring_eqb_refl in E2.
  - apply gostring_eqb_eq in E2; subst. now rewrite gostring_eqb_refl in E1.
Qed.

Section MapFacts.
  Context {K V : Type} (keqb : K -> K -> bool).
  Hypothesis keqb_eq : forall a b, keqb a b = true <-> a = b.

  Lemma keqb_refl a : keqb a a = true.
  Proof. now apply keqb_eq. Qed.

  Lemma keqb_neq a b : a <> b -> keqb a b = false.
  Proof. intros H. destruct (keqb a b) eqn:E; [|reflexivity]. apply keqb_eq in E. contradiction. Qed.

  Lemma map_get_set_same (m : list (K * V)) k v : map_get keqb (map_set keqb m k v) k = Some v.
  Proof.
    induction m as [|[k' v'] m IH]; cbn.
    - now rewrite keqb_refl.
    - destruct (keqb k k') eqn:E; cbn.
      + now rewrite keqb_refl.
      + now rewrite E.
  Qed.

  Lemma map_get_set_other (m : list (K * V)) k k' v :
    k' <> k -> map_get keqb (map_set keqb m k v) k' = map_get keqb m k'.
  Proof.
    intros Hn. induction m as [|[k0 v0] m IH]; cbn.
    - now rewrite (keqb_neq k' k Hn).
    - destruct (keqb k k0) eqn:E; cbn.
      + apply keqb_eq in E; subst k0. now rewrite (keqb_neq k' k Hn).
      + destruct (keqb k' k0); [reflexivity|exact IH].
  Qed.

  Lemma map_get_delete_same (m : list (K * V)) k : map_get keqb (map_delete keqb m k) k = None.
  Proof.
    induction m as [|[k' v'] m IH]; cbn; [reflexivity|].
    destruct (keqb k k') eqn:E; [exact IH|]. cbn. now rewrite E.
  Qed.

  Lemma map_get_delete_other (m : list (K * V)) k k' :
    k' <> k -> map_get keqb (map_delete keqb m k) k' = map_get keqb m k'.
  Proof.
    intros Hn. induction m as [|[k0 v0] m IH]; cbn; [reflexivity|].
    destruct (keqb k k0) eqn:E; cbn.
    - apply keqb_eq in E; subst k0. now rewrite (keqb_neq k' k Hn).
    - destruct (keqb k' k0); [reflexivity|exact IH].
  Qed.
End MapFacts.

Lemma smap_get_set_same {V} (m : smap V) k v : smap_get (smap_set m k v) k = Some v.
Proof. exact (map_get_set_same gostring_eqb gostring_eqb_eq m k v). Qed.
Lemma smap_get_set_other {V} (m : smap V) k k' v :
  k' <> k -> smap_get (smap_set m k v) k' = smap_get m k'.
Proof. exact (map_get_set_other gostring_eqb gostring_eqb_eq m k k' v). Qed.
Lemma smap_get_delete_same {V} (m : smap V) k : smap_get (smap_delete m k) k = None.
Proof. exact (map_get_delete_same gostring_eqb m k). Qed.
Lemma smap_get_delete_other {V} (m : smap V) k k' :
  k' <> k -> smap_get (smap_delete m k) k' = smap_get m k'.
Proof. exact (map_get_delete_other gostring_eqb gostring_eqb_eq m k k'). Qed.
