(* Lib/UrlTreeProofs — characterising lemmas of the flat trie model:
   what [find_node] returns after an insertion, what a successful [walk]
   (Lookup) has followed, and how that relates to the specification matcher. *)
From Coq Require Import List ZArith Bool Lia.
From Verif Require Import Lib.UrlTree.
Import ListNotations.
Open Scope Z_scope.

(* ------------------------------------------------------------------ *)
(* equalities *)

Lemma skey_eqb_eq : forall a b, skey_eqb a b = true <-> a = b.
Proof.
  destruct a, b; cbn; split; intro H; try discriminate; try reflexivity.
  - apply str_eqb_eq in H. congruence.
  - inversion H. apply str_eqb_refl.
Qed.

Lemma key_eqb_eq : forall a b, key_eqb a b = true <-> a = b.
Proof.
  induction a as [|x a IH]; destruct b as [|y b]; cbn; split; intro H;
    try reflexivity; try discriminate.
  - apply andb_true_iff in H. destruct H as [H1 H2].
    apply skey_eqb_eq in H1. apply IH in H2. congruence.
  - inversion H; subst. apply andb_true_iff. split.
    + apply skey_eqb_eq. reflexivity.
    + apply IH. reflexivity.
Qed.

Lemma key_eqb_refl : forall a, key_eqb a a = true.
Proof. intro. apply key_eqb_eq. reflexivity. Qed.

Lemma key_eqb_neq : forall a b, key_eqb a b = false <-> a <> b.
Proof.
  intros a b. split; intro H.
  - intro E. apply key_eqb_eq in E. congruence.
  - destruct (key_eqb a b) eqn:E; [|reflexivity].
    apply key_eqb_eq in E. contradiction.
Qed.

Lemma key_eq_dec : forall a b : key, {a = b} + {a <> b}.
Proof.
  intros a b. destruct (key_eqb a b) eqn:E.
  - left. apply key_eqb_eq. exact E.
  - right. apply key_eqb_neq. exact E.
Qed.

Lemma key_eqb_sym : forall a b, key_eqb a b = key_eqb b a.
Proof.
  intros a b. destruct (key_eqb a b) eqn:E.
  - apply key_eqb_eq in E. subst. symmetry. apply key_eqb_refl.
  - apply key_eqb_neq in E. symmetry. apply key_eqb_neq. congruence.
Qed.

(* ------------------------------------------------------------------ *)
(* which step of a pattern inserted below [K] denotes the node [X] *)

Fixpoint step_at (K : key) (pat : pattern) (X : key) : option (bool * pstep) :=
  match pat with
  | [] => None
  | (k, ps) :: rest =>
      if key_eqb X (skey_of ps :: K) then Some (k, ps)
      else step_at (skey_of ps :: K) rest X
  end.

Lemma step_at_longer : forall pat K X x,
  step_at K pat X = Some x -> (length K < length X)%nat.
Proof.
  induction pat as [|[k ps] rest IH]; cbn; intros K X x H; [discriminate|].
  destruct (key_eqb X (skey_of ps :: K)) eqn:E.
  - apply key_eqb_eq in E. subst. cbn. lia.
  - apply IH in H. cbn in H. lia.
Qed.

Lemma step_at_self_none : forall pat K, step_at K pat K = None.
Proof.
  intros pat K. destruct (step_at K pat K) eqn:E; [|reflexivity].
  apply step_at_longer in E. lia.
Qed.

Lemma key_from_cons : forall K k ps rest,
  key_from K ((k, ps) :: rest) = key_from (skey_of ps :: K) rest.
Proof.
  intros. unfold key_from. cbn. rewrite <- app_assoc. reflexivity.
Qed.

Lemma key_from_length : forall pat K,
  length (key_from K pat) = (length pat + length K)%nat.
Proof.
  intros. unfold key_from. rewrite app_length, rev_length, map_length. reflexivity.
Qed.

(* the last step of a non-empty pattern denotes its node *)
Lemma step_at_last : forall pat K,
  pat <> [] -> exists k ps, step_at K pat (key_from K pat) = Some (k, ps).
Proof.
  induction pat as [|[k ps] rest IH]; intros K Hne; [contradiction|].
  rewrite key_from_cons. cbn.
  destruct (key_eqb (key_from (skey_of ps :: K) rest) (skey_of ps :: K)) eqn:E.
  - eauto.
  - destruct rest as [|x rest'].
    + change (key_from (skey_of ps :: K) []) with (skey_of ps :: K) in E.
      rewrite key_eqb_refl in E. discriminate.
    + apply IH. intro Hx. discriminate Hx.
Qed.

Section TreeLemmas.
  Context {V : Type}.
  Notation tree := (tree V).
  Notation ninfo := (ninfo V).

  Lemma find_node_cons : forall X K (ni : ninfo) (t : tree),
    find_node X ((K, ni) :: t) = if key_eqb X K then Some ni else find_node X t.
  Proof. reflexivity. Qed.

  (* what a step leaves at the node it denotes *)
  Definition after_step (k : bool) (ps : pstep) (old : option ninfo) : option ninfo :=
    match ps with
    | PWild => Some (fresh_node k [])
    | PParam nm =>
        match old with Some ni => Some ni | None => Some (fresh_node k nm) end
    | PConst _ =>
        match old with Some ni => Some ni | None => Some (fresh_node k []) end
    end.

  Lemma insert_steps_key : forall pat (t : tree) K t' K',
    insert_steps t K pat = Some (t', K') -> K' = key_from K pat.
  Proof.
    induction pat as [|[k ps] rest IH]; intros t K t' K' H.
    - cbn in H. inversion H. reflexivity.
    - rewrite key_from_cons. destruct ps as [s|nm|]; cbn in H.
      + destruct (find_node (KConst s :: K) t); eapply IH; exact H.
      + destruct (find_node (KParam :: K) t) as [ni|].
        * destruct (str_eqb nm (n_pname ni)); [|discriminate]. eapply IH; exact H.
        * eapply IH; exact H.
      + eapply IH; exact H.
  Qed.

  Lemma insert_steps_find : forall pat (t : tree) K t' K',
    insert_steps t K pat = Some (t', K') ->
    forall X,
      find_node X t' =
      match step_at K pat X with
      | Some (k, ps) => after_step k ps (find_node X t)
      | None => find_node X t
      end.
  Proof.
    induction pat as [|[k ps] rest IH]; intros t K t' K' H X.
    - cbn in H. inversion H; subst. reflexivity.
    - cbn [step_at].
      destruct (key_eqb X (skey_of ps :: K)) eqn:EX.
      + apply key_eqb_eq in EX. subst X.
        destruct ps as [s|nm|]; cbn in H; cbn [skey_of after_step].
        * destruct (find_node (KConst s :: K) t) as [ni|] eqn:F.
          -- rewrite (IH _ _ _ _ H). rewrite step_at_self_none. exact F.
          -- rewrite (IH _ _ _ _ H). rewrite step_at_self_none.
             rewrite find_node_cons, key_eqb_refl. reflexivity.
        * destruct (find_node (KParam :: K) t) as [ni|] eqn:F.
          -- destruct (str_eqb nm (n_pname ni)); [|discriminate].
             rewrite (IH _ _ _ _ H). rewrite step_at_self_none. exact F.
          -- rewrite (IH _ _ _ _ H). rewrite step_at_self_none.
             rewrite find_node_cons, key_eqb_refl. reflexivity.
        * rewrite (IH _ _ _ _ H). rewrite step_at_self_none.
          rewrite find_node_cons, key_eqb_refl. reflexivity.
      + destruct ps as [s|nm|]; cbn in H; cbn [skey_of] in *.
        * destruct (find_node (KConst s :: K) t) as [ni|] eqn:F.
          -- apply (IH _ _ _ _ H).
          -- rewrite (IH _ _ _ _ H). rewrite find_node_cons, EX. reflexivity.
        * destruct (find_node (KParam :: K) t) as [ni|] eqn:F.
          -- destruct (str_eqb nm (n_pname ni)); [|discriminate].
             apply (IH _ _ _ _ H).
          -- rewrite (IH _ _ _ _ H). rewrite find_node_cons, EX. reflexivity.
        * rewrite (IH _ _ _ _ H). rewrite find_node_cons, EX. reflexivity.
  Qed.

  (* an existing parameter node keeps its name only if the names agree *)
  Lemma insert_steps_pname : forall pat (t : tree) K t' K',
    insert_steps t K pat = Some (t', K') ->
    forall X k nm ni,
      step_at K pat X = Some (k, PParam nm) ->
      find_node X t = Some ni -> n_pname ni = nm.
  Proof.
    induction pat as [|[k ps] rest IH]; intros t K t' K' H X k0 nm ni HS HF.
    - discriminate.
    - cbn [step_at] in HS.
      destruct (key_eqb X (skey_of ps :: K)) eqn:EX.
      + apply key_eqb_eq in EX. subst X. inversion HS; subst k0 ps. cbn in H, HF.
        rewrite HF in H.
        destruct (str_eqb nm (n_pname ni)) eqn:E; [|discriminate].
        apply str_eqb_eq in E. congruence.
      + assert (HL := step_at_longer _ _ _ _ HS).
        destruct ps as [s|nm'|]; cbn in H; cbn [skey_of] in *.
        * destruct (find_node (KConst s :: K) t) as [ni'|] eqn:F.
          -- eapply IH; eauto.
          -- eapply IH; eauto. rewrite find_node_cons, EX. exact HF.
        * destruct (find_node (KParam :: K) t) as [ni'|] eqn:F.
          -- destruct (str_eqb nm' (n_pname ni')); [|discriminate].
             eapply IH; eauto.
          -- eapply IH; eauto. rewrite find_node_cons, EX. exact HF.
        * eapply IH; eauto. rewrite find_node_cons, EX. exact HF.
  Qed.

  Lemma set_val_find : forall (t : tree) K v X,
    find_node X (set_val t K v) =
    if key_eqb X K then
      match find_node K t with
      | Some ni => Some {| n_host := n_host ni; n_pname := n_pname ni; n_val := Some v |}
      | None => None
      end
    else find_node X t.
  Proof.
    intros t K v X. unfold set_val.
    destruct (find_node K t) as [ni|] eqn:F.
    - rewrite find_node_cons. reflexivity.
    - destruct (key_eqb X K) eqn:E; [|reflexivity].
      apply key_eqb_eq in E. subst. exact F.
  Qed.

  (* ---------------------------------------------------------------- *)
  (* what a lookup has followed *)

  Definition node_host (t : tree) (X : key) : bool :=
    match find_node X t with Some ni => n_host ni | None => false end.
  Definition node_pname (t : tree) (X : key) : str :=
    match find_node X t with Some ni => n_pname ni | None => [] end.

  (* [follows t X rus]: the node [X] is reached from the root by the parts
     [rus] (reversed: last part first), every step through a constant child
     equal to the part or through the parametric child, of the part's kind *)
  Fixpoint follows (t : tree) (X : key) (rus : list part) : Prop :=
    match X, rus with
    | [], [] => True
    | s :: X', (k, u) :: rus' =>
        (exists ni, find_node (s :: X') t = Some ni /\ n_host ni = k) /\
        (s = KConst u \/ s = KParam) /\ follows t X' rus'
    | _, _ => False
    end.

  (* the URL of a node, as Lookup spells it *)
  Fixpoint path_of (t : tree) (X : key) : str :=
    match X with
    | [] => []
    | s :: X' =>
        path_of t X' ++ delim (node_host t X) ++
        match s with
        | KConst u => u
        | KParam => [c_lbrace] ++ node_pname t X ++ [c_rbrace]
        | KWild => star
        end
    end.

  (* the parameters bound on the way to a node *)
  Fixpoint params_along (t : tree) (X : key) (rus : list part) : params :=
    match X, rus with
    | s :: X', (_, u) :: rus' =>
        match s with
        | KParam =>
            if is_brace u then params_along t X' rus'
            else (node_pname t X, u) :: params_along t X' rus'
        | _ => params_along t X' rus'
        end
    | _, _ => []
    end.

  Definition fw_ok (t : tree) (rcons : list part) (fw : wfound) : Prop :=
    match fw with
    | None => True
    | Some (W, wpath, wps) =>
        exists P rP pre,
          W = KWild :: P /\ follows t P rP /\ rcons = pre ++ rP /\
          find_node W t <> None /\ wpath = path_of t W /\
          wps = params_along t P rP
    end.

  Lemma fw_ok_cons : forall t rcons fw u,
    fw_ok t rcons fw -> fw_ok t (u :: rcons) fw.
  Proof.
    intros t rcons [[[W wpath] wps]|] u H; [|exact I].
    destruct H as (P & rP & pre & H1 & H2 & H3 & H4 & H5 & H6).
    exists P, rP, (u :: pre). subst rcons. repeat split; auto.
  Qed.

  Lemma note_wild_ok : forall t K rcons fw ps path,
    follows t K rcons -> fw_ok t rcons fw ->
    ps = params_along t K rcons -> path = path_of t K ->
    fw_ok t rcons (note_wild t K path ps fw).
  Proof.
    intros t K rcons fw ps path HF HW Hps Hpath. unfold note_wild.
    destruct (find_node (KWild :: K) t) as [wi|] eqn:F; [|exact HW].
    exists K, rcons, []. repeat split; auto.
    - rewrite F. discriminate.
    - cbn [path_of]. unfold node_host. rewrite F. subst path. reflexivity.
  Qed.

  (* the two ways a lookup succeeds *)
  Definition walk_result (t : tree) (rall : list part) (r : lres V) : Prop :=
    l_val r = node_val t (l_key r) /\
    l_norm r = trim_url (path_of t (l_key r)) /\
    ((follows t (l_key r) rall /\ node_val t (l_key r) <> None /\
      l_params r = params_along t (l_key r) rall)
     \/
     (exists P rP pre,
        l_key r = KWild :: P /\ follows t P rP /\ rall = pre ++ rP /\
        find_node (l_key r) t <> None /\ l_params r = params_along t P rP)).

  Lemma fw_hit : forall t rcons W wpath wps pre,
    fw_ok t rcons (Some (W, wpath, wps)) ->
    walk_result t (pre ++ rcons) (hit t W wps wpath).
  Proof.
    intros t rcons W wpath wps pre H.
    destruct H as (P & rP & pre' & H1 & H2 & H3 & H4 & H5 & H6).
    unfold walk_result, hit; cbn. split; [reflexivity|].
    split; [rewrite H5; reflexivity|].
    right. exists P, rP, (pre ++ pre'). subst rcons. rewrite app_assoc.
    repeat split; auto.
  Qed.

  Lemma child_ok_some : forall (t : tree) X k ci,
    child_ok t X k = Some ci -> find_node X t = Some ci /\ n_host ci = k.
  Proof.
    intros t X k ci H. unfold child_ok in H.
    destruct (find_node X t) as [ni|]; [|discriminate].
    destruct (eqb (n_host ni) k) eqn:E; [|discriminate].
    inversion H; subst. apply eqb_prop in E. auto.
  Qed.

  Lemma walk_spec : forall parts t K rcons fw ps path,
    follows t K rcons -> fw_ok t rcons fw ->
    ps = params_along t K rcons -> path = path_of t K ->
    l_match (walk t K parts fw ps path) = true ->
    walk_result t (rev parts ++ rcons) (walk t K parts fw ps path).
  Proof.
    induction parts as [|[k s] rest IH]; intros t K rcons fw ps path HF HW Hps Hpath HM.
    - cbn [walk rev app] in *.
      destruct (node_val t K) as [v|] eqn:NV.
      + unfold walk_result, hit; cbn. split; [reflexivity|].
        split; [rewrite Hpath; reflexivity|].
        left. repeat split; auto. rewrite NV. discriminate.
      + pose proof (note_wild_ok t K rcons fw ps path HF HW Hps Hpath) as HW'.
        destruct (note_wild t K path ps fw) as [[[W wpath] wps]|].
        * apply (fw_hit t rcons W wpath wps [] HW').
        * discriminate.
    - cbn [walk] in *.
      pose proof (note_wild_ok t K rcons fw ps path HF HW Hps Hpath) as HW'.
      set (fw' := note_wild t K path ps fw) in *.
      cbn [rev]. rewrite <- app_assoc. cbn [app].
      destruct (child_ok t (KConst s :: K) k) as [ci|] eqn:C1.
      + apply child_ok_some in C1. destruct C1 as [F1 H1].
        apply IH; auto.
        * cbn [follows]. split; [eauto|]. split; [left; reflexivity|exact HF].
        * apply fw_ok_cons. exact HW'.
        * cbn [path_of]. unfold node_host. rewrite F1, H1. subst path.
          reflexivity.
      + destruct (child_ok t (KParam :: K) k) as [pi|] eqn:C2.
        * apply child_ok_some in C2. destruct C2 as [F2 H2].
          apply IH; auto.
          -- cbn [follows]. split; [eauto|]. split; [right; reflexivity|exact HF].
          -- apply fw_ok_cons. exact HW'.
          -- cbn [params_along]. unfold node_pname. rewrite F2. subst ps.
             reflexivity.
          -- cbn [path_of]. unfold node_host, node_pname. rewrite F2, H2.
             subst path. reflexivity.
        * destruct (is_brace s); [discriminate|].
          destruct fw' as [[[W wpath] wps]|]; [|discriminate].
          apply (fw_hit t rcons W wpath wps (rev rest ++ [(k, s)])) in HW'.
          rewrite <- app_assoc in HW'. exact HW'.
  Qed.

  Lemma walk_no_match : forall parts t K fw ps path,
    l_match (walk t K parts fw ps path) = false ->
    walk t K parts fw ps path = no_match.
  Proof.
    induction parts as [|[k s] rest IH]; intros t K fw ps path HM; cbn [walk] in *.
    - destruct (node_val t K); [discriminate HM|].
      destruct (note_wild t K path ps fw) as [[[W wpath] wps]|];
        [discriminate HM|reflexivity].
    - destruct (child_ok t (KConst s :: K) k); [apply IH; exact HM|].
      destruct (child_ok t (KParam :: K) k); [apply IH; exact HM|].
      destruct (is_brace s); [reflexivity|].
      destruct (note_wild t K path ps fw) as [[[W wpath] wps]|];
        [discriminate HM|reflexivity].
  Qed.

  Lemma lookup_parts_spec : forall t parts,
    l_match (lookup_parts t parts) = true ->
    walk_result t (rev parts) (lookup_parts t parts).
  Proof.
    intros t parts HM. unfold lookup_parts in *.
    pose proof (walk_spec parts t [] [] None [] [] I I eq_refl eq_refl HM) as H.
    rewrite app_nil_r in H. exact H.
  Qed.
End TreeLemmas.
