(* Lib/UrlTreeProofs — characterising lemmas of the flat trie model:
   what [find_node] returns after an insertion, what a successful [walk]
   (Lookup) has followed, and how that relates to the specification matcher. *)
From Coq Require Import List ZArith Bool Lia.
From Verif Require Import Lib.UrlTree.
Import ListNotations.
Open Scope Z_scope.

(* ------------------------------------------------------------------ *)
(* equalities *)

Lemma skey_eqb_eq : forall a b, skey_eqb a b = true <-> a = b.
Proof.
  destruct a, b; cbn; split; intro H; try discriminate; try reflexivity.
  - apply str_eqb_eq in H. congruence.
  - inversion H. apply str_eqb_refl.
Qed.

Lemma key_eqb_eq : forall a b, key_eqb a b = true <-> a = b.
Proof.
  induction a as [|x a IH]; destruct b as [|y b]; cbn; split; intro H;
    try reflexivity; try discriminate.
  - apply andb_true_iff in H. destruct H as [H1 H2].
    apply skey_eqb_eq in H1. apply IH in H2. congruence.
  - inversion H; subst. apply andb_true_iff. split.
    + apply skey_eqb_eq. reflexivity.
    + apply IH. reflexivity.
Qed.

Lemma key_eqb_refl : forall a, key_eqb a a = true.
Proof. intro. apply key_eqb_eq. reflexivity. Qed.

Lemma key_eqb_neq : forall a b, key_eqb a b = false <-> a <> b.
Proof.
  intros a b. split; intro H.
  - intro E. apply key_eqb_eq in E. congruence.
  - destruct (key_eqb a b) eqn:E; [|reflexivity].
    apply key_eqb_eq in E. contradiction.
Qed.

Lemma key_eq_dec : forall a b : key, {a = b} + {a <> b}.
Proof.
  intros a b. destruct (key_eqb a b) eqn:E.
  - left. apply key_eqb_eq. exact E.
  - right. apply key_eqb_neq. exact E.
Qed.

Lemma key_eqb_sym : forall a b, key_eqb a b = key_eqb b a.
Proof.
  intros a b. destruct (key_eqb a b) eqn:E.
  - apply key_eqb_eq in E. subst. symmetry. apply key_eqb_refl.
  - apply key_eqb_neq in E. symmetry. apply key_eqb_neq. congruence.
Qed.

(* ------------------------------------------------------------------ *)
(* which step of a pattern inserted below [K] denotes the node [X] *)

Fixpoint step_at (K : key) (pat : pattern) (X : key) : option (bool * pstep) :=
  match pat with
  | [] => None
  | (k, ps) :: rest =>
      if key_eqb X (skey_of ps :: K) then Some (k, ps)
      else step_at (skey_of ps :: K) rest X
  end.

Lemma step_at_longer : forall pat K X x,
  step_at K pat X = Some x -> (length K < length X)%nat.
Proof.
  induction pat as [|[k ps] rest IH]; cbn; intros K X x H; [discriminate|].
  destruct (key_eqb X (skey_of ps :: K)) eqn:E.
  - apply key_eqb_eq in E. subst. cbn. lia.
  - apply IH in H. cbn in H. lia.
Qed.

Lemma step_at_self_none : forall pat K, step_at K pat K = None.
Proof.
  intros pat K. destruct (step_at K pat K) eqn:E; [|reflexivity].
  apply step_at_longer in E. lia.
Qed.

Lemma key_from_cons : forall K k ps rest,
  key_from K ((k, ps) :: rest) = key_from (skey_of ps :: K) rest.
Proof.
  intros. unfold key_from. cbn. rewrite <- app_assoc. reflexivity.
Qed.

Lemma key_from_length : forall pat K,
  length (key_from K pat) = (length pat + length K)%nat.
Proof.
  intros. unfold key_from. rewrite app_length, rev_length, map_length. reflexivity.
Qed.

(* the last step of a non-empty pattern denotes its node *)
Lemma step_at_last : forall pat K,
  pat <> [] -> exists k ps, step_at K pat (key_from K pat) = Some (k, ps).
Proof.
  induction pat as [|[k ps] rest IH]; intros K Hne; [contradiction|].
  rewrite key_from_cons. cbn.
  destruct (key_eqb (key_from (skey_of ps :: K) rest) (skey_of ps :: K)) eqn:E.
  - eauto.
  - destruct rest as [|x rest'].
    + unfold key_from in E. cbn in E. rewrite key_eqb_refl in E. discriminate.
    + apply IH. discriminate.
Qed.

Section TreeLemmas.
  Context {V : Type}.
  Notation tree := (tree V).
  Notation ninfo := (ninfo V).

  Lemma find_node_cons : forall X K (ni : ninfo) (t : tree),
    find_node X ((K, ni) :: t) = if key_eqb X K then Some ni else find_node X t.
  Proof. reflexivity. Qed.

  (* what a step leaves at the node it denotes *)
  Definition after_step (k : bool) (ps : pstep) (old : option ninfo) : option ninfo :=
    match ps with
    | PWild => Some (fresh_node k [])
    | PParam nm =>
        match old with Some ni => Some ni | None => Some (fresh_node k nm) end
    | PConst _ =>
        match old with Some ni => Some ni | None => Some (fresh_node k []) end
    end.

  Lemma insert_steps_key : forall pat (t : tree) K t' K',
    insert_steps t K pat = Some (t', K') -> K' = key_from K pat.
  Proof.
    induction pat as [|[k ps] rest IH]; intros t K t' K' H.
    - cbn in H. inversion H. reflexivity.
    - rewrite key_from_cons. destruct ps as [s|nm|]; cbn in H.
      + destruct (find_node (KConst s :: K) t); eapply IH; exact H.
      + destruct (find_node (KParam :: K) t) as [ni|].
        * destruct (str_eqb nm (n_pname ni)); [|discriminate]. eapply IH; exact H.
        * eapply IH; exact H.
      + eapply IH; exact H.
  Qed.

  Lemma insert_steps_find : forall pat (t : tree) K t' K',
    insert_steps t K pat = Some (t', K') ->
    forall X,
      find_node X t' =
      match step_at K pat X with
      | Some (k, ps) => after_step k ps (find_node X t)
      | None => find_node X t
      end.
  Proof.
    induction pat as [|[k ps] rest IH]; intros t K t' K' H X.
    - cbn in H. inversion H; subst. reflexivity.
    - cbn [step_at].
      destruct (key_eqb X (skey_of ps :: K)) eqn:EX.
      + apply key_eqb_eq in EX. subst X.
        destruct ps as [s|nm|]; cbn in H; cbn [skey_of after_step].
        * destruct (find_node (KConst s :: K) t) as [ni|] eqn:F.
          -- rewrite (IH _ _ _ _ H). rewrite step_at_self_none. exact F.
          -- rewrite (IH _ _ _ _ H). rewrite step_at_self_none.
             rewrite find_node_cons, key_eqb_refl. reflexivity.
        * destruct (find_node (KParam :: K) t) as [ni|] eqn:F.
          -- destruct (str_eqb nm (n_pname ni)); [|discriminate].
             rewrite (IH _ _ _ _ H). rewrite step_at_self_none. exact F.
          -- rewrite (IH _ _ _ _ H). rewrite step_at_self_none.
             rewrite find_node_cons, key_eqb_refl. reflexivity.
        * rewrite (IH _ _ _ _ H). rewrite step_at_self_none.
          rewrite find_node_cons, key_eqb_refl. reflexivity.
      + destruct ps as [s|nm|]; cbn in H; cbn [skey_of] in *.
        * destruct (find_node (KConst s :: K) t) as [ni|] eqn:F.
          -- apply (IH _ _ _ _ H).
          -- rewrite (IH _ _ _ _ H). rewrite find_node_cons, EX. reflexivity.
        * destruct (find_node (KParam :: K) t) as [ni|] eqn:F.
          -- destruct (str_eqb nm (n_pname ni)); [|discriminate].
             apply (IH _ _ _ _ H).
          -- rewrite (IH _ _ _ _ H). rewrite find_node_cons, EX. reflexivity.
        * rewrite (IH _ _ _ _ H). rewrite find_node_cons, EX. reflexivity.
  Qed.

  (* an existing parameter node keeps its name only if the names agree *)
  Lemma insert_steps_pname : forall pat (t : tree) K t' K',
    insert_steps t K pat = Some (t', K') ->
    forall X k nm ni,
      step_at K pat X = Some (k, PParam nm) ->
      find_node X t = Some ni -> n_pname ni = nm.
  Proof.
    induction pat as [|[k ps] rest IH]; intros t K t' K' H X k0 nm ni HS HF.
    - discriminate.
    - cbn [step_at] in HS.
      destruct (key_eqb X (skey_of ps :: K)) eqn:EX.
      + apply key_eqb_eq in EX. subst X. inversion HS; subst k0 ps. cbn in H, HF.
        rewrite HF in H.
        destruct (str_eqb nm (n_pname ni)) eqn:E; [|discriminate].
        apply str_eqb_eq in E. congruence.
      + assert (HL := step_at_longer _ _ _ _ HS).
        destruct ps as [s|nm'|]; cbn in H; cbn [skey_of] in *.
        * destruct (find_node (KConst s :: K) t) as [ni'|] eqn:F.
          -- eapply IH; eauto.
          -- eapply IH; eauto. rewrite find_node_cons, EX. exact HF.
        * destruct (find_node (KParam :: K) t) as [ni'|] eqn:F.
          -- destruct (str_eqb nm' (n_pname ni')); [|discriminate].
             eapply IH; eauto.
          -- eapply IH; eauto. rewrite find_node_cons, EX. exact HF.
        * eapply IH; eauto. rewrite find_node_cons, EX. exact HF.
  Qed.

  Lemma set_val_find : forall (t : tree) K v X,
    find_node X (set_val t K v) =
    if key_eqb X K then
      match find_node K t with
      | Some ni => Some {| n_host := n_host ni; n_pname := n_pname ni; n_val := Some v |}
      | None => None
      end
    else find_node X t.
  Proof.
    intros t K v X. unfold set_val.
    destruct (find_node K t) as [ni|] eqn:F.
    - rewrite find_node_cons. reflexivity.
    - destruct (key_eqb X K) eqn:E; [|reflexivity].
      apply key_eqb_eq in E. subst. exact F.
  Qed.
End TreeLemmas.
