(* Lib/UrlTreeProofs — characterising lemmas of the flat trie model:
   what [find_node] returns after an insertion, what a successful [walk]
   (Lookup) has followed, and how that relates to the specification matcher. *)
From Coq Require Import List ZArith Bool Lia.
From Verif Require Import Lib.UrlTree.
Import ListNotations.
Open Scope Z_scope.

(* ------------------------------------------------------------------ *)
(* equalities *)

Lemma skey_eqb_eq : forall a b, skey_eqb a b = true <-> a = b.
Proof.
  destruct a, b; cbn; split; intro H; try discriminate; try reflexivity.
  - apply str_eqb_eq in H. congruence.
  - inversion H. apply str_eqb_refl.
Qed.

Lemma key_eqb_eq : forall a b, key_eqb a b = true <-> a = b.
Proof.
  induction a as [|x a IH]; destruct b as [|y b]; cbn; split; intro H;
    try reflexivity; try discriminate.
  - apply andb_true_iff in H. destruct H as [H1 H2].
    apply skey_eqb_eq in H1. apply IH in H2. congruence.
  - inversion H; subst. apply andb_true_iff. split.
    + apply skey_eqb_eq. reflexivity.
    + apply IH. reflexivity.
Qed.

Lemma key_eqb_refl : forall a, key_eqb a a = true.
Proof. intro. apply key_eqb_eq. reflexivity. Qed.

Lemma key_eqb_neq : forall a b, key_eqb a b = false <-> a <> b.
Proof.
  intros a b. split; intro H.
  - intro E. apply key_eqb_eq in E. congruence.
  - destruct (key_eqb a b) eqn:E; [|reflexivity].
    apply key_eqb_eq in E. contradiction.
Qed.

Lemma key_eq_dec : forall a b : key, {a = b} + {a <> b}.
Proof.
  intros a b. destruct (key_eqb a b) eqn:E.
  - left. apply key_eqb_eq. exact E.
  - right. apply key_eqb_neq. exact E.
Qed.

Lemma key_eqb_sym : forall a b, key_eqb a b = key_eqb b a.
Proof.
  intros a b. destruct (key_eqb a b) eqn:E.
  - apply key_eqb_eq in E. subst. symmetry. apply key_eqb_refl.
  - apply key_eqb_neq in E. symmetry. apply key_eqb_neq. congruence.
Qed.

(* ------------------------------------------------------------------ *)
(* which step of a pattern inserted below [K] denotes the node [X] *)

Fixpoint step_at (K : key) (pat : pattern) (X : key) : option (bool * pstep) :=
  match pat with
  | [] => None
  | (k, ps) :: rest =>
      if key_eqb X (skey_of ps :: K) then Some (k, ps)
      else step_at (skey_of ps :: K) rest X
  end.

Lemma step_at_longer : forall pat K X x,
  step_at K pat X = Some x -> (length K < length X)%nat.
Proof.
  induction pat as [|[k ps] rest IH]; cbn; intros K X x H; [discriminate|].
  destruct (key_eqb X (skey_of ps :: K)) eqn:E.
  - apply key_eqb_eq in E. subst. cbn. lia.
  - apply IH in H. cbn in H. lia.
Qed.

Lemma step_at_self_none : forall pat K, step_at K pat K = None.
Proof.
  intros pat K. destruct (step_at K pat K) eqn:E; [|reflexivity].
  apply step_at_longer in E. lia.
Qed.

Lemma key_from_cons : forall K k ps rest,
  key_from K ((k, ps) :: rest) = key_from (skey_of ps :: K) rest.
Proof.
  intros. unfold key_from. cbn. rewrite <- app_assoc. reflexivity.
Qed.

Lemma key_from_length : forall pat K,
  length (key_from K pat) = (length pat + length K)%nat.
Proof.
  intros. unfold key_from. rewrite app_length, rev_length, map_length. reflexivity.
Qed.

(* the last step of a non-empty pattern denotes its node *)
Lemma step_at_last : forall pat K,
  pat <> [] -> exists k ps, step_at K pat (key_from K pat) = Some (k, ps).
Proof.
  induction pat as [|[k ps] rest IH]; intros K Hne; [contradiction|].
  rewrite key_from_cons. cbn.
  destruct (key_eqb (key_from (skey_of ps :: K) rest) (skey_of ps :: K)) eqn:E.
  - eauto.
  - destruct rest as [|x rest'].
    + change (key_from (skey_of ps :: K) []) with (skey_of ps :: K) in E.
      rewrite key_eqb_refl in E. discriminate.
    + apply IH. intro Hx. discriminate Hx.
Qed.

Lemma step_at_head : forall pat K X k ps,
  step_at K pat X = Some (k, ps) -> exists K1, X = skey_of ps :: K1.
Proof.
  induction pat as [|[k0 ps0] rest IH]; cbn [step_at]; intros K X k ps H; [discriminate|].
  destruct (key_eqb X (skey_of ps0 :: K)) eqn:E.
  - apply key_eqb_eq in E. inversion H; subst. eauto.
  - eapply IH; exact H.
Qed.

Lemma step_at_suffix : forall pat K X x,
  step_at K pat X = Some x -> exists A, X = A ++ K.
Proof.
  induction pat as [|[k0 ps0] rest IH]; cbn [step_at]; intros K X x H; [discriminate|].
  destruct (key_eqb X (skey_of ps0 :: K)) eqn:E.
  - apply key_eqb_eq in E. subst. exists [skey_of ps0]. reflexivity.
  - apply IH in H. destruct H as [A ->]. exists (A ++ [skey_of ps0]).
    rewrite <- app_assoc. reflexivity.
Qed.

Lemma step_at_app_l : forall p0 tl K X x,
  step_at K p0 X = Some x -> step_at K (p0 ++ tl) X = Some x.
Proof.
  induction p0 as [|[k0 ps0] rest IH]; cbn [step_at app]; intros tl K X x H; [discriminate|].
  destruct (key_eqb X (skey_of ps0 :: K)); [exact H|]. apply IH. exact H.
Qed.

Lemma split_on_nonempty : forall c s, split_on c s <> [].
Proof.
  intros c s. destruct s as [|x s']; cbn; [discriminate|].
  destruct (x =? c); [discriminate|].
  destruct (split_on c s'); discriminate.
Qed.

Lemma split_url_nonempty : forall u, split_url u <> [].
Proof.
  intro u. unfold split_url.
  destruct (split_on c_slash (trim_url u)) as [|host path] eqn:E.
  - exfalso. eapply split_on_nonempty; exact E.
  - destruct (split_on c_dot host) eqn:E2.
    + exfalso. eapply split_on_nonempty; exact E2.
    + discriminate.
Qed.

Lemma classify_wild : forall s, classify s = PWild -> s = star.
Proof.
  intros s H. unfold classify in H.
  destruct (str_eqb s star) eqn:E.
  - apply str_eqb_eq. exact E.
  - destruct (is_brace s); discriminate.
Qed.

(* validateURL: the wildcard can only be the last step *)
Lemma validate_wild_last : forall parts K X k,
  validate parts = true ->
  step_at K (parse_pattern parts) X = Some (k, PWild) ->
  X = key_from K (parse_pattern parts).
Proof.
  induction parts as [|[k0 s0] rest IH]; intros K X k HV HS; [discriminate|].
  cbn [parse_pattern map fst snd] in *. rewrite key_from_cons.
  cbn [validate] in HV. apply andb_true_iff in HV. destruct HV as [HV HV2].
  apply andb_true_iff in HV. destruct HV as [_ HV1].
  cbn [step_at] in HS.
  destruct (key_eqb X (skey_of (classify s0) :: K)) eqn:E.
  - apply key_eqb_eq in E. inversion HS as [[Hk HC]]. apply classify_wild in HC.
    subst s0. rewrite str_eqb_refl in HV1. cbn in HV1.
    destruct rest; [|discriminate]. subst X. reflexivity.
  - eapply IH; eauto.
Qed.

Lemma key_of_wild_inv : forall p P,
  key_of p = KWild :: P ->
  exists p0 k, p = p0 ++ [(k, PWild)] /\ key_of p0 = P.
Proof.
  intros p P H. destruct (rev p) as [|[k ps] rp] eqn:E.
  - apply (f_equal (@rev _)) in E. rewrite rev_involutive in E. subst p.
    discriminate.
  - apply (f_equal (@rev _)) in E. rewrite rev_involutive in E. cbn in E. subst p.
    unfold key_of, key_from in H. rewrite app_nil_r in H.
    rewrite map_app, rev_app_distr in H. cbn in H.
    inversion H as [[Hs HP]]. exists (rev rp), k. split.
    + destruct ps; cbn in Hs; try discriminate. reflexivity.
    + unfold key_of, key_from. rewrite app_nil_r. reflexivity.
Qed.

Lemma params_at_app_wild : forall p0 us k rest acc,
  length us = length p0 ->
  params_at (p0 ++ [(k, PWild)]) (us ++ rest) acc = params_at p0 us acc.
Proof.
  induction p0 as [|[k0 ps0] p0' IH]; intros us k rest acc HL.
  - destruct us; [|discriminate]. cbn. destruct rest; reflexivity.
  - destruct us as [|[ku u] us']; [discriminate|]. cbn in HL.
    destruct ps0; cbn [app params_at].
    + apply IH. lia.
    + apply IH. lia.
    + reflexivity.
Qed.

Lemma params_at_nb_app_wild : forall p0 us k rest acc,
  length us = length p0 ->
  params_at_nb (p0 ++ [(k, PWild)]) (us ++ rest) acc = params_at_nb p0 us acc.
Proof.
  induction p0 as [|[k0 ps0] p0' IH]; intros us k rest acc HL.
  - destruct us; [|discriminate]. cbn. destruct rest; reflexivity.
  - destruct us as [|[ku u] us']; [discriminate|]. cbn in HL.
    destruct ps0; cbn [app params_at_nb].
    + apply IH. lia.
    + apply IH. lia.
    + reflexivity.
Qed.

Lemma kind_agree_visits : forall p q K X k1 ps1 k2 ps2,
  kind_agree p q = true ->
  step_at K p X = Some (k1, ps1) -> step_at K q X = Some (k2, ps2) -> k1 = k2.
Proof.
  induction p as [|[ka sa] p' IH]; intros q K X k1 ps1 k2 ps2 HA H1 H2; [discriminate|].
  destruct q as [|[kb sb] q']; [discriminate|].
  cbn [step_at] in H1, H2. cbn [kind_agree] in HA.
  destruct (key_eqb X (skey_of sa :: K)) eqn:E1;
    destruct (key_eqb X (skey_of sb :: K)) eqn:E2.
  - apply key_eqb_eq in E1. apply key_eqb_eq in E2. subst X.
    inversion E2 as [Hs]. rewrite Hs in HA.
    assert (Hr : skey_eqb (skey_of sb) (skey_of sb) = true)
      by (apply skey_eqb_eq; reflexivity).
    rewrite Hr in HA. apply andb_true_iff in HA. destruct HA as [HA _].
    apply eqb_prop in HA. inversion H1; inversion H2; subst. reflexivity.
  - apply key_eqb_eq in E1. subst X. apply step_at_longer in H2. cbn in H2. lia.
  - apply key_eqb_eq in E2. subst X. apply step_at_longer in H1. cbn in H1. lia.
  - destruct (skey_eqb (skey_of sa) (skey_of sb)) eqn:ES.
    + apply skey_eqb_eq in ES. rewrite ES in H1.
      apply andb_true_iff in HA. destruct HA as [_ HA].
      eapply IH; eauto.
    + exfalso.
      pose proof (step_at_suffix _ _ _ _ H1) as [A HA1].
      pose proof (step_at_suffix _ _ _ _ H2) as [B HB1].
      rewrite HA1 in HB1.
      change (A ++ [skey_of sa] ++ K = B ++ [skey_of sb] ++ K) in HB1.
      rewrite !app_assoc in HB1. apply app_inv_tail in HB1.
      apply app_inj_tail in HB1. destruct HB1 as [_ HB1].
      rewrite HB1 in ES.
      assert (Hr : skey_eqb (skey_of sb) (skey_of sb) = true)
        by (apply skey_eqb_eq; reflexivity).
      congruence.
Qed.

Definition pname_of (ps : pstep) : str :=
  match ps with PParam nm => nm | _ => [] end.

Section TreeLemmas.
  Context {V : Type}.
  Notation tree := (tree V).
  Notation ninfo := (ninfo V).

  Lemma find_node_cons : forall X K (ni : ninfo) (t : tree),
    find_node X ((K, ni) :: t) = if key_eqb X K then Some ni else find_node X t.
  Proof. reflexivity. Qed.

  (* what a step leaves at the node it denotes *)
  Definition after_step (k : bool) (ps : pstep) (old : option ninfo) : option ninfo :=
    match ps with
    | PWild => Some (fresh_node k [])
    | PParam nm =>
        match old with Some ni => Some ni | None => Some (fresh_node k nm) end
    | PConst _ =>
        match old with Some ni => Some ni | None => Some (fresh_node k []) end
    end.

  Lemma insert_steps_key : forall pat (t : tree) K t' K',
    insert_steps t K pat = Some (t', K') -> K' = key_from K pat.
  Proof.
    induction pat as [|[k ps] rest IH]; intros t K t' K' H.
    - cbn in H. inversion H. reflexivity.
    - rewrite key_from_cons. destruct ps as [s|nm|]; cbn in H.
      + destruct (find_node (KConst s :: K) t); eapply IH; exact H.
      + destruct (find_node (KParam :: K) t) as [ni|].
        * destruct (str_eqb nm (n_pname ni)); [|discriminate]. eapply IH; exact H.
        * eapply IH; exact H.
      + eapply IH; exact H.
  Qed.

  Lemma insert_steps_find : forall pat (t : tree) K t' K',
    insert_steps t K pat = Some (t', K') ->
    forall X,
      find_node X t' =
      match step_at K pat X with
      | Some (k, ps) => after_step k ps (find_node X t)
      | None => find_node X t
      end.
  Proof.
    induction pat as [|[k ps] rest IH]; intros t K t' K' H X.
    - cbn in H. inversion H; subst. reflexivity.
    - cbn [step_at].
      destruct (key_eqb X (skey_of ps :: K)) eqn:EX.
      + apply key_eqb_eq in EX. subst X.
        destruct ps as [s|nm|]; cbn in H; cbn [skey_of after_step].
        * destruct (find_node (KConst s :: K) t) as [ni|] eqn:F.
          -- rewrite (IH _ _ _ _ H). rewrite step_at_self_none. exact F.
          -- rewrite (IH _ _ _ _ H). rewrite step_at_self_none.
             rewrite find_node_cons, key_eqb_refl. reflexivity.
        * destruct (find_node (KParam :: K) t) as [ni|] eqn:F.
          -- destruct (str_eqb nm (n_pname ni)); [|discriminate].
             rewrite (IH _ _ _ _ H). rewrite step_at_self_none. exact F.
          -- rewrite (IH _ _ _ _ H). rewrite step_at_self_none.
             rewrite find_node_cons, key_eqb_refl. reflexivity.
        * rewrite (IH _ _ _ _ H). rewrite step_at_self_none.
          rewrite find_node_cons, key_eqb_refl. reflexivity.
      + destruct ps as [s|nm|]; cbn in H; cbn [skey_of] in *.
        * destruct (find_node (KConst s :: K) t) as [ni|] eqn:F.
          -- apply (IH _ _ _ _ H).
          -- rewrite (IH _ _ _ _ H). rewrite find_node_cons, EX. reflexivity.
        * destruct (find_node (KParam :: K) t) as [ni|] eqn:F.
          -- destruct (str_eqb nm (n_pname ni)); [|discriminate].
             apply (IH _ _ _ _ H).
          -- rewrite (IH _ _ _ _ H). rewrite find_node_cons, EX. reflexivity.
        * rewrite (IH _ _ _ _ H). rewrite find_node_cons, EX. reflexivity.
  Qed.

  (* an existing parameter node keeps its name only if the names agree *)
  Lemma insert_steps_pname : forall pat (t : tree) K t' K',
    insert_steps t K pat = Some (t', K') ->
    forall X k nm ni,
      step_at K pat X = Some (k, PParam nm) ->
      find_node X t = Some ni -> n_pname ni = nm.
  Proof.
    induction pat as [|[k ps] rest IH]; intros t K t' K' H X k0 nm ni HS HF.
    - discriminate.
    - cbn [step_at] in HS.
      destruct (key_eqb X (skey_of ps :: K)) eqn:EX.
      + apply key_eqb_eq in EX. subst X. inversion HS; subst k0 ps. cbn in H, HF.
        rewrite HF in H.
        destruct (str_eqb nm (n_pname ni)) eqn:E; [|discriminate].
        apply str_eqb_eq in E. congruence.
      + assert (HL := step_at_longer _ _ _ _ HS).
        destruct ps as [s|nm'|]; cbn in H; cbn [skey_of] in *.
        * destruct (find_node (KConst s :: K) t) as [ni'|] eqn:F.
          -- eapply IH; eauto.
          -- eapply IH; eauto. rewrite find_node_cons, EX. exact HF.
        * destruct (find_node (KParam :: K) t) as [ni'|] eqn:F.
          -- destruct (str_eqb nm' (n_pname ni')); [|discriminate].
             eapply IH; eauto.
          -- eapply IH; eauto. rewrite find_node_cons, EX. exact HF.
        * eapply IH; eauto. rewrite find_node_cons, EX. exact HF.
  Qed.

  Lemma set_val_find : forall (t : tree) K v X,
    find_node X (set_val t K v) =
    if key_eqb X K then
      match find_node K t with
      | Some ni => Some {| n_host := n_host ni; n_pname := n_pname ni; n_val := Some v |}
      | None => None
      end
    else find_node X t.
  Proof.
    intros t K v X. unfold set_val.
    destruct (find_node K t) as [ni|] eqn:F.
    - rewrite find_node_cons. reflexivity.
    - destruct (key_eqb X K) eqn:E; [|reflexivity].
      apply key_eqb_eq in E. subst. exact F.
  Qed.

  (* InsertDeclaredURL, node by node *)
  Lemma insert_parts_cases : forall (t : tree) parts v t',
    insert_parts t parts v = Some t' -> parts <> [] ->
    let p := parse_pattern parts in
    let K' := key_of p in
    validate parts = true /\
    forall X,
      (step_at [] p X = None /\ X <> K' /\ find_node X t' = find_node X t)
      \/
      (exists k ps ni',
         step_at [] p X = Some (k, ps) /\ find_node X t' = Some ni' /\
         n_val ni' = (if key_eqb X K' then Some v
                      else match find_node X t with
                           | Some ni => n_val ni
                           | None => None
                           end) /\
         ((ps = PWild /\ X = K' /\ n_host ni' = k /\ n_pname ni' = [])
          \/
          (ps <> PWild /\
           exists ni, find_node X t = Some ni /\ n_host ni' = n_host ni /\
                      n_pname ni' = n_pname ni /\
                      (forall nm, ps = PParam nm -> n_pname ni = nm))
          \/
          (ps <> PWild /\ find_node X t = None /\ n_host ni' = k /\
           n_pname ni' = pname_of ps))).
  Proof.
    intros t parts v t' HI Hne p K'. unfold insert_parts in HI.
    destruct (validate parts) eqn:HV; [|discriminate]. split; [reflexivity|].
    fold p in HI.
    destruct (insert_steps t [] p) as [[t1 K1]|] eqn:HS; [|discriminate].
    inversion HI; subst t'. clear HI.
    pose proof (insert_steps_key _ _ _ _ _ HS) as HK. fold (key_of p) in HK.
    fold K' in HK. subst K1.
    assert (Hp : p <> []).
    { unfold p. destruct parts; [contradiction|discriminate]. }
    destruct (step_at_last p [] Hp) as (kl & psl & HL). fold (key_of p) in HL.
    fold K' in HL.
    intro X. rewrite set_val_find. rewrite !(insert_steps_find _ _ _ _ _ HS).
    rewrite HL.
    destruct (step_at [] p X) as [[k ps]|] eqn:SX.
    - right.
      destruct (key_eqb X K') eqn:EX.
      + apply key_eqb_eq in EX. subst X. rewrite HL in SX. inversion SX; subst kl psl.
        destruct ps as [c|nm|]; cbn [after_step].
        * destruct (find_node K' t) as [ni|] eqn:F.
          -- eexists k, (PConst c), _. split; [reflexivity|]. split; [reflexivity|].
             cbn. split; [reflexivity|]. right. left. split; [discriminate|].
             exists ni. repeat split; auto. intros nm H; discriminate.
          -- eexists k, (PConst c), _. split; [reflexivity|]. split; [reflexivity|].
             cbn. split; [reflexivity|]. right. right. split; [discriminate|].
             repeat split; auto.
        * destruct (find_node K' t) as [ni|] eqn:F.
          -- eexists k, (PParam nm), _. split; [reflexivity|]. split; [reflexivity|].
             cbn. split; [reflexivity|]. right. left. split; [discriminate|].
             exists ni. repeat split; auto. intros nm' H. inversion H; subst nm'.
             eapply insert_steps_pname; eauto.
          -- eexists k, (PParam nm), _. split; [reflexivity|]. split; [reflexivity|].
             cbn. split; [reflexivity|]. right. right. split; [discriminate|].
             repeat split; auto.
        * eexists k, PWild, _. split; [reflexivity|]. split; [reflexivity|].
          cbn. split; [reflexivity|]. left. repeat split; auto.
      + assert (HNW : ps <> PWild).
        { intros ->. apply (validate_wild_last parts [] X k HV) in SX.
          fold p in SX. fold (key_of p) in SX. fold K' in SX. subst X.
          rewrite key_eqb_refl in EX. discriminate. }
        destruct ps as [c|nm|]; cbn [after_step]; [| |contradiction].
        * destruct (find_node X t) as [ni|] eqn:F.
          -- eexists k, (PConst c), _. split; [reflexivity|]. split; [reflexivity|].
             split; [reflexivity|]. right. left. split; [discriminate|].
             exists ni. repeat split; auto. intros nm H; discriminate.
          -- eexists k, (PConst c), _. split; [reflexivity|]. split; [reflexivity|].
             cbn. split; [reflexivity|]. right. right. split; [discriminate|].
             repeat split; auto.
        * destruct (find_node X t) as [ni|] eqn:F.
          -- eexists k, (PParam nm), _. split; [reflexivity|]. split; [reflexivity|].
             split; [reflexivity|]. right. left. split; [discriminate|].
             exists ni. repeat split; auto. intros nm' H. inversion H; subst nm'.
             eapply insert_steps_pname; eauto.
          -- eexists k, (PParam nm), _. split; [reflexivity|]. split; [reflexivity|].
             cbn. split; [reflexivity|]. right. right. split; [discriminate|].
             repeat split; auto.
    - left. split; [reflexivity|].
      assert (HN : X <> K') by (intros ->; rewrite HL in SX; discriminate).
      split; [exact HN|]. apply key_eqb_neq in HN. rewrite HN. reflexivity.
  Qed.

  (* ---------------------------------------------------------------- *)
  (* what a lookup has followed *)

  Definition node_host (t : tree) (X : key) : bool :=
    match find_node X t with Some ni => n_host ni | None => false end.
  Definition node_pname (t : tree) (X : key) : str :=
    match find_node X t with Some ni => n_pname ni | None => [] end.

  (* [follows t X rus]: the node [X] is reached from the root by the parts
     [rus] (reversed: last part first), every step through a constant child
     equal to the part or — only when there is no such child of the part's
     kind — through the parametric child, of the part's kind *)
  Fixpoint follows (t : tree) (X : key) (rus : list part) : Prop :=
    match X, rus with
    | [], [] => True
    | s :: X', (k, u) :: rus' =>
        (exists ni, find_node (s :: X') t = Some ni /\ n_host ni = k) /\
        (s = KConst u \/
         (s = KParam /\ child_ok t (KConst u :: X') k = None)) /\
        follows t X' rus'
    | _, _ => False
    end.

  (* the URL of a node, as Lookup spells it *)
  Fixpoint path_of (t : tree) (X : key) : str :=
    match X with
    | [] => []
    | s :: X' =>
        path_of t X' ++ delim (node_host t X) ++
        match s with
        | KConst u => u
        | KParam => [c_lbrace] ++ node_pname t X ++ [c_rbrace]
        | KWild => star
        end
    end.

  (* the parameters bound on the way to a node *)
  Fixpoint params_along (t : tree) (X : key) (rus : list part) : params :=
    match X, rus with
    | s :: X', (_, u) :: rus' =>
        match s with
        | KParam =>
            if is_brace u then params_along t X' rus'
            else (node_pname t X, u) :: params_along t X' rus'
        | _ => params_along t X' rus'
        end
    | _, _ => []
    end.

  (* a remembered wildcard: its parent [P] was reached by the parts [rP]; at
     least one further part [x] has been consumed since, and with the repaired
     code ([ck]) the wildcard is of the kind of that first part *)
  Definition fw_ok (ck : bool) (t : tree) (rcons : list part) (fw : wfound) : Prop :=
    match fw with
    | None => True
    | Some (W, wpath, wps) =>
        exists P rP pre x,
          W = KWild :: P /\ follows t P rP /\ rcons = pre ++ x :: rP /\
          find_node W t <> None /\ wpath = path_of t W /\
          wps = params_along t P rP /\
          (ck = true -> node_host t W = fst x)
    end.

  Lemma fw_ok_cons : forall ck t rcons fw u,
    fw_ok ck t rcons fw -> fw_ok ck t (u :: rcons) fw.
  Proof.
    intros ck t rcons [[[W wpath] wps]|] u H; [|exact I].
    destruct H as (P & rP & pre & x & H1 & H2 & H3 & H4 & H5 & H6 & H7).
    exists P, rP, (u :: pre), x. subst rcons. repeat split; auto.
  Qed.

  (* the wildcard child noted in front of the part (k, s) *)
  Lemma note_wild_ok_cons : forall ck t K rcons fw ps path k s,
    follows t K rcons -> fw_ok ck t rcons fw ->
    ps = params_along t K rcons -> path = path_of t K ->
    fw_ok ck t ((k, s) :: rcons) (note_wild ck t K path ps (Some k) fw).
  Proof.
    intros ck t K rcons fw ps path k s HF HW Hps Hpath. unfold note_wild.
    destruct (find_node (KWild :: K) t) as [wi|] eqn:F; [|apply fw_ok_cons; exact HW].
    destruct (negb ck || eqb (n_host wi) k) eqn:EC; [|apply fw_ok_cons; exact HW].
    exists K, rcons, [], (k, s). repeat split; auto.
    - rewrite F. discriminate.
    - cbn [path_of]. unfold node_host. rewrite F. subst path. reflexivity.
    - intros ->. cbn in EC. apply eqb_prop in EC. unfold node_host. rewrite F. exact EC.
  Qed.

  (* the two ways a lookup succeeds; in the second the wildcard [l_key r]
     stands for the parts [pre] (reversed), the first of which — with the
     repaired code — is of the wildcard's kind *)
  Definition walk_result (ck : bool) (t : tree) (rall : list part) (r : lres V) : Prop :=
    l_val r = node_val t (l_key r) /\
    l_norm r = trim_url (path_of t (l_key r)) /\
    ((follows t (l_key r) rall /\ node_val t (l_key r) <> None /\
      l_params r = params_along t (l_key r) rall)
     \/
     (exists P rP pre,
        l_key r = KWild :: P /\ follows t P rP /\ rall = pre ++ rP /\
        find_node (l_key r) t <> None /\ l_params r = params_along t P rP /\
        (ck = true -> forall pre0 x, pre = pre0 ++ [x] ->
                      node_host t (l_key r) = fst x))).

  Lemma fw_hit : forall ck t rcons W wpath wps pre,
    fw_ok ck t rcons (Some (W, wpath, wps)) ->
    walk_result ck t (pre ++ rcons) (hit t W wps wpath).
  Proof.
    intros ck t rcons W wpath wps pre H.
    destruct H as (P & rP & pre' & x & H1 & H2 & H3 & H4 & H5 & H6 & H7).
    unfold walk_result, hit; cbn. split; [reflexivity|].
    split; [rewrite H5; reflexivity|].
    right. exists P, rP, (pre ++ pre' ++ [x]). subst rcons.
    repeat split; auto.
    - rewrite <- !app_assoc. reflexivity.
    - intros Hck pre0 x0 E. rewrite app_assoc in E. apply app_inj_tail in E.
      destruct E as [_ <-]. apply H7. exact Hck.
  Qed.

  Lemma child_ok_some : forall (t : tree) X k ci,
    child_ok t X k = Some ci -> find_node X t = Some ci /\ n_host ci = k.
  Proof.
    intros t X k ci H. unfold child_ok in H.
    destruct (find_node X t) as [ni|]; [|discriminate].
    destruct (eqb (n_host ni) k) eqn:E; [|discriminate].
    inversion H; subst. apply eqb_prop in E. auto.
  Qed.

  Lemma walk_spec : forall parts ck t K rcons fw ps path,
    follows t K rcons -> fw_ok ck t rcons fw ->
    ps = params_along t K rcons -> path = path_of t K ->
    l_match (walk_v ck t K parts fw ps path) = true ->
    walk_result ck t (rev parts ++ rcons) (walk_v ck t K parts fw ps path).
  Proof.
    induction parts as [|[k s] rest IH]; intros ck t K rcons fw ps path HF HW Hps Hpath HM.
    - cbn [walk_v rev app] in *.
      destruct (node_val t K) as [v|] eqn:NV.
      + unfold walk_result, hit; cbn. split; [reflexivity|].
        split; [rewrite Hpath; reflexivity|].
        left. repeat split; auto. rewrite NV. discriminate.
      + unfold note_wild in *.
        destruct (find_node (KWild :: K) t) as [wi|] eqn:F.
        * unfold walk_result, hit; cbn. split; [reflexivity|].
          split; [cbn [path_of]; unfold node_host; rewrite F; subst path; reflexivity|].
          right. exists K, rcons, []. repeat split; auto.
          -- rewrite F. discriminate.
          -- intros _ pre0 x E. destruct pre0; discriminate.
        * destruct fw as [[[W wpath] wps]|]; [|discriminate].
          apply (fw_hit ck t rcons W wpath wps [] HW).
    - cbn [walk_v] in *.
      pose proof (note_wild_ok_cons ck t K rcons fw ps path k s HF HW Hps Hpath) as HW'.
      set (fw' := note_wild ck t K path ps (Some k) fw) in *.
      cbn [rev]. rewrite <- app_assoc. cbn [app].
      destruct (child_ok t (KConst s :: K) k) as [ci|] eqn:C1.
      + apply child_ok_some in C1. destruct C1 as [F1 H1].
        apply IH; auto.
        * cbn [follows]. split; [eauto|]. split; [left; reflexivity|exact HF].
        * cbn [path_of]. unfold node_host. rewrite F1, H1. subst path.
          reflexivity.
      + destruct (child_ok t (KParam :: K) k) as [pi|] eqn:C2.
        * apply child_ok_some in C2. destruct C2 as [F2 H2].
          apply IH; auto.
          -- cbn [follows]. split; [eauto|]. split; [right; split; [reflexivity|exact C1]|exact HF].
          -- cbn [params_along]. unfold node_pname. rewrite F2. subst ps.
             reflexivity.
          -- cbn [path_of]. unfold node_host, node_pname. rewrite F2, H2.
             subst path. reflexivity.
        * destruct (is_brace s); [discriminate|].
          destruct fw' as [[[W wpath] wps]|]; [|discriminate].
          apply (fw_hit ck t ((k, s) :: rcons) W wpath wps (rev rest)) in HW'.
          exact HW'.
  Qed.

  Lemma walk_no_match : forall parts ck (t : tree) K fw ps path,
    l_match (walk_v ck t K parts fw ps path) = false ->
    walk_v ck t K parts fw ps path = no_match.
  Proof.
    induction parts as [|[k s] rest IH]; intros ck t K fw ps path HM; cbn [walk_v] in *.
    - destruct (node_val t K); [discriminate HM|].
      destruct (note_wild ck t K path ps None fw) as [[[W wpath] wps]|];
        [discriminate HM|reflexivity].
    - destruct (child_ok t (KConst s :: K) k); [apply IH; exact HM|].
      destruct (child_ok t (KParam :: K) k); [apply IH; exact HM|].
      destruct (is_brace s); [reflexivity|].
      destruct (note_wild ck t K path ps (Some k) fw) as [[[W wpath] wps]|];
        [discriminate HM|reflexivity].
  Qed.

  Lemma lookup_parts_v_spec : forall ck t parts,
    l_match (lookup_parts_v ck t parts) = true ->
    walk_result ck t (rev parts) (lookup_parts_v ck t parts).
  Proof.
    intros ck t parts HM. unfold lookup_parts_v in *.
    pose proof (walk_spec parts ck t [] [] None [] [] I I eq_refl eq_refl HM) as H.
    rewrite app_nil_r in H. exact H.
  Qed.

  Lemma lookup_parts_spec : forall t parts,
    l_match (lookup_parts t parts) = true ->
    walk_result true t (rev parts) (lookup_parts t parts).
  Proof. intros t parts. apply lookup_parts_v_spec. Qed.

  (* ---------------------------------------------------------------- *)
  (* a pattern whose nodes carry the pattern's own kinds and names *)

  Definition agrees (t : tree) (K : key) (pat : pattern) : Prop :=
    forall X k ps, step_at K pat X = Some (k, ps) ->
      exists ni, find_node X t = Some ni /\ n_host ni = k /\
                 n_pname ni = pname_of ps.

  Lemma agrees_cons : forall t K k ps rest,
    agrees t K ((k, ps) :: rest) ->
    (exists ni, find_node (skey_of ps :: K) t = Some ni /\ n_host ni = k /\
                n_pname ni = pname_of ps) /\
    agrees t (skey_of ps :: K) rest.
  Proof.
    intros t K k ps rest H. split.
    - apply H. cbn [step_at]. rewrite key_eqb_refl. reflexivity.
    - intros X k' ps' HS. apply H. cbn [step_at].
      destruct (key_eqb X (skey_of ps :: K)) eqn:E; [|exact HS].
      apply key_eqb_eq in E. subst X. rewrite step_at_self_none in HS. discriminate.
  Qed.

  Lemma agrees_app_l : forall t K p0 tl,
    agrees t K (p0 ++ tl) -> agrees t K p0.
  Proof.
    intros t K p0 tl H X k ps HS. apply H. apply step_at_app_l. exact HS.
  Qed.

  Lemma follows_length : forall X t rus, follows t X rus -> length X = length rus.
  Proof.
    induction X as [|s X' IH]; intros t [|[k u] rus'] H; cbn in H; try contradiction.
    - reflexivity.
    - destruct H as (_ & _ & H). cbn. f_equal. eapply IH; exact H.
  Qed.

  Lemma follows_param_step : forall A t X' rus,
    follows t (A ++ KParam :: X') rus ->
    exists B k u rus',
      rus = B ++ (k, u) :: rus' /\ length A = length B /\
      child_ok t (KConst u :: X') k = None /\ follows t X' rus'.
  Proof.
    induction A as [|a A IH]; intros t X' [|[k u] rus0] HF; cbn [app follows] in HF;
      try contradiction.
    - destruct HF as (_ & Hs & HF). destruct Hs as [Hs|[_ Hs]]; [discriminate|].
      exists [], k, u, rus0. auto.
    - destruct HF as (_ & _ & HF). apply IH in HF.
      destruct HF as (B & k1 & u1 & rus' & -> & HL & HC & HF).
      exists ((k, u) :: B), k1, u1, rus'. cbn. auto.
  Qed.

  Lemma follows_drop : forall A B t K rK,
    length A = length B -> follows t (A ++ K) (B ++ rK) -> follows t K rK.
  Proof.
    induction A as [|a A IH]; intros [|[k u] B] t K rK HL HF; cbn in HL;
      try discriminate.
    - exact HF.
    - cbn [app follows] in HF. destruct HF as (_ & _ & HF).
      eapply IH; [|exact HF]. lia.
  Qed.

  Lemma follows_matches : forall p t K rK us tail rest,
    agrees t K p -> length us = length p ->
    follows t (key_from K p) (rev us ++ rK) ->
    ((tail = [] /\ rest = []) \/ (exists k, tail = [(k, PWild)])) ->
    matches (p ++ tail) (us ++ rest) = true.
  Proof.
    induction p as [|[k ps] p' IH]; intros t K rK us tail rest HA HL HF HT.
    - destruct us; [|discriminate]. cbn [app].
      destruct HT as [[-> ->]|[k ->]]; reflexivity.
    - destruct us as [|[ku u] us']; [discriminate|]. cbn in HL.
      apply agrees_cons in HA. destruct HA as [(ni & F & Hh & Hn) HA'].
      rewrite key_from_cons in HF. cbn [rev] in HF. rewrite <- app_assoc in HF.
      cbn [app] in HF.
      assert (HM : matches (p' ++ tail) (us' ++ rest) = true).
      { eapply IH; eauto. }
      unfold key_from in HF.
      apply follows_drop in HF;
        [|rewrite !rev_length, map_length; lia].
      cbn [follows] in HF. destruct HF as ((ni' & F' & Hh') & Hs & _).
      rewrite F in F'. inversion F'; subst ni'.
      assert (Ek : eqb k ku = true) by (apply eqb_true_iff; congruence).
      destruct ps as [c|nm|]; cbn [skey_of] in Hs.
      + destruct Hs as [Hs|[Hs _]]; [|discriminate]. inversion Hs; subst u.
        cbn. rewrite Ek, str_eqb_refl. exact HM.
      + cbn. rewrite Ek. exact HM.
      + destruct Hs as [Hs|[Hs _]]; discriminate.
  Qed.

  Lemma path_of_render : forall p t K,
    agrees t K p -> path_of t (key_from K p) = path_of t K ++ render_raw p.
  Proof.
    induction p as [|[k ps] p' IH]; intros t K HA.
    - unfold key_from. cbn. rewrite app_nil_r. reflexivity.
    - apply agrees_cons in HA. destruct HA as [(ni & F & Hh & Hn) HA'].
      rewrite key_from_cons, (IH _ _ HA'). cbn [path_of render_raw].
      unfold node_host, node_pname. rewrite F, Hh.
      rewrite <- !app_assoc. f_equal. f_equal.
      destruct ps as [c|nm|]; cbn [skey_of step_text].
      + reflexivity.
      + rewrite Hn. cbn [pname_of]. rewrite <- !app_assoc. reflexivity.
      + reflexivity.
  Qed.

  Definition wild_free (p : pattern) : Prop :=
    Forall (fun x => snd x <> PWild) p.

  Lemma follows_wild_free : forall p t K rK us,
    length us = length p -> follows t (key_from K p) (rev us ++ rK) -> wild_free p.
  Proof.
    induction p as [|[k ps] p' IH]; intros t K rK us HL HF.
    - constructor.
    - destruct us as [|[ku u] us']; [discriminate|]. cbn in HL.
      rewrite key_from_cons in HF. cbn [rev] in HF. rewrite <- app_assoc in HF.
      cbn [app] in HF. constructor.
      + unfold key_from in HF.
        apply follows_drop in HF; [|rewrite !rev_length, map_length; lia].
        cbn [follows] in HF. destruct HF as (_ & Hs & _). cbn [snd].
        intros ->. destruct Hs as [Hs|[Hs _]]; discriminate.
      + eapply IH; [|exact HF]. lia.
  Qed.

  Lemma params_along_at : forall p t K rK us,
    agrees t K p -> length us = length p -> wild_free p ->
    Forall (fun u => is_brace (snd u) = false) us ->
    params_along t (key_from K p) (rev us ++ rK) =
    params_at p us (params_along t K rK).
  Proof.
    induction p as [|[k ps] p' IH]; intros t K rK us HA HL HW HB.
    - destruct us; [|discriminate]. reflexivity.
    - destruct us as [|[ku u] us']; [discriminate|]. cbn in HL.
      apply agrees_cons in HA. destruct HA as [(ni & F & Hh & Hn) HA'].
      inversion HW as [|? ? Hps HW']; subst. inversion HB as [|? ? Hb HB']; subst.
      cbn [snd] in Hps, Hb.
      rewrite key_from_cons. cbn [rev]. rewrite <- app_assoc. cbn [app].
      rewrite (IH t (skey_of ps :: K) ((ku, u) :: rK) us' HA' ltac:(lia) HW' HB').
      destruct ps as [c|nm|]; cbn [skey_of params_along params_at] in *.
      + reflexivity.
      + rewrite Hb. unfold node_pname. rewrite F, Hn. reflexivity.
      + contradiction.
  Qed.

  (* ---------------------------------------------------------------- *)
  (* conditional completeness: a wildcard-free pattern that matches, whose
     node holds a value and none of whose parameter steps is shadowed by a
     literal child of the request part's kind, is the node selected *)

  Fixpoint unshadowed_in (t : tree) (K : key) (p : pattern) (us : list part) : Prop :=
    match p, us with
    | (_, ps) :: p', (ku, u) :: us' =>
        match ps with
        | PParam _ => child_ok t (KConst u :: K) ku = None
        | _ => True
        end /\ unshadowed_in t (skey_of ps :: K) p' us'
    | _, _ => True
    end.

  Lemma child_ok_intro : forall (t : tree) X k ni,
    find_node X t = Some ni -> n_host ni = k -> child_ok t X k = Some ni.
  Proof.
    intros t X k ni F H. unfold child_ok. rewrite F, H, eqb_reflx. reflexivity.
  Qed.

  Lemma key_from_nil : forall K, key_from K [] = K.
  Proof. reflexivity. Qed.

  Lemma walk_exact : forall p ck t K us fw ps path,
    agrees t K p -> wild_free p -> matches p us = true ->
    unshadowed_in t K p us -> node_val t (key_from K p) <> None ->
    l_match (walk_v ck t K us fw ps path) = true /\
    l_key (walk_v ck t K us fw ps path) = key_from K p.
  Proof.
    induction p as [|[k pstp] p' IH]; intros ck t K us fw ps path HA HW HM HU HV.
    - destruct us; [|discriminate]. rewrite key_from_nil in *. cbn [walk_v].
      destruct (node_val t K); [|contradiction]. split; reflexivity.
    - apply agrees_cons in HA. destruct HA as [(ni & F & Hh & _) HA'].
      apply Forall_cons_iff in HW. destruct HW as [Hnw HW']. cbn [snd] in Hnw.
      rewrite key_from_cons in *.
      destruct pstp as [c|nm|]; [| |contradiction].
      + destruct us as [|[ku u] us']; [discriminate|]. cbn [matches] in HM.
        apply andb_true_iff in HM. destruct HM as [HM HM2].
        apply andb_true_iff in HM. destruct HM as [HM0 HM1].
        apply eqb_prop in HM0. apply str_eqb_eq in HM1. subst ku u.
        cbn [unshadowed_in] in HU. destruct HU as [_ HU].
        cbn [walk_v skey_of] in *. rewrite (child_ok_intro _ _ _ _ F Hh).
        apply IH; auto.
      + destruct us as [|[ku u] us']; [discriminate|]. cbn [matches] in HM.
        apply andb_true_iff in HM. destruct HM as [HM0 HM2].
        apply eqb_prop in HM0. subst ku.
        cbn [unshadowed_in] in HU. destruct HU as [HU0 HU].
        cbn [walk_v skey_of] in *. rewrite HU0.
        rewrite (child_ok_intro _ _ _ _ F Hh).
        apply IH; auto.
  Qed.

  (* ---------------------------------------------------------------- *)
  (* Lookup depends only on which nodes exist, their kind, their parameter
     name and whether they hold a value *)

  Definition info_equiv (a b : option ninfo) : Prop :=
    match a, b with
    | None, None => True
    | Some x, Some y =>
        n_host x = n_host y /\ n_pname x = n_pname y /\
        (n_val x = None <-> n_val y = None)
    | _, _ => False
    end.

  Definition tree_equiv (t t' : tree) : Prop :=
    forall X, info_equiv (find_node X t) (find_node X t').

  Lemma note_wild_equiv : forall ck t t' K path ps nxt fw,
    tree_equiv t t' -> note_wild ck t K path ps nxt fw = note_wild ck t' K path ps nxt fw.
  Proof.
    intros ck t t' K path ps nxt fw HE. unfold note_wild.
    specialize (HE (KWild :: K)). unfold info_equiv in HE.
    destruct (find_node (KWild :: K) t) as [a|], (find_node (KWild :: K) t') as [b|];
      try contradiction; [|reflexivity].
    destruct HE as (-> & _). reflexivity.
  Qed.

  Lemma child_ok_equiv : forall t t' X k,
    tree_equiv t t' ->
    match child_ok t X k, child_ok t' X k with
    | Some a, Some b => n_pname a = n_pname b
    | None, None => True
    | _, _ => False
    end.
  Proof.
    intros t t' X k HE. unfold child_ok.
    specialize (HE X). unfold info_equiv in HE.
    destruct (find_node X t) as [a|], (find_node X t') as [b|]; try contradiction; auto.
    destruct HE as (Hh & Hn & _). rewrite Hh.
    destruct (eqb (n_host b) k); auto.
  Qed.

  Lemma node_val_equiv : forall t t' X,
    tree_equiv t t' -> (node_val t X = None <-> node_val t' X = None).
  Proof.
    intros t t' X HE. unfold node_val. specialize (HE X). unfold info_equiv in HE.
    destruct (find_node X t) as [a|], (find_node X t') as [b|]; try contradiction.
    - tauto.
    - tauto.
  Qed.

  Definition same_hit (r r' : lres V) : Prop :=
    l_match r = l_match r' /\ l_key r = l_key r' /\
    l_params r = l_params r' /\ l_norm r = l_norm r'.

  Lemma walk_equiv : forall parts ck t t' K fw ps path,
    tree_equiv t t' ->
    same_hit (walk_v ck t K parts fw ps path) (walk_v ck t' K parts fw ps path).
  Proof.
    induction parts as [|[k s] rest IH]; intros ck t t' K fw ps path HE; cbn [walk_v].
    - pose proof (node_val_equiv t t' K HE) as HV.
      rewrite (note_wild_equiv ck t t' K path ps None fw HE).
      destruct (node_val t K) as [v|], (node_val t' K) as [v'|].
      + repeat split.
      + exfalso. destruct HV as [_ HV]. specialize (HV eq_refl). discriminate.
      + exfalso. destruct HV as [HV _]. specialize (HV eq_refl). discriminate.
      + destruct (note_wild ck t' K path ps None fw) as [[[W wpath] wps]|]; repeat split.
    - rewrite (note_wild_equiv ck t t' K path ps (Some k) fw HE).
      pose proof (child_ok_equiv t t' (KConst s :: K) k HE) as H1.
      pose proof (child_ok_equiv t t' (KParam :: K) k HE) as H2.
      destruct (child_ok t (KConst s :: K) k), (child_ok t' (KConst s :: K) k);
        try contradiction.
      + apply IH. exact HE.
      + destruct (child_ok t (KParam :: K) k), (child_ok t' (KParam :: K) k);
          try contradiction.
        * rewrite H2. apply IH. exact HE.
        * destruct (is_brace s); [repeat split|].
          destruct (note_wild ck t' K path ps (Some k) fw) as [[[W wpath] wps]|]; repeat split.
  Qed.

  (* ---------------------------------------------------------------- *)
  (* kind-aware matching of what a successful lookup followed *)

  Lemma agrees_app_r : forall p0 t K tl,
    agrees t K (p0 ++ tl) -> agrees t (key_from K p0) tl.
  Proof.
    induction p0 as [|[k ps] p0' IH]; intros t K tl H.
    - exact H.
    - cbn [app] in H. apply agrees_cons in H. destruct H as [_ H].
      rewrite key_from_cons. apply IH. exact H.
  Qed.

  Definition wild_tail_ok (tail : pattern) (rest : list part) : Prop :=
    (tail = [] /\ rest = []) \/
    (exists k, tail = [(k, PWild)] /\
               (rest = [] \/ exists s rest', rest = (k, s) :: rest')).

  Lemma follows_matches_kind : forall p t K rK us tail rest,
    agrees t K p -> length us = length p ->
    follows t (key_from K p) (rev us ++ rK) ->
    wild_tail_ok tail rest ->
    matches_kind (p ++ tail) (us ++ rest) = true.
  Proof.
    induction p as [|[k ps] p' IH]; intros t K rK us tail rest HA HL HF HT.
    - destruct us; [|discriminate]. cbn [app].
      destruct HT as [[-> ->]|(k & -> & [->|(s & rest' & ->)])]; cbn.
      + reflexivity.
      + reflexivity.
      + apply eqb_reflx.
    - destruct us as [|[ku u] us']; [discriminate|]. cbn in HL.
      apply agrees_cons in HA. destruct HA as [(ni & F & Hh & Hn) HA'].
      rewrite key_from_cons in HF. cbn [rev] in HF. rewrite <- app_assoc in HF.
      cbn [app] in HF.
      assert (HM : matches_kind (p' ++ tail) (us' ++ rest) = true).
      { eapply IH; eauto. }
      unfold key_from in HF.
      apply follows_drop in HF;
        [|rewrite !rev_length, map_length; lia].
      cbn [follows] in HF. destruct HF as ((ni' & F' & Hh') & Hs & _).
      rewrite F in F'. inversion F'; subst ni'.
      assert (Ek : eqb k ku = true) by (apply eqb_true_iff; congruence).
      destruct ps as [c|nm|]; cbn [skey_of] in Hs.
      + destruct Hs as [Hs|[Hs _]]; [|discriminate]. inversion Hs; subst u.
        cbn. rewrite Ek, str_eqb_refl. exact HM.
      + cbn. rewrite Ek. exact HM.
      + destruct Hs as [Hs|[Hs _]]; discriminate.
  Qed.

  (* the parameters a lookup binds, for all requests *)
  Lemma params_along_at_nb : forall p t K rK us,
    agrees t K p -> length us = length p -> wild_free p ->
    params_along t (key_from K p) (rev us ++ rK) =
    params_at_nb p us (params_along t K rK).
  Proof.
    induction p as [|[k ps] p' IH]; intros t K rK us HA HL HW.
    - destruct us; [|discriminate]. reflexivity.
    - destruct us as [|[ku u] us']; [discriminate|]. cbn in HL.
      apply agrees_cons in HA. destruct HA as [(ni & F & Hh & Hn) HA'].
      inversion HW as [|? ? Hps HW']; subst.
      cbn [snd] in Hps.
      rewrite key_from_cons. cbn [rev]. rewrite <- app_assoc. cbn [app].
      assert (HL' : length us' = length p') by lia.
      rewrite (IH t (skey_of ps :: K) (@cons part (ku, u) rK) us' HA' HL' HW').
      destruct ps as [c|nm|]; cbn [skey_of params_along params_at_nb] in *.
      + reflexivity.
      + unfold node_pname. rewrite F, Hn. cbn [pname_of].
        destruct (is_brace u); reflexivity.
      + contradiction.
  Qed.

  (* ---------------------------------------------------------------- *)
  (* the descent along a declared pattern that no literal sibling shadows,
     and what is selected below the parent of a declared wildcard *)

  Lemma walk_prefix : forall p ck t K us rest fw ps path,
    agrees t K p -> wild_free p -> length us = length p -> matches p us = true ->
    unshadowed_in t K p us ->
    exists fw' ps' path',
      walk_v ck t K (us ++ rest) fw ps path =
      walk_v ck t (key_from K p) rest fw' ps' path'.
  Proof.
    induction p as [|[k pstp] p' IH]; intros ck t K us rest fw ps path HA HW HL HM HU.
    - destruct us; [|discriminate]. rewrite key_from_nil. cbn [app]. eauto.
    - destruct us as [|[ku u] us']; [discriminate|]. cbn in HL.
      apply agrees_cons in HA. destruct HA as [(ni & F & Hh & _) HA'].
      apply Forall_cons_iff in HW. destruct HW as [Hnw HW']. cbn [snd] in Hnw.
      rewrite key_from_cons.
      destruct pstp as [c|nm|]; [| |contradiction].
      + cbn [matches] in HM.
        apply andb_true_iff in HM. destruct HM as [HM HM2].
        apply andb_true_iff in HM. destruct HM as [HM0 HM1].
        apply eqb_prop in HM0. apply str_eqb_eq in HM1. subst ku u.
        cbn [unshadowed_in] in HU. destruct HU as [_ HU].
        cbn [app walk_v skey_of] in *. rewrite (child_ok_intro _ _ _ _ F Hh).
        apply IH; auto.
      + cbn [matches] in HM.
        apply andb_true_iff in HM. destruct HM as [HM0 HM2].
        apply eqb_prop in HM0. subst ku.
        cbn [unshadowed_in] in HU. destruct HU as [HU0 HU].
        cbn [app walk_v skey_of] in *. rewrite HU0.
        rewrite (child_ok_intro _ _ _ _ F Hh).
        apply IH; auto.
  Qed.

  Definition fw_below (N : key) (fw : wfound) : Prop :=
    match fw with
    | Some (W, _, _) => exists A, W = A ++ N
    | None => False
    end.

  Definition no_brace (us : list part) : Prop :=
    Forall (fun u => is_brace (snd u) = false) us.

  Lemma note_wild_below : forall ck (t : tree) B N path ps nxt fw,
    fw_below N fw -> fw_below N (note_wild ck t (B ++ N) path ps nxt fw).
  Proof.
    intros ck t B N path ps nxt fw H. unfold note_wild.
    destruct (find_node (KWild :: B ++ N) t); [|exact H].
    destruct (match nxt with Some k => _ | None => true end); [|exact H].
    exists (KWild :: B). reflexivity.
  Qed.

  (* once a wildcard at or below [N] is remembered, whatever is selected is
     at or below [N]; and something is selected unless the descent stops at
     a request part spelled "{..}" *)
  Lemma walk_below : forall rest ck (t : tree) B N fw ps path,
    fw_below N fw ->
    (l_match (walk_v ck t (B ++ N) rest fw ps path) = true ->
     exists A, l_key (walk_v ck t (B ++ N) rest fw ps path) = A ++ N) /\
    (no_brace rest -> l_match (walk_v ck t (B ++ N) rest fw ps path) = true).
  Proof.
    induction rest as [|[k s] rest IH]; intros ck t B N fw ps path HB.
    - cbn [walk_v].
      destruct (node_val t (B ++ N)).
      + split; [intros _; exists B; reflexivity|reflexivity].
      + pose proof (note_wild_below ck t B N path ps None fw HB) as HB'.
        destruct (note_wild ck t (B ++ N) path ps None fw) as [[[W wpath] wps]|];
          [|contradiction].
        destruct HB' as [A ->]. split; [intros _; exists A; reflexivity|reflexivity].
    - cbn [walk_v].
      pose proof (note_wild_below ck t B N path ps (Some k) fw HB) as HB'.
      set (fw' := note_wild ck t (B ++ N) path ps (Some k) fw) in *.
      destruct (child_ok t (KConst s :: B ++ N) k).
      + destruct (IH ck t (KConst s :: B) N fw' ps (path ++ delim k ++ s) HB') as [H1 H2].
        split; [exact H1|]. intro HN. apply H2. inversion HN; assumption.
      + destruct (child_ok t (KParam :: B ++ N) k) as [pi|].
        * destruct (IH ck t (KParam :: B) N fw'
                      (if is_brace s then ps else (n_pname pi, s) :: ps)
                      (path ++ delim k ++ [c_lbrace] ++ n_pname pi ++ [c_rbrace]) HB')
            as [H1 H2].
          split; [exact H1|]. intro HN. apply H2. inversion HN; assumption.
        * destruct (is_brace s) eqn:EB.
          -- split; [discriminate|]. intro HN. inversion HN as [|? ? Hs _]; subst.
             cbn [snd] in Hs. congruence.
          -- destruct fw' as [[[W wpath] wps]|]; [|contradiction].
             destruct HB' as [A ->].
             split; [intros _; exists A; reflexivity|reflexivity].
  Qed.

  (* at the parent [N] of a wildcard node of kind [kw], with a rest the
     wildcard may stand for *)
  Lemma walk_from_wild_parent : forall rest ck (t : tree) N fw ps path kw,
    (exists wi, find_node (KWild :: N) t = Some wi /\ n_host wi = kw) ->
    (rest = [] \/ exists s rest', rest = (kw, s) :: rest') ->
    (l_match (walk_v ck t N rest fw ps path) = true ->
     exists A, l_key (walk_v ck t N rest fw ps path) = A ++ N) /\
    (no_brace rest -> l_match (walk_v ck t N rest fw ps path) = true).
  Proof.
    intros rest ck t N fw ps path kw (wi & F & Hk) [->|(s & rest' & ->)].
    - cbn [walk_v]. destruct (node_val t N).
      + split; [intros _; exists []; reflexivity|reflexivity].
      + unfold note_wild. rewrite F.
        split; [intros _; exists [KWild]; reflexivity|reflexivity].
    - cbn [walk_v].
      assert (HN : note_wild ck t N path ps (Some kw) fw =
                   Some (KWild :: N, path ++ delim (n_host wi) ++ star, ps)).
      { unfold note_wild. rewrite F, Hk, eqb_reflx, orb_true_r. reflexivity. }
      rewrite HN.
      set (fw' := Some (KWild :: N, path ++ delim (n_host wi) ++ star, ps)).
      assert (HB : fw_below N fw') by (exists [KWild]; reflexivity).
      destruct (child_ok t (KConst s :: N) kw).
      + destruct (walk_below rest' ck t [KConst s] N fw' ps (path ++ delim kw ++ s) HB)
          as [H1 H2].
        split; [exact H1|]. intro HNB. apply H2. inversion HNB; assumption.
      + destruct (child_ok t (KParam :: N) kw) as [pi|].
        * destruct (walk_below rest' ck t [KParam] N fw'
                      (if is_brace s then ps else (n_pname pi, s) :: ps)
                      (path ++ delim kw ++ [c_lbrace] ++ n_pname pi ++ [c_rbrace]) HB)
            as [H1 H2].
          split; [exact H1|]. intro HNB. apply H2. inversion HNB; assumption.
        * destruct (is_brace s) eqn:EB.
          -- split; [discriminate|]. intro HNB. inversion HNB as [|? ? Hs _]; subst.
             cbn [snd] in Hs. congruence.
          -- split; [intros _; exists [KWild]; reflexivity|reflexivity].
  Qed.

  (* the path a lookup followed is not shadowed, and has no wildcard step *)
  Lemma follows_unshadowed : forall p t K rK us,
    length us = length p -> follows t (key_from K p) (rev us ++ rK) ->
    unshadowed_in t K p us.
  Proof.
    induction p as [|[k ps] p' IH]; intros t K rK us HL HF; [exact I|].
    destruct us as [|[ku u] us']; [exact I|]. cbn in HL.
    rewrite key_from_cons in HF. cbn [rev] in HF. rewrite <- app_assoc in HF.
    cbn [app] in HF. cbn [unshadowed_in]. split.
    - unfold key_from in HF.
      apply follows_drop in HF; [|rewrite !rev_length, map_length; lia].
      cbn [follows] in HF. destruct HF as (_ & Hs & _).
      destruct ps as [c|nm|]; try exact I.
      cbn [skey_of] in Hs. destruct Hs as [Hs|[_ Hs]]; [discriminate|exact Hs].
    - eapply IH; [|exact HF]. lia.
  Qed.

  Lemma unshadowed_in_app_wild : forall p0 t K us0 k rest,
    length us0 = length p0 -> unshadowed_in t K p0 us0 ->
    unshadowed_in t K (p0 ++ [(k, PWild)]) (us0 ++ rest).
  Proof.
    induction p0 as [|[k0 ps0] p0' IH]; intros t K us0 k rest HL HU.
    - destruct us0; [|discriminate]. cbn [app unshadowed_in].
      destruct rest as [|[ku u] rest']; [exact I|]. split; exact I.
    - destruct us0 as [|[ku u] us0']; [discriminate|]. cbn in HL.
      cbn [app unshadowed_in] in *. destruct HU as [H1 H2]. split; [exact H1|].
      apply IH; [lia|exact H2].
  Qed.

  Lemma unshadowed_in_prefix : forall p0 t K us0 tl rest,
    length us0 = length p0 -> unshadowed_in t K (p0 ++ tl) (us0 ++ rest) ->
    unshadowed_in t K p0 us0.
  Proof.
    induction p0 as [|[k0 ps0] p0' IH]; intros t K us0 tl rest HL HU; [exact I|].
    destruct us0 as [|[ku u] us0']; [discriminate|]. cbn in HL.
    cbn [app unshadowed_in] in *. destruct HU as [H1 H2]. split; [exact H1|].
    eapply IH; [|exact H2]. lia.
  Qed.

  Definition key_wild_free (X : key) : Prop := Forall (fun s => s <> KWild) X.

  Lemma follows_key_wild_free : forall X t rus, follows t X rus -> key_wild_free X.
  Proof.
    induction X as [|s X' IH]; intros t [|[k u] rus'] H; cbn in H; try contradiction.
    - constructor.
    - destruct H as (_ & Hs & H). constructor.
      + destruct Hs as [->|[-> _]]; discriminate.
      + eapply IH; exact H.
  Qed.

  (* the key a successful lookup returns: a followed path, or the wildcard
     child of one *)
  Lemma walk_result_key_shape : forall ck t rall r,
    walk_result ck t rall r ->
    key_wild_free (l_key r) \/ exists P, l_key r = KWild :: P /\ key_wild_free P.
  Proof.
    intros ck t rall r (_ & _ & [(HF & _)|(P & rP & pre & HK & HF & _)]).
    - left. eapply follows_key_wild_free; exact HF.
    - right. exists P. split; [exact HK|]. eapply follows_key_wild_free; exact HF.
  Qed.
End TreeLemmas.


(* ------------------------------------------------------------------ *)
(* the two specification matchers, the specificity order *)

Lemma matches_kind_matches : forall p us,
  matches_kind p us = true -> matches p us = true.
Proof.
  induction p as [|[k ps] p' IH]; intros us H; [exact H|].
  destruct ps as [c|nm|]; cbn [matches_kind matches] in *.
  - destruct us as [|[k' s'] us']; [discriminate|].
    apply andb_true_iff in H. destruct H as [H1 H2]. rewrite H1. apply IH. exact H2.
  - destruct us as [|[k' s'] us']; [discriminate|].
    apply andb_true_iff in H. destruct H as [H1 H2]. rewrite H1. apply IH. exact H2.
  - apply andb_true_iff in H. apply H.
Qed.

Lemma matches_kind_wild_free : forall p us,
  wild_free p -> matches_kind p us = matches p us.
Proof.
  induction p as [|[k ps] p' IH]; intros us HW; [reflexivity|].
  inversion HW as [|? ? Hps HW']; subst. cbn [snd] in Hps.
  destruct ps as [c|nm|]; cbn [matches_kind matches]; [| |contradiction].
  - destruct us as [|[k' s'] us']; [reflexivity|]. rewrite (IH _ HW'). reflexivity.
  - destruct us as [|[k' s'] us']; [reflexivity|]. rewrite (IH _ HW'). reflexivity.
Qed.

(* a pattern that matches is wildcard-free and as long as the request, or a
   wildcard-free prefix of the request followed by the wildcard, which
   stands for nothing or for a rest starting with a part of its kind *)
Lemma matches_kind_shape : forall p us,
  matches_kind p us = true ->
  (wild_free p /\ length us = length p) \/
  (exists p0 k us0 rest,
     p = p0 ++ [(k, PWild)] /\ wild_free p0 /\ us = us0 ++ rest /\
     length us0 = length p0 /\ matches p0 us0 = true /\
     (rest = [] \/ exists s rest', rest = (k, s) :: rest')).
Proof.
  induction p as [|[k ps] p' IH]; intros us H.
  - destruct us; [|discriminate]. left. split; [constructor|reflexivity].
  - destruct ps as [c|nm|]; cbn [matches_kind] in H.
    + destruct us as [|[k' s'] us']; [discriminate|].
      apply andb_true_iff in H. destruct H as [H1 H2].
      destruct (IH _ H2) as [[HW HL]|(p0 & kw & us0 & rest & -> & HW & -> & HL & HM & HR)].
      * left. split; [constructor; [discriminate|exact HW]|cbn; lia].
      * right. exists ((k, PConst c) :: p0), kw, ((k', s') :: us0), rest.
        repeat split; auto.
        -- constructor; [discriminate|exact HW].
        -- cbn. lia.
        -- cbn [matches]. rewrite H1. exact HM.
    + destruct us as [|[k' s'] us']; [discriminate|].
      apply andb_true_iff in H. destruct H as [H1 H2].
      destruct (IH _ H2) as [[HW HL]|(p0 & kw & us0 & rest & -> & HW & -> & HL & HM & HR)].
      * left. split; [constructor; [discriminate|exact HW]|cbn; lia].
      * right. exists ((k, PParam nm) :: p0), kw, ((k', s') :: us0), rest.
        repeat split; auto.
        -- constructor; [discriminate|exact HW].
        -- cbn. lia.
        -- cbn [matches]. rewrite H1. exact HM.
    + apply andb_true_iff in H. destruct H as [H1 H2].
      destruct p'; [|discriminate]. right.
      exists [], k, [], us. repeat split; auto.
      * constructor.
      * destruct us as [|[k' s'] us']; [left; reflexivity|].
        apply eqb_prop in H2. subst k'. right. eauto.
Qed.

Lemma params_at_nb_nobrace : forall p us acc,
  Forall (fun u => is_brace (snd u) = false) us ->
  params_at_nb p us acc = params_at p us acc.
Proof.
  induction p as [|[k ps] p' IH]; intros us acc HB; [reflexivity|].
  destruct us as [|[ku u] us']; [destruct ps; reflexivity|].
  inversion HB as [|? ? Hb HB']; subst. cbn [snd] in Hb.
  destruct ps as [c|nm|]; cbn [params_at_nb params_at].
  - apply IH. exact HB'.
  - rewrite Hb. apply IH. exact HB'.
  - reflexivity.
Qed.

Lemma skey_eqb_refl : forall a, skey_eqb a a = true.
Proof. intro a. apply skey_eqb_eq. reflexivity. Qed.

Lemma spec_leb_refl : forall p, spec_leb p p = true.
Proof.
  induction p as [|x p IH]; [reflexivity|]. cbn. rewrite skey_eqb_refl. exact IH.
Qed.

Lemma spec_leb_app : forall l a b, spec_leb (l ++ a) (l ++ b) = spec_leb a b.
Proof.
  induction l as [|x l IH]; intros a b; [reflexivity|].
  cbn. rewrite skey_eqb_refl. apply IH.
Qed.

(* the order is antisymmetric: at most one maximum *)
Lemma spec_leb_antisym : forall p q,
  spec_leb p q = true -> spec_leb q p = true -> p = q.
Proof.
  induction p as [|x p IH]; intros [|y q] H1 H2; cbn in *; try discriminate.
  - reflexivity.
  - destruct (skey_eqb x y) eqn:E.
    + apply skey_eqb_eq in E. subst y. rewrite skey_eqb_refl in H2.
      f_equal. apply IH; assumption.
    + assert (E' : skey_eqb y x = false).
      { destruct (skey_eqb y x) eqn:E'; [|reflexivity].
        apply skey_eqb_eq in E'. subst y. rewrite skey_eqb_refl in E. discriminate. }
      rewrite E' in H2. apply Nat.ltb_lt in H1. apply Nat.ltb_lt in H2. lia.
Qed.

Lemma steps_of_key : forall p, rev (key_of p) = steps_of p.
Proof.
  intro p. unfold key_of, key_from, steps_of. rewrite app_nil_r, rev_involutive.
  reflexivity.
Qed.

(* whatever is selected at or below the parent [N] of a wildcard node is at
   least as specific as that wildcard *)
Lemma spec_leb_below : forall (X N A : key),
  X = A ++ N ->
  (key_wild_free X \/ exists P, X = KWild :: P /\ key_wild_free P) ->
  spec_leb (rev (KWild :: N)) (rev X) = true.
Proof.
  intros X N A -> HS. cbn [rev]. rewrite rev_app_distr, spec_leb_app.
  destruct (rev A) as [|y tl] eqn:EA; [reflexivity|].
  cbn [spec_leb].
  destruct (skey_eqb KWild y) eqn:E.
  - apply skey_eqb_eq in E. subst y.
    assert (HA : A = rev tl ++ [KWild]).
    { rewrite <- (rev_involutive A), EA. reflexivity. }
    subst A. rewrite <- app_assoc in HS. cbn [app] in HS.
    assert (Hin : forall Y, key_wild_free (rev tl ++ KWild :: Y) -> False).
    { intros Y HF. unfold key_wild_free in HF. rewrite Forall_forall in HF.
      apply (HF KWild); [apply in_or_app; right; left; reflexivity|reflexivity]. }
    destruct HS as [HF|(P & HP & HF)].
    + exfalso. eapply Hin; exact HF.
    + destruct tl as [|z tl']; [reflexivity|].
      exfalso. cbn [rev] in HP. rewrite <- app_assoc in HP. cbn [app] in HP.
      destruct (rev tl') as [|w rt].
      * cbn [app] in HP. inversion HP; subst.
        unfold key_wild_free in HF. rewrite Forall_forall in HF.
        apply (HF KWild); [left; reflexivity|reflexivity].
      * cbn [app] in HP. inversion HP; subst.
        unfold key_wild_free in HF. rewrite Forall_forall in HF.
        apply (HF KWild); [|reflexivity].
        apply in_or_app. right. right. left. reflexivity.
  - destruct y; cbn in *; try reflexivity. discriminate.
Qed.

(* in a split URL the host labels precede the path segments *)
Lemma split_url_host_first : forall u,
  exists hs ps, split_url u = map (fun s => (true, s)) hs ++ map (fun s => (false, s)) ps.
Proof.
  intro u. unfold split_url.
  destruct (split_on c_slash (trim_url u)) as [|host path].
  - exists [], []. reflexivity.
  - exists (split_on c_dot host), path. reflexivity.
Qed.
