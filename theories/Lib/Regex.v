(* Lib/Regex — the fragment of regular expressions the engine registers with
   the proxy (config/update_endpoints.go HaproxyEndpointFormat), as an AST with
     - an inductive language semantics [lang],
     - an executable matcher by Brzozowski derivatives ([match_all],
       [match_prefix], [re_search]) PROVED equivalent to the semantics,
     - a printer [print] to the concrete syntax (no parser anywhere: the
       harness compares the printed model expression with the Go string byte
       for byte and the model's verdicts with Go's regexp on that string).

   Characters are [Z] byte codes.  [RAny] is "." without the s flag (any
   character but a line feed), [RSet]/[RNot] are the classes [...] / [^...]
   over plain characters, [RChar c] prints as regexp.QuoteMeta prints c.
   The end-of-subject assertion "$" occurs only as the very last symbol of an
   emitted expression, so it is a flag of the whole expression ([expr]), not
   an AST node.  HAProxy applies an expression as an UNANCHORED search
   (map_reg): [re_search].  [RNone] (the empty language) only arises inside
   the derivative computation; no emitted expression contains it. *)
From Coq Require Import List ZArith Bool Lia.
Import ListNotations.
Open Scope Z_scope.

Inductive regex :=
| RNone
| REmp
| RChar (c : Z)
| RAny
| RSet (cs : list Z)
| RNot (cs : list Z)
| RSeq (a b : regex)
| RAlt (a b : regex)
| RStar (a : regex)
| RPlus (a : regex)
| ROpt (a : regex).

(* ------------------------------------------------------------------ *)
(* Semantics                                                           *)

Inductive lang : regex -> list Z -> Prop :=
| LEmp : lang REmp []
| LChar : forall c, lang (RChar c) [c]
| LAny : forall c, c <> 10 -> lang RAny [c]
| LSet : forall c cs, In c cs -> lang (RSet cs) [c]
| LNot : forall c cs, ~ In c cs -> lang (RNot cs) [c]
| LSeq : forall a b s t, lang a s -> lang b t -> lang (RSeq a b) (s ++ t)
| LAltL : forall a b s, lang a s -> lang (RAlt a b) s
| LAltR : forall a b s, lang b s -> lang (RAlt a b) s
| LStar0 : forall a, lang (RStar a) []
| LStarS : forall a s t, lang a s -> lang (RStar a) t -> lang (RStar a) (s ++ t)
| LPlus : forall a s t, lang a s -> lang (RStar a) t -> lang (RPlus a) (s ++ t)
| LOpt0 : forall a, lang (ROpt a) []
| LOpt1 : forall a s, lang a s -> lang (ROpt a) s.

(* an expression as registered: a regex and whether it ends in "$" *)
Record expr := { e_re : regex; e_eos : bool }.

(* what HAProxy's map_reg decides: SOME substring of the subject is in the
   language; with "$" that substring must reach the end of the subject *)
Definition searches (e : expr) (subject : list Z) : Prop :=
  exists pre mid post,
    subject = pre ++ mid ++ post /\ lang (e_re e) mid /\
    (e_eos e = true -> post = []).

(* ------------------------------------------------------------------ *)
(* Executable matcher                                                  *)

Definition mem (c : Z) (cs : list Z) : bool := existsb (Z.eqb c) cs.

Lemma mem_In : forall c cs, mem c cs = true <-> In c cs.
Proof.
  intros c cs. unfold mem. rewrite existsb_exists. split.
  - intros (x & Hx & E). apply Z.eqb_eq in E. subst. exact Hx.
  - intro H. exists c. split; [exact H | apply Z.eqb_refl].
Qed.

Fixpoint nullable (r : regex) : bool :=
  match r with
  | RNone => false
  | REmp => true
  | RChar _ | RAny | RSet _ | RNot _ => false
  | RSeq a b => nullable a && nullable b
  | RAlt a b => nullable a || nullable b
  | RStar _ => true
  | RPlus a => nullable a
  | ROpt _ => true
  end.

Definition is_none (r : regex) : bool := match r with RNone => true | _ => false end.
Definition is_emp (r : regex) : bool := match r with REmp => true | _ => false end.

(* simplifying constructors: keep the derivatives small *)
Definition mk_seq (a b : regex) : regex :=
  if is_none a || is_none b then RNone
  else if is_emp a then b
  else if is_emp b then a
  else RSeq a b.

Definition mk_alt (a b : regex) : regex :=
  if is_none a then b else if is_none b then a else RAlt a b.

Fixpoint deriv (c : Z) (r : regex) : regex :=
  match r with
  | RNone | REmp => RNone
  | RChar d => if c =? d then REmp else RNone
  | RAny => if c =? 10 then RNone else REmp
  | RSet cs => if mem c cs then REmp else RNone
  | RNot cs => if mem c cs then RNone else REmp
  | RSeq a b =>
      mk_alt (mk_seq (deriv c a) b) (if nullable a then deriv c b else RNone)
  | RAlt a b => mk_alt (deriv c a) (deriv c b)
  | RStar a => mk_seq (deriv c a) (RStar a)
  | RPlus a => mk_seq (deriv c a) (RStar a)
  | ROpt a => deriv c a
  end.

(* the whole string is in the language *)
Fixpoint match_all (r : regex) (s : list Z) : bool :=
  match s with
  | [] => nullable r
  | c :: s' => let r' := deriv c r in if is_none r' then false else match_all r' s'
  end.

(* some prefix of the string is in the language *)
Fixpoint match_prefix (r : regex) (s : list Z) : bool :=
  nullable r ||
  match s with
  | [] => false
  | c :: s' => let r' := deriv c r in if is_none r' then false else match_prefix r' s'
  end.

(* unanchored search: try every start position (also the empty suffix) *)
Fixpoint re_search (e : expr) (s : list Z) : bool :=
  (if e_eos e then match_all (e_re e) s else match_prefix (e_re e) s) ||
  match s with
  | [] => false
  | _ :: s' => re_search e s'
  end.

(* ------------------------------------------------------------------ *)
(* Correctness of the matcher                                          *)

Lemma lang_none : forall s, ~ lang RNone s.
Proof. intros s H. inversion H. Qed.

Lemma lang_emp : forall s, lang REmp s <-> s = [].
Proof. intro s. split; intro H; [inversion H; reflexivity | subst; constructor]. Qed.

Lemma is_none_eq : forall r, is_none r = true -> r = RNone.
Proof. destruct r; cbn; intro H; try discriminate; reflexivity. Qed.

Lemma is_emp_eq : forall r, is_emp r = true -> r = REmp.
Proof. destruct r; cbn; intro H; try discriminate; reflexivity. Qed.

Lemma lang_mk_seq : forall a b s, lang (mk_seq a b) s <-> lang (RSeq a b) s.
Proof.
  intros a b s. unfold mk_seq.
  destruct (is_none a) eqn:Na.
  { apply is_none_eq in Na. subst. cbn. split; intro H.
    - inversion H.
    - inversion H; subst. exfalso. eapply lang_none; eauto. }
  destruct (is_none b) eqn:Nb.
  { apply is_none_eq in Nb. subst. cbn. split; intro H.
    - inversion H.
    - inversion H; subst. exfalso. eapply lang_none; eauto. }
  cbn [orb].
  destruct (is_emp a) eqn:Ea.
  { apply is_emp_eq in Ea. subst. split; intro H.
    - change s with ([] ++ s). constructor; [constructor | exact H].
    - inversion H; subst. match goal with X : lang REmp _ |- _ => inversion X; subst end.
      cbn. assumption. }
  destruct (is_emp b) eqn:Eb.
  { apply is_emp_eq in Eb. subst. split; intro H.
    - rewrite <- (app_nil_r s). constructor; [exact H | constructor].
    - inversion H; subst. match goal with X : lang REmp _ |- _ => inversion X; subst end.
      rewrite app_nil_r. assumption. }
  reflexivity.
Qed.

Lemma lang_mk_alt : forall a b s, lang (mk_alt a b) s <-> lang (RAlt a b) s.
Proof.
  intros a b s. unfold mk_alt.
  destruct (is_none a) eqn:Na.
  { apply is_none_eq in Na. subst. split; intro H.
    - apply LAltR. exact H.
    - inversion H; subst; [exfalso; eapply lang_none; eauto | assumption]. }
  destruct (is_none b) eqn:Nb.
  { apply is_none_eq in Nb. subst. split; intro H.
    - apply LAltL. exact H.
    - inversion H; subst; [assumption | exfalso; eapply lang_none; eauto]. }
  reflexivity.
Qed.

Lemma nullable_spec : forall r, nullable r = true <-> lang r [].
Proof.
  induction r; cbn; split; intro H; try discriminate; try (constructor; fail);
    try reflexivity; try (inversion H; fail).
  - apply andb_true_iff in H. destruct H as [H1 H2].
    change (@nil Z) with (@nil Z ++ []). constructor; [apply IHr1 | apply IHr2]; assumption.
  - inversion H; subst.
    match goal with X : _ ++ _ = [] |- _ => apply app_eq_nil in X; destruct X; subst end.
    apply andb_true_iff. split; [apply IHr1 | apply IHr2]; assumption.
  - apply orb_true_iff in H. destruct H as [H|H];
      [apply LAltL, IHr1 | apply LAltR, IHr2]; assumption.
  - apply orb_true_iff. inversion H; subst; [left; apply IHr1 | right; apply IHr2]; assumption.
  - change (@nil Z) with (@nil Z ++ []). constructor; [apply IHr; assumption | constructor].
  - inversion H; subst.
    match goal with X : _ ++ _ = [] |- _ => apply app_eq_nil in X; destruct X; subst end.
    apply IHr. assumption.
Qed.

(* a non-empty word of a star starts with a non-empty iteration *)
Lemma star_cons : forall a c s, lang (RStar a) (c :: s) ->
  exists s1 s2, s = s1 ++ s2 /\ lang a (c :: s1) /\ lang (RStar a) s2.
Proof.
  intros a c s H. remember (RStar a) as r eqn:Er. remember (c :: s) as w eqn:Ew.
  revert c s Er Ew. induction H; intros c0 s0 Er Ew; try discriminate.
  inversion Er; subst a0.
  destruct s as [|x s].
  - cbn in Ew. apply IHlang2; auto.
  - cbn in Ew. inversion Ew; subst. exists s, t. auto.
Qed.

Lemma deriv_spec : forall r c s, lang (deriv c r) s <-> lang r (c :: s).
Proof.
  induction r; intros c0 s; cbn [deriv].
  - split; intro H; inversion H.
  - split; intro H; inversion H.
  - destruct (c0 =? c) eqn:E.
    + apply Z.eqb_eq in E. subst. split; intro H; inversion H; subst; constructor.
    + apply Z.eqb_neq in E. split; intro H; inversion H; subst. congruence.
  - destruct (c0 =? 10) eqn:E.
    + apply Z.eqb_eq in E. subst. split; intro H; inversion H; subst. congruence.
    + apply Z.eqb_neq in E. split; intro H; inversion H; subst; constructor; assumption.
  - destruct (mem c0 cs) eqn:E.
    + apply mem_In in E. split; intro H; inversion H; subst; constructor; assumption.
    + split; intro H; inversion H; subst.
      match goal with X : In _ _ |- _ => apply mem_In in X; congruence end.
  - destruct (mem c0 cs) eqn:E.
    + apply mem_In in E. split; intro H; inversion H; subst. contradiction.
    + split; intro H; inversion H; subst; constructor.
      intro X. apply mem_In in X. congruence.
  - rewrite lang_mk_alt. split; intro H.
    + inversion H; subst.
      * match goal with X : lang (mk_seq _ _) _ |- _ => apply lang_mk_seq in X; inversion X; subst end.
        change (c0 :: s0 ++ t) with ((c0 :: s0) ++ t). constructor; [apply IHr1|]; assumption.
      * destruct (nullable r1) eqn:N; [|match goal with X : lang RNone _ |- _ => inversion X end].
        change (c0 :: s) with ([] ++ c0 :: s). constructor; [apply nullable_spec; assumption | apply IHr2; assumption].
    + inversion H; subst. destruct s0 as [|x s0].
      * cbn in *. subst. apply LAltR.
        assert (N : nullable r1 = true) by (apply nullable_spec; assumption).
        rewrite N. apply IHr2. assumption.
      * cbn in *. match goal with X : _ :: _ = _ :: _ |- _ => inversion X; subst end.
        apply LAltL. apply lang_mk_seq. constructor; [apply IHr1|]; assumption.
  - rewrite lang_mk_alt. split; intro H; inversion H; subst;
      [apply LAltL, IHr1 | apply LAltR, IHr2 | apply LAltL, IHr1 | apply LAltR, IHr2]; assumption.
  - rewrite lang_mk_seq. split; intro H.
    + inversion H; subst. change (c0 :: s0 ++ t) with ((c0 :: s0) ++ t).
      constructor; [apply IHr|]; assumption.
    + apply star_cons in H. destruct H as (s1 & s2 & -> & H1 & H2).
      constructor; [apply IHr|]; assumption.
  - rewrite lang_mk_seq. split; intro H.
    + inversion H; subst. change (c0 :: s0 ++ t) with ((c0 :: s0) ++ t).
      constructor; [apply IHr|]; assumption.
    + inversion H; subst. destruct s0 as [|x s0].
      * cbn in *. subst.
        match goal with X : lang (RStar _) (_ :: _) |- _ => apply star_cons in X;
          destruct X as (s1 & s2 & -> & K1 & K2) end.
        constructor; [apply IHr|]; assumption.
      * cbn in *. match goal with X : _ :: _ = _ :: _ |- _ => inversion X; subst end.
        constructor; [apply IHr|]; assumption.
  - split; intro H.
    + apply LOpt1. apply IHr. assumption.
    + inversion H; subst. apply IHr. assumption.
Qed.

Lemma match_all_spec : forall s r, match_all r s = true <-> lang r s.
Proof.
  induction s as [|c s IH]; intro r; cbn [match_all].
  - apply nullable_spec.
  - destruct (is_none (deriv c r)) eqn:N.
    + apply is_none_eq in N. split; intro H; [discriminate|].
      apply deriv_spec in H. rewrite N in H. inversion H.
    + rewrite IH. apply deriv_spec.
Qed.

Lemma match_prefix_spec : forall s r,
  match_prefix r s = true <-> exists s1 s2, s = s1 ++ s2 /\ lang r s1.
Proof.
  induction s as [|c s IH]; intro r; cbn [match_prefix].
  - rewrite orb_false_r. rewrite nullable_spec. split.
    + intro H. exists [], []. auto.
    + intros (s1 & s2 & E & H). symmetry in E. apply app_eq_nil in E. destruct E; subst. exact H.
  - split.
    + intro H. apply orb_true_iff in H. destruct H as [H|H].
      * exists [], (c :: s). split; [reflexivity | apply nullable_spec; exact H].
      * destruct (is_none (deriv c r)) eqn:N; [discriminate|].
        apply IH in H. destruct H as (s1 & s2 & -> & H).
        exists (c :: s1), s2. split; [reflexivity | apply deriv_spec; exact H].
    + intros (s1 & s2 & E & H). apply orb_true_iff. destruct s1 as [|x s1].
      * left. apply nullable_spec. exact H.
      * right. cbn in E. inversion E; subst.
        apply deriv_spec in H.
        destruct (is_none (deriv x r)) eqn:N.
        { apply is_none_eq in N. rewrite N in H. inversion H. }
        apply IH. exists s1, s2. auto.
Qed.

Theorem re_search_spec : forall e s, re_search e s = true <-> searches e s.
Proof.
  intros e s. unfold searches. induction s as [|c s IH]; cbn [re_search].
  - rewrite orb_false_r. destruct (e_eos e) eqn:Ee.
    + rewrite match_all_spec. split.
      * intro H. exists [], [], []. auto.
      * intros (pre & mid & post & E & H & _). symmetry in E.
        apply app_eq_nil in E. destruct E as [_ E]. apply app_eq_nil in E. destruct E; subst. exact H.
    + rewrite match_prefix_spec. split.
      * intros (s1 & s2 & E & H). symmetry in E. apply app_eq_nil in E. destruct E; subst.
        exists [], [], []. split; [reflexivity|]. split; [exact H | discriminate].
      * intros (pre & mid & post & E & H & _). symmetry in E.
        apply app_eq_nil in E. destruct E as [_ E]. apply app_eq_nil in E. destruct E; subst.
        exists [], []. auto.
  - split.
    + intro H. apply orb_true_iff in H. destruct H as [H|H].
      * destruct (e_eos e) eqn:Ee.
        -- apply match_all_spec in H. exists [], (c :: s), []. rewrite app_nil_r. auto.
        -- apply match_prefix_spec in H. destruct H as (s1 & s2 & E & H).
           exists [], s1, s2. split; [exact E|]. split; [exact H | discriminate].
      * apply IH in H. destruct H as (pre & mid & post & -> & H & Hp).
        exists (c :: pre), mid, post. auto.
    + intros (pre & mid & post & E & H & Hp). apply orb_true_iff.
      destruct pre as [|x pre].
      * left. cbn in E. destruct (e_eos e) eqn:Ee.
        -- rewrite (Hp eq_refl), app_nil_r in E. subst. apply match_all_spec. exact H.
        -- apply match_prefix_spec. exists mid, post. auto.
      * right. cbn in E. inversion E; subst. apply IH. exists pre, mid, post. auto.
Qed.

(* ------------------------------------------------------------------ *)
(* Literals                                                            *)

(* the regex of a literal text: one [RChar] per character *)
Fixpoint lit (s : list Z) : regex :=
  match s with
  | [] => REmp
  | c :: s' => RSeq (RChar c) (lit s')
  end.

Lemma lang_lit : forall s t, lang (lit s) t <-> t = s.
Proof.
  induction s as [|c s IH]; intro t; cbn [lit].
  - apply lang_emp.
  - split; intro H.
    + inversion H; subst. match goal with X : lang (RChar _) _ |- _ => inversion X; subst end.
      cbn. f_equal. apply IH. assumption.
    + subst. change (c :: s) with ([c] ++ s). constructor; [constructor | apply IH; reflexivity].
Qed.

Lemma lang_seq_inv : forall a b w, lang (RSeq a b) w ->
  exists s t, w = s ++ t /\ lang a s /\ lang b t.
Proof. intros a b w H. inversion H; subst. eauto. Qed.

(* [RPlus (RNot cs)]: a non-empty run of characters outside cs *)
Lemma lang_star_not : forall cs s, lang (RStar (RNot cs)) s <-> Forall (fun c => ~ In c cs) s.
Proof.
  intros cs s. split.
  - intro H. remember (RStar (RNot cs)) as r eqn:Er. induction H; try discriminate.
    + constructor.
    + inversion Er; subst. inversion H; subst. cbn. constructor; [assumption | apply IHlang2; reflexivity].
  - induction 1 as [|c s Hc _ IH]; [constructor|].
    change (c :: s) with ([c] ++ s). apply LStarS; [constructor; exact Hc | exact IH].
Qed.

Lemma lang_plus_not : forall cs s,
  lang (RPlus (RNot cs)) s <-> s <> [] /\ Forall (fun c => ~ In c cs) s.
Proof.
  intros cs s. split.
  - intro H. inversion H; subst. match goal with X : lang (RNot _) _ |- _ => inversion X; subst end.
    split; [discriminate|]. cbn. constructor; [assumption | apply lang_star_not; assumption].
  - intros [Hn H]. destruct s as [|c s]; [congruence|]. inversion H; subst.
    change (c :: s) with ([c] ++ s). constructor; [constructor; assumption | apply lang_star_not; assumption].
Qed.

(* ------------------------------------------------------------------ *)
(* Printer (concrete syntax accepted by Go regexp / PCRE / POSIX ERE)  *)

(* regexp.QuoteMeta: the characters \.+*?()|[]{}^$ get a backslash *)
Definition is_meta (c : Z) : bool :=
  mem c [92; 46; 43; 42; 63; 40; 41; 124; 91; 93; 123; 125; 94; 36].
Definition quote_char (c : Z) : list Z := if is_meta c then [92; c] else [c].
Definition quote_meta (s : list Z) : list Z := flat_map quote_char s.

Definition is_atom (r : regex) : bool :=
  match r with RChar _ | RAny | RSet _ | RNot _ => true | _ => false end.

Definition paren (s : list Z) : list Z := [40] ++ s ++ [41].

Fixpoint print (r : regex) : list Z :=
  match r with
  | RNone => [91; 94; 92; 120; 48; 48; 45; 92; 120; 123; 49; 48; 70; 70; 70; 70; 125; 93]
  | REmp => []
  | RChar c => quote_char c
  | RAny => [46]
  | RSet cs => [91] ++ cs ++ [93]
  | RNot cs => [91; 94] ++ cs ++ [93]
  | RSeq a b => print a ++ print b
  | RAlt a b => paren (print a ++ [124] ++ print b)
  | RStar a => (if is_atom a then print a else paren (print a)) ++ [42]
  | RPlus a => (if is_atom a then print a else paren (print a)) ++ [43]
  | ROpt a => (if is_atom a then print a else paren (print a)) ++ [63]
  end.

Definition print_expr (e : expr) : list Z :=
  print (e_re e) ++ (if e_eos e then [36] else []).

Lemma print_lit : forall s, print (lit s) = quote_meta s.
Proof. induction s as [|c s IH]; cbn; [reflexivity | rewrite IH; reflexivity]. Qed.
