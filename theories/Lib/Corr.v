(* Generic correspondence plumbing: the harness writes a [cases] list of
   (index, case) pairs; [mismatches] evaluates a per-property comparison
   function and keeps the indices (and model outputs) that disagree. *)
From Coq Require Import List NArith.
Import ListNotations.

Definition mismatches {C O : Type} (f : C -> option O) (cs : list (N * C))
  : list (N * O) :=
  flat_map (fun ic => match f (snd ic) with
                      | None => []
                      | Some o => [(fst ic, o)]
                      end) cs.

Definition bad_ids {C O : Type} (f : C -> option O) (cs : list (N * C)) : list N :=
  map fst (mismatches f cs).
