(* C12 — the definitions GENERATED from utils/cache.go (C12/Gen.v, regenerated from the
   tree under check on every run by /verif/gotocoq) do what the hand model C12/Model.v
   says, for all states, keys, values, instants, limits and size functions.

   Reading of the generated file (see its header; all of it is in props/C12.json
   `trusted`): float64 values (sizes, ttlSec) are exact integers, the type parameters K, V
   are opaque types with a decidable equality on K, function values are pure, the
   `go func(){…}()` of Set is a recorded result (the list of goroutines started, holding
   the captured key and duration) and its body is the definition [Set__go]; every
   translated function is ONE atomic step (the lock operations are dropped).

   The relation [R lim g c] between a generated MemoryCache [g] and a model cache [c]
   with limit [lim]:
     - the Go map and the model's association list agree on every look-up (the Go map is
       replace-in-place, the model conses in front: the lists differ in order, so the tie
       is extensional in the key; ValueWrapper{value, expirationTimeNano} = entry),
     - currentCacheSize = csize,
     - lim = Some maxCacheSize iff calculateCacheSize (WithMaxCacheSize was called),
     - when calculateCacheSize is set the size function is the model's [sz] (not nil).
   The model's [sleepers] field is bookkeeping of the goroutines started: it is tied to
   the list of goroutines the generated Set returns.

   Each theorem: related states, same inputs  ==>  same result and related states. *)
From Coq Require Import List ZArith Bool Lia.
From Verif Require Import Lib.GoSem C12.Model C12.Proofs C12.Gen.
Import ListNotations.
Open Scope Z_scope.

Section GenEquiv.
  Variables K V : Type.
  Variable keq : K -> K -> bool.
  Variable vzero : V.                  (* Go's zero value of V *)
  Variable sz : K -> V -> Z.           (* calculateSizeFunc *)
  Hypothesis keq_spec : forall a b, keq a b = true <-> a = b.

  Local Notation gcache := (Gen.MemoryCache K V).
  Local Notation gwrap := (Gen.ValueWrapper V).

  Definition wrap (e : entry V) : gwrap := mk_ValueWrapper V (e_val e) (e_exp e).

  Definition same_store (g : list (K * gwrap)) (m : list (K * entry V)) : Prop :=
    forall k, map_get keq g k = option_map wrap (lookup keq k m).

  Record R (lim : option Z) (g : gcache) (c : cache K V) : Prop := mkR {
    R_store : same_store (MemoryCache_cache K V g) (store c);
    R_size : MemoryCache_currentCacheSize K V g = csize c;
    R_lim : lim = if MemoryCache_calculateCacheSize K V g
                  then Some (MemoryCache_maxCacheSize K V g) else None;
    R_fn : MemoryCache_calculateCacheSize K V g = true ->
           MemoryCache_calculateSizeFunc K V g = Some sz
  }.

  (* ---------------- the two maps ---------------- *)

  Lemma same_store_set g m k e :
    same_store g m -> same_store (map_set keq g k (wrap e)) (upd keq k e m).
  Proof.
    intros S k'. destruct (keq_dec K keq keq_spec k' k) as [->|N].
    - rewrite (map_get_set_same keq keq_spec), (lookup_upd_eq K V keq keq_spec). reflexivity.
    - rewrite (map_get_set_other keq keq_spec) by exact N.
      rewrite (lookup_upd_neq K V keq keq_spec) by exact N. apply S.
  Qed.

  Lemma same_store_delete g m k :
    same_store g m -> same_store (map_delete keq g k) (remove keq k m).
  Proof.
    intros S k'. destruct (keq_dec K keq keq_spec k' k) as [->|N].
    - rewrite (map_get_delete_same keq), (lookup_remove_eq K V keq). reflexivity.
    - rewrite (map_get_delete_other keq keq_spec) by exact N.
      rewrite (lookup_remove_neq K V keq keq_spec) by exact N. apply S.
  Qed.

  Lemma lookup_related g m k :
    same_store g m ->
    map_lookup keq (mk_ValueWrapper V vzero 0) g k =
    match lookup keq k m with
    | Some e => (wrap e, true)
    | None => (mk_ValueWrapper V vzero 0, false)
    end.
  Proof. intros S. unfold map_lookup. rewrite (S k). destruct (lookup keq k m); reflexivity. Qed.

  (* ---------------- Get / Has ---------------- *)

  (* Get: (value, true) on a hit, (zero value, false) otherwise — Model.get *)
  Theorem C12_gen_Get lim g c k now :
    R lim g c ->
    Gen.Get K keq V vzero g k now =
    match get keq c k now with Some v => (v, true) | None => (vzero, false) end.
  Proof.
    intros HR. unfold Gen.Get, Gen.valueExpired, get, time_to_unixnano.
    rewrite (lookup_related _ _ k (R_store _ _ _ HR)).
    destruct (lookup keq k (store c)) as [e|]; cbn; [|reflexivity].
    destruct (e_exp e <? now) eqn:E1, (now <=? e_exp e) eqn:E2; try reflexivity; lia.
  Qed.

  (* Has — Model.has.  (An absent key reads the zero wrapper, expiry 0: false either way.) *)
  Theorem C12_gen_Has lim g c k now :
    R lim g c ->
    Gen.Has K keq V vzero g k now = has keq c k now.
  Proof.
    intros HR. unfold Gen.Has, Gen.valueExpired, has, time_to_unixnano.
    rewrite (lookup_related _ _ k (R_store _ _ _ HR)).
    destruct (lookup keq k (store c)) as [e|]; cbn.
    - destruct (e_exp e <? now) eqn:E1, (now <=? e_exp e) eqn:E2; try reflexivity; lia.
    - destruct (0 <? now); reflexivity.
  Qed.

  (* ---------------- clearKey, Del, the sleeper ---------------- *)

  (* clearKey = Model.clear; it does not panic on related states *)
  Theorem C12_gen_clearKey lim g c k :
    R lim g c ->
    exists g', Gen.clearKey K keq V vzero g k = Normal g' tt /\
               R lim g' (clear keq sz lim k c).
  Proof.
    intros HR. destruct HR as [HS HZ HL HF]. unfold Gen.clearKey.
    destruct (MemoryCache_calculateCacheSize K V g) eqn:EC.
    - rewrite (lookup_related _ _ k HS). rewrite (HF eq_refl). subst lim.
      destruct (lookup keq k (store c)) as [e|] eqn:EL; cbn.
      + eexists; split; [reflexivity|]. constructor; cbn.
        * apply same_store_delete, HS.
        * rewrite EL, HZ. reflexivity.
        * rewrite EC. reflexivity.
        * intros _. apply HF. reflexivity.
      + eexists; split; [reflexivity|]. constructor; cbn.
        * apply same_store_delete, HS.
        * rewrite EL. exact HZ.
        * rewrite EC. reflexivity.
        * intros _. apply HF. reflexivity.
    - subst lim. eexists; split; [reflexivity|]. constructor; cbn.
      + apply same_store_delete, HS.
      + exact HZ.
      + rewrite EC. reflexivity.
      + rewrite EC. discriminate.
  Qed.

  (* Del = the step ODel *)
  Theorem C12_gen_Del lim g c k :
    R lim g c ->
    exists g', Gen.Del K keq V vzero g k = Normal g' tt /\
               R lim g' (fst (step keq sz lim c (ODel k))) /\
               snd (step keq sz lim c (ODel k)) = RUnit.
  Proof.
    intros HR. destruct (C12_gen_clearKey lim g c k HR) as (g' & E & HR').
    exists g'. unfold Gen.Del. rewrite E. cbn. auto.
  Qed.

  (* the body of the goroutine Set starts, run for the captured key [k] and duration [d]
     (the record mk_Set__go_args k d the Set with id [id] returned) while that sleeper is
     pending = the step OFire (the wait itself —
     clock.Sleep(ttlDuration) — is dropped: the model lets a pending sleeper fire at any
     time) *)
  Theorem C12_gen_sleeper lim g c id k d r :
    R lim g c ->
    take_sleeper keq id k (sleepers c) = Some r ->
    exists g', Gen.Set__go K keq V vzero g k d = Normal g' tt /\
               R lim g' (fst (step keq sz lim c (OFire id k))) /\
               sleepers (fst (step keq sz lim c (OFire id k))) = r /\
               snd (step keq sz lim c (OFire id k)) = RUnit.
  Proof.
    intros HR HT. destruct (C12_gen_clearKey lim g c k HR) as (g' & E & HR').
    exists g'. unfold Gen.Set__go. rewrite E. cbn. rewrite HT. cbn.
    split; [reflexivity|]. split; [|split; reflexivity].
    destruct HR' as [HS HZ HL HF]. constructor; [exact HS|exact HZ|exact HL|exact HF].
  Qed.

  (* ---------------- Set ---------------- *)

  Definition err_full : gostring :=
    [67;97;110;110;111;116;32;97;100;100;32;105;116;101;109;58;32;109;97;120;32;99;97;99;104;101;32;115;105;122;101;32;119;111;117;108;100;32;98;101;32;101;120;99;101;101;100;101;100;46;32;67;117;114;114;101;110;116;32;99;97;99;104;101;32;115;105;122;101;32;105;115;32;37;118].

  (* Set (everything it does, as one step at the clock reading [now]: size of the item,
     expiry = now + 1e9 * ttlSec, the locked section, the goroutine) = Model.set_ with
     ttl = 1e9 * ttlSec and tb = now: same verdict (nil / the "max cache size" error),
     related states, and the goroutine it starts is exactly the sleeper the model
     appends: started iff stored, holding the key and the duration. *)
  Theorem C12_gen_Set lim g c id k v ttlSec now :
    R lim g c ->
    let ttl := ns_per_sec * ttlSec in
    let '(c', ok) := set_ keq sz lim id k v ttl now c in
    exists g' err spawned,
      Gen.Set_ K keq V g k v ttlSec now = Normal g' (err, spawned) /\
      R lim g' c' /\
      err = (if ok then ErrNil else Err err_full) /\
      spawned = (if ok then [mk_Set__go_args K k ttl] else []) /\
      sleepers c' = sleepers c ++ (if ok then [(id, k)] else []).
  Proof.
    intros HR ttl. destruct HR as [HS HZ HL HF]. unfold Gen.Set_, set_, time_to_unixnano.
    destruct (MemoryCache_calculateCacheSize K V g) eqn:EC.
    - rewrite (HF eq_refl). subst lim. cbn. rewrite HZ.
      destruct (MemoryCache_maxCacheSize K V g <? csize c + sz k v) eqn:EM.
      + exists g, (Err err_full), []. cbn. rewrite app_nil_r.
        split; [reflexivity|]. split; [|auto].
        constructor; [exact HS|exact HZ|rewrite EC; reflexivity|intros _; apply HF; reflexivity].
      + cbn. rewrite EC. eexists _, ErrNil, _. split; [reflexivity|].
        split; [|cbn; auto].
        constructor; cbn.
        * apply (same_store_set _ _ k {| e_val := v; e_exp := now + ttl |}), HS.
        * first [reflexivity | rewrite HZ; reflexivity].
        * rewrite EC. reflexivity.
        * intros _. apply HF. reflexivity.
    - subst lim. cbn. rewrite EC. eexists _, ErrNil, _. split; [reflexivity|].
      split; [|cbn; auto].
      constructor; cbn.
      + apply (same_store_set _ _ k {| e_val := v; e_exp := now + ttl |}), HS.
      + rewrite HZ. lia.
      + rewrite EC. reflexivity.
      + rewrite EC. discriminate.
  Qed.

  (* ---------------- WithMaxCacheSize ---------------- *)

  (* WithMaxCacheSize(sz, mx): afterwards the limit is Some mx, nothing else changes *)
  Theorem C12_gen_WithMaxCacheSize lim g c mx :
    R lim g c -> R (Some mx) (Gen.WithMaxCacheSize K V g (Some sz) mx) c.
  Proof.
    intros [HS HZ HL HF]. unfold Gen.WithMaxCacheSize. constructor; cbn; auto.
  Qed.

  (* NewMemoryCache(clock): no entries, no size accounting (calculateCacheSize false, size
     function nil), counter 0 — related to Model.empty with no limit; so the hypotheses of the
     theorems above are satisfiable and every state reached from the constructor through the
     translated functions is related to the model's state *)
  Theorem C12_gen_NewMemoryCache clk :
    R None (Gen.NewMemoryCache K V clk) empty.
  Proof. constructor; cbn; auto; try discriminate. intros k. reflexivity. Qed.
End GenEquiv.

Print Assumptions C12_gen_Get.
Print Assumptions C12_gen_Has.
Print Assumptions C12_gen_clearKey.
Print Assumptions C12_gen_Del.
Print Assumptions C12_gen_sleeper.
Print Assumptions C12_gen_Set.
Print Assumptions C12_gen_WithMaxCacheSize.
Print Assumptions C12_gen_NewMemoryCache.
