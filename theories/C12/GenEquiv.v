(* C12 — the definitions GENERATED from utils/cache.go (C12/Gen.v, regenerated from the
   tree under check on every run by /verif/gotocoq) do what the hand model C12/Model.v
   says, for all states, keys, values, instants, limits and size functions.

   Reading of the generated file (see its header; all of it is in props/C12.json
   `trusted`): float64 values (sizes, ttlSec) are exact integers, the type parameters K, V
   are opaque types with a decidable equality on K, function values are pure, the
   `go func(){…}()` of Set is a recorded result (the list of goroutines started, holding
   the captured key and duration) and its body is the definition [Set__go]; every
   translated function is ONE atomic step (the lock operations are dropped).

   The relation [R lim g c] between a generated MemoryCache [g] and a model cache [c]
   with limit [lim]:
     - the Go map and the model's association list agree on every look-up (the Go map is
       replace-in-place, the model conses in front: the lists differ in order, so the tie
       is extensional in the key; ValueWrapper{value, expirationTimeNano} = entry),
     - currentCacheSize = csize,
     - lim = Some maxCacheSize iff calculateCacheSize (WithMaxCacheSize was called),
     - when calculateCacheSize is set the size function is the model's [sz] (not nil).
   The model's [sleepers] field is bookkeeping of the goroutines started: it is tied to
   the list of goroutines the generated Set returns.

   Each theorem: related states, same inputs  ==>  same result and related states.
   After the Section: Examples on K := str showing that R relates NON-EMPTY states reached
   through the generated functions (C12_gen_R_nonempty) and what the squares say there. *)
From Coq Require Import List ZArith Bool Lia.
From Verif Require Import Lib.GoSem C12.Model C12.Proofs C12.Gen.
Import ListNotations.
Open Scope Z_scope.

Section GenEquiv.
  Variables K V : Type.
  Variable keq : K -> K -> bool.
  Variable vzero : V.                  (* Go's zero value of V *)
  Variable sz : K -> V -> Z.           (* calculateSizeFunc *)
  Hypothesis keq_spec : forall a b, keq a b = true <-> a = b.

  Local Notation gcache := (Gen.MemoryCache K V).
  Local Notation gwrap := (Gen.ValueWrapper V).

  Definition wrap (e : entry V) : gwrap := mk_ValueWrapper V (e_val e) (e_exp e).

  Definition same_store (g : list (K * gwrap)) (m : list (K * entry V)) : Prop :=
    forall k, map_get keq g k = option_map wrap (lookup keq k m).

  Record R (lim : option Z) (g : gcache) (c : cache K V) : Prop := mkR {
    R_store : same_store (MemoryCache_cache K V g) (store c);
    R_size : MemoryCache_currentCacheSize K V g = csize c;
    R_lim : lim = if MemoryCache_calculateCacheSize K V g
                  then Some (MemoryCache_maxCacheSize K V g) else None;
    R_fn : MemoryCache_calculateCacheSize K V g = true ->
           MemoryCache_calculateSizeFunc K V g = Some sz
  }.

  (* ---------------- the two maps ---------------- *)

  Lemma same_store_set g m k e :
    same_store g m -> same_store (map_set keq g k (wrap e)) (upd keq k e m).
  Proof.
    intros S k'. destruct (keq_dec K keq keq_spec k' k) as [->|N].
    - rewrite (map_get_set_same keq keq_spec), (lookup_upd_eq K V keq keq_spec). reflexivity.
    - rewrite (map_get_set_other keq keq_spec) by exact N.
      rewrite (lookup_upd_neq K V keq keq_spec) by exact N. apply S.
  Qed.

  Lemma same_store_delete g m k :
    same_store g m -> same_store (map_delete keq g k) (remove keq k m).
  Proof.
    intros S k'. destruct (keq_dec K keq keq_spec k' k) as [->|N].
    - rewrite (map_get_delete_same keq), (lookup_remove_eq K V keq). reflexivity.
    - rewrite (map_get_delete_other keq keq_spec) by exact N.
      rewrite (lookup_remove_neq K V keq keq_spec) by exact N. apply S.
  Qed.

  Lemma lookup_related g m k :
    same_store g m ->
    map_lookup keq (mk_ValueWrapper V vzero 0) g k =
    match lookup keq k m with
    | Some e => (wrap e, true)
    | None => (mk_ValueWrapper V vzero 0, false)
    end.
  Proof. intros S. unfold map_lookup. rewrite (S k). destruct (lookup keq k m); reflexivity. Qed.

  (* ---------------- Get / Has ---------------- *)

  (* Get: (value, true) on a hit, (zero value, false) otherwise — Model.get *)
  Theorem C12_gen_Get lim g c k now :
    R lim g c ->
    Gen.Get K keq V vzero g k now =
    match get keq c k now with Some v => (v, true) | None => (vzero, false) end.
  Proof.
    intros HR. unfold Gen.Get, Gen.valueExpired, get, time_to_unixnano.
    rewrite (lookup_related _ _ k (R_store _ _ _ HR)).
    destruct (lookup keq k (store c)) as [e|]; cbn; [|reflexivity].
    destruct (e_exp e <? now) eqn:E1, (now <=? e_exp e) eqn:E2; try reflexivity; lia.
  Qed.

  (* Has — Model.has.  (An absent key reads the zero wrapper, expiry 0: false either way.) *)
  Theorem C12_gen_Has lim g c k now :
    R lim g c ->
    Gen.Has K keq V vzero g k now = has keq c k now.
  Proof.
    intros HR. unfold Gen.Has, Gen.valueExpired, has, time_to_unixnano.
    rewrite (lookup_related _ _ k (R_store _ _ _ HR)).
    destruct (lookup keq k (store c)) as [e|]; cbn.
    - destruct (e_exp e <? now) eqn:E1, (now <=? e_exp e) eqn:E2; try reflexivity; lia.
    - destruct (0 <? now); reflexivity.
  Qed.

  (* ---------------- clearKey, Del, the sleeper ---------------- *)

  (* clearKey = Model.clear; it does not panic on related states *)
  Theorem C12_gen_clearKey lim g c k :
    R lim g c ->
    exists g', Gen.clearKey K keq V vzero g k = Normal g' tt /\
               R lim g' (clear keq sz lim k c).
  Proof.
    intros HR. destruct HR as [HS HZ HL HF]. unfold Gen.clearKey.
    destruct (MemoryCache_calculateCacheSize K V g) eqn:EC.
    - rewrite (lookup_related _ _ k HS). rewrite (HF eq_refl). subst lim.
      destruct (lookup keq k (store c)) as [e|] eqn:EL; cbn.
      + eexists; split; [reflexivity|]. constructor; cbn.
        * apply same_store_delete, HS.
        * rewrite EL, HZ. reflexivity.
        * rewrite EC. reflexivity.
        * intros _. apply HF. reflexivity.
      + eexists; split; [reflexivity|]. constructor; cbn.
        * apply same_store_delete, HS.
        * rewrite EL. exact HZ.
        * rewrite EC. reflexivity.
        * intros _. apply HF. reflexivity.
    - subst lim. eexists; split; [reflexivity|]. constructor; cbn.
      + apply same_store_delete, HS.
      + exact HZ.
      + rewrite EC. reflexivity.
      + rewrite EC. discriminate.
  Qed.

  (* Del = the step ODel *)
  Theorem C12_gen_Del lim g c k :
    R lim g c ->
    exists g', Gen.Del K keq V vzero g k = Normal g' tt /\
               R lim g' (fst (step keq sz lim c (ODel k))) /\
               snd (step keq sz lim c (ODel k)) = RUnit.
  Proof.
    intros HR. destruct (C12_gen_clearKey lim g c k HR) as (g' & E & HR').
    exists g'. unfold Gen.Del. rewrite E. cbn. auto.
  Qed.

  (* the body of the goroutine Set starts, run for the captured key [k] and duration [d]
     (the record mk_Set__go_args k d the Set with id [id] returned) while that sleeper is
     pending = the step OFire (the wait itself —
     clock.Sleep(ttlDuration) — is dropped: the model lets a pending sleeper fire at any
     time) *)
  Theorem C12_gen_sleeper lim g c id k d r :
    R lim g c ->
    take_sleeper keq id k (sleepers c) = Some r ->
    exists g', Gen.Set__go K keq V vzero g k d = Normal g' tt /\
               R lim g' (fst (step keq sz lim c (OFire id k))) /\
               sleepers (fst (step keq sz lim c (OFire id k))) = r /\
               snd (step keq sz lim c (OFire id k)) = RUnit.
  Proof.
    intros HR HT. destruct (C12_gen_clearKey lim g c k HR) as (g' & E & HR').
    exists g'. unfold Gen.Set__go. rewrite E. cbn. rewrite HT. cbn.
    split; [reflexivity|]. split; [|split; reflexivity].
    destruct HR' as [HS HZ HL HF]. constructor; [exact HS|exact HZ|exact HL|exact HF].
  Qed.

  (* ---------------- Set ---------------- *)

  Definition err_full : gostring :=
    [67;97;110;110;111;116;32;97;100;100;32;105;116;101;109;58;32;109;97;120;32;99;97;99;104;101;32;115;105;122;101;32;119;111;117;108;100;32;98;101;32;101;120;99;101;101;100;101;100;46;32;67;117;114;114;101;110;116;32;99;97;99;104;101;32;115;105;122;101;32;105;115;32;37;118].

  (* Set (everything it does, as one step at the clock reading [now]: size of the item,
     expiry = now + 1e9 * ttlSec, the locked section, the goroutine) = Model.set_ with
     ttl = 1e9 * ttlSec and tb = now: same verdict (nil / the "max cache size" error),
     related states, and the goroutine it starts is exactly the sleeper the model
     appends: started iff stored, holding the key and the duration. *)
  Theorem C12_gen_Set lim g c id k v ttlSec now :
    R lim g c ->
    let ttl := ns_per_sec * ttlSec in
    let '(c', ok) := set_ keq sz lim id k v ttl now c in
    exists g' err spawned,
      Gen.Set_ K keq V g k v ttlSec now = Normal g' (err, spawned) /\
      R lim g' c' /\
      err = (if ok then ErrNil else Err err_full) /\
      spawned = (if ok then [mk_Set__go_args K k ttl] else []) /\
      sleepers c' = sleepers c ++ (if ok then [(id, k)] else []).
  Proof.
    intros HR ttl. destruct HR as [HS HZ HL HF]. unfold Gen.Set_, set_, time_to_unixnano.
    destruct (MemoryCache_calculateCacheSize K V g) eqn:EC.
    - rewrite (HF eq_refl). subst lim. cbn. rewrite HZ.
      destruct (MemoryCache_maxCacheSize K V g <? csize c + sz k v) eqn:EM.
      + exists g, (Err err_full), []. cbn. rewrite app_nil_r.
        split; [reflexivity|]. split; [|auto].
        constructor; [exact HS|exact HZ|rewrite EC; reflexivity|intros _; apply HF; reflexivity].
      + cbn. rewrite EC. eexists _, ErrNil, _. split; [reflexivity|].
        split; [|cbn; auto].
        constructor; cbn.
        * apply (same_store_set _ _ k {| e_val := v; e_exp := now + ttl |}), HS.
        * first [reflexivity | rewrite HZ; reflexivity].
        * rewrite EC. reflexivity.
        * intros _. apply HF. reflexivity.
    - subst lim. cbn. rewrite EC. eexists _, ErrNil, _. split; [reflexivity|].
      split; [|cbn; auto].
      constructor; cbn.
      + apply (same_store_set _ _ k {| e_val := v; e_exp := now + ttl |}), HS.
      + rewrite HZ. lia.
      + rewrite EC. reflexivity.
      + rewrite EC. discriminate.
  Qed.

  (* ---------------- WithMaxCacheSize ---------------- *)

  (* WithMaxCacheSize(sz, mx): afterwards the limit is Some mx, nothing else changes *)
  Theorem C12_gen_WithMaxCacheSize lim g c mx :
    R lim g c -> R (Some mx) (Gen.WithMaxCacheSize K V g (Some sz) mx) c.
  Proof.
    intros [HS HZ HL HF]. unfold Gen.WithMaxCacheSize. constructor; cbn; auto.
  Qed.

  (* NewMemoryCache(clock): no entries, no size accounting (calculateCacheSize false, size
     function nil), counter 0 — related to Model.empty with no limit; so the hypotheses of the
     theorems above are satisfiable and every state reached from the constructor through the
     translated functions is related to the model's state *)
  Theorem C12_gen_NewMemoryCache clk :
    R None (Gen.NewMemoryCache K V clk) empty.
  Proof. constructor; cbn; auto; try discriminate. intros k. reflexivity. Qed.
End GenEquiv.

(* ---------------- the relation is inhabited beyond the empty cache ---------------- *)

(* A concrete instance: K := str (the URL strings of the suites), V := Z, == on K := str_eqb,
   size of an item := length of its key + 1.  NewMemoryCache, WithMaxCacheSize(size, 10), then
   Set("a", 42, 3 s) at clock 1000 and Set("bb", 43, 5 s) at clock 2000. *)
Definition gex_sz (k : str) (_ : Z) : Z := Z.of_nat (length k) + 1.
Definition gex_ka : str := [97].
Definition gex_kb : str := [98; 98].
Definition gex_kc : str := [99; 99; 99; 99; 99; 99].

(* the generated cache after the two Sets: Go's map as the translator keeps it, first stored first *)
Definition gex_g : Gen.MemoryCache str Z :=
  mk_MemoryCache str Z
    [(gex_ka, mk_ValueWrapper Z 42 3000001000); (gex_kb, mk_ValueWrapper Z 43 5000002000)]
    true 10 5 (Some gex_sz).

(* the model cache after the same two Sets (ids 1, 2): last stored first, two pending sleepers *)
Definition gex_c : cache str Z :=
  {| store := [(gex_kb, {| e_val := 43; e_exp := 5000002000 |});
               (gex_ka, {| e_val := 42; e_exp := 3000001000 |})];
     csize := 5;
     sleepers := [(1, gex_ka); (2, gex_kb)] |}.

(* the two runs end in these states (computation) … *)
Example C12_gen_example_runs :
  (match Gen.Set_ str str_eqb Z
           (Gen.WithMaxCacheSize str Z (Gen.NewMemoryCache str Z tt) (Some gex_sz) 10)
           gex_ka 42 3 1000 with
   | Normal g1 (ErrNil, [_]) => Gen.Set_ str str_eqb Z g1 gex_kb 43 5 2000
   | _ => Panicked (Gen.NewMemoryCache str Z tt)
   end = Normal gex_g (ErrNil, [mk_Set__go_args str gex_kb 5000000000])) /\
  (let '(c1, ok1) := set_ str_eqb gex_sz (Some 10) 1 gex_ka 42 3000000000 1000 (@empty str Z) in
   let '(c2, ok2) := set_ str_eqb gex_sz (Some 10) 2 gex_kb 43 5000000000 2000 c1 in
   (c2, ok1, ok2)) = (gex_c, true, true).
Proof. split; vm_compute; reflexivity. Qed.

(* … and they are related: R holds of a pair of NON-EMPTY states whose two lists differ in
   order (the reason R is extensional in the key).  Obtained from the squares themselves:
   NewMemoryCache, WithMaxCacheSize, Set, Set. *)
Example C12_gen_R_nonempty :
  R str Z str_eqb gex_sz (Some 10) gex_g gex_c /\
  MemoryCache_cache str Z gex_g <> [] /\ store gex_c <> [] /\
  map fst (MemoryCache_cache str Z gex_g) <> map fst (store gex_c).
Proof.
  split; [|repeat split; discriminate].
  pose proof (C12_gen_WithMaxCacheSize str Z str_eqb gex_sz None _ _ 10
                (C12_gen_NewMemoryCache str Z str_eqb gex_sz tt)) as R0.
  pose proof (C12_gen_Set str Z str_eqb gex_sz str_eqb_spec _ _ _ 1 gex_ka 42 3 1000 R0) as S1.
  vm_compute in S1. destruct S1 as (g1 & e1 & s1 & E1 & R1 & _).
  injection E1 as <- _ _.
  pose proof (C12_gen_Set str Z str_eqb gex_sz str_eqb_spec _ _ _ 2 gex_kb 43 5 2000 R1) as S2.
  vm_compute in S2. destruct S2 as (g2 & e2 & s2 & E2 & R2 & _).
  injection E2 as <- _ _.
  exact R2.
Qed.

(* the squares applied to that non-empty pair: a fresh hit, a miss 1 ns after the expiry, a
   refused Set (6 + 1 bytes do not fit in 10 - 5) that starts no goroutine, and the first
   sleeper firing — each time the generated function and the model agree, with the values
   shown *)
Example C12_gen_squares_on_nonempty :
  Gen.Get str str_eqb Z 0 gex_g gex_ka 3000001000 = (42, true) /\
  get str_eqb gex_c gex_ka 3000001000 = Some 42 /\
  Gen.Get str str_eqb Z 0 gex_g gex_ka 3000001001 = (0, false) /\
  get str_eqb gex_c gex_ka 3000001001 = None /\
  Gen.Has str str_eqb Z 0 gex_g gex_kb 3000001001 = true /\
  Gen.Set_ str str_eqb Z gex_g gex_kc 44 1 3000 = Normal gex_g (Err err_full, []) /\
  set_ str_eqb gex_sz (Some 10) 3 gex_kc 44 1000000000 3000 gex_c = (gex_c, false) /\
  exists g', Gen.Set__go str str_eqb Z 0 gex_g gex_ka 3000000000 = Normal g' tt /\
             R str Z str_eqb gex_sz (Some 10) g'
               (fst (step str_eqb gex_sz (Some 10) gex_c (OFire 1 gex_ka))) /\
             MemoryCache_currentCacheSize str Z g' = 3 /\
             map fst (MemoryCache_cache str Z g') = [gex_kb].
Proof.
  destruct C12_gen_R_nonempty as (HR & _).
  pose proof (C12_gen_Get str Z str_eqb 0 gex_sz _ _ _ gex_ka 3000001000 HR) as G1.
  pose proof (C12_gen_Get str Z str_eqb 0 gex_sz _ _ _ gex_ka 3000001001 HR) as G2.
  repeat (split; [first [exact G1 | exact G2 | vm_compute; reflexivity]|]).
  destruct (C12_gen_sleeper str Z str_eqb 0 gex_sz str_eqb_spec _ _ _ 1 gex_ka 3000000000
              [(2, gex_kb)] HR eq_refl) as (g' & E & HR' & _).
  exists g'. split; [exact E|]. split; [exact HR'|].
  vm_compute in E. injection E as <-. split; reflexivity.
Qed.

Print Assumptions C12_gen_Get.
Print Assumptions C12_gen_Has.
Print Assumptions C12_gen_clearKey.
Print Assumptions C12_gen_Del.
Print Assumptions C12_gen_sleeper.
Print Assumptions C12_gen_Set.
Print Assumptions C12_gen_WithMaxCacheSize.
Print Assumptions C12_gen_NewMemoryCache.
