(* C12 — model of
     utils/cache.go                                   (MemoryCache)
     services/remedies/cache_plugin.go                (CachingPlugin)
     services/remedies/response_based_throttling_plugin.go

   The model describes the code WITH the two repairs of patches/C12
   (fix-F-C12a: the size test of Set is made under the lock;
    fix-F-C12b: absolute-epoch retry-after keeps the sub-second part of the
    clock).  The behaviour of the unrepaired code is kept next to it
   ([Unfixed] at the end) for the refutations in Property.v.

   Granularity.  Every function body of MemoryCache that runs under the cache
   mutex is one atomic step; a history is any list of such steps, so "all
   histories" = all schedules of concurrent callers.
     Get/Has  : one map read under RLock, then one clock read [t] and the test
                [t > expiry].  Modelled as one step at reading [t]; sound for
                monotone clocks (a hit at the later clock reading is a hit at
                the instant of the map read).
     Set      : item size and clock reading [tb] are taken BEFORE the lock
                (any time earlier: [tb] is a parameter of the step); the step
                is the locked section: size test, store (expiry = tb + ttl),
                size update; then a sleeper goroutine is started.
     sleeper  : [OFire]: clearKey(key) — deletes whatever is stored under the
                key by then.  The model lets a pending sleeper fire at ANY
                time (the real one fires at or after its due instant): the
                theorems hold for the larger set of histories.
     Del      : clearKey(key).

   Time and durations: Z nanoseconds.  [ttl] is the value of
   time.Duration(float64(time.Second) * ttlSec): the float product/truncation
   is not modelled (the harness only uses ttlSec = m/512 s, where it is exact).
   [ttl] ranges over ALL of Z.  Zero and negative values do occur (absolute-epoch
   retry-after instant that is not in the future when the response arrives,
   relative retry-after <= 0, ttl_seconds: 0 or omitted -- the configuration
   does not validate it) and the code treats them like any other: the entry is
   stored with expiry = tb + ttl, counted in the size, given a sleeper
   (Sleep of a non-positive duration), and answered by Get/Has only while
   [t <= tb + ttl]: for ttl = 0 at the clock reading [tb] itself, for ttl < 0
   never; it stays physically held (mask, size) until a sleeper, Del or a
   later Set of the key removes/replaces it.  There is no "0 = no expiry"
   convention anywhere.
   Absolute-epoch retry-after: the model's instant [ra] is
   now + trunc((header - now) as time.Duration) (truncation towards zero),
   = the header value itself on the 1/512 s grid; off the grid the harness
   only uses instants in the past of [now] half a ns away from the truncation.
   Sizes: Z (cache level: abstract units; caching plugin: bytes = MB * 2^20,
   exact in float64 for the magnitudes used).

   Case formats (harness -> cases): see [case_cache], [case_caching],
   [case_throttle] at the end. *)
From Coq Require Import List ZArith NArith Bool.
Import ListNotations.
Open Scope Z_scope.

(* ------------------------------------------------------------------ *)
(* MemoryCache                                                         *)
(* ------------------------------------------------------------------ *)
Section Cache.
  Variables K V : Type.
  Variable keq : K -> K -> bool.
  Variable sz : K -> V -> Z.          (* calculateSizeFunc *)

  Record entry := { e_val : V; e_exp : Z }.     (* ValueWrapper *)

  Record cache := {
    store : list (K * entry);         (* cache.cache, keys unique *)
    csize : Z;                        (* currentCacheSize *)
    sleepers : list (Z * K)           (* pending sleepers: (id of their Set, key) *)
  }.

  Definition empty : cache := {| store := []; csize := 0; sleepers := [] |}.

  Fixpoint lookup (k : K) (m : list (K * entry)) : option entry :=
    match m with
    | [] => None
    | (k', e) :: r => if keq k k' then Some e else lookup k r
    end.

  Fixpoint remove (k : K) (m : list (K * entry)) : list (K * entry) :=
    match m with
    | [] => []
    | (k', e) :: r => if keq k k' then remove k r else (k', e) :: remove k r
    end.

  Definition upd (k : K) (e : entry) (m : list (K * entry)) := (k, e) :: remove k m.

  (* sum of the sizes of the entries physically held *)
  Fixpoint total (m : list (K * entry)) : Z :=
    match m with
    | [] => 0
    | (k, e) :: r => sz k (e_val e) + total r
    end.

  (* Get: hit iff present and not (now > expiry) *)
  Definition get (c : cache) (k : K) (t : Z) : option V :=
    match lookup k (store c) with
    | Some e => if t <=? e_exp e then Some (e_val e) else None
    | None => None
    end.

  Definition has (c : cache) (k : K) (t : Z) : bool :=
    match lookup k (store c) with
    | Some e => t <=? e_exp e
    | None => false
    end.

  (* clearKey; [lim] = None: WithMaxCacheSize never called (no accounting) *)
  Definition clear (lim : option Z) (k : K) (c : cache) : cache :=
    {| store := remove k (store c);
       csize := match lim, lookup k (store c) with
                | Some _, Some e => csize c - sz k (e_val e)
                | _, _ => csize c
                end;
       sleepers := sleepers c |}.

  (* the locked section of Set (repaired code) + the start of the sleeper.
     Note: an overwritten entry's size is NOT subtracted (as in the code). *)
  Definition set_ (lim : option Z) (id : Z) (k : K) (v : V) (ttl tb : Z) (c : cache)
    : cache * bool :=
    let item := match lim with Some _ => sz k v | None => 0 end in
    let refuse := match lim with Some mx => mx <? csize c + item | None => false end in
    if refuse then (c, false)
    else ({| store := upd k {| e_val := v; e_exp := tb + ttl |} (store c);
             csize := csize c + item;
             sleepers := sleepers c ++ [(id, k)] |}, true).

  (* remove the first pending sleeper (id, k) *)
  Fixpoint take_sleeper (id : Z) (k : K) (l : list (Z * K)) : option (list (Z * K)) :=
    match l with
    | [] => None
    | (i, k') :: r =>
        if (i =? id) && keq k k' then Some r
        else match take_sleeper id k r with
             | Some r' => Some ((i, k') :: r')
             | None => None
             end
    end.

  Inductive op :=
  | OGet (k : K) (t : Z)
  | OHas (k : K) (t : Z)
  | OSet (id : Z) (k : K) (v : V) (ttl tb : Z)
  | OFire (id : Z) (k : K)
  | ODel (k : K).

  Inductive out :=
  | RGet (r : option V)
  | RHas (b : bool)
  | RSet (ok : bool)
  | RUnit
  | RBad.                (* ill-formed history: no such sleeper pending *)

  Definition step (lim : option Z) (c : cache) (o : op) : cache * out :=
    match o with
    | OGet k t => (c, RGet (get c k t))
    | OHas k t => (c, RHas (has c k t))
    | OSet id k v ttl tb => let '(c', ok) := set_ lim id k v ttl tb c in (c', RSet ok)
    | OFire id k =>
        match take_sleeper id k (sleepers c) with
        | Some r =>
            let c' := clear lim k c in
            ({| store := store c'; csize := csize c'; sleepers := r |}, RUnit)
        | None => (c, RBad)
        end
    | ODel k => (clear lim k c, RUnit)
    end.

  Definition exec (lim : option Z) (c : cache) (h : list op) : cache :=
    fold_left (fun c o => fst (step lim c o)) h c.

  Fixpoint trace (lim : option Z) (c : cache) (h : list op) : list (op * out) :=
    match h with
    | [] => []
    | o :: r => let '(c', x) := step lim c o in (o, x) :: trace lim c' r
    end.

  (* the key an operation writes to (reads write nothing) *)
  Definition op_key (o : op) : option K :=
    match o with
    | OGet _ _ | OHas _ _ => None
    | OSet _ k _ _ _ => Some k
    | OFire _ k => Some k
    | ODel k => Some k
    end.

  (* ---- the code as it is before fix-F-C12a: size test outside the lock ---- *)
  Inductive uop :=
  | UCheck (k : K) (v : V)                        (* unlocked: currentCacheSize+item > max ? *)
  | UCommit (id : Z) (k : K) (v : V) (ttl tb : Z) (* locked: store, size += item *)
  | UOp (o : op).                                 (* everything else, as above *)

  Definition ucheck (lim : option Z) (c : cache) (k : K) (v : V) : bool :=
    match lim with Some mx => negb (mx <? csize c + sz k v) | None => true end.

  Definition ucommit (lim : option Z) (id : Z) (k : K) (v : V) (ttl tb : Z) (c : cache) : cache :=
    {| store := upd k {| e_val := v; e_exp := tb + ttl |} (store c);
       csize := csize c + match lim with Some _ => sz k v | None => 0 end;
       sleepers := sleepers c ++ [(id, k)] |}.

  Definition ustep (lim : option Z) (c : cache) (o : uop) : cache * out :=
    match o with
    | UCheck k v => (c, RSet (ucheck lim c k v))
    | UCommit id k v ttl tb => (ucommit lim id k v ttl tb c, RSet true)
    | UOp o => step lim c o
    end.

  Definition uexec (lim : option Z) (c : cache) (h : list uop) : cache :=
    fold_left (fun c o => fst (ustep lim c o)) h c.

  (* the unrepaired code when no other caller runs between the test and the
     locked section of a Set *)
  Definition uatomic (lim : option Z) (c : cache) (o : op) : cache :=
    match o with
    | OSet id k v ttl tb =>
        if ucheck lim c k v then ucommit lim id k v ttl tb c else c
    | _ => fst (step lim c o)
    end.

  (* program order of the unrepaired Set: every commit is preceded by a check
     of the same key/value that passed *)
  Fixpoint uwf (lim : option Z) (same : K * V -> K * V -> bool) (c : cache)
           (passed : list (K * V)) (h : list uop) : bool :=
    match h with
    | [] => true
    | UCheck k v :: r =>
        uwf lim same c (if ucheck lim c k v then (k, v) :: passed else passed) r
    | UCommit id k v ttl tb :: r =>
        existsb (same (k, v)) passed &&
        uwf lim same (ucommit lim id k v ttl tb c) passed r
    | UOp (OSet _ _ _ _ _) :: _ => false           (* no atomic Set in that code *)
    | UOp o :: r => uwf lim same (fst (step lim c o)) passed r
    end.
End Cache.

Arguments e_val {V}. Arguments e_exp {V}.
Arguments store {K V}. Arguments csize {K V}. Arguments sleepers {K V}.
Arguments empty {K V}.
Arguments lookup {K V}. Arguments remove {K V}. Arguments upd {K V}.
Arguments total {K V}. Arguments get {K V}. Arguments has {K V}.
Arguments clear {K V}. Arguments set_ {K V}. Arguments take_sleeper {K}.
Arguments OGet {K V}. Arguments OHas {K V}. Arguments OSet {K V}.
Arguments OFire {K V}. Arguments ODel {K V}.
Arguments RGet {V}. Arguments RHas {V}. Arguments RSet {V}.
Arguments RUnit {V}. Arguments RBad {V}.
Arguments step {K V}. Arguments exec {K V}. Arguments trace {K V}.
Arguments op_key {K V}.
Arguments UCheck {K V}. Arguments UCommit {K V}. Arguments UOp {K V}.
Arguments ucheck {K V}. Arguments ucommit {K V}. Arguments ustep {K V}.
Arguments uexec {K V}. Arguments uwf {K V}. Arguments uatomic {K V}.

(* ------------------------------------------------------------------ *)
(* strings = lists of byte codes                                       *)
(* ------------------------------------------------------------------ *)
Definition str := list Z.

Fixpoint str_eqb (a b : str) : bool :=
  match a, b with
  | [], [] => true
  | x :: a', y :: b' => (x =? y) && str_eqb a' b'
  | _, _ => false
  end.

Definition slen (s : str) : Z := Z.of_nat (length s).

(* ------------------------------------------------------------------ *)
(* CachingPlugin                                                       *)
(* ------------------------------------------------------------------ *)
Definition dot : Z := 46.       (* '.' *)
Definition colon : Z := 58.     (* ':' *)

(* pathParams[name]; a missing name reads as "" *)
Fixpoint plookup (n : str) (ps : list (str * str)) : str :=
  match ps with
  | [] => []
  | (n', v) :: r => if str_eqb n n' then v else plookup n r
  end.

(* the (name, value) pairs selected by request_payload_paths: entries of type
   path_params whose value is not empty, in configuration order *)
Definition selected (paths : list (bool * str)) (ps : list (str * str)) : list (str * str) :=
  flat_map (fun p : bool * str =>
              if fst p then match plookup (snd p) ps with
                            | [] => []
                            | v => [(snd p, v)]
                            end
              else []) paths.

Definition enc (nv : str * str) : str := fst nv ++ colon :: snd nv.

(* strings.Join(l, ".") *)
Fixpoint join (l : list str) : str :=
  match l with
  | [] => []
  | [x] => x
  | x :: r => x ++ dot :: join r
  end.

(* extractHashedPathParams before hashing: `values` starts as
   make([]string, len(payloadPaths)), i.e. with that many empty strings *)
Definition joined (paths : list (bool * str)) (ps : list (str * str)) : str :=
  join (repeat [] (length paths) ++ map enc (selected paths ps)).

(* the stored CachedResponse: identity token (status, body, headers as a
   whole) and the lengths that enter calculateSize *)
Record cresp := { r_vid : Z; r_idlen : N; r_bodylen : N; r_hdrlen : N }.

Record cconf := {
  c_paths : list (bool * str);   (* (payload_type = "path_params", path) *)
  c_ttl : Z;                     (* ttl_seconds, ns *)
  c_maxrec : Z;                  (* max_record_size_bytes *)
  c_max : Z                      (* max_cache_size_megabytes, in bytes *)
}.

Section Caching.
  Variable H : Type.
  Variable hash : str -> H.          (* hex(sha256(.)), trusted injective *)
  Variable heq : H -> H -> bool.

  Definition ckey := (str * str * H)%type.

  Definition ckey_eqb (a b : ckey) : bool :=
    let '(m1, u1, h1) := a in
    let '(m2, u2, h2) := b in
    str_eqb m1 m2 && str_eqb u1 u2 && heq h1 h2.

  (* calculateSize, in bytes; 64 = length of a hex SHA-256 *)
  Definition csz (k : ckey) (v : cresp) : Z :=
    let '(m, u, _) := k in
    slen m + slen u + 64 + Z.of_N (r_idlen v) + Z.of_N (r_bodylen v) + Z.of_N (r_hdrlen v) + 4 + 8.

  Definition key_of (conf : cconf) (m u : str) (ps : list (str * str)) : ckey :=
    (m, u, hash (joined (c_paths conf) ps)).

  Inductive cop :=
  | CReq (m u : str) (ps : list (str * str)) (t : Z)
  | CResp (id : Z) (m u : str) (ps : list (str * str)) (v : cresp) (t : Z)
  | CFire (id : Z) (m u : str) (ps : list (str * str)).

  Inductive cout :=
  | CNoOp                (* OnRequest: NoOpAction *)
  | CEarly (vid : Z)     (* OnRequest: EarlyResponseAction with the stored response *)
  | CDone                (* OnResponse (always NoOpAction) / sleeper *)
  | CBad.

  Definition ccache := cache ckey cresp.

  Definition cstep (conf : cconf) (c : ccache) (o : cop) : ccache * cout :=
    match o with
    | CReq m u ps t =>
        match get ckey_eqb c (key_of conf m u ps) t with
        | Some v => (c, CEarly (r_vid v))
        | None => (c, CNoOp)
        end
    | CResp id m u ps v t =>
        if c_maxrec conf <? Z.of_N (r_bodylen v) then (c, CDone)
        else if has ckey_eqb c (key_of conf m u ps) t then (c, CDone)
        else (fst (set_ ckey_eqb csz (Some (c_max conf)) id (key_of conf m u ps) v
                        (c_ttl conf) t c), CDone)
    | CFire id m u ps =>
        match step ckey_eqb csz (Some (c_max conf)) c (OFire id (key_of conf m u ps)) with
        | (c', RBad) => (c', CBad)
        | (c', _) => (c', CDone)
        end
    end.

  Definition cexec (conf : cconf) (c : ccache) (h : list cop) : ccache :=
    fold_left (fun c o => fst (cstep conf c o)) h c.
End Caching.



(* ------------------------------------------------------------------ *)
(* ResponseBasedThrottlingPlugin                                       *)
(* ------------------------------------------------------------------ *)
Inductive rtype := RAbs | RRel | RUndef.

Record tconf := {
  t_type : rtype;                (* retry_after_type *)
  t_statuses : list Z            (* relevant_statuses *)
}.

(* the stored response: identity token, the parsed value of the configured
   retry-after header in ns (None: header missing under that exact name, or
   not a number), CreationTime *)
Record tresp := { t_vid : Z; t_ra : option Z; t_created : Z }.

Definition tkey := (str * str)%type.
Definition tkey_eqb (a b : tkey) : bool :=
  str_eqb (fst a) (fst b) && str_eqb (snd a) (snd b).

Definition tsz (_ : tkey) (_ : tresp) : Z := 0.    (* no size accounting *)

Inductive top :=
| TReq (m u : str) (t : Z)
| TResp (id : Z) (m u : str) (status vid : Z) (ra : option Z) (t : Z)
| TFire (id : Z) (m u : str).

Inductive tout :=
| TNoOp
| TEarly (vid : Z) (ra : option Z)   (* replay; value of the retry-after header, ns *)
| TDone
| TBad.

Definition tcache := cache tkey tresp.

(* normalizeRetryAfter (repaired): the time-to-live handed to Set *)
Definition norm_ttl (ty : rtype) (ra t : Z) : option Z :=
  match ty with
  | RAbs => Some (ra - t)
  | RRel => Some ra
  | RUndef => None
  end.

Definition tstep (conf : tconf) (c : tcache) (o : top) : tcache * tout :=
  match o with
  | TReq m u t =>
      match get tkey_eqb c (m, u) t with
      | None => (c, TNoOp)
      | Some v =>
          match t_type conf with
          | RRel =>
              match t_ra v with
              | None => (c, TNoOp)
              | Some ra =>
                  let lapsed := t - t_created v in
                  if ra <=? lapsed then (c, TNoOp)       (* lapsed >= retryAfter *)
                  else (c, TEarly (t_vid v) (Some (ra - lapsed)))
              end
          | _ => (c, TEarly (t_vid v) (t_ra v))           (* headers unchanged *)
          end
      end
  | TResp id m u status vid ra t =>
      if negb (existsb (Z.eqb status) (t_statuses conf)) then (c, TDone)
      else if has tkey_eqb c (m, u) t then (c, TDone)
      else match ra with
           | None => (c, TDone)
           | Some r =>
               match norm_ttl (t_type conf) r t with
               | None => (c, TDone)
               | Some ttl =>
                   (fst (set_ tkey_eqb tsz None id (m, u)
                              {| t_vid := vid; t_ra := Some r; t_created := t |} ttl t c),
                    TDone)
               end
           end
  | TFire id m u =>
      match step tkey_eqb tsz None c (OFire id (m, u)) with
      | (c', RBad) => (c', TBad)
      | (c', _) => (c', TDone)
      end
  end.

Definition texec (conf : tconf) (c : tcache) (h : list top) : tcache :=
  fold_left (fun c o => fst (tstep conf c o)) h c.

(* normalizeRetryAfter before fix-F-C12b: whole seconds of the clock only *)
Definition second : Z := 1000000000.
Definition norm_ttl_unfixed (ty : rtype) (ra t : Z) : option Z :=
  match ty with
  | RAbs => Some (ra - (t / second) * second)
  | RRel => Some ra
  | RUndef => None
  end.

(* ------------------------------------------------------------------ *)
(* correspondence entry points                                         *)
(* ------------------------------------------------------------------ *)

(* --- suites "cache" and "sched": MemoryCache[int, item] ---
   key = small index; value = (identity token, size in units);
   case = (limit, [(op, (observed result, observed bitmask of held keys))]) *)
Definition cval := (Z * Z)%type.
Definition cache_sz (_ : Z) (v : cval) : Z := snd v.

Definition optz_eqb (a b : option Z) : bool :=
  match a, b with
  | None, None => true
  | Some x, Some y => x =? y
  | _, _ => false
  end.

Definition out_eqb (a b : out cval) : bool :=
  match a, b with
  | RGet None, RGet None => true
  | RGet (Some x), RGet (Some y) => (fst x =? fst y) && (snd x =? snd y)
  | RHas x, RHas y => eqb x y
  | RSet x, RSet y => eqb x y
  | RUnit, RUnit => true
  | _, _ => false
  end.

Definition mask (c : cache Z cval) : Z :=
  fold_left (fun a ke => a + 2 ^ fst ke) (store c) 0.

Definition case_cache := (option Z * list (op Z cval * (out cval * Z)))%type.

Fixpoint run_cache_from (lim : option Z) (c : cache Z cval)
         (h : list (op Z cval * (out cval * Z))) : bool * list (out cval * Z) :=
  match h with
  | [] => (true, [])
  | (o, (x, m)) :: r =>
      let '(c', x') := step Z.eqb cache_sz lim c o in
      let '(ok, l) := run_cache_from lim c' r in
      (out_eqb x x' && (m =? mask c') && ok, (x', mask c') :: l)
  end.

Definition run_cache (k : case_cache) : option (list (out cval * Z)) :=
  let '(lim, h) := k in
  let '(ok, l) := run_cache_from lim empty h in
  if ok then None else Some l.

(* --- suite "caching": CachingPlugin; hash instantiated by the identity ---
   case = (conf, [(op, (observed action, number of entries held))]) *)
Definition cout_eqb (a b : cout) : bool :=
  match a, b with
  | CNoOp, CNoOp => true
  | CEarly x, CEarly y => x =? y
  | CDone, CDone => true
  | _, _ => false
  end.

Definition case_caching :=
  ((list (bool * str) * Z * Z * Z) * list (cop * (cout * Z)))%type.

Fixpoint run_caching_from (conf : cconf) (c : ccache str)
         (h : list (cop * (cout * Z))) : bool * list (cout * Z) :=
  match h with
  | [] => (true, [])
  | (o, (x, n)) :: r =>
      let '(c', x') := cstep str (fun s => s) str_eqb conf c o in
      let n' := Z.of_nat (length (store c')) in
      let '(ok, l) := run_caching_from conf c' r in
      (cout_eqb x x' && (n =? n') && ok, (x', n') :: l)
  end.

Definition run_caching (k : case_caching) : option (list (cout * Z)) :=
  let '((paths, ttl, maxrec, mx), h) := k in
  let conf := {| c_paths := paths; c_ttl := ttl; c_maxrec := maxrec; c_max := mx |} in
  let '(ok, l) := run_caching_from conf empty h in
  if ok then None else Some l.

(* --- suite "throttle": ResponseBasedThrottlingPlugin ---
   case = ((type, statuses), [(op, (observed action, number of entries held))]) *)
Definition tout_eqb (a b : tout) : bool :=
  match a, b with
  | TNoOp, TNoOp => true
  | TEarly x r, TEarly y s => (x =? y) && optz_eqb r s
  | TDone, TDone => true
  | _, _ => false
  end.

Definition case_throttle := ((rtype * list Z) * list (top * (tout * Z)))%type.

Fixpoint run_throttle_from (conf : tconf) (c : tcache)
         (h : list (top * (tout * Z))) : bool * list (tout * Z) :=
  match h with
  | [] => (true, [])
  | (o, (x, n)) :: r =>
      let '(c', x') := tstep conf c o in
      let n' := Z.of_nat (length (store c')) in
      let '(ok, l) := run_throttle_from conf c' r in
      (tout_eqb x x' && (n =? n') && ok, (x', n') :: l)
  end.

Definition run_throttle (k : case_throttle) : option (list (tout * Z)) :=
  let '((ty, sts), h) := k in
  let conf := {| t_type := ty; t_statuses := sts |} in
  let '(ok, l) := run_throttle_from conf empty h in
  if ok then None else Some l.
