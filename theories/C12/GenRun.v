(* C12 — the one-step squares of C12/GenEquiv.v lifted to RUNS.

   Generated side: a history is a list of [gop]; every op is ONE call of a generated
   function of C12/Gen.v (Get / Has / Set_ / Del) or one pending goroutine of Set running
   its body (Set__go) — an op of its own, at whatever place of the history the schedule
   puts it.  Clock readings are parameters of the ops, exactly as in Model.op.  [gen_step]
   threads the generated MemoryCache through these functions and keeps, next to it, the
   goroutines the Sets returned and that have not run yet ([g_pending]: the records
   Set__go_args exactly as Set_ returned them, tagged with the id the history gave the Set
   — the same tag Model.OSet carries).  The run starts from NewMemoryCache(clock), followed
   by WithMaxCacheSize(sz, mx) when a limit is configured ([gen_init]).

   Model side: [to_op] reads a generated op as the Model.op it stands for (Set: ttl =
   1e9 * ttlSec, the translator's float_exact reading), Model.trace / Model.exec run it.
   Model.step — the function Model.trace and Model.exec thread — is what the suites
   "cache" and "sched" evaluate (run_cache -> run_cache_from; bridge:
   C12_run_cache_is_trace below).

   C12_gen_run: for EVERY generated history, from NewMemoryCache / Model.empty, step by
   step the generated run and the model produce the same outputs, no generated call
   panics, and the final states are related by R with the pending goroutines = the model's
   sleepers.  C12_gen_size_bound / C12_gen_fresh_only / C12_gen_miss_after_expiry: the
   theorems of C12.Property restated for the GENERATED run (about the code as translated
   today; the reading of the translation is in the header of Gen.v and props/C12.json). *)
From Coq Require Import List ZArith Bool Lia.
From Verif Require Import Lib.GoSem C12.Model C12.Proofs C12.Gen C12.GenEquiv.
Import ListNotations.
Open Scope Z_scope.

Section GenRun.
  Variables K V : Type.
  Variable keq : K -> K -> bool.
  Variable vzero : V.                  (* Go's zero value of V *)
  Variable sz : K -> V -> Z.           (* calculateSizeFunc *)
  Hypothesis keq_spec : forall a b, keq a b = true <-> a = b.

  Local Notation gcache := (Gen.MemoryCache K V).
  Local Notation gargs := (Gen.Set__go_args K).
  Local Notation Rel := (R K V keq sz).

  (* ---------------- the generated run ---------------- *)

  Inductive gop :=
  | GGet (k : K) (now : Z)                          (* cache.Get(key), one clock reading *)
  | GHas (k : K) (now : Z)                          (* cache.Has(key), one clock reading *)
  | GSet (id : Z) (k : K) (v : V) (ttlSec now : Z)  (* cache.Set(key, value, ttlSec), one reading *)
  | GFire (id : Z) (k : K)                          (* the goroutine started by Set [id] for [k] runs *)
  | GDel (k : K).                                   (* cache.Del(key) *)

  Inductive gout :=
  | GOGet (v : V) (found : bool)
  | GOHas (b : bool)
  | GOSet (err : goerror) (spawned : list gargs)
  | GOUnit
  | GOBad                (* ill-formed history: no such goroutine pending *)
  | GOPanic.             (* a generated function returned [Panicked _] *)

  Record grun := mk_grun {
    g_cache : gcache;
    g_pending : list (Z * gargs)     (* goroutines started and not yet run, oldest first *)
  }.

  (* take the first pending goroutine tagged [id] whose captured key is [k] *)
  Fixpoint gtake (id : Z) (k : K) (l : list (Z * gargs)) : option (gargs * list (Z * gargs)) :=
    match l with
    | [] => None
    | (i, a) :: r =>
        if (i =? id) && keq k (Set__go_args_key K a) then Some (a, r)
        else match gtake id k r with
             | Some (a', r') => Some (a', (i, a) :: r')
             | None => None
             end
    end.

  Definition gen_step (s : grun) (o : gop) : grun * gout :=
    match o with
    | GGet k now =>
        let '(v, found) := Gen.Get K keq V vzero (g_cache s) k now in (s, GOGet v found)
    | GHas k now => (s, GOHas (Gen.Has K keq V vzero (g_cache s) k now))
    | GSet id k v ttlSec now =>
        match Gen.Set_ K keq V (g_cache s) k v ttlSec now with
        | Normal g' (err, spawned) =>
            (mk_grun g' (g_pending s ++ map (pair id) spawned), GOSet err spawned)
        | Panicked g' => (mk_grun g' (g_pending s), GOPanic)
        end
    | GFire id k =>
        match gtake id k (g_pending s) with
        | Some (a, rest) =>
            (* the body runs with the values it CAPTURED *)
            match Gen.Set__go K keq V vzero (g_cache s)
                              (Set__go_args_key K a) (Set__go_args_ttlDuration K a) with
            | Normal g' _ => (mk_grun g' rest, GOUnit)
            | Panicked g' => (mk_grun g' rest, GOPanic)
            end
        | None => (s, GOBad)
        end
    | GDel k =>
        match Gen.Del K keq V vzero (g_cache s) k with
        | Normal g' _ => (mk_grun g' (g_pending s), GOUnit)
        | Panicked g' => (mk_grun g' (g_pending s), GOPanic)
        end
    end.

  Definition gen_exec (s : grun) (h : list gop) : grun :=
    fold_left (fun s o => fst (gen_step s o)) h s.

  Fixpoint gen_trace (s : grun) (h : list gop) : list (gop * gout) :=
    match h with
    | [] => []
    | o :: r => let '(s', x) := gen_step s o in (o, x) :: gen_trace s' r
    end.

  (* NewMemoryCache(clock) [.WithMaxCacheSize(sz, mx)] *)
  Definition gen_init (lim : option Z) : grun :=
    mk_grun match lim with
            | None => Gen.NewMemoryCache K V tt
            | Some mx => Gen.WithMaxCacheSize K V (Gen.NewMemoryCache K V tt) (Some sz) mx
            end [].

  Definition gop_key (o : gop) : option K :=
    match o with
    | GGet _ _ | GHas _ _ => None
    | GSet _ k _ _ _ => Some k
    | GFire _ k => Some k
    | GDel k => Some k
    end.

  (* ---------------- reading a generated history / output as the model's ---------------- *)

  Definition to_op (o : gop) : op K V :=
    match o with
    | GGet k now => OGet k now
    | GHas k now => OHas k now
    | GSet id k v ttlSec now => OSet id k v (ns_per_sec * ttlSec) now
    | GFire id k => OFire id k
    | GDel k => ODel k
    end.

  (* what a generated output says in the model's vocabulary; a panic says nothing *)
  Definition abs_out (x : gout) : option (out V) :=
    match x with
    | GOGet v true => Some (RGet (Some v))
    | GOGet _ false => Some (RGet None)
    | GOHas b => Some (RHas b)
    | GOSet ErrNil _ => Some (RSet true)
    | GOSet (Err _) _ => Some (RSet false)
    | GOUnit => Some RUnit
    | GOBad => Some RBad
    | GOPanic => None
    end.

  (* the generated output in full, given the op and the model's output: the zero value on
     a miss, the error token of a refusal, the goroutine started by a committed Set *)
  Definition expect (o : gop) (x : out V) : gout :=
    match o, x with
    | GGet _ _, RGet (Some v) => GOGet v true
    | GGet _ _, RGet None => GOGet vzero false
    | GHas _ _, RHas b => GOHas b
    | GSet _ k _ ttlSec _, RSet true => GOSet ErrNil [mk_Set__go_args K k (ns_per_sec * ttlSec)]
    | GSet _ _ _ _ _, RSet false => GOSet (Err err_full) []
    | GFire _ _, RUnit => GOUnit
    | GFire _ _, RBad => GOBad
    | GDel _, RUnit => GOUnit
    | _, _ => GOPanic
    end.

  (* one entry of the generated trace against one entry of the model's trace *)
  Definition agree (gx : gop * gout) (mx : op K V * out V) : Prop :=
    fst mx = to_op (fst gx) /\
    abs_out (snd gx) = Some (snd mx) /\
    snd gx = expect (fst gx) (snd mx).

  Definition pend_abs (l : list (Z * gargs)) : list (Z * K) :=
    map (fun p => (fst p, Set__go_args_key K (snd p))) l.

  (* related run states: R on the caches, pending goroutines = the model's sleepers *)
  Record RR (lim : option Z) (s : grun) (c : cache K V) : Prop := mkRR {
    RR_R : Rel lim (g_cache s) c;
    RR_pending : pend_abs (g_pending s) = sleepers c
  }.

  (* ---------------- one step ---------------- *)

  Lemma gtake_abs id k l :
    match gtake id k l with
    | Some (a, r) => take_sleeper keq id k (pend_abs l) = Some (pend_abs r) /\
                     Set__go_args_key K a = k
    | None => take_sleeper keq id k (pend_abs l) = None
    end.
  Proof.
    induction l as [|[i a] r IH]; cbn [gtake pend_abs map take_sleeper fst snd]; [reflexivity|].
    destruct ((i =? id) && keq k (Set__go_args_key K a)) eqn:E.
    - split; [reflexivity|]. apply andb_true_iff in E. destruct E as (_ & E).
      apply keq_spec in E. symmetry. exact E.
    - fold (pend_abs r). destruct (gtake id k r) as [[a' r']|].
      + destruct IH as (IH & EK). rewrite IH. split; [reflexivity|exact EK].
      + rewrite IH. reflexivity.
  Qed.

  Lemma gen_step_sim lim s c o :
    RR lim s c ->
    agree (o, snd (gen_step s o)) (to_op o, snd (step keq sz lim c (to_op o))) /\
    RR lim (fst (gen_step s o)) (fst (step keq sz lim c (to_op o))).
  Proof.
    intros [HR HP]. unfold agree. cbn [fst snd].
    destruct o as [k now|k now|id k v ttlSec now|id k|k]; cbn [gen_step to_op].
    - (* Get *)
      rewrite (C12_gen_Get K V keq vzero sz lim _ _ k now HR). cbn [step fst snd].
      destruct (get keq c k now) as [v|]; cbn; (split; [auto|constructor; assumption]).
    - (* Has *)
      rewrite (C12_gen_Has K V keq vzero sz lim _ _ k now HR). cbn.
      split; [auto|constructor; assumption].
    - (* Set *)
      pose proof (C12_gen_Set K V keq sz keq_spec lim _ _ id k v ttlSec now HR) as S.
      cbv zeta in S. cbn [step].
      destruct (set_ keq sz lim id k v (ns_per_sec * ttlSec) now c) as [c' ok] eqn:E.
      destruct S as (g' & err & sp & E1 & R1 & Eerr & Esp & SL).
      rewrite E1. cbn [fst snd]. subst err sp.
      split.
      + destruct ok; cbn; auto.
      + constructor; cbn [g_cache g_pending]; [exact R1|].
        rewrite SL. unfold pend_abs. rewrite map_app. fold (pend_abs (g_pending s)).
        rewrite HP. destruct ok; reflexivity.
    - (* the goroutine of a Set runs *)
      pose proof (gtake_abs id k (g_pending s)) as T. rewrite HP in T.
      destruct (gtake id k (g_pending s)) as [[a rest]|].
      + destruct T as (T & EK). rewrite EK.
        destruct (C12_gen_sleeper K V keq vzero sz keq_spec lim _ _ id k
                    (Set__go_args_ttlDuration K a) _ HR T) as (g' & E & R1 & SL & X).
        rewrite E. cbn [fst snd]. rewrite X. split; [cbn; auto|].
        constructor; cbn [g_cache g_pending]; [exact R1|]. symmetry. exact SL.
      + cbn [step]. rewrite T. cbn. split; [auto|constructor; assumption].
    - (* Del *)
      destruct (C12_gen_Del K V keq vzero sz keq_spec lim _ _ k HR) as (g' & E & R1 & X).
      rewrite E. cbn [fst snd]. rewrite X. split; [cbn; auto|].
      constructor; cbn [g_cache g_pending]; [exact R1|].
      rewrite HP. reflexivity.
  Qed.

  (* ---------------- runs ---------------- *)

  Lemma gen_run_sim lim gh : forall s c,
    RR lim s c ->
    Forall2 agree (gen_trace s gh) (trace keq sz lim c (map to_op gh)) /\
    RR lim (gen_exec s gh) (exec keq sz lim c (map to_op gh)).
  Proof.
    induction gh as [|o r IH]; intros s c H.
    - cbn. split; [constructor|exact H].
    - destruct (gen_step_sim lim s c o H) as (A & H').
      change (gen_exec s (o :: r)) with (gen_exec (fst (gen_step s o)) r).
      change (exec keq sz lim c (map to_op (o :: r)))
        with (exec keq sz lim (fst (step keq sz lim c (to_op o))) (map to_op r)).
      cbn [gen_trace map trace].
      destruct (gen_step s o) as [s' x]. destruct (step keq sz lim c (to_op o)) as [c' y].
      cbn [fst snd] in *. destruct (IH s' c' H') as (F & HR).
      split; [constructor; assumption|exact HR].
  Qed.

  Lemma gen_trace_ops h : forall s, map fst (gen_trace s h) = h.
  Proof.
    induction h as [|o r IH]; intros s; cbn [gen_trace]; [reflexivity|].
    destruct (gen_step s o) as [s' x]. cbn. rewrite IH. reflexivity.
  Qed.

  Lemma gen_init_related lim : RR lim (gen_init lim) empty.
  Proof.
    constructor; [|reflexivity]. unfold gen_init; cbn [g_cache].
    destruct lim as [mx|].
    - apply (C12_gen_WithMaxCacheSize K V keq sz None).
      apply C12_gen_NewMemoryCache.
    - apply C12_gen_NewMemoryCache.
  Qed.

  Lemma agree_outputs l l' :
    Forall2 agree l l' ->
    map (fun gx => abs_out (snd gx)) l = map (fun mx => Some (snd mx)) l' /\
    map fst l' = map to_op (map fst l) /\
    map snd l = map (fun p => expect (fst p) (snd p)) (combine (map fst l) (map snd l')) /\
    Forall (fun gx => snd gx <> GOPanic) l.
  Proof.
    induction 1 as [|gx mx l l' (A1 & A2 & A3) F (I1 & I2 & I3 & I4)]; cbn.
    - repeat split; constructor.
    - rewrite A1, A2, I1, I2, <- I3, <- A3. repeat split.
      constructor; [|exact I4]. intros E. rewrite E in A2. discriminate.
  Qed.

  (* THE RUN THEOREM.  For every generated history [gh], run from NewMemoryCache
     [.WithMaxCacheSize(sz, mx)] on the generated side and from Model.empty with limit [lim]
     on the model side (history [map to_op gh]):
     - entry by entry the two traces agree (same op, same output; the generated output is
       [expect] of the model's: zero value on a miss, error token of a refusal, the started
       goroutine with the key and 1e9 * ttlSec),
     - read in the model's vocabulary the generated outputs ARE the model's outputs,
     - no generated call panics,
     - the final states are related: R on the caches, pending goroutines = sleepers. *)
  Theorem C12_gen_run lim (gh : list gop) :
    let h := map to_op gh in
    let gt := gen_trace (gen_init lim) gh in
    let mt := trace keq sz lim empty h in
    Forall2 agree gt mt /\
    map (fun gx => abs_out (snd gx)) gt = map (fun mx => Some (snd mx)) mt /\
    map snd gt = map (fun p => expect (fst p) (snd p)) (combine gh (map snd mt)) /\
    Forall (fun gx => snd gx <> GOPanic) gt /\
    RR lim (gen_exec (gen_init lim) gh) (exec keq sz lim empty h).
  Proof.
    cbv zeta.
    destruct (gen_run_sim lim gh _ _ (gen_init_related lim)) as (F & HR).
    destruct (agree_outputs _ _ F) as (A & B & C & D).
    split; [exact F|]. split; [exact A|]. split; [|split; [exact D|exact HR]].
    rewrite C, gen_trace_ops. reflexivity.
  Qed.

  (* ---------------- the property theorems, for the generated run ---------------- *)

  (* size of what the Go map holds under [k] *)
  Definition gsize_at (g : gcache) (k : K) : Z :=
    match map_get keq (MemoryCache_cache K V g) k with
    | Some w => sz k (ValueWrapper_value V w)
    | None => 0
    end.

  Definition gsum (g : gcache) (ks : list K) : Z :=
    fold_right (fun k a => gsize_at g k + a) 0 ks.

  Lemma gsize_at_model lim g c k :
    Rel lim g c -> gsize_at g k = size_of K V sz k (lookup keq k (store c)).
  Proof.
    intros HR. unfold gsize_at. rewrite (R_store _ _ _ _ _ _ _ HR k).
    destruct (lookup keq k (store c)); reflexivity.
  Qed.

  Lemma sum_le_total (P : forall k v, 0 <= sz k v) ks : forall (m : list (K * entry V)),
    NoDup ks -> NoDup (map fst m) ->
    fold_right (fun k a => size_of K V sz k (lookup keq k m) + a) 0 ks <= total sz m.
  Proof.
    induction ks as [|k ks IH]; intros m NK NM; cbn [fold_right].
    - clear - P. induction m as [|[k e] r IH]; cbn; [lia|]. pose proof (P k (e_val e)). lia.
    - inversion NK as [|? ? NI NK']; subst.
      pose proof (total_remove K V keq sz keq_spec k m NM) as T.
      pose proof (IH (remove keq k m) NK' (nodup_remove K V keq sz keq_spec k m NM)) as B.
      assert (E : fold_right (fun k0 a => size_of K V sz k0 (lookup keq k0 (remove keq k m)) + a) 0 ks =
                  fold_right (fun k0 a => size_of K V sz k0 (lookup keq k0 m) + a) 0 ks).
      { clear - NI keq_spec. induction ks as [|k1 ks IH]; cbn [fold_right]; [reflexivity|].
        rewrite IH by (intros I; apply NI; right; exact I).
        rewrite (lookup_remove_neq K V keq keq_spec).
        - reflexivity.
        - intros ->. apply NI. left. reflexivity. }
      rewrite E in B. lia.
  Qed.

  (* SIZE BOUND, generated run (C12_size_bound_all_schedules restated): after every
     generated history from NewMemoryCache().WithMaxCacheSize(sz, mx), whatever set of
     distinct keys one looks at, the sizes of the entries the Go map holds under them add up
     to at most currentCacheSize, which is at most maxCacheSize = mx (and the size
     accounting is on, with the size function [sz]). *)
  Corollary C12_gen_size_bound mx (gh : list gop) :
    (forall k v, 0 <= sz k v) -> 0 <= mx ->
    let g := g_cache (gen_exec (gen_init (Some mx)) gh) in
    (forall ks, NoDup ks -> gsum g ks <= MemoryCache_currentCacheSize K V g) /\
    MemoryCache_currentCacheSize K V g <= MemoryCache_maxCacheSize K V g /\
    MemoryCache_maxCacheSize K V g = mx /\
    MemoryCache_calculateCacheSize K V g = true /\
    MemoryCache_calculateSizeFunc K V g = Some sz.
  Proof.
    intros P M. cbv zeta.
    destruct (C12_gen_run (Some mx) gh) as (_ & _ & _ & _ & [HR _]).
    destruct (size_bound K V keq sz keq_spec P mx (map to_op gh) M) as (ND & T & B).
    set (g := g_cache (gen_exec (gen_init (Some mx)) gh)) in *.
    set (c := exec keq sz (Some mx) empty (map to_op gh)) in *.
    pose proof (R_lim _ _ _ _ _ _ _ HR) as L.
    destruct (MemoryCache_calculateCacheSize K V g) eqn:EC; [|discriminate].
    injection L as L.
    pose proof (R_size _ _ _ _ _ _ _ HR) as Z1.
    split; [|split; [lia|split; [auto|split; [reflexivity|]]]].
    - intros ks NK. rewrite Z1. unfold gsum.
      assert (E : fold_right (fun k a => gsize_at g k + a) 0 ks =
                  fold_right (fun k a => size_of K V sz k (lookup keq k (store c)) + a) 0 ks).
      { clear NK. induction ks as [|k ks IH]; cbn [fold_right]; [reflexivity|].
        rewrite IH, (gsize_at_model _ _ _ k HR). reflexivity. }
      rewrite E. pose proof (sum_le_total P ks (store c) NK ND). lia.
    - apply (R_fn _ _ _ _ _ _ _ HR). exact EC.
  Qed.

  Lemma agree_changed k gx mx :
    agree gx mx ->
    (gop_key (fst gx) = Some k /\ snd gx <> GOSet (Err err_full) [] /\ snd gx <> GOBad) ->
    (op_key (fst mx) = Some k /\ snd mx <> RSet false /\ snd mx <> RBad).
  Proof.
    destruct gx as [o x], mx as [o' y]. unfold agree. cbn [fst snd].
    intros (-> & A2 & A3) (G1 & G2 & G3). split; [|split].
    - destruct o; exact G1.
    - intros ->. subst x. destruct o; cbn in *; try discriminate. apply G2. reflexivity.
    - intros ->. subst x. destruct o; cbn in *; try discriminate. apply G3. reflexivity.
  Qed.

  (* FRESH ONLY, generated run (C12_only_stored_same_key restated): a hit of the generated
     Get for k at clock reading now, after any generated history, returns the value of a
     call Set(k, v, ttlSec) of that history which was accepted (error nil; it started the
     goroutine shown), with now <= (clock reading of that Set) + 1e9 * ttlSec, and no later
     call of the history changed what is stored under k (later writes to k are refused Sets
     or ill-formed fires only). *)
  Corollary C12_gen_fresh_only lim (gh : list gop) k now v :
    Gen.Get K keq V vzero (g_cache (gen_exec (gen_init lim) gh)) k now = (v, true) ->
    exists tr1 id ttlSec tb tr2,
      gen_trace (gen_init lim) gh =
        tr1 ++ (GSet id k v ttlSec tb,
                GOSet ErrNil [mk_Set__go_args K k (ns_per_sec * ttlSec)]) :: tr2 /\
      now <= tb + ns_per_sec * ttlSec /\
      Forall (fun ox => ~ (gop_key (fst ox) = Some k /\
                           snd ox <> GOSet (Err err_full) [] /\ snd ox <> GOBad)) tr2.
  Proof.
    intros HG.
    destruct (C12_gen_run lim gh) as (F & _ & _ & _ & [HR _]). cbv zeta in F.
    rewrite (C12_gen_Get K V keq vzero sz lim _ _ k now HR) in HG.
    destruct (get keq (exec keq sz lim empty (map to_op gh)) k now) as [v'|] eqn:EG;
      [|discriminate].
    injection HG as ->.
    destruct (only_stored_same_key K V keq sz keq_spec lim _ k now v EG)
      as (m1 & id & ttl & tb & m2 & ET & Fresh & Last).
    rewrite ET in F. apply Forall2_app_inv_r in F.
    destruct F as (l1 & l2 & F1 & F2 & EL).
    inversion F2 as [|gx mx l2' m2' A F2' E1 E2]; subst.
    destruct gx as [o x]. destruct A as (A1 & A2 & A3). cbn [fst snd] in *.
    destruct o as [?k ?now|?k ?now|id' k' v' ttlSec now'|?id ?k|?k]; cbn in A1; try discriminate.
    injection A1 as <- <- <- -> <-. cbn in A3. subst x.
    exists l1, id, ttlSec, tb, l2'. split; [exact EL|]. split; [exact Fresh|].
    clear - F2' Last. induction F2' as [|gx mx l l' A F IH]; [constructor|].
    inversion Last as [|? ? L1 L2]; subst. constructor; [|apply IH; exact L2].
    intros G. apply L1. exact (agree_changed k gx mx A G).
  Qed.

  (* MISS AFTER EXPIRY, generated run (C12_miss_after_expiry restated): once
     tb + 1e9 * ttlSec < now for every Set(k, ..) of the generated history, the generated
     Get(k) at clock reading now misses (zero value, false) — whether or not any goroutine
     ran. *)
  Corollary C12_gen_miss_after_expiry lim (gh : list gop) k now :
    (forall id v ttlSec tb, In (GSet id k v ttlSec tb) gh -> tb + ns_per_sec * ttlSec < now) ->
    Gen.Get K keq V vzero (g_cache (gen_exec (gen_init lim) gh)) k now = (vzero, false).
  Proof.
    intros A.
    destruct (C12_gen_run lim gh) as (_ & _ & _ & _ & [HR _]).
    rewrite (C12_gen_Get K V keq vzero sz lim _ _ k now HR).
    rewrite (miss_after_expiry K V keq sz keq_spec lim (map to_op gh) k now); [reflexivity|].
    intros id v ttl tb I. apply in_map_iff in I. destruct I as (o & E & I).
    destruct o; cbn in E; try discriminate. injection E as <- <- <- <- <-.
    exact (A _ _ _ _ I).
  Qed.
End GenRun.

Arguments GGet {K V}. Arguments GHas {K V}. Arguments GSet {K V}.
Arguments GFire {K V}. Arguments GDel {K V}.
Arguments GOGet {K V}. Arguments GOHas {K V}. Arguments GOSet {K V}.
Arguments GOUnit {K V}. Arguments GOBad {K V}. Arguments GOPanic {K V}.

(* ---------------- the suites evaluate Model.step along the history ---------------- *)

(* run_cache (suites "cache" and "sched") threads Model.step from Model.empty: the outputs
   it compares the implementation's with are those of Model.trace, the states it takes the
   masks of are those of Model.exec on the prefixes. *)
Theorem C12_run_cache_is_trace lim (h : list (op Z cval * (out cval * Z))) : forall c,
  map fst (snd (run_cache_from lim c h)) = map snd (trace Z.eqb cache_sz lim c (map fst h)) /\
  map snd (snd (run_cache_from lim c h)) =
  map (fun n => mask (exec Z.eqb cache_sz lim c (firstn (S n) (map fst h)))) (seq 0 (length h)).
Proof.
  induction h as [|[o [x m]] r IH]; intros c; [split; reflexivity|].
  cbn [run_cache_from map fst trace length seq].
  destruct (step Z.eqb cache_sz lim c o) as [c' x'] eqn:E.
  destruct (IH c') as (I1 & I2). destruct (run_cache_from lim c' r) as [ok l]. cbn [snd] in *.
  rewrite !map_cons, I1, I2. split; [reflexivity|]. f_equal.
  - replace c' with (fst (step Z.eqb cache_sz lim c o)) by (rewrite E; reflexivity).
    reflexivity.
  - rewrite <- seq_shift, map_map. apply map_ext. intros n.
    replace c' with (fst (step Z.eqb cache_sz lim c o)) by (rewrite E; reflexivity).
    reflexivity.
Qed.

(* ---------------- a generated run, computed ---------------- *)

(* K := str, V := Z, size = key length + 1, limit 10 (the instance of GenEquiv's Examples).
   Set("a", 42, 3 s) at 1000; Set("bb", 43, 5 s) at 2000; Set("cccccc", 44, 1 s) at 3000 —
   refused (5 + 7 > 10), no goroutine; Get("a") at its expiry instant — hit; the goroutine
   of the first Set runs; Get("a") at the same instant — miss; firing it again is
   ill-formed. *)
Definition grx_h : list (gop str Z) :=
  [GSet 1 gex_ka 42 3 1000; GSet 2 gex_kb 43 5 2000; GSet 3 gex_kc 44 1 3000;
   GGet gex_ka 3000001000; GFire 1 gex_ka; GGet gex_ka 3000001000; GFire 1 gex_ka].

Example C12_gen_run_example :
  map snd (gen_trace str Z str_eqb 0 (gen_init str Z gex_sz (Some 10)) grx_h) =
  [GOSet ErrNil [mk_Set__go_args str gex_ka 3000000000];
   GOSet ErrNil [mk_Set__go_args str gex_kb 5000000000];
   GOSet (Err err_full) [];
   GOGet 42 true; GOUnit; GOGet 0 false; GOBad] /\
  map snd (trace str_eqb gex_sz (Some 10) empty (map (to_op str Z) grx_h)) =
  [RSet true; RSet true; RSet false; RGet (Some 42); RUnit; RGet None; RBad] /\
  gen_exec str Z str_eqb 0 (gen_init str Z gex_sz (Some 10)) grx_h =
  mk_grun str Z
    (mk_MemoryCache str Z [(gex_kb, mk_ValueWrapper Z 43 5000002000)] true 10 3 (Some gex_sz))
    [(2, mk_Set__go_args str gex_kb 5000000000)] /\
  exec str_eqb gex_sz (Some 10) empty (map (to_op str Z) grx_h) =
  {| store := [(gex_kb, {| e_val := 43; e_exp := 5000002000 |})];
     csize := 3; sleepers := [(2, gex_kb)] |}.
Proof. repeat split; vm_compute; reflexivity. Qed.

(* the corollaries on that run: the hit of op 4 is the accepted Set of op 1, within its
   time-to-live; the bound on the keys "a", "bb", "cccccc" *)
Example C12_gen_run_example_corollaries :
  (exists tr1 id ttlSec tb tr2,
     gen_trace str Z str_eqb 0 (gen_init str Z gex_sz (Some 10)) (firstn 3 grx_h) =
       tr1 ++ (GSet id gex_ka 42 ttlSec tb,
               GOSet ErrNil [mk_Set__go_args str gex_ka (ns_per_sec * ttlSec)]) :: tr2 /\
     3000001000 <= tb + ns_per_sec * ttlSec) /\
  gsum str Z str_eqb gex_sz
       (g_cache str Z (gen_exec str Z str_eqb 0 (gen_init str Z gex_sz (Some 10)) (firstn 3 grx_h)))
       [gex_ka; gex_kb; gex_kc] = 5.
Proof.
  split; [|vm_compute; reflexivity].
  destruct (C12_gen_fresh_only str Z str_eqb 0 gex_sz str_eqb_spec (Some 10) (firstn 3 grx_h)
              gex_ka 3000001000 42) as (tr1 & id & ttlSec & tb & tr2 & E & F & _);
    [vm_compute; reflexivity|].
  exists tr1, id, ttlSec, tb, tr2. split; assumption.
Qed.

Print Assumptions C12_gen_run.
Print Assumptions C12_gen_size_bound.
Print Assumptions C12_gen_fresh_only.
Print Assumptions C12_gen_miss_after_expiry.
Print Assumptions C12_run_cache_is_trace.
