(* C12 — look-ups at lock-region granularity (CachingPlugin).

   ModelConc.v splits an OnResponse call into its pieces but keeps every
   look-up (Get of OnRequest, Has of OnResponse) as ONE step: map read and
   expiry test at one position of the history.  The code (utils/cache.go) is

     Has / Get:   RLock; valueWrapper, found := cache.cache[key]; RUnlock   <- region 1
                  (Get only: not found => return, the clock is not read)
                  now := clock.Now()                                         <- no lock held
                  now > valueWrapper.expirationTimeNano  =>  miss

   so between the map read and the clock reading any other caller may run: a
   Set of the key, the sleeper's clearKey, other look-ups.  Here a look-up is
   two steps

     OnRequest    LReqRead rid conf m u ps   |  LReqEval rid t
     OnResponse   LHasRead cid conf m u ps v |  LHasEval cid t1   (then FLim, FSet)

   [LReqRead]/[LHasRead] copy the entry found under the key (the snapshot the
   reader holds in a local variable) into [l_look]; [LReqEval]/[LHasEval]
   evaluate the expiry test on THAT snapshot at the clock reading given.  At
   HEAD a look-up writes nothing: an entry that is expired but still present
   keeps its share of the size account until its sleeper, a Del or a later
   Set of its key removes/replaces it.

   Variant switch [rel] (false = the code at HEAD).  [rel = true] is the
   "reader-side release": the look-up that finds its snapshot expired takes
   the write lock, subtracts the size of ITS SNAPSHOT from the size counter
   and deletes the key, without looking the key up again (a third lock
   region).  Two look-ups holding the same snapshot (or one look-up and the
   sleeper) then subtract the entry's size twice.

   Every step of ModelConc.v is still a step here ([LOld]; its look-ups are
   the schedules in which map read and clock reading are adjacent).  A history
   is ANY list of steps: every interleaving of look-ups, stores, sleepers,
   arbitrary clock readings. *)
From Coq Require Import List ZArith NArith Bool.
From Verif Require Import C12.Model C12.ModelConc.
Import ListNotations.
Open Scope Z_scope.

Inductive lop :=
| LOld (o : fop)
| LReqRead (rid : Z) (conf : cconf) (m u : str) (ps : list (str * str))
| LReqEval (rid : Z) (t : Z)
| LHasRead (cid : Z) (conf : cconf) (m u : str) (ps : list (str * str)) (v : cresp)
| LHasEval (cid : Z) (t1 : Z).

Section Look.
  Variable H : Type.
  Variable hash : str -> H.
  Variable heq : H -> H -> bool.

  (* a look-up between its map read and its clock reading *)
  Record look := {
    lk_key : ckey H;
    lk_snap : option (entry cresp);        (* valueWrapper, found *)
    lk_call : option (cresp * Z * Z)       (* Has of an OnResponse call: its response, ttl, max_cache_size *)
  }.

  Record lstate := {
    l_f : fstate H;
    l_look : list (Z * look)
  }.

  Definition lempty : lstate := {| l_f := fempty H; l_look := [] |}.

  (* releaseExpired of the variant: size of the SNAPSHOT, key deleted, no second look-up *)
  Definition release (lim : option Z) (k : ckey H) (e : entry cresp) (c : ccache H) : ccache H :=
    {| store := remove (ckey_eqb H heq) k (store c);
       csize := match lim with
                | Some _ => csize c - csz H k (e_val e)
                | None => csize c
                end;
       sleepers := sleepers c |}.

  (* the expiry test on a snapshot at clock reading t *)
  Definition eval_look (rel : bool) (lim : option Z) (k : ckey H) (snap : option (entry cresp))
             (t : Z) (c : ccache H) : ccache H * option cresp :=
    match snap with
    | Some e =>
        if t <=? e_exp e then (c, Some (e_val e))
        else ((if rel then release lim k e c else c), None)
    | None => (c, None)
    end.

  Definition with_cache (s : lstate) (c : ccache H) : fstate H :=
    {| f_cache := c; f_max := f_max (l_f s); f_pend := f_pend (l_f s) |}.

  Definition lstep (rel : bool) (s : lstate) (o : lop) : lstate * cout :=
    let f := l_f s in
    match o with
    | LOld (FReq conf m u ps t) =>
        let k := key_of H hash conf m u ps in
        let '(c', r) := eval_look rel (f_max f) k (lookup (ckey_eqb H heq) k (store (f_cache f))) t (f_cache f) in
        ({| l_f := with_cache s c'; l_look := l_look s |},
         match r with Some v => CEarly (r_vid v) | None => CNoOp end)
    | LOld (FHas cid conf m u ps v t1) =>
        match pfind cid (f_pend f) with
        | Some _ => (s, CBad)
        | None =>
            if c_maxrec conf <? Z.of_N (r_bodylen v) then (s, CDone)
            else
              let k := key_of H hash conf m u ps in
              let '(c', r) := eval_look rel (f_max f) k (lookup (ckey_eqb H heq) k (store (f_cache f))) t1 (f_cache f) in
              match r with
              | Some _ => ({| l_f := with_cache s c'; l_look := l_look s |}, CDone)
              | None =>
                  ({| l_f := {| f_cache := c'; f_max := f_max f;
                                f_pend := (cid, {| p_lim := false; p_key := k; p_val := v;
                                                   p_ttl := c_ttl conf; p_max := c_max conf |})
                                          :: f_pend f |};
                      l_look := l_look s |}, CDone)
              end
        end
    | LOld o' =>
        let '(f', x) := fstep H hash heq f o' in
        ({| l_f := f'; l_look := l_look s |}, x)
    | LReqRead rid conf m u ps =>
        match pfind rid (l_look s) with
        | Some _ => (s, CBad)
        | None =>
            let k := key_of H hash conf m u ps in
            match lookup (ckey_eqb H heq) k (store (f_cache f)) with
            | None => (s, CNoOp)            (* Get: not found, returns without reading the clock *)
            | Some e =>
                ({| l_f := f;
                    l_look := (rid, {| lk_key := k; lk_snap := Some e; lk_call := None |}) :: l_look s |},
                 CDone)
            end
        end
    | LReqEval rid t =>
        match pfind rid (l_look s) with
        | Some lk =>
            match lk_call lk with
            | Some _ => (s, CBad)
            | None =>
                let '(c', r) := eval_look rel (f_max f) (lk_key lk) (lk_snap lk) t (f_cache f) in
                ({| l_f := with_cache s c'; l_look := pdel rid (l_look s) |},
                 match r with Some v => CEarly (r_vid v) | None => CNoOp end)
            end
        | None => (s, CBad)
        end
    | LHasRead cid conf m u ps v =>
        match pfind cid (l_look s), pfind cid (f_pend f) with
        | None, None =>
            if c_maxrec conf <? Z.of_N (r_bodylen v) then (s, CDone)
            else
              let k := key_of H hash conf m u ps in
              ({| l_f := f;
                  l_look := (cid, {| lk_key := k;
                                     lk_snap := lookup (ckey_eqb H heq) k (store (f_cache f));
                                     lk_call := Some (v, c_ttl conf, c_max conf) |}) :: l_look s |},
               CDone)
        | _, _ => (s, CBad)
        end
    | LHasEval cid t1 =>
        match pfind cid (l_look s) with
        | Some lk =>
            match lk_call lk with
            | None => (s, CBad)
            | Some (v, ttl, mx) =>
                let '(c', r) := eval_look rel (f_max f) (lk_key lk) (lk_snap lk) t1 (f_cache f) in
                match r with
                | Some _ => ({| l_f := with_cache s c'; l_look := pdel cid (l_look s) |}, CDone)
                | None =>
                    ({| l_f := {| f_cache := c'; f_max := f_max f;
                                  f_pend := (cid, {| p_lim := false; p_key := lk_key lk; p_val := v;
                                                     p_ttl := ttl; p_max := mx |})
                                            :: f_pend f |};
                        l_look := pdel cid (l_look s) |}, CDone)
                end
            end
        | None => (s, CBad)
        end
    end.

  Definition lexec (rel : bool) (s : lstate) (h : list lop) : lstate :=
    fold_left (fun s o => fst (lstep rel s o)) h s.

  Definition lcache (s : lstate) : ccache H := f_cache (l_f s).

  (* the step belongs to the look-up [id] *)
  Definition look_id (id : Z) (o : lop) : bool :=
    match o with
    | LOld _ => false
    | LReqRead i _ _ _ _ | LReqEval i _ | LHasRead i _ _ _ _ _ | LHasEval i _ => i =? id
    end.
End Look.

Arguments lk_key {H}. Arguments lk_snap {H}. Arguments lk_call {H}.
Arguments l_f {H}. Arguments l_look {H}.

(* ------------------------------------------------------------------ *)
(* correspondence entry point                                          *)
(* ------------------------------------------------------------------ *)

(* --- suite "cconc": CachingPlugin, concurrent calls with look-ups stopped
   between their map read and their clock reading; the code at HEAD
   ([rel = false]); hash instantiated by the identity.
   case = [(step, (observed action, number of entries held after it,
                   number of OnResponse calls between their Has and their end,
                   number of look-ups between map read and clock reading))] *)
Definition case_clook := list (lop * (cout * Z * Z * Z)).

Fixpoint run_clook_from (s : lstate str) (h : case_clook) : bool * list (cout * Z * Z * Z) :=
  match h with
  | [] => (true, [])
  | (o, (x, n, q, l)) :: r =>
      let '(s', x') := lstep str (fun a => a) str_eqb false s o in
      let n' := Z.of_nat (length (store (f_cache (l_f s')))) in
      let q' := Z.of_nat (length (f_pend (l_f s'))) in
      let l' := Z.of_nat (length (l_look s')) in
      let '(ok, rest) := run_clook_from s' r in
      (cout_eqb x x' && (n =? n') && (q =? q') && (l =? l') && ok, (x', n', q', l') :: rest)
  end.

Definition run_clook (k : case_clook) : option (list (cout * Z * Z * Z)) :=
  let '(ok, l) := run_clook_from (lempty str) k in
  if ok then None else Some l.
