(* C12 — the plugin clauses over CONCURRENT plugin calls.
   Final statements only; proofs are in ProofsConc.v; model in ModelConc.v.

   Property.v states the plugin clauses over histories of atomic plugin calls
   (one step, one clock reading per OnResponse).  Here a history is any list of
   the pieces of plugin calls that touch shared state -- OnResponse is split
   into its Has (clock reading t1), its WithMaxCacheSize and the locked
   section of its Set (clock reading tb, taken any time before); the
   throttling plugin's OnResponse also reads the clock for CreationTime (tc)
   and for the absolute-epoch time-to-live (tn), its OnRequest once in Get
   (tg) and once for the elapsed time (tl) -- i.e. every interleaving of any
   number of concurrent calls and sleepers, with arbitrary clock readings.
   [cstored h cid conf m u ps v t1 tb]: in h, the OnResponse call cid (for
   request m u ps under configuration conf, response v) ran its Has at
   reading t1 and LATER the locked section of its Set with reading tb.
   Caching: every call carries its own configuration (the engine shares one
   plugin instance, hence one cache, between all policies). *)
From Coq Require Import List ZArith NArith Bool Lia.
From Verif Require Import C12.Model C12.Proofs C12.ModelConc C12.ProofsConc.
Import ListNotations.
Open Scope Z_scope.

(* ------------------------------------------------------------------ *)
(* CachingPlugin                                                       *)
(* ------------------------------------------------------------------ *)

(* Clauses 1 and 3, all interleavings, all configurations: an early response
   for (method, URL, path parameters) under configuration conf at clock
   reading now replays a response that an OnResponse call was given earlier
   for the same method and URL and the same hashed string (under that call's
   configuration conf'), not larger than conf's record limit, whose Set ran
   before the request, and now <= (clock reading of that Set) + conf's ttl.
   For clean names/values the same hashed string means the same selected
   (name, value) pairs -- also across two configurations. *)
Theorem C12_conc_caching_replay_same_request_fresh :
  forall (H : Type) (hash : str -> H) (heq : H -> H -> bool),
  (forall a b, heq a b = true <-> a = b) ->
  (forall a b, hash a = hash b -> a = b) ->
  forall (h : list fop) conf m u ps now vid,
  snd (fstep H hash heq (fexec H hash heq (fempty H) h) (FReq conf m u ps now)) = CEarly vid ->
  exists cid conf' ps' v t1 tb,
    cstored h cid conf' m u ps' v t1 tb /\ r_vid v = vid /\
    joined (c_paths conf') ps' = joined (c_paths conf) ps /\
    now <= tb + c_ttl conf' /\
    Z.of_N (r_bodylen v) <= c_maxrec conf' /\
    (forallb clean_pairb (selected (c_paths conf) ps) &&
     forallb clean_pairb (selected (c_paths conf') ps') = true ->
     selected (c_paths conf') ps' = selected (c_paths conf) ps).
Proof.
  intros H hash heq S I h conf m u ps now vid E.
  destruct (conc_caching_replay H hash heq S I h conf m u ps now vid E)
    as (cid & conf' & ps' & v & t1 & tb & A & B & C & D & F).
  exists cid, conf', ps', v, t1, tb. repeat split; try assumption.
  intros Cl. apply andb_true_iff in Cl. destruct Cl as (C1 & C2).
  apply joined_inj2; [apply clean_all_spec; exact C2|apply clean_all_spec; exact C1|exact C].
Qed.
Print Assumptions C12_conc_caching_replay_same_request_fresh.

(* Clause 4, plugin level, all interleavings: once the time-to-live of every
   OnResponse call that stored for this key has passed (counted from the
   clock reading of its Set), the request goes to the provider again --
   whatever sleepers did, whatever calls are still in flight. *)
Theorem C12_conc_caching_miss_after_expiry :
  forall (H : Type) (hash : str -> H) (heq : H -> H -> bool),
  (forall a b, heq a b = true <-> a = b) ->
  (forall a b, hash a = hash b -> a = b) ->
  forall (h : list fop) conf m u ps now,
  (forall cid conf' ps' v t1 tb,
     cstored h cid conf' m u ps' v t1 tb ->
     joined (c_paths conf') ps' = joined (c_paths conf) ps ->
     tb + c_ttl conf' < now) ->
  snd (fstep H hash heq (fexec H hash heq (fempty H) h) (FReq conf m u ps now)) = CNoOp.
Proof. intros H hash heq S I. exact (conc_caching_miss_after_expiry H hash heq S I). Qed.
Print Assumptions C12_conc_caching_miss_after_expiry.

(* Clause 6, all interleavings, all configurations: the sizes of the entries
   held add up to at most the size counter, which is at most the largest
   max_cache_size any call was configured with (one configuration: its
   max_cache_size).  WithMaxCacheSize of one call may land between
   WithMaxCacheSize and Set of another: covered. *)
Theorem C12_conc_caching_size_bound :
  forall (H : Type) (hash : str -> H) (heq : H -> H -> bool),
  (forall a b, heq a b = true <-> a = b) ->
  forall M (h : list fop), 0 <= M ->
  Forall (fun o => match o with FHas _ conf _ _ _ _ _ => c_max conf <= M | _ => True end) h ->
  let c := f_cache (fexec H hash heq (fempty H) h) in
  NoDup (map fst (store c)) /\ total (csz H) (store c) <= csize c /\ csize c <= M.
Proof.
  intros H hash heq S M h P F.
  destruct (conc_caching_size_bound H hash heq S M h P F) as (A & _). exact A.
Qed.
Print Assumptions C12_conc_caching_size_bound.

(* The atomic plugin histories of Model.v (suite "caching", theorems of
   Property.v) are the schedules in which every call runs its pieces back to
   back with one clock reading: same cache, same answers. *)
Theorem C12_caching_atomic_histories_are_schedules :
  forall (H : Type) (hash : str -> H) (heq : H -> H -> bool),
  forall conf (h : list cop) m u ps now,
  f_cache (fexec H hash heq (fempty H) (expand conf h)) = cexec H hash heq conf empty h /\
  snd (fstep H hash heq (fexec H hash heq (fempty H) (expand conf h)) (FReq conf m u ps now)) =
  snd (cstep H hash heq conf (cexec H hash heq conf empty h) (CReq m u ps now)).
Proof.
  intros H hash heq conf h m u ps now.
  destruct (caching_atomic_is_schedule H hash heq conf h) as (E & _).
  split; [exact E|]. cbn. rewrite E.
  destruct (get (ckey_eqb H heq) (cexec H hash heq conf empty h) (key_of H hash conf m u ps) now); reflexivity.
Qed.
Print Assumptions C12_caching_atomic_histories_are_schedules.

(* Non-vacuity: two concurrent OnResponse calls for the same request, both
   Has answer "absent", both Sets commit (the second overwrites the first --
   "store only when absent" does not survive concurrency, the property does
   not ask for it); call 1 read its clock for Set at 103, before call 2 (104),
   but commits after it: the entry expires at 103 + 10.  A third call under
   another configuration (ttl 50, other payload path) shares the cache. *)
Example C12_conc_caching_example :
  let cfA := {| c_paths := [(true, [105; 100])]; c_ttl := 10; c_maxrec := 50; c_max := 400 |} in
  let cfB := {| c_paths := [(true, [111])]; c_ttl := 50; c_maxrec := 50; c_max := 500 |} in
  let r v := {| r_vid := v; r_idlen := 6%N; r_bodylen := 30%N; r_hdrlen := 20%N |} in
  let GET := [71; 69; 84] in let u := [97] in
  let ps := [([105; 100], [49]); ([111], [55])] in
  let h := [FHas 1 cfA GET u ps (r 1) 100; FHas 2 cfA GET u ps (r 2) 101;
            FLim 1; FLim 2; FSet 2 104; FReq cfA GET u ps 105;
            FSet 1 103; FReq cfA GET u ps 113; FReq cfA GET u ps 114;
            FHas 3 cfB GET u ps (r 3) 114; FLim 3; FSet 3 115;
            FReq cfB GET u ps 165; FReq cfA GET u ps 165; FReq cfB GET u ps 166] in
  map (fun x => fst (fst x)) (snd (run_cconc_from (fempty str) (map (fun o => (o, (CBad, 0, 0))) h))) =
  [CDone; CDone; CDone; CDone; CDone; CEarly 2; CDone; CEarly 1; CNoOp;
   CDone; CDone; CDone; CEarly 3; CNoOp; CNoOp].
Proof. vm_compute. reflexivity. Qed.

(* ------------------------------------------------------------------ *)
(* ResponseBasedThrottlingPlugin                                       *)
(* ------------------------------------------------------------------ *)

(* Clauses 2, 3, 5, relative retry-after, all interleavings, either variant of
   OnRequest: an early response replays a response with a relevant status
   given earlier to an OnResponse call for the same method and URL whose Set
   ran before the request; the replayed header is the original value minus
   the time elapsed between that call's CreationTime reading (tc) and the
   request's second clock reading (tl), replayed only while that is positive;
   and the Get's reading is within (reading of the Set) + retry-after. *)
Theorem C12_conc_retry_after :
  forall fixc conf (h : list gop) m u tg tl vid ra',
  t_type conf = RRel ->
  snd (gstep fixc conf (gexec fixc conf gempty h) (GReq m u tg tl)) = TEarly vid ra' ->
  exists cid status ra t1 tc tn tb,
    tstored h cid m u status vid ra t1 tc tn tb /\
    In status (t_statuses conf) /\
    ra' = Some (ra - (tl - tc)) /\ 0 < ra - (tl - tc) /\ tg <= tb + ra.
Proof.
  intros fixc conf h m u tg tl vid ra' Ty E.
  destruct (conc_throttle_replay fixc conf h m u tg tl vid ra' E)
    as (cid & st & ra & t1 & tc & tn & tb & A & B & C).
  rewrite Ty in C. exists cid, st, ra, t1, tc, tn, tb. tauto.
Qed.
Print Assumptions C12_conc_retry_after.

(* Absolute epoch, repaired code (fix-F-C12b and fix-F-C12c), all
   interleavings: replay only while the request's second clock reading is not
   after the provider's instant; header unchanged.  Undefined type: never. *)
Theorem C12_conc_throttle_absolute_epoch :
  forall conf (h : list gop) m u tg tl vid ra',
  t_type conf <> RRel ->
  snd (gstep true conf (gexec true conf gempty h) (GReq m u tg tl)) = TEarly vid ra' ->
  t_type conf = RAbs /\
  exists cid status ra t1 tc tn tb,
    tstored h cid m u status vid ra t1 tc tn tb /\
    In status (t_statuses conf) /\
    ra' = Some ra /\ tl <= ra.
Proof.
  intros conf h m u tg tl vid ra' Ty E.
  destruct (conc_throttle_replay true conf h m u tg tl vid ra' E)
    as (cid & st & ra & t1 & tc & tn & tb & A & B & C).
  destruct (t_type conf) eqn:T; [|contradiction|contradiction].
  split; [reflexivity|]. exists cid, st, ra, t1, tc, tn, tb.
  destruct C as (C1 & _ & C3). repeat split; try assumption. apply C3. reflexivity.
Qed.
Print Assumptions C12_conc_throttle_absolute_epoch.

(* The code before fix-F-C12c (no test in OnRequest): OnResponse computes the
   time-to-live from one clock reading (tn) and Set adds it to a later one
   (tb), so the entry outlives the provider's instant by exactly tb - tn ... *)
Theorem C12_conc_throttle_absolute_epoch_unrepaired_bound :
  forall conf (h : list gop) m u tg tl vid ra',
  t_type conf = RAbs ->
  snd (gstep false conf (gexec false conf gempty h) (GReq m u tg tl)) = TEarly vid ra' ->
  exists cid status ra t1 tc tn tb,
    tstored h cid m u status vid ra t1 tc tn tb /\
    In status (t_statuses conf) /\
    ra' = Some ra /\ tg <= ra + (tb - tn).
Proof.
  intros conf h m u tg tl vid ra' Ty E.
  destruct (conc_throttle_replay false conf h m u tg tl vid ra' E)
    as (cid & st & ra & t1 & tc & tn & tb & A & B & C).
  rewrite Ty in C. exists cid, st, ra, t1, tc, tn, tb.
  destruct C as (C1 & C2 & _). repeat split; try assumption. lia.
Qed.
Print Assumptions C12_conc_throttle_absolute_epoch_unrepaired_bound.

(* ... and the clause "only until the provider's retry-after time has passed"
   FAILS for it (F-C12c), even on a monotone clock and with every reading of
   the request after the provider's instant: response received at 100,
   provider's instant 130, Set reads the clock at 105 => expiry 135; the
   request at 133 is answered from memory. *)
Definition C12_conc_throttle_absolute_epoch_unrepaired : Prop :=
  forall conf (h : list gop) m u tg tl vid ra',
  t_type conf = RAbs -> tg <= tl ->
  snd (gstep false conf (gexec false conf gempty h) (GReq m u tg tl)) = TEarly vid ra' ->
  exists ra, ra' = Some ra /\ tg <= ra.

Theorem C12_conc_throttle_absolute_epoch_unrepaired_refuted :
  ~ C12_conc_throttle_absolute_epoch_unrepaired.
Proof.
  intros A.
  specialize (A {| t_type := RAbs; t_statuses := [429] |}
                [GHas 0 [71] [97] 429 1 (Some 130) 100; GSet 0 100 100 105]
                [71] [97] 133 133 1 (Some 130) eq_refl (Z.le_refl _) eq_refl).
  destruct A as (ra & E & L). injection E as <-. lia.
Qed.
Print Assumptions C12_conc_throttle_absolute_epoch_unrepaired_refuted.

(* Clause 4, all interleavings, repaired code: a throttling response whose
   retry-after time is not in the future any more at the request's second
   clock reading is not replayed, whatever sleepers did and whatever the
   clock readings of the Sets were. *)
Theorem C12_conc_throttle_not_in_future_never_replayed :
  forall conf (h : list gop) m u tg tl,
  (forall cid status vid ra t1 tc tn tb, tstored h cid m u status vid ra t1 tc tn tb ->
     match t_type conf with
     | RAbs => ra < tl
     | RRel => tc + ra <= tl
     | RUndef => True
     end) ->
  snd (gstep true conf (gexec true conf gempty h) (GReq m u tg tl)) = TNoOp.
Proof. exact conc_throttle_not_in_future. Qed.
Print Assumptions C12_conc_throttle_not_in_future_never_replayed.

(* The atomic plugin histories of Model.v (suite "throttle", theorems of
   Property.v) are the schedules in which every call runs its pieces back to
   back with one clock reading; there the test added by fix-F-C12c never
   fires, so Model.v describes the code with and without it. *)
Theorem C12_throttle_atomic_histories_are_schedules :
  forall fixc conf (h : list top) m u t,
  g_cache (gexec fixc conf gempty (gexpand h)) = texec conf empty h /\
  snd (gstep fixc conf (gexec fixc conf gempty (gexpand h)) (GReq m u t t)) =
  snd (tstep conf (texec conf empty h) (TReq m u t)).
Proof.
  intros fixc conf h m u t. split.
  - destruct (throttle_atomic_is_schedule fixc conf h) as (E & _). exact E.
  - apply throttle_atomic_request.
Qed.
Print Assumptions C12_throttle_atomic_histories_are_schedules.

(* Non-vacuity: absolute epoch 130; the call reads the clock at 100 (Has),
   101 (CreationTime), 102 (time-to-live = 28), 105 (Set: expiry 133).
   Repaired: replay at 130, none at 131.  Unrepaired: replay until 133. *)
Example C12_conc_throttle_epoch_example :
  let conf := {| t_type := RAbs; t_statuses := [429] |} in
  let GET := [71; 69; 84] in let u := [97] in
  let h := [GHas 0 GET u 429 1 (Some 130) 100; GReq GET u 101 101;
            GSet 0 101 102 105; GReq GET u 129 130; GReq GET u 130 131;
            GReq GET u 133 133; GReq GET u 134 134] in
  map (fun x => fst (fst x)) (snd (run_tconc_from conf gempty (map (fun o => (o, (TBad, 0, 0))) h))) =
  [TDone; TNoOp; TDone; TEarly 1 (Some 130); TNoOp; TNoOp; TNoOp] /\
  snd (gstep false conf (gexec false conf gempty (firstn 3 h)) (GReq GET u 133 133)) = TEarly 1 (Some 130) /\
  snd (gstep false conf (gexec false conf gempty (firstn 3 h)) (GReq GET u 134 134)) = TNoOp.
Proof. vm_compute. repeat split; reflexivity. Qed.

(* Non-vacuity, relative: two concurrent calls; the value replayed counts from
   the CreationTime reading (101) of the call whose Set committed last. *)
Example C12_conc_throttle_relative_example :
  let conf := {| t_type := RRel; t_statuses := [429] |} in
  let GET := [71; 69; 84] in let u := [97] in
  let h := [GHas 0 GET u 429 1 (Some 30) 100; GHas 1 GET u 429 2 (Some 20) 100;
            GSet 1 102 102 103; GReq GET u 104 105;
            GSet 0 101 101 101; GReq GET u 110 111; GReq GET u 130 131; GReq GET u 131 131] in
  map (fun x => fst (fst x)) (snd (run_tconc_from conf gempty (map (fun o => (o, (TBad, 0, 0))) h))) =
  [TDone; TDone; TDone; TEarly 2 (Some 17); TDone; TEarly 1 (Some 20); TNoOp; TNoOp].
Proof. vm_compute. reflexivity. Qed.
