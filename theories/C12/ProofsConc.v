(* C12 — lemmas about the fine-grained (concurrent) plugin models. *)
From Coq Require Import List ZArith NArith Bool Lia.
From Verif Require Import C12.Model C12.Proofs C12.ModelConc.
Import ListNotations.
Open Scope Z_scope.

(* ------------------------------------------------------------------ *)
(* calls in flight                                                     *)
(* ------------------------------------------------------------------ *)
Section PendingProofs.
  Variable P : Type.

  Lemma pfind_pdel_eq cid (l : list (Z * P)) : pfind cid (pdel cid l) = None.
  Proof.
    induction l as [|[i p] r IH]; cbn; [reflexivity|].
    destruct (i =? cid) eqn:E; [exact IH|]. cbn. rewrite E. exact IH.
  Qed.

  Lemma pfind_pdel_neq cid cid' (l : list (Z * P)) :
    cid' <> cid -> pfind cid' (pdel cid l) = pfind cid' l.
  Proof.
    intros N. induction l as [|[i p] r IH]; cbn; [reflexivity|].
    destruct (i =? cid) eqn:E.
    - apply Z.eqb_eq in E. subst i.
      destruct (cid =? cid') eqn:E2; [apply Z.eqb_eq in E2; congruence|exact IH].
    - cbn. destruct (i =? cid'); [reflexivity|exact IH].
  Qed.

  Lemma pfind_pdel_some cid cid' (l : list (Z * P)) p :
    pfind cid' (pdel cid l) = Some p -> cid' <> cid /\ pfind cid' l = Some p.
  Proof.
    intros F. destruct (Z.eq_dec cid' cid) as [->|N].
    - rewrite pfind_pdel_eq in F. discriminate.
    - split; [exact N|]. rewrite pfind_pdel_neq in F by exact N. exact F.
  Qed.
End PendingProofs.

(* ------------------------------------------------------------------ *)
(* size invariant with a limit that changes between steps              *)
(* ------------------------------------------------------------------ *)
Section SizeGen.
  Variables K V : Type.
  Variable keq : K -> K -> bool.
  Variable sz : K -> V -> Z.
  Hypothesis keq_spec : forall a b, keq a b = true <-> a = b.
  Hypothesis sz_nonneg : forall k v, 0 <= sz k v.

  Lemma clear_size_inv_gen M lim k (c : cache K V) :
    size_inv K V sz M c -> size_inv K V sz M (clear keq sz lim k c).
  Proof.
    intros (ND & T & Mx). unfold size_inv. cbn.
    split; [apply nodup_remove; assumption|].
    rewrite (total_remove K V keq sz keq_spec k (store c) ND).
    pose proof (size_of_nonneg K V sz sz_nonneg k (lookup keq k (store c))) as P.
    destruct lim as [mx|]; destruct (lookup keq k (store c)) as [e|]; cbn in *; lia.
  Qed.

  (* one step under the limit in force [lim]: the invariant for the bound M is
     kept when that limit is at most M; without a limit in force (accounting
     off) no Set may run *)
  Lemma step_size_inv_gen M lim (c : cache K V) (o : op K V) :
    size_inv K V sz M c ->
    match lim with
    | Some mx => mx <= M
    | None => forall id k v ttl tb, o <> OSet id k v ttl tb
    end ->
    size_inv K V sz M (fst (step keq sz lim c o)).
  Proof.
    intros I L. destruct o as [k t|k t|id k v ttl tb|id k|k]; cbn; try exact I.
    - destruct lim as [mx|]; [|exfalso; eapply L; reflexivity].
      destruct (set_ keq sz (Some mx) id k v ttl tb c) as [c1 ok] eqn:E. cbn.
      destruct ok; [|apply set_refused in E; subst; exact I].
      apply set_ok in E. destruct E as (S & Z1 & _ & M1).
      destruct I as (ND & T & Mx). unfold size_inv. rewrite S, Z1.
      split; [apply nodup_upd; assumption|]. split; [|rewrite <- Z1; lia].
      unfold upd. cbn [total e_val]. rewrite (total_remove K V keq sz keq_spec k (store c) ND).
      pose proof (size_of_nonneg K V sz sz_nonneg k (lookup keq k (store c))). lia.
    - destruct (take_sleeper keq id k (sleepers c)); cbn; [|exact I].
      apply (clear_size_inv_gen M lim k c) in I. exact I.
    - apply clear_size_inv_gen; assumption.
  Qed.
End SizeGen.

(* ------------------------------------------------------------------ *)
(* the hashed string, two configurations                               *)
(* ------------------------------------------------------------------ *)

Fixpoint str_mem (x : Z) (s : str) : bool :=
  match s with [] => false | y :: r => (x =? y) || str_mem x r end.

Lemma str_mem_spec x s : str_mem x s = true <-> In x s.
Proof.
  induction s as [|y r IH]; cbn; [split; [discriminate|tauto]|].
  rewrite orb_true_iff, Z.eqb_eq, IH. split; intros [A|A]; auto.
Qed.

(* decidable form of [clean_pair] (what the harness' monitor computes) *)
Definition clean_pairb (nv : str * str) : bool :=
  negb (str_mem dot (fst nv)) && negb (str_mem colon (fst nv)) && negb (str_mem dot (snd nv)).

Lemma clean_pairb_spec nv : clean_pairb nv = true <-> clean_pair nv.
Proof.
  unfold clean_pairb, clean_pair. rewrite !andb_true_iff, !negb_true_iff.
  split.
  - intros [[A B] C]. repeat split; intros I; apply str_mem_spec in I; congruence.
  - intros (A & B & C). repeat split.
    + destruct (str_mem dot (fst nv)) eqn:E; [apply str_mem_spec in E; tauto|reflexivity].
    + destruct (str_mem colon (fst nv)) eqn:E; [apply str_mem_spec in E; tauto|reflexivity].
    + destruct (str_mem dot (snd nv)) eqn:E; [apply str_mem_spec in E; tauto|reflexivity].
Qed.

Lemma clean_all_spec l : forallb clean_pairb l = true <-> Forall clean_pair l.
Proof.
  rewrite forallb_forall, Forall_forall. split; intros A x I; apply clean_pairb_spec; apply A; exact I.
Qed.

(* the joined encodings of a non-empty clean list do not start with a dot *)
Lemma join_enc_head l : l <> [] -> Forall clean_pair l ->
  exists x r, join (map enc l) = x :: r /\ x <> dot.
Proof.
  destruct l as [|[n v] r]; [congruence|]. intros _ C.
  inversion C as [|? ? (Cd & _ & _) _]; subst. cbn [fst snd] in Cd.
  cbn [map].
  assert (Hd : exists x r', enc (n, v) = x :: r' /\ x <> dot).
  { unfold enc. cbn [fst snd]. destruct n as [|a n'].
    - exists colon, v. split; [reflexivity|]. unfold colon, dot. discriminate.
    - exists a, (n' ++ colon :: v). split; [reflexivity|]. intros ->. apply Cd. left; reflexivity. }
  destruct Hd as (x & r' & E & N).
  destruct (map enc r) as [|y ys] eqn:M.
  - cbn. exists x, r'. split; assumption.
  - rewrite join_cons by discriminate. rewrite E. exists x, (r' ++ dot :: join (y :: ys)).
    split; [reflexivity|exact N].
Qed.

Lemma repeat_dot_split n1 : forall n2 x1 r1 x2 r2,
  x1 <> dot -> x2 <> dot ->
  repeat dot n1 ++ x1 :: r1 = repeat dot n2 ++ x2 :: r2 ->
  x1 :: r1 = x2 :: r2.
Proof.
  induction n1 as [|n1 IH]; intros [|n2] x1 r1 x2 r2 N1 N2 E; cbn in E.
  - exact E.
  - injection E as E _. congruence.
  - injection E as E _. congruence.
  - injection E as E. eapply IH; eassumption.
Qed.

Theorem joined_inj2 (p1 p2 : list (bool * str)) (ps1 ps2 : list (str * str)) :
  Forall clean_pair (selected p1 ps1) -> Forall clean_pair (selected p2 ps2) ->
  joined p1 ps1 = joined p2 ps2 -> selected p1 ps1 = selected p2 ps2.
Proof.
  unfold joined. set (n1 := length p1). set (n2 := length p2).
  set (l1 := selected p1 ps1). set (l2 := selected p2 ps2).
  intros C1 C2 E.
  destruct l1 as [|a1 r1] eqn:E1, l2 as [|a2 r2] eqn:E2.
  - reflexivity.
  - exfalso. cbn [map app] in E. rewrite app_nil_r in E.
    rewrite join_only_empties in E.
    rewrite (join_empties n2 (enc a2 :: map enc r2)) in E by discriminate.
    assert (I : In colon (repeat dot (pred n1))).
    { rewrite E. apply in_or_app. right.
      apply (join_enc_has_colon (a2 :: r2)). discriminate. }
    exact (repeat_dot_no_colon _ I).
  - exfalso. cbn [map app] in E. rewrite app_nil_r in E.
    rewrite join_only_empties in E.
    rewrite (join_empties n1 (enc a1 :: map enc r1)) in E by discriminate.
    assert (I : In colon (repeat dot (pred n2))).
    { rewrite <- E. apply in_or_app. right.
      apply (join_enc_has_colon (a1 :: r1)). discriminate. }
    exact (repeat_dot_no_colon _ I).
  - rewrite (join_empties n1 (map enc (a1 :: r1))) in E by (cbn; discriminate).
    rewrite (join_empties n2 (map enc (a2 :: r2))) in E by (cbn; discriminate).
    destruct (join_enc_head (a1 :: r1)) as (x1 & s1 & J1 & N1); [discriminate|exact C1|].
    destruct (join_enc_head (a2 :: r2)) as (x2 & s2 & J2 & N2); [discriminate|exact C2|].
    rewrite J1, J2 in E. apply repeat_dot_split in E; try assumption.
    rewrite <- J1, <- J2 in E.
    apply join_enc_inj; assumption.
Qed.

(* ------------------------------------------------------------------ *)
(* CachingPlugin, concurrent calls, several configurations             *)
(* ------------------------------------------------------------------ *)

(* the OnResponse call [cid] (configuration, request, response, reading of
   its Has) has begun in h / has run its Set with clock reading tb *)
Definition cbegun (h : list fop) cid conf m u ps v t1 : Prop :=
  exists h1 h2, h = h1 ++ FHas cid conf m u ps v t1 :: h2.

Definition cstored (h : list fop) cid conf m u ps v t1 tb : Prop :=
  exists h1 h2 h3, h = h1 ++ FHas cid conf m u ps v t1 :: h2 ++ FSet cid tb :: h3.

Lemma cbegun_snoc h o cid conf m u ps v t1 :
  cbegun h cid conf m u ps v t1 -> cbegun (h ++ [o]) cid conf m u ps v t1.
Proof.
  intros (h1 & h2 & ->). exists h1, (h2 ++ [o]). rewrite <- app_assoc. reflexivity.
Qed.

Lemma cstored_snoc h o cid conf m u ps v t1 tb :
  cstored h cid conf m u ps v t1 tb -> cstored (h ++ [o]) cid conf m u ps v t1 tb.
Proof.
  intros (h1 & h2 & h3 & ->). exists h1, h2, (h3 ++ [o]).
  rewrite <- app_assoc. cbn. rewrite <- app_assoc. reflexivity.
Qed.

Lemma cbegun_stored h cid conf m u ps v t1 tb :
  cbegun h cid conf m u ps v t1 -> cstored (h ++ [FSet cid tb]) cid conf m u ps v t1 tb.
Proof.
  intros (h1 & h2 & ->). exists h1, h2, []. rewrite <- app_assoc. reflexivity.
Qed.

Section CachingConcProofs.
  Variable H : Type.
  Variable hash : str -> H.
  Variable heq : H -> H -> bool.
  Hypothesis heq_spec : forall a b, heq a b = true <-> a = b.

  Notation keq := (ckey_eqb H heq).
  Notation keq_spec := (ckey_eqb_spec H hash heq heq_spec).
  Notation fstate := (fstate H).
  Notation fstep := (fstep H hash heq).
  Notation fexec := (fexec H hash heq).
  Notation fempty := (fempty H).
  Notation key_of := (key_of H hash).

  Lemma fexec_snoc (s : fstate) h o : fexec s (h ++ [o]) = fst (fstep (fexec s h) o).
  Proof. unfold ModelConc.fexec. rewrite fold_left_app. reflexivity. Qed.

  Definition finv (h : list fop) (s : fstate) : Prop :=
    (forall cid p, pfind cid (f_pend s) = Some p ->
       exists conf m u ps t1,
         cbegun h cid conf m u ps (p_val p) t1 /\
         p_key p = key_of conf m u ps /\ p_ttl p = c_ttl conf /\ p_max p = c_max conf /\
         Z.of_N (r_bodylen (p_val p)) <= c_maxrec conf) /\
    (forall k e, lookup keq k (store (f_cache s)) = Some e ->
       exists cid conf m u ps t1 tb,
         cstored h cid conf m u ps (e_val e) t1 tb /\
         k = key_of conf m u ps /\ e_exp e = tb + c_ttl conf /\
         Z.of_N (r_bodylen (e_val e)) <= c_maxrec conf).

  Lemma finv_mono h o s : finv h s -> finv (h ++ [o]) s.
  Proof.
    intros (A & B). split.
    - intros cid p F. destruct (A cid p F) as (conf & m & u & ps & t1 & Bg & R).
      exists conf, m, u, ps, t1. split; [apply cbegun_snoc; exact Bg|exact R].
    - intros k e L. destruct (B k e L) as (cid & conf & m & u & ps & t1 & tb & St & R).
      exists cid, conf, m, u, ps, t1, tb. split; [apply cstored_snoc; exact St|exact R].
  Qed.

  Lemma finv_all h : finv h (fexec fempty h).
  Proof.
    induction h as [|o h IH] using rev_ind.
    - split; [intros cid p F; cbn in F; discriminate|intros k e L; cbn in L; discriminate].
    - rewrite fexec_snoc. set (s := fexec fempty h) in *.
      destruct o as [conf m u ps t|cid conf m u ps v t1|cid|cid tb|id conf m u ps]; cbn -[set_ step].
      + destruct (get keq (f_cache s) (key_of conf m u ps) t); cbn; apply finv_mono; exact IH.
      + destruct (pfind cid (f_pend s)) eqn:F0; cbn; [apply finv_mono; exact IH|].
        destruct (c_maxrec conf <? Z.of_N (r_bodylen v)) eqn:Big; cbn; [apply finv_mono; exact IH|].
        destruct (has keq (f_cache s) (key_of conf m u ps) t1); cbn; [apply finv_mono; exact IH|].
        pose proof (finv_mono h (FHas cid conf m u ps v t1) s IH) as (A & B).
        split; [|exact B].
        intros cid' p F. cbn in F. destruct (cid =? cid') eqn:E.
        * apply Z.eqb_eq in E. subst cid'. injection F as <-. cbn.
          exists conf, m, u, ps, t1. repeat split.
          -- exists h, []. reflexivity.
          -- apply Z.ltb_ge in Big. exact Big.
        * exact (A cid' p F).
      + destruct (pfind cid (f_pend s)) as [p|] eqn:F0; cbn; [|apply finv_mono; exact IH].
        destruct (p_lim p) eqn:Lm; cbn; [apply finv_mono; exact IH|].
        pose proof (finv_mono h (FLim cid) s IH) as (A & B).
        split; [|exact B].
        intros cid' p' F. cbn in F. destruct (cid =? cid') eqn:E.
        * apply Z.eqb_eq in E. subst cid'. injection F as <-. cbn. exact (A cid p F0).
        * apply pfind_pdel_some in F. destruct F as (_ & F). exact (A cid' p' F).
      + destruct (pfind cid (f_pend s)) as [p|] eqn:F0; cbn -[set_]; [|apply finv_mono; exact IH].
        destruct (p_lim p) eqn:Lm; cbn -[set_]; [|apply finv_mono; exact IH].
        pose proof (finv_mono h (FSet cid tb) s IH) as (A & B).
        split.
        * intros cid' p' F. cbn in F. apply pfind_pdel_some in F. destruct F as (_ & F).
          exact (A cid' p' F).
        * destruct (set_ keq (csz H) (f_max s) cid (p_key p) (p_val p) (p_ttl p) tb (f_cache s))
            as [c1 ok] eqn:E. cbn.
          destruct ok; [|apply set_refused in E; subst; exact B].
          apply set_ok in E. destruct E as (S & _).
          intros k e L. rewrite S in L.
          destruct (keq_dec _ _ keq_spec k (p_key p)) as [->|N].
          -- rewrite (lookup_upd_eq _ _ _ keq_spec) in L. injection L as <-.
             destruct IH as (A0 & _).
             destruct (A0 cid p F0) as (conf & m & u & ps & t1 & Bg & Kq & Tq & _ & Bd).
             exists cid, conf, m, u, ps, t1, tb. cbn [e_val e_exp]. repeat split.
             ++ apply cbegun_stored. exact Bg.
             ++ exact Kq.
             ++ rewrite Tq. reflexivity.
             ++ exact Bd.
          -- rewrite (lookup_upd_neq _ _ _ keq_spec) in L by assumption. exact (B k e L).
      + pose proof (finv_mono h (FFire id conf m u ps) s IH) as (A & B).
        cbn [step].
        destruct (take_sleeper keq id (key_of conf m u ps) (sleepers (f_cache s))) as [r|]; cbn;
          [|split; assumption].
        split; [exact A|].
        intros k e L. cbn in L.
        destruct (keq_dec _ _ keq_spec k (key_of conf m u ps)) as [->|N].
        * rewrite (lookup_remove_eq _ _ keq) in L. discriminate.
        * rewrite (lookup_remove_neq _ _ _ keq_spec) in L by assumption. exact (B k e L).
  Qed.

  Lemma freq_out (s : fstate) conf m u ps now :
    snd (fstep s (FReq conf m u ps now)) = CNoOp \/
    exists vid, snd (fstep s (FReq conf m u ps now)) = CEarly vid.
  Proof.
    cbn. destruct (get keq (f_cache s) (key_of conf m u ps) now) as [v|]; cbn.
    - right. exists (r_vid v). reflexivity.
    - left. reflexivity.
  Qed.

  (* ---- size ---- *)
  Definition fmax_le (M : Z) (o : fop) : Prop :=
    match o with
    | FHas _ conf _ _ _ _ _ => c_max conf <= M
    | _ => True
    end.

  Definition fsize_inv (M : Z) (s : fstate) : Prop :=
    size_inv _ _ (csz H) M (f_cache s) /\
    (forall mx, f_max s = Some mx -> mx <= M) /\
    (forall cid p, pfind cid (f_pend s) = Some p ->
       p_max p <= M /\ (p_lim p = true -> f_max s <> None)).

  Lemma fstep_size_inv M (s : fstate) o :
    fmax_le M o -> fsize_inv M s -> fsize_inv M (fst (fstep s o)).
  Proof.
    intros Le (I & Mx & Pd).
    destruct o as [conf m u ps t|cid conf m u ps v t1|cid|cid tb|id conf m u ps]; cbn -[set_ step].
    - destruct (get keq (f_cache s) (key_of conf m u ps) t); cbn; exact (conj I (conj Mx Pd)).
    - destruct (pfind cid (f_pend s)) eqn:F0; cbn; [exact (conj I (conj Mx Pd))|].
      destruct (c_maxrec conf <? Z.of_N (r_bodylen v)); cbn; [exact (conj I (conj Mx Pd))|].
      destruct (has keq (f_cache s) (key_of conf m u ps) t1); cbn; [exact (conj I (conj Mx Pd))|].
      split; [exact I|]. split; [exact Mx|].
      intros cid' p F. cbn in F. destruct (cid =? cid') eqn:E.
      + injection F as <-. cbn. split; [exact Le|discriminate].
      + exact (Pd cid' p F).
    - destruct (pfind cid (f_pend s)) as [p|] eqn:F0; cbn; [|exact (conj I (conj Mx Pd))].
      destruct (p_lim p) eqn:Lm; cbn; [exact (conj I (conj Mx Pd))|].
      destruct (Pd cid p F0) as (PM & _).
      split; [exact I|]. split.
      + intros mx [= <-]. exact PM.
      + intros cid' p' F. cbn in F. destruct (cid =? cid') eqn:E.
        * injection F as <-. cbn. split; [exact PM|discriminate].
        * apply pfind_pdel_some in F. destruct F as (_ & F).
          destruct (Pd cid' p' F) as (PM' & _). split; [exact PM'|discriminate].
    - destruct (pfind cid (f_pend s)) as [p|] eqn:F0; cbn -[set_]; [|exact (conj I (conj Mx Pd))].
      destruct (p_lim p) eqn:Lm; cbn -[set_]; [|exact (conj I (conj Mx Pd))].
      destruct (Pd cid p F0) as (_ & NN). specialize (NN Lm).
      split; [|split; [exact Mx|]].
      + pose proof (step_size_inv_gen _ _ keq (csz H) keq_spec (csz_nonneg H) M (f_max s) (f_cache s)
                      (OSet cid (p_key p) (p_val p) (p_ttl p) tb) I) as G.
        cbn [step] in G.
        destruct (set_ keq (csz H) (f_max s) cid (p_key p) (p_val p) (p_ttl p) tb (f_cache s)) as [c1 ok].
        cbn [fst] in *. apply G.
        destruct (f_max s) as [mx|]; [apply Mx; reflexivity|congruence].
      + intros cid' p' F. apply pfind_pdel_some in F. destruct F as (_ & F). exact (Pd cid' p' F).
    - pose proof (step_size_inv_gen _ _ keq (csz H) keq_spec (csz_nonneg H) M (f_max s) (f_cache s)
                    (OFire id (key_of conf m u ps)) I) as G.
      destruct (step keq (csz H) (f_max s) (f_cache s) (OFire id (key_of conf m u ps))) as [c' x] eqn:E.
      cbn [fst] in G.
      assert (G' : size_inv _ _ (csz H) M c').
      { apply G. destruct (f_max s) as [mx|]; [apply Mx; reflexivity|intros; discriminate]. }
      destruct x; cbn; first [exact (conj G' (conj Mx Pd))|exact (conj I (conj Mx Pd))].
  Qed.

  Theorem conc_caching_size_bound M h :
    0 <= M -> Forall (fmax_le M) h -> fsize_inv M (fexec fempty h).
  Proof.
    intros P. induction h as [|o h IH] using rev_ind; intros F.
    - split; [|split].
      + unfold size_inv. cbn. repeat split; [constructor|lia|lia].
      + intros mx E. cbn in E. discriminate.
      + intros cid p E. cbn in E. discriminate.
    - rewrite fexec_snoc. apply Forall_app in F. destruct F as (F1 & F2).
      inversion F2; subst. apply fstep_size_inv; [assumption|apply IH; assumption].
  Qed.

  (* ---- atomic plugin histories are fine-grained histories ---- *)
  Definition crefines (conf : cconf) (s : fstate) (c : ccache H) : Prop :=
    f_cache s = c /\ f_pend s = [] /\
    (f_max s = Some (c_max conf) \/ (f_max s = None /\ sleepers c = [])).

  Lemma fexec_app (s : fstate) h1 h2 : fexec s (h1 ++ h2) = fexec (fexec s h1) h2.
  Proof. unfold ModelConc.fexec. apply fold_left_app. Qed.

  Lemma crefines_step conf (s : fstate) (c : ccache H) o :
    crefines conf s c ->
    crefines conf (fexec s (expand1 conf o)) (fst (cstep H hash heq conf c o)).
  Proof.
    intros (Ec & Ep & Em). destruct s as [sc sm sp]. cbn in Ec, Ep, Em. subst sc sp.
    destruct o as [m u ps t|id m u ps v t|id m u ps].
    - cbn. destruct (get keq c (key_of conf m u ps) t); cbn; repeat split; assumption.
    - cbn -[set_].
      destruct (c_maxrec conf <? Z.of_N (r_bodylen v)); cbn -[set_]; [repeat split; assumption|].
      destruct (has keq c (key_of conf m u ps) t); cbn -[set_]; [repeat split; assumption|].
      repeat (rewrite Z.eqb_refl; cbn -[set_]).
      repeat split. left. reflexivity.
    - cbn -[step]. destruct Em as [Em|(Em & Sl)]; rewrite Em.
      + destruct (step keq (csz H) (Some (c_max conf)) c (OFire id (key_of conf m u ps))) as [c' x] eqn:E.
        destruct x; cbn; repeat split; try (left; reflexivity).
        cbn [step] in E. destruct (take_sleeper keq id (key_of conf m u ps) (sleepers c)); [discriminate|].
        injection E as <-. reflexivity.
      + cbn [step]. rewrite Sl. cbn. repeat split. right. split; [reflexivity|exact Sl].
  Qed.

  Theorem caching_atomic_is_schedule conf (h : list cop) :
    crefines conf (fexec fempty (expand conf h)) (cexec H hash heq conf empty h).
  Proof.
    induction h as [|o h IH] using rev_ind.
    - cbn. repeat split. right. split; reflexivity.
    - unfold expand. rewrite flat_map_app. cbn [flat_map]. rewrite app_nil_r.
      rewrite fexec_app. rewrite cexec_snoc. apply crefines_step. exact IH.
  Qed.

  Hypothesis hash_inj : forall a b, hash a = hash b -> a = b.

  Theorem conc_caching_replay h conf m u ps now vid :
    snd (fstep (fexec fempty h) (FReq conf m u ps now)) = CEarly vid ->
    exists cid conf' ps' v t1 tb,
      cstored h cid conf' m u ps' v t1 tb /\ r_vid v = vid /\
      joined (c_paths conf') ps' = joined (c_paths conf) ps /\
      now <= tb + c_ttl conf' /\
      Z.of_N (r_bodylen v) <= c_maxrec conf'.
  Proof.
    cbn. set (s := fexec fempty h).
    destruct (get keq (f_cache s) (key_of conf m u ps) now) as [v|] eqn:G; cbn; [|discriminate].
    intros [= <-]. apply get_hit in G. destruct G as (e & L & <- & Fr).
    destruct (finv_all h) as (_ & B).
    destruct (B _ _ L) as (cid & conf' & m' & u' & ps' & t1 & tb & St & Kq & X & Bd).
    unfold Model.key_of in Kq. injection Kq as -> -> Hq. apply hash_inj in Hq.
    exists cid, conf', ps', (e_val e), t1, tb. repeat split; try assumption; [symmetry; exact Hq|lia].
  Qed.

  Theorem conc_caching_miss_after_expiry h conf m u ps now :
    (forall cid conf' ps' v t1 tb,
       cstored h cid conf' m u ps' v t1 tb ->
       joined (c_paths conf') ps' = joined (c_paths conf) ps ->
       tb + c_ttl conf' < now) ->
    snd (fstep (fexec fempty h) (FReq conf m u ps now)) = CNoOp.
  Proof.
    intros A.
    destruct (freq_out (fexec fempty h) conf m u ps now) as [E|[vid E]]; [exact E|].
    exfalso. destruct (conc_caching_replay h conf m u ps now vid E)
      as (cid & conf' & ps' & v & t1 & tb & St & _ & J & Fr & _).
    specialize (A _ _ _ _ _ _ St J). lia.
  Qed.

  (* atomic model: plugin-level miss after expiry *)
  Theorem caching_miss_after_expiry conf (h : list cop) m u ps now :
    (forall id ps' v t, In (CResp id m u ps' v t) h ->
       joined (c_paths conf) ps' = joined (c_paths conf) ps -> t + c_ttl conf < now) ->
    snd (cstep H hash heq conf (cexec H hash heq conf empty h) (CReq m u ps now)) = CNoOp.
  Proof.
    intros A.
    destruct (creq_out H hash heq conf (cexec H hash heq conf empty h) m u ps now) as [E|[vid E]]; [exact E|].
    exfalso.
    destruct (caching_replay H hash heq heq_spec hash_inj conf h m u ps now vid E)
      as (id & ps' & v & t & I & _ & J & Fr & _).
    specialize (A _ _ _ _ I J). lia.
  Qed.
End CachingConcProofs.

(* ------------------------------------------------------------------ *)
(* ResponseBasedThrottlingPlugin, concurrent calls                     *)
(* ------------------------------------------------------------------ *)

Definition tbegun (h : list gop) cid m u status vid (ora : option Z) t1 : Prop :=
  exists h1 h2, h = h1 ++ GHas cid m u status vid ora t1 :: h2.

Definition tstored (h : list gop) cid m u status vid ra t1 tc tn tb : Prop :=
  exists h1 h2 h3, h = h1 ++ GHas cid m u status vid (Some ra) t1 :: h2 ++ GSet cid tc tn tb :: h3.

Lemma tbegun_snoc h o cid m u st vid ora t1 :
  tbegun h cid m u st vid ora t1 -> tbegun (h ++ [o]) cid m u st vid ora t1.
Proof.
  intros (h1 & h2 & ->). exists h1, (h2 ++ [o]). rewrite <- app_assoc. reflexivity.
Qed.

Lemma tstored_snoc h o cid m u st vid ra t1 tc tn tb :
  tstored h cid m u st vid ra t1 tc tn tb -> tstored (h ++ [o]) cid m u st vid ra t1 tc tn tb.
Proof.
  intros (h1 & h2 & h3 & ->). exists h1, h2, (h3 ++ [o]).
  rewrite <- app_assoc. cbn. rewrite <- app_assoc. reflexivity.
Qed.

Lemma tbegun_stored h cid m u st vid ra t1 tc tn tb :
  tbegun h cid m u st vid (Some ra) t1 ->
  tstored (h ++ [GSet cid tc tn tb]) cid m u st vid ra t1 tc tn tb.
Proof.
  intros (h1 & h2 & ->). exists h1, h2, []. rewrite <- app_assoc. reflexivity.
Qed.

Lemma gexec_snoc fixc conf (s : gstate) h o :
  gexec fixc conf s (h ++ [o]) = fst (gstep fixc conf (gexec fixc conf s h) o).
Proof. unfold gexec. rewrite fold_left_app. reflexivity. Qed.

Lemma gexec_app fixc conf (s : gstate) h1 h2 :
  gexec fixc conf s (h1 ++ h2) = gexec fixc conf (gexec fixc conf s h1) h2.
Proof. unfold gexec. apply fold_left_app. Qed.

Definition ginv (conf : tconf) (h : list gop) (s : gstate) : Prop :=
  (forall cid p, pfind cid (g_pend s) = Some p ->
     exists status t1,
       tbegun h cid (fst (tp_key p)) (snd (tp_key p)) status (tp_vid p) (tp_ra p) t1 /\
       In status (t_statuses conf)) /\
  (forall k e, lookup tkey_eqb k (store (g_cache s)) = Some e ->
     exists cid status ra t1 tc tn tb ttl,
       tstored h cid (fst k) (snd k) status (t_vid (e_val e)) ra t1 tc tn tb /\
       In status (t_statuses conf) /\
       t_ra (e_val e) = Some ra /\ t_created (e_val e) = tc /\
       norm_ttl (t_type conf) ra tn = Some ttl /\ e_exp e = tb + ttl).

Lemma ginv_mono conf h o s : ginv conf h s -> ginv conf (h ++ [o]) s.
Proof.
  intros (A & B). split.
  - intros cid p F. destruct (A cid p F) as (st & t1 & Bg & R).
    exists st, t1. split; [apply tbegun_snoc; exact Bg|exact R].
  - intros k e L. destruct (B k e L) as (cid & st & ra & t1 & tc & tn & tb & ttl & St & R).
    exists cid, st, ra, t1, tc, tn, tb, ttl. split; [apply tstored_snoc; exact St|exact R].
Qed.

Lemma ginv_all fixc conf h : ginv conf h (gexec fixc conf gempty h).
Proof.
  induction h as [|o h IH] using rev_ind.
  - split; [intros cid p F; cbn in F; discriminate|intros k e L; cbn in L; discriminate].
  - rewrite gexec_snoc. set (s := gexec fixc conf gempty h) in *.
    destruct o as [m u tg tl|cid m u status vid ra t1|cid tc tn tb|id m u]; cbn -[set_ step].
    + destruct (get tkey_eqb (g_cache s) (m, u) tg) as [v|]; cbn; [|apply ginv_mono; exact IH].
      destruct (t_type conf); cbn.
      * destruct fixc; cbn; [|apply ginv_mono; exact IH].
        destruct (t_ra v) as [ra|]; cbn; [|apply ginv_mono; exact IH].
        destruct (ra <? tl); cbn; apply ginv_mono; exact IH.
      * destruct (t_ra v) as [ra|]; cbn; [|apply ginv_mono; exact IH].
        destruct (ra <=? tl - t_created v); cbn; apply ginv_mono; exact IH.
      * apply ginv_mono; exact IH.
    + destruct (pfind cid (g_pend s)) eqn:F0; cbn; [apply ginv_mono; exact IH|].
      destruct (negb (existsb (Z.eqb status) (t_statuses conf))) eqn:St; cbn; [apply ginv_mono; exact IH|].
      destruct (has tkey_eqb (g_cache s) (m, u) t1); cbn; [apply ginv_mono; exact IH|].
      assert (InSt : In status (t_statuses conf)).
      { apply negb_false_iff in St. apply existsb_exists in St.
        destruct St as (x & Ix & Ex). apply Z.eqb_eq in Ex. subst x. exact Ix. }
      pose proof (ginv_mono conf h (GHas cid m u status vid ra t1) s IH) as (A & B).
      split; [|exact B]. intros cid' p F. cbn in F. destruct (cid =? cid') eqn:E.
      * apply Z.eqb_eq in E. subst cid'. injection F as <-. cbn.
        exists status, t1. split; [exists h, []; reflexivity|exact InSt].
      * exact (A cid' p F).
    + destruct (pfind cid (g_pend s)) as [p|] eqn:F0; cbn -[set_]; [|apply ginv_mono; exact IH].
      pose proof (ginv_mono conf h (GSet cid tc tn tb) s IH) as (A & B).
      assert (A' : forall cid' p', pfind cid' (pdel cid (g_pend s)) = Some p' ->
                exists status t1,
                  tbegun (h ++ [GSet cid tc tn tb]) cid' (fst (tp_key p')) (snd (tp_key p')) status
                         (tp_vid p') (tp_ra p') t1 /\ In status (t_statuses conf)).
      { intros cid' p' F. apply pfind_pdel_some in F. destruct F as (_ & F). exact (A cid' p' F). }
      destruct (tp_ra p) as [r|] eqn:Rp; cbn -[set_]; [|split; [exact A'|exact B]].
      destruct (norm_ttl (t_type conf) r tn) as [ttl|] eqn:Nt; cbn -[set_]; [|split; [exact A'|exact B]].
      split; [exact A'|].
      destruct (set_ tkey_eqb tsz None cid (tp_key p)
                     {| t_vid := tp_vid p; t_ra := Some r; t_created := tc |} ttl tb (g_cache s))
        as [c1 ok] eqn:E. cbn.
      destruct ok; [|apply set_refused in E; subst; exact B].
      apply set_ok in E. destruct E as (S & _).
      intros k e L. rewrite S in L.
      destruct (keq_dec _ _ tkey_eqb_spec k (tp_key p)) as [->|N].
      * rewrite (lookup_upd_eq _ _ _ tkey_eqb_spec) in L. injection L as <-.
        destruct IH as (A0 & _).
        destruct (A0 cid p F0) as (st & t1 & Bg & InSt). rewrite Rp in Bg.
        exists cid, st, r, t1, tc, tn, tb, ttl. cbn [e_val e_exp t_vid t_ra t_created].
        repeat split; try assumption. apply tbegun_stored. exact Bg.
      * rewrite (lookup_upd_neq _ _ _ tkey_eqb_spec) in L by assumption. exact (B k e L).
    + pose proof (ginv_mono conf h (GFire id m u) s IH) as (A & B).
      cbn [step].
      destruct (take_sleeper tkey_eqb id (m, u) (sleepers (g_cache s))) as [r|]; cbn;
        [|exact (conj A B)].
      split; [exact A|].
      intros k e L. cbn in L.
      destruct (keq_dec _ _ tkey_eqb_spec k (m, u)) as [->|N].
      * rewrite (lookup_remove_eq _ _ tkey_eqb) in L. discriminate.
      * rewrite (lookup_remove_neq _ _ _ tkey_eqb_spec) in L by assumption. exact (B k e L).
Qed.

(* what a replay implies, both variants of OnRequest *)
Theorem conc_throttle_replay fixc conf h m u tg tl vid ra' :
  snd (gstep fixc conf (gexec fixc conf gempty h) (GReq m u tg tl)) = TEarly vid ra' ->
  exists cid status ra t1 tc tn tb,
    tstored h cid m u status vid ra t1 tc tn tb /\
    In status (t_statuses conf) /\
    match t_type conf with
    | RRel => ra' = Some (ra - (tl - tc)) /\ 0 < ra - (tl - tc) /\ tg <= tb + ra
    | RAbs => ra' = Some ra /\ tg <= tb + (ra - tn) /\ (fixc = true -> tl <= ra)
    | RUndef => False
    end.
Proof.
  cbn. set (s := gexec fixc conf gempty h).
  destruct (get tkey_eqb (g_cache s) (m, u) tg) as [v|] eqn:G; cbn; [|discriminate].
  apply get_hit in G. destruct G as (e & L & <- & Fr).
  destruct (ginv_all fixc conf h) as (_ & B).
  destruct (B _ _ L) as (cid & st & ra & t1 & tc & tn & tb & ttl & St & InSt & Ra & Cr & Nt & Ex).
  cbn [fst snd] in St.
  destruct (t_type conf) eqn:Ty; cbn.
  - cbn in Nt. injection Nt as <-.
    destruct fixc; cbn.
    + rewrite Ra. destruct (ra <? tl) eqn:Lt; cbn; [discriminate|].
      intros [= <- <-]. exists cid, st, ra, t1, tc, tn, tb. apply Z.ltb_ge in Lt.
      repeat split; try assumption; lia.
    + intros [= <- <-]. exists cid, st, ra, t1, tc, tn, tb.
      repeat split; try assumption; [lia|discriminate].
  - cbn in Nt. injection Nt as <-. rewrite Ra.
    destruct (ra <=? tl - t_created (e_val e)) eqn:Le; cbn; [discriminate|].
    intros [= <- <-]. exists cid, st, ra, t1, tc, tn, tb. apply Z.leb_gt in Le. subst tc.
    repeat split; try assumption; lia.
  - cbn in Nt. discriminate.
Qed.

Lemma greq_out fixc conf (s : gstate) m u tg tl :
  snd (gstep fixc conf s (GReq m u tg tl)) = TNoOp \/
  exists vid ra, snd (gstep fixc conf s (GReq m u tg tl)) = TEarly vid ra.
Proof.
  cbn. destruct (get tkey_eqb (g_cache s) (m, u) tg) as [v|]; cbn; [|left; reflexivity].
  destruct (t_type conf); cbn.
  - destruct fixc; cbn; [|right; eexists _, _; reflexivity].
    destruct (t_ra v) as [ra|]; cbn; [|left; reflexivity].
    destruct (ra <? tl); cbn; [left; reflexivity|right; eexists _, _; reflexivity].
  - destruct (t_ra v) as [ra|]; cbn; [|left; reflexivity].
    destruct (ra <=? tl - t_created v); cbn; [left; reflexivity|].
    right. eexists _, _. reflexivity.
  - right. eexists _, _. reflexivity.
Qed.

Theorem conc_throttle_not_in_future conf h m u tg tl :
  (forall cid status vid ra t1 tc tn tb, tstored h cid m u status vid ra t1 tc tn tb ->
     match t_type conf with
     | RAbs => ra < tl
     | RRel => tc + ra <= tl
     | RUndef => True
     end) ->
  snd (gstep true conf (gexec true conf gempty h) (GReq m u tg tl)) = TNoOp.
Proof.
  intros A.
  destruct (greq_out true conf (gexec true conf gempty h) m u tg tl) as [E|(vid & ra' & E)]; [exact E|].
  exfalso. destruct (conc_throttle_replay true conf h m u tg tl vid ra' E)
    as (cid & st & ra & t1 & tc & tn & tb & St & _ & C).
  specialize (A _ _ _ _ _ _ _ _ St). destruct (t_type conf).
  - destruct C as (_ & _ & C). specialize (C eq_refl). lia.
  - lia.
  - contradiction.
Qed.

(* ---- atomic plugin histories are fine-grained histories ---- *)
Definition trefines (s : gstate) (c : tcache) : Prop := g_cache s = c /\ g_pend s = [].

Lemma trefines_step fixc conf (s : gstate) (c : tcache) o :
  trefines s c ->
  trefines (gexec fixc conf s (gexpand1 o)) (fst (tstep conf c o)).
Proof.
  intros (Ec & Ep). destruct s as [sc sp]. cbn in Ec, Ep. subst sc sp.
  destruct o as [m u t|id m u status vid ra t|id m u].
  - cbn. destruct (get tkey_eqb c (m, u) t) as [v|]; cbn; [|split; reflexivity].
    destruct (t_type conf); cbn.
    + destruct fixc; cbn; [|split; reflexivity].
      destruct (t_ra v) as [ra|]; cbn; [|split; reflexivity].
      destruct (ra <? t); cbn; split; reflexivity.
    + destruct (t_ra v) as [ra|]; cbn; [|split; reflexivity].
      destruct (ra <=? t - t_created v); cbn; split; reflexivity.
    + split; reflexivity.
  - cbn -[set_].
    destruct (negb (existsb (Z.eqb status) (t_statuses conf))); cbn -[set_]; [split; reflexivity|].
    destruct (has tkey_eqb c (m, u) t); cbn -[set_]; [split; reflexivity|].
    repeat (rewrite Z.eqb_refl; cbn -[set_]).
    destruct ra as [r|]; cbn -[set_]; [|rewrite ?Z.eqb_refl; split; reflexivity].
    destruct (norm_ttl (t_type conf) r t) as [ttl|]; cbn -[set_]; rewrite ?Z.eqb_refl; split; reflexivity.
  - cbn -[step].
    destruct (step tkey_eqb tsz None c (OFire id (m, u))) as [c' x] eqn:E.
    destruct x; cbn; split; try reflexivity.
    cbn [step] in E. destruct (take_sleeper tkey_eqb id (m, u) (sleepers c)); [discriminate|].
    injection E as <-. reflexivity.
Qed.

Theorem throttle_atomic_is_schedule fixc conf (h : list top) :
  trefines (gexec fixc conf gempty (gexpand h)) (texec conf empty h).
Proof.
  induction h as [|o h IH] using rev_ind.
  - split; reflexivity.
  - unfold gexpand. rewrite flat_map_app. cbn [flat_map]. rewrite app_nil_r.
    rewrite gexec_app. rewrite texec_snoc. apply trefines_step. exact IH.
Qed.

(* with one clock reading per call the repair of OnRequest never fires: the
   atomic model's OnRequest is the fine-grained one of either variant *)
Theorem throttle_atomic_request fixc conf (h : list top) m u t :
  snd (gstep fixc conf (gexec fixc conf gempty (gexpand h)) (GReq m u t t)) =
  snd (tstep conf (texec conf empty h) (TReq m u t)).
Proof.
  destruct (throttle_atomic_is_schedule fixc conf h) as (Ec & _).
  cbn. rewrite Ec. set (c := texec conf empty h).
  destruct (get tkey_eqb c (m, u) t) as [v|] eqn:G; cbn; [|reflexivity].
  destruct (t_type conf) eqn:Ty; cbn; try reflexivity;
    [|destruct (t_ra v) as [ra|]; cbn; [|reflexivity];
      destruct (ra <=? t - t_created v); reflexivity].
  destruct fixc; cbn; [|reflexivity].
  apply get_hit in G. destruct G as (e & L & <- & Fr).
  destruct (tinv_all conf h _ _ L) as (id & st & ra & t0 & _ & _ & Ra & _ & Nt).
  rewrite Ra. rewrite Ty in Nt. cbn in Nt. injection Nt as Nt.
  destruct (ra <? t) eqn:Lt; [apply Z.ltb_lt in Lt; lia|reflexivity].
Qed.
