(* C12 — Stored responses are replayed only for the same key and only while
   fresh; the cache never holds more than its configured size.
   Final statements only; proofs are in Proofs.v.

   A history is any list of atomic steps (locked sections) of the cache, i.e.
   any schedule of concurrent callers; [exec] runs it from the empty cache,
   [trace] pairs every step with its result. *)
From Coq Require Import List ZArith NArith Bool Lia.
From Verif Require Import C12.Model C12.Proofs C12.ModelConc C12.ProofsConc.
Import ListNotations.
Open Scope Z_scope.

(* ------------------------------------------------------------------ *)
(* MemoryCache: every key type, value type and size function           *)
(* ------------------------------------------------------------------ *)

(* A hit for k at instant now returns the value of the LAST step of the
   history that changed what is stored under k; that step is a committed
   Set of k with this very value, and now <= (clock reading of that Set) + ttl.
   Steps that changed k: writes to k other than refused Sets / ill-formed fires. *)
Theorem C12_only_stored_same_key :
  forall (K V : Type) (keq : K -> K -> bool) (sz : K -> V -> Z),
  (forall a b, keq a b = true <-> a = b) ->
  forall lim (h : list (op K V)) k now v,
  get keq (exec keq sz lim empty h) k now = Some v ->
  exists tr1 id ttl tb tr2,
    trace keq sz lim empty h = tr1 ++ (OSet id k v ttl tb, RSet true) :: tr2 /\
    now <= tb + ttl /\
    Forall (fun ox => ~ (op_key (fst ox) = Some k /\
                         snd ox <> RSet false /\ snd ox <> RBad)) tr2.
Proof. intros K V keq sz S. exact (only_stored_same_key K V keq sz S). Qed.
Print Assumptions C12_only_stored_same_key.

(* No step on another key changes the answer for k (at any instant). *)
Theorem C12_other_keys_unaffected :
  forall (K V : Type) (keq : K -> K -> bool) (sz : K -> V -> Z),
  (forall a b, keq a b = true <-> a = b) ->
  forall lim (c : cache K V) (o : op K V) k now,
  op_key o <> Some k ->
  get keq (fst (step keq sz lim c o)) k now = get keq c k now.
Proof. intros K V keq sz S. exact (other_keys_unaffected K V keq sz S). Qed.
Print Assumptions C12_other_keys_unaffected.

(* After the time-to-live of every Set of k has passed, the request goes to
   the provider again: Get misses whatever sleepers did or did not do. *)
Theorem C12_miss_after_expiry :
  forall (K V : Type) (keq : K -> K -> bool) (sz : K -> V -> Z),
  (forall a b, keq a b = true <-> a = b) ->
  forall lim (h : list (op K V)) k now,
  (forall id v ttl tb, In (OSet id k v ttl tb) h -> tb + ttl < now) ->
  get keq (exec keq sz lim empty h) k now = None.
Proof. intros K V keq sz S. exact (miss_after_expiry K V keq sz S). Qed.
Print Assumptions C12_miss_after_expiry.

(* The time-to-live handed to Set is not always positive (a provider's
   retry-after instant that is not in the future, ttl_seconds: 0).  None of the
   statements above restricts its sign; stated separately: an entry whose
   time-to-live is zero or negative is never replayed at an instant after the
   clock reading of its Set -- whether or not its sleeper ever ran -- ... *)
Theorem C12_nonpositive_ttl_never_replayed_later :
  forall (K V : Type) (keq : K -> K -> bool) (sz : K -> V -> Z),
  (forall a b, keq a b = true <-> a = b) ->
  forall lim (h : list (op K V)) k now,
  (forall id v ttl tb, In (OSet id k v ttl tb) h -> ttl <= 0 /\ tb < now) ->
  get keq (exec keq sz lim empty h) k now = None.
Proof. intros K V keq sz S. exact (nonpositive_ttl_dead K V keq sz S). Qed.
Print Assumptions C12_nonpositive_ttl_never_replayed_later.

(* ... and it does not block its key: a committed Set replaces whatever is
   stored under the key (live, dead but still held, or nothing), and the new
   entry answers exactly until its own expiry instant. *)
Theorem C12_set_replaces_any_entry :
  forall (K V : Type) (keq : K -> K -> bool) (sz : K -> V -> Z),
  (forall a b, keq a b = true <-> a = b) ->
  forall lim (c : cache K V) id k v ttl tb now,
  snd (step keq sz lim c (OSet id k v ttl tb)) = RSet true ->
  get keq (fst (step keq sz lim c (OSet id k v ttl tb))) k now =
  if now <=? tb + ttl then Some v else None.
Proof. intros K V keq sz S lim c id k v ttl tb now. exact (set_replaces K V keq sz S lim id k v ttl tb c now). Qed.
Print Assumptions C12_set_replaces_any_entry.

(* Non-vacuity: time-to-live 0 (replayable at the very clock reading only, the
   code tests now > expiry) and -5 (never); the dead entries are physically
   held and counted (size 4 + 4 of limit 10: a Set of size 3 is refused) until
   a sleeper removes them; a second Set of the key replaces the dead entry. *)
Example C12_nonpositive_ttl_example :
  let h := [OSet 1 7 (11, 4) 0 100; OGet 7 100; OGet 7 101;
            OSet 2 8 (12, 4) (-5) 100; OGet 8 100; OHas 8 100;
            OSet 3 9 (13, 3) 10 100;          (* refused: 4 + 4 + 3 > 10 *)
            OFire 2 8;                        (* sleeper of the dead entry *)
            OSet 4 9 (13, 2) 10 100;          (* now there is room *)
            OSet 5 7 (14, 0) 10 101;          (* replaces the dead entry of key 7 *)
            OGet 7 111; OGet 7 112] in
  map snd (trace Z.eqb cache_sz (Some 10) empty h) =
  [RSet true; RGet (Some (11, 4)); RGet None;
   RSet true; RGet None; RHas false;
   RSet false; RUnit; RSet true; RSet true;
   RGet (Some (14, 0)); RGet None] /\
  map fst (store (exec Z.eqb cache_sz (Some 10) empty (firstn 6 h))) = [8; 7].
Proof. vm_compute. split; reflexivity. Qed.

(* A sleeper — of the current or of an older entry of its key, fired at any
   time — can only remove: every hit after it was a hit before it, and the
   stored entry of every key is unchanged or gone.  The same holds for every
   step that is not a Set: freshness is never extended except by a new Set. *)
Theorem C12_stale_sleeper_harmless :
  forall (K V : Type) (keq : K -> K -> bool) (sz : K -> V -> Z),
  (forall a b, keq a b = true <-> a = b) ->
  forall lim (c : cache K V),
  (forall id k0 k now v,
     get keq (fst (step keq sz lim c (OFire id k0))) k now = Some v ->
     get keq c k now = Some v) /\
  (forall (o : op K V) k,
     (forall id k0 v ttl tb, o <> OSet id k0 v ttl tb) ->
     lookup keq k (store (fst (step keq sz lim c o))) = lookup keq k (store c) \/
     lookup keq k (store (fst (step keq sz lim c o))) = None).
Proof.
  intros K V keq sz S lim c. split.
  - intros id k0 k now v. exact (sleeper_only_removes K V keq sz S lim c id k0 k now v).
  - intros o k N. exact (step_only_set_adds K V keq sz S lim c o k N).
Qed.
Print Assumptions C12_stale_sleeper_harmless.

(* Size bound, repaired code (fix-F-C12a), ALL schedules: after every history
   the sizes of the entries physically held add up to at most the size
   counter, which is at most the limit. *)
Theorem C12_size_bound_all_schedules :
  forall (K V : Type) (keq : K -> K -> bool) (sz : K -> V -> Z),
  (forall a b, keq a b = true <-> a = b) ->
  (forall k v, 0 <= sz k v) ->
  forall mx (h : list (op K V)), 0 <= mx ->
  let c := exec keq sz (Some mx) empty h in
  NoDup (map fst (store c)) /\ total sz (store c) <= csize c /\ csize c <= mx.
Proof. intros K V keq sz S P mx h M. exact (size_bound K V keq sz S P mx h M). Qed.
Print Assumptions C12_size_bound_all_schedules.

(* Size bound, code as it is before the repair, when the size test of every
   Set is immediately followed by its locked section. *)
Theorem C12_size_bound_atomic :
  forall (K V : Type) (keq : K -> K -> bool) (sz : K -> V -> Z),
  (forall a b, keq a b = true <-> a = b) ->
  (forall k v, 0 <= sz k v) ->
  forall mx (h : list (op K V)), 0 <= mx ->
  let c := fold_left (uatomic keq sz (Some mx)) h empty in
  total sz (store c) <= csize c /\ csize c <= mx.
Proof.
  intros K V keq sz S P mx h M. cbv zeta. rewrite (uatomic_exec K V keq sz).
  destruct (size_bound K V keq sz S P mx h M) as (_ & A & B). split; assumption.
Qed.
Print Assumptions C12_size_bound_atomic.

(* ... and over all schedules of that unrepaired code (test outside the lock)
   the bound FAILS: two tests, then two commits (F-C12a; the code comment
   concedes it).  [uwf]: every commit is preceded by a passed test of the
   same key and value. *)
Definition same_kv (a b : Z * Z) : bool := (fst a =? fst b) && (snd a =? snd b).

Definition C12_size_bound_all_schedules_unrepaired : Prop :=
  forall mx (h : list (uop Z Z)), 0 <= mx ->
  uwf Z.eqb (fun _ v => v) (Some mx) same_kv empty [] h = true ->
  total (fun _ v => v) (store (uexec Z.eqb (fun _ v => v) (Some mx) empty h)) <= mx.

Theorem C12_size_bound_all_schedules_unrepaired_refuted :
  ~ C12_size_bound_all_schedules_unrepaired.
Proof.
  intros A.
  specialize (A 10 [UCheck 0 6; UCheck 1 6; UCommit 1 0 6 5 100; UCommit 2 1 6 5 100]).
  vm_compute in A. specialize (A (fun e => match e with end) eq_refl).
  apply A. reflexivity.
Qed.
Print Assumptions C12_size_bound_all_schedules_unrepaired_refuted.

(* Non-vacuity: a history with a re-store after expiry while the old sleeper
   is pending; the stale sleeper then removes the new entry. *)
Example C12_cache_example :
  let h := [OSet 1 7 (11, 3) 10 100;          (* expires at 110 *)
            OGet 7 110; OGet 7 111;
            OSet 2 7 (12, 4) 10 111;          (* re-stored, sleeper 1 still pending *)
            OSet 3 8 (13, 4) 10 111;          (* refused: 3 + 4 + 4 > 10 *)
            OGet 7 112;
            OFire 1 7;                        (* stale sleeper *)
            OGet 7 112] in
  map snd (trace Z.eqb cache_sz (Some 10) empty h) =
  [RSet true; RGet (Some (11, 3)); RGet None; RSet true; RSet false;
   RGet (Some (12, 4)); RUnit; RGet None].
Proof. vm_compute. reflexivity. Qed.

(* ------------------------------------------------------------------ *)
(* CachingPlugin                                                       *)
(* ------------------------------------------------------------------ *)

(* For every injective hash: an early response for (method, URL, path
   parameters) at instant now replays a response handed to OnResponse earlier
   for the same method and URL and the same hashed string, not larger than
   the record limit, and now <= (instant of that OnResponse) + ttl.  When the
   selected names contain neither '.' nor ':' and the selected values no '.',
   the same hashed string means the same selected (name, value) pairs. *)
Theorem C12_caching_replay_same_request_fresh :
  forall (H : Type) (hash : str -> H) (heq : H -> H -> bool),
  (forall a b, heq a b = true <-> a = b) ->
  (forall a b, hash a = hash b -> a = b) ->
  forall conf (h : list cop) m u ps now vid,
  snd (cstep H hash heq conf (cexec H hash heq conf empty h) (CReq m u ps now)) = CEarly vid ->
  exists id ps' v t,
    In (CResp id m u ps' v t) h /\ r_vid v = vid /\
    joined (c_paths conf) ps' = joined (c_paths conf) ps /\
    now <= t + c_ttl conf /\
    Z.of_N (r_bodylen v) <= c_maxrec conf /\
    (Forall clean_pair (selected (c_paths conf) ps) ->
     Forall clean_pair (selected (c_paths conf) ps') ->
     selected (c_paths conf) ps' = selected (c_paths conf) ps).
Proof.
  intros H hash heq S I conf h m u ps now vid E.
  destruct (caching_replay H hash heq S I conf h m u ps now vid E)
    as (id & ps' & v & t & A & B & C & D & F).
  exists id, ps', v, t. repeat split; try assumption.
  intros C1 C2. apply joined_inj; assumption.
Qed.
Print Assumptions C12_caching_replay_same_request_fresh.

(* The cleanliness condition cannot be dropped: strings.Join is ambiguous. *)
Example C12_join_ambiguous :
  let paths := [(true, [97]); (true, [98])] in            (* a, b *)
  let ps1 := [([97], [49; 46; 98; 58; 50])] in             (* a = "1.b:2" *)
  let ps2 := [([97], [49]); ([98], [50])] in               (* a = "1", b = "2" *)
  joined paths ps1 = joined paths ps2 /\ selected paths ps1 <> selected paths ps2.
Proof. vm_compute. split; [reflexivity|discriminate]. Qed.

(* [clean_pair] is decidable: [clean_pairb] (ProofsConc.v) is what the
   harness' monitor computes on the selected pairs of a request. *)
Theorem C12_clean_pair_decidable :
  forall nv, clean_pairb nv = true <-> clean_pair nv.
Proof. exact clean_pairb_spec. Qed.
Print Assumptions C12_clean_pair_decidable.

(* F-C12d (open).  The property text says "same selected path-parameter
   values"; without the cleanliness condition that is FALSE of the code, for
   every hash function, even a perfect one: *)
Definition C12_caching_same_selected_values_full : Prop :=
  forall (H : Type) (hash : str -> H) (heq : H -> H -> bool),
  (forall a b, heq a b = true <-> a = b) ->
  (forall a b, hash a = hash b -> a = b) ->
  forall conf (h : list cop) m u ps now vid,
  snd (cstep H hash heq conf (cexec H hash heq conf empty h) (CReq m u ps now)) = CEarly vid ->
  exists id ps' v t,
    In (CResp id m u ps' v t) h /\ r_vid v = vid /\
    selected (c_paths conf) ps' = selected (c_paths conf) ps.

Theorem C12_caching_same_selected_values_full_refuted :
  ~ C12_caching_same_selected_values_full.
Proof.
  intros A.
  pose (conf := {| c_paths := [(true, [97]); (true, [98])]; c_ttl := 10; c_maxrec := 50; c_max := 4000 |}).
  pose (v := {| r_vid := 1; r_idlen := 6%N; r_bodylen := 30%N; r_hdrlen := 20%N |}).
  specialize (A str (fun s => s) str_eqb str_eqb_spec (fun a b E => E) conf
                [CResp 0 [71] [117] [([97], [49; 46; 98; 58; 50])] v 100]
                [71] [117] [([97], [49]); ([98], [50])] 105 1 eq_refl).
  destruct A as (id & ps' & v' & t & I & _ & E).
  destruct I as [I|[]]. injection I as _ <- _ _. vm_compute in E. discriminate.
Qed.
Print Assumptions C12_caching_same_selected_values_full_refuted.

(* ... and it holds outside F-C12d: when the selected pairs of the request and
   of the replayed response are clean (decidable; exactly the classifier of
   the monitor's signature wrong-key-hit:caching-join-ambiguous). *)
Theorem C12_caching_same_selected_values_holds_outside_join_ambiguity :
  forall (H : Type) (hash : str -> H) (heq : H -> H -> bool),
  (forall a b, heq a b = true <-> a = b) ->
  (forall a b, hash a = hash b -> a = b) ->
  forall conf (h : list cop) m u ps now vid,
  snd (cstep H hash heq conf (cexec H hash heq conf empty h) (CReq m u ps now)) = CEarly vid ->
  exists id ps' v t,
    In (CResp id m u ps' v t) h /\ r_vid v = vid /\
    now <= t + c_ttl conf /\
    (forallb clean_pairb (selected (c_paths conf) ps) &&
     forallb clean_pairb (selected (c_paths conf) ps') = true ->
     selected (c_paths conf) ps' = selected (c_paths conf) ps).
Proof.
  intros H hash heq S I conf h m u ps now vid E.
  destruct (C12_caching_replay_same_request_fresh H hash heq S I conf h m u ps now vid E)
    as (id & ps' & v & t & A & B & _ & D & _ & F).
  exists id, ps', v, t. repeat split; try assumption.
  intros Cl. apply andb_true_iff in Cl. destruct Cl as (C1 & C2).
  apply F; apply clean_all_spec; assumption.
Qed.
Print Assumptions C12_caching_same_selected_values_holds_outside_join_ambiguity.

(* Plugin-level "afterwards the request goes to the provider again": once
   t + ttl < now for every OnResponse given for this method, URL and hashed
   string, OnRequest answers NoOp -- whatever sleepers did. *)
Theorem C12_caching_miss_after_expiry :
  forall (H : Type) (hash : str -> H) (heq : H -> H -> bool),
  (forall a b, heq a b = true <-> a = b) ->
  (forall a b, hash a = hash b -> a = b) ->
  forall conf (h : list cop) m u ps now,
  (forall id ps' v t, In (CResp id m u ps' v t) h ->
     joined (c_paths conf) ps' = joined (c_paths conf) ps -> t + c_ttl conf < now) ->
  snd (cstep H hash heq conf (cexec H hash heq conf empty h) (CReq m u ps now)) = CNoOp.
Proof. intros H hash heq S I. exact (caching_miss_after_expiry H hash heq S I). Qed.
Print Assumptions C12_caching_miss_after_expiry.

(* The plugin's cache obeys the size bound (bytes) in every history. *)
Theorem C12_caching_size_bound :
  forall (H : Type) (hash : str -> H) (heq : H -> H -> bool),
  (forall a b, heq a b = true <-> a = b) ->
  forall conf (h : list cop),
  0 <= c_max conf ->
  let c := cexec H hash heq conf empty h in
  total (csz H) (store c) <= csize c /\ csize c <= c_max conf.
Proof.
  intros H hash heq S conf h M.
  destruct (caching_size_bound H hash heq S conf h M) as (_ & A & B). split; assumption.
Qed.
Print Assumptions C12_caching_size_bound.

(* ttl_seconds zero or negative (the configuration admits it; an omitted
   ttl_seconds is 0): a stored response is never replayed at an instant after
   the OnResponse that stored it. *)
Theorem C12_caching_nonpositive_ttl :
  forall (H : Type) (hash : str -> H) (heq : H -> H -> bool),
  (forall a b, heq a b = true <-> a = b) ->
  (forall a b, hash a = hash b -> a = b) ->
  forall conf (h : list cop) m u ps now,
  c_ttl conf <= 0 ->
  (forall id ps' v t, In (CResp id m u ps' v t) h -> t < now) ->
  snd (cstep H hash heq conf (cexec H hash heq conf empty h) (CReq m u ps now)) = CNoOp.
Proof. intros H hash heq S I. exact (caching_nonpositive_ttl H hash heq S I). Qed.
Print Assumptions C12_caching_nonpositive_ttl.

Example C12_caching_example :
  let conf := {| c_paths := [(true, [105; 100])]; c_ttl := 10; c_maxrec := 50; c_max := 400 |} in
  let r v := {| r_vid := v; r_idlen := 6%N; r_bodylen := 30%N; r_hdrlen := 20%N |} in
  let GET := [71; 69; 84] in let u := [97] in
  let h := [(CResp 0 GET u [([105; 100], [49])] (r 1) 100);
            (CResp 1 GET u [([105; 100], [49])] (r 2) 105);    (* present: not stored *)
            (CReq GET u [([105; 100], [49])] 110);
            (CReq GET u [([105; 100], [50])] 110);             (* other id *)
            (CReq GET u [([105; 100], [49])] 111)] in
  map snd (snd (run_caching_from conf empty (map (fun o => (o, (CBad, 0))) h))) = [1; 1; 1; 1; 1] /\
  map fst (snd (run_caching_from conf empty (map (fun o => (o, (CBad, 0))) h))) =
  [CDone; CDone; CEarly 1; CNoOp; CNoOp].
Proof. vm_compute. split; reflexivity. Qed.

(* ------------------------------------------------------------------ *)
(* ResponseBasedThrottlingPlugin                                       *)
(* ------------------------------------------------------------------ *)

(* An early response for (method, URL) at instant now replays a response with
   a relevant status handed to OnResponse earlier for the same method and URL.
   Relative retry-after: the replayed header is the original value minus the
   time elapsed since that OnResponse, the replay happens only while that is
   positive (so now < received + retry-after). *)
Theorem C12_retry_after :
  forall conf (h : list top) m u now vid ra',
  t_type conf = RRel ->
  snd (tstep conf (texec conf empty h) (TReq m u now)) = TEarly vid ra' ->
  exists id status ra t,
    In (TResp id m u status vid (Some ra) t) h /\
    In status (t_statuses conf) /\
    ra' = Some (ra - (now - t)) /\ 0 < ra - (now - t) /\ now <= t + ra.
Proof.
  intros conf h m u now vid ra' Ty E.
  destruct (throttle_replay conf h m u now vid ra' E) as (id & st & ra & t & A & B & C).
  rewrite Ty in C. exists id, st, ra, t. tauto.
Qed.
Print Assumptions C12_retry_after.

(* Absolute epoch (repaired code, fix-F-C12b): replay only until the
   provider's instant, header unchanged.  Undefined type: never a replay. *)
Theorem C12_throttle_absolute_epoch :
  forall conf (h : list top) m u now vid ra',
  t_type conf <> RRel ->
  snd (tstep conf (texec conf empty h) (TReq m u now)) = TEarly vid ra' ->
  t_type conf = RAbs /\
  exists id status ra t,
    In (TResp id m u status vid (Some ra) t) h /\
    In status (t_statuses conf) /\
    ra' = Some ra /\ now <= ra.
Proof.
  intros conf h m u now vid ra' Ty E.
  destruct (throttle_replay conf h m u now vid ra' E) as (id & st & ra & t & A & B & C).
  destruct (t_type conf) eqn:T; [|contradiction|contradiction].
  split; [reflexivity|]. exists id, st, ra, t. tauto.
Qed.
Print Assumptions C12_throttle_absolute_epoch.

(* A throttling response whose retry-after time is not in the future (any more)
   is not replayed, whatever sleepers did: absolute epoch, provider's instant
   < now -- including an instant that had already passed when the response
   was received (time-to-live <= 0); relative, received + retry-after <= now
   -- including every retry-after value <= 0 from the reception on. *)
Theorem C12_throttle_not_in_future_never_replayed :
  forall conf (h : list top) m u now,
  (forall id status vid ra t, In (TResp id m u status vid (Some ra) t) h ->
     match t_type conf with
     | RAbs => ra < now
     | RRel => t + ra <= now
     | RUndef => True
     end) ->
  snd (tstep conf (texec conf empty h) (TReq m u now)) = TNoOp.
Proof. exact throttle_not_in_future. Qed.
Print Assumptions C12_throttle_not_in_future_never_replayed.

(* Non-vacuity: provider's instant 90 received at 100 (time-to-live -10): never
   replayed, a later response (instant 130) takes its place. *)
Example C12_throttle_past_epoch_example :
  let conf := {| t_type := RAbs; t_statuses := [429] |} in
  let GET := [71; 69; 84] in let u := [97] in
  let h := [(TResp 0 GET u 429 1 (Some 90) 100); (TReq GET u 100); (TReq GET u 101);
            (TResp 1 GET u 429 2 (Some 130) 101); (TReq GET u 130); (TReq GET u 131)] in
  map fst (snd (run_throttle_from conf empty (map (fun o => (o, (TBad, 0))) h))) =
  [TDone; TNoOp; TNoOp; TDone; TEarly 2 (Some 130); TNoOp].
Proof. vm_compute. reflexivity. Qed.

(* Before fix-F-C12b the time-to-live was computed from the whole seconds of
   the clock: the stored response outlived the provider's instant by the
   sub-second part of the instant it was received at. *)
Theorem C12_unrepaired_epoch_outlives :
  forall ra t ttl,
  norm_ttl_unfixed RAbs ra t = Some ttl -> t + ttl = ra + t mod second.
Proof.
  intros ra t ttl. unfold norm_ttl_unfixed. intros [= <-].
  pose proof (Z.div_mod t second) as D. unfold second in *. lia.
Qed.
Print Assumptions C12_unrepaired_epoch_outlives.

Example C12_throttle_example :
  let conf := {| t_type := RRel; t_statuses := [429] |} in
  let GET := [71; 69; 84] in let u := [97] in
  let h := [(TResp 0 GET u 429 1 (Some 30) 100);
            (TReq GET u 110); (TReq GET [98] 110); (TReq GET u 129);
            (TReq GET u 130); (TReq GET u 131)] in
  map fst (snd (run_throttle_from conf empty (map (fun o => (o, (TBad, 0))) h))) =
  [TDone; TEarly 1 (Some 20); TNoOp; TEarly 1 (Some 1); TNoOp; TNoOp].
Proof. vm_compute. reflexivity. Qed.

Example C12_throttle_epoch_example :
  let conf := {| t_type := RAbs; t_statuses := [429] |} in
  let GET := [71; 69; 84] in let u := [97] in
  let h := [(TResp 0 GET u 429 1 (Some 130) 100);    (* provider: retry at instant 130 *)
            (TReq GET u 130); (TReq GET u 131)] in
  map fst (snd (run_throttle_from conf empty (map (fun o => (o, (TBad, 0))) h))) =
  [TDone; TEarly 1 (Some 130); TNoOp].
Proof. vm_compute. reflexivity. Qed.
