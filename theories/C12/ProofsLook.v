(* C12 — lemmas about look-ups at lock-region granularity (ModelLook.v). *)
From Coq Require Import List ZArith NArith Bool Lia.
From Verif Require Import C12.Model C12.Proofs C12.ModelConc C12.ProofsConc C12.ModelLook.
Import ListNotations.
Open Scope Z_scope.

(* the OnResponse call [cid] (configuration, request, response) has begun in h
   -- by an atomic Has ([LOld (FHas ..)]) or by the map read of a split Has --
   / has run the locked section of its Set with clock reading tb *)
Definition is_begin (cid : Z) conf m u ps v (o : lop) : Prop :=
  (exists t1, o = LOld (FHas cid conf m u ps v t1)) \/ o = LHasRead cid conf m u ps v.

Definition lbegun (h : list lop) cid conf m u ps v : Prop :=
  exists h1 b h2, h = h1 ++ b :: h2 /\ is_begin cid conf m u ps v b.

Definition lstored (h : list lop) cid conf m u ps v tb : Prop :=
  exists h1 b h2 h3, h = h1 ++ b :: h2 ++ LOld (FSet cid tb) :: h3 /\ is_begin cid conf m u ps v b.

Lemma lbegun_snoc h o cid conf m u ps v :
  lbegun h cid conf m u ps v -> lbegun (h ++ [o]) cid conf m u ps v.
Proof.
  intros (h1 & b & h2 & -> & B). exists h1, b, (h2 ++ [o]). split; [|exact B].
  rewrite <- app_assoc. reflexivity.
Qed.

Lemma lstored_snoc h o cid conf m u ps v tb :
  lstored h cid conf m u ps v tb -> lstored (h ++ [o]) cid conf m u ps v tb.
Proof.
  intros (h1 & b & h2 & h3 & -> & B). exists h1, b, h2, (h3 ++ [o]). split; [|exact B].
  rewrite <- app_assoc. cbn. rewrite <- app_assoc. reflexivity.
Qed.

Lemma lstored_app h h' cid conf m u ps v tb :
  lstored h cid conf m u ps v tb -> lstored (h ++ h') cid conf m u ps v tb.
Proof.
  intros (h1 & b & h2 & h3 & -> & B). exists h1, b, h2, (h3 ++ h'). split; [|exact B].
  rewrite <- app_assoc. cbn. rewrite <- app_assoc. reflexivity.
Qed.

Lemma lbegun_stored h cid conf m u ps v tb :
  lbegun h cid conf m u ps v -> lstored (h ++ [LOld (FSet cid tb)]) cid conf m u ps v tb.
Proof.
  intros (h1 & b & h2 & -> & B). exists h1, b, h2, []. split; [|exact B].
  rewrite <- app_assoc. reflexivity.
Qed.

Lemma pdel_absent {P : Type} cid (l : list (Z * P)) : pfind cid l = None -> pdel cid l = l.
Proof.
  induction l as [|[i p] r IH]; cbn; [reflexivity|].
  destruct (i =? cid); [discriminate|]. intros F. rewrite (IH F). reflexivity.
Qed.

Section LookProofs.
  Variable H : Type.
  Variable hash : str -> H.
  Variable heq : H -> H -> bool.
  Hypothesis heq_spec : forall a b, heq a b = true <-> a = b.

  Notation keq := (ckey_eqb H heq).
  Notation keq_spec := (ckey_eqb_spec H hash heq heq_spec).
  Notation lstate := (lstate H).
  Notation lstep := (lstep H hash heq).
  Notation lexec := (lexec H hash heq).
  Notation lempty := (lempty H).
  Notation lcache := (lcache H).
  Notation key_of := (key_of H hash).
  Notation fstep := (fstep H hash heq).
  Notation eval_look := (eval_look H heq).

  Lemma lexec_snoc rel (s : lstate) h o :
    lexec rel s (h ++ [o]) = fst (lstep rel (lexec rel s h) o).
  Proof. unfold ModelLook.lexec. rewrite fold_left_app. reflexivity. Qed.

  Lemma lexec_app rel (s : lstate) h1 h2 :
    lexec rel s (h1 ++ h2) = lexec rel (lexec rel s h1) h2.
  Proof. unfold ModelLook.lexec. apply fold_left_app. Qed.

  Lemma eval_look_false lim k snap t (c : ccache H) :
    fst (eval_look false lim k snap t c) = c.
  Proof.
    unfold ModelLook.eval_look. destruct snap as [e|]; [destruct (t <=? e_exp e)|]; reflexivity.
  Qed.

  Lemma eval_look_hit rel lim k snap t (c : ccache H) v :
    snd (eval_look rel lim k snap t c) = Some v ->
    exists e, snap = Some e /\ e_val e = v /\ t <= e_exp e.
  Proof.
    unfold ModelLook.eval_look. destruct snap as [e|]; [|discriminate].
    destruct (t <=? e_exp e) eqn:L; cbn; [|discriminate].
    intros [= <-]. exists e. repeat split. apply Z.leb_le. exact L.
  Qed.

  (* ---------------------------------------------------------------- *)
  (* the steps of ModelConc.v are the steps [LOld] of the code at HEAD *)
  (* ---------------------------------------------------------------- *)
  Lemma lstep_old (s : lstate) o :
    l_f (fst (lstep false s (LOld o))) = fst (fstep (l_f s) o) /\
    l_look (fst (lstep false s (LOld o))) = l_look s /\
    snd (lstep false s (LOld o)) = snd (fstep (l_f s) o).
  Proof.
    destruct s as [[c mx pd] lk].
    destruct o as [conf m u ps t|cid conf m u ps v t1|cid|cid tb|id conf m u ps].
    - cbn. unfold get, ModelLook.eval_look.
      destruct (lookup keq (key_of conf m u ps) (store c)) as [e|]; [destruct (t <=? e_exp e)|];
        cbn; repeat split; reflexivity.
    - cbn. destruct (pfind cid pd); cbn; [repeat split; reflexivity|].
      destruct (c_maxrec conf <? Z.of_N (r_bodylen v)); cbn; [repeat split; reflexivity|].
      unfold has, ModelLook.eval_look.
      destruct (lookup keq (key_of conf m u ps) (store c)) as [e|]; [destruct (t1 <=? e_exp e)|];
        cbn; repeat split; reflexivity.
    - cbn -[ModelConc.fstep]. destruct (ModelConc.fstep H hash heq _ _); cbn; repeat split; reflexivity.
    - cbn -[ModelConc.fstep]. destruct (ModelConc.fstep H hash heq _ _); cbn; repeat split; reflexivity.
    - cbn -[ModelConc.fstep]. destruct (ModelConc.fstep H hash heq _ _); cbn; repeat split; reflexivity.
  Qed.

  (* a look-up whose map read and clock reading are adjacent is the atomic
     look-up of ModelConc.v: same shared state, same answer *)
  Lemma split_req_is_atomic (s : lstate) rid conf m u ps t :
    pfind rid (l_look s) = None ->
    let r1 := lstep false s (LReqRead rid conf m u ps) in
    let r2 := lstep false (fst r1) (LReqEval rid t) in
    let answer := match snd r1 with CDone => snd r2 | x => x end in
    let s' := match snd r1 with CDone => fst r2 | _ => fst r1 end in
    answer = snd (fstep (l_f s) (FReq conf m u ps t)) /\
    l_f s' = l_f s /\ l_look s' = l_look s.
  Proof.
    intros F. destruct s as [[c mx pd] lk]. cbn in F. cbn. rewrite F.
    unfold get.
    destruct (lookup keq (key_of conf m u ps) (store c)) as [e|] eqn:L; cbn.
    - rewrite !Z.eqb_refl. cbn. rewrite ?Z.eqb_refl.
      destruct (t <=? e_exp e); cbn; rewrite ?Z.eqb_refl, (pdel_absent rid lk F); repeat split; reflexivity.
    - repeat split; reflexivity.
  Qed.

  Lemma split_has_is_atomic (s : lstate) cid conf m u ps v t1 :
    pfind cid (l_look s) = None ->
    let r1 := lstep false s (LHasRead cid conf m u ps v) in
    let r2 := lstep false (fst r1) (LHasEval cid t1) in
    let s' := if c_maxrec conf <? Z.of_N (r_bodylen v) then fst r1
              else match pfind cid (f_pend (l_f s)) with Some _ => fst r1 | None => fst r2 end in
    snd r1 = snd (fstep (l_f s) (FHas cid conf m u ps v t1)) /\
    l_f s' = fst (fstep (l_f s) (FHas cid conf m u ps v t1)) /\ l_look s' = l_look s.
  Proof.
    intros F. destruct s as [[c mx pd] lk]. cbn in F. cbn. rewrite F.
    destruct (pfind cid pd) eqn:F2; cbn.
    - destruct (c_maxrec conf <? Z.of_N (r_bodylen v)); repeat split; reflexivity.
    - destruct (c_maxrec conf <? Z.of_N (r_bodylen v)); cbn; [repeat split; reflexivity|].
      rewrite !Z.eqb_refl. cbn. rewrite ?Z.eqb_refl. unfold has.
      destruct (lookup keq (key_of conf m u ps) (store c)) as [e|]; cbn;
        [destruct (t1 <=? e_exp e); cbn|]; rewrite ?Z.eqb_refl, (pdel_absent cid lk F);
        repeat split; reflexivity.
  Qed.

  (* ---------------------------------------------------------------- *)
  (* steps of other look-ups leave a pending look-up alone             *)
  (* ---------------------------------------------------------------- *)
  Lemma look_preserved rel (s : lstate) o id :
    look_id id o = false ->
    pfind id (l_look (fst (lstep rel s o))) = pfind id (l_look s).
  Proof.
    intros N. destruct o as [o|rid conf m u ps|rid t|cid conf m u ps v|cid t1]; cbn in N.
    - destruct o as [conf m u ps t|cid conf m u ps v t1|cid|cid tb|id' conf m u ps].
      + cbn. destruct (eval_look _ _ _ _ _ _); reflexivity.
      + cbn. destruct (pfind cid (f_pend (l_f s))); [reflexivity|].
        destruct (c_maxrec conf <? Z.of_N (r_bodylen v)); [reflexivity|].
        destruct (eval_look _ _ _ _ _ _) as [c' [x|]]; reflexivity.
      + cbn -[ModelConc.fstep]. destruct (ModelConc.fstep H hash heq _ _); reflexivity.
      + cbn -[ModelConc.fstep]. destruct (ModelConc.fstep H hash heq _ _); reflexivity.
      + cbn -[ModelConc.fstep]. destruct (ModelConc.fstep H hash heq _ _); reflexivity.
    - cbn. destruct (pfind rid (l_look s)); [reflexivity|].
      destruct (lookup keq _ _); [|reflexivity]. cbn. rewrite N. reflexivity.
    - cbn. destruct (pfind rid (l_look s)) as [lk|] eqn:F; [|reflexivity].
      destruct (lk_call lk); [reflexivity|].
      destruct (eval_look _ _ _ _ _ _). cbn.
      apply pfind_pdel_neq. intros ->. rewrite Z.eqb_refl in N. discriminate.
    - cbn. destruct (pfind cid (l_look s)); [reflexivity|].
      destruct (pfind cid (f_pend (l_f s))); [reflexivity|].
      destruct (c_maxrec conf <? Z.of_N (r_bodylen v)); [reflexivity|]. cbn. rewrite N. reflexivity.
    - cbn. destruct (pfind cid (l_look s)) as [lk|] eqn:F; [|reflexivity].
      destruct (lk_call lk) as [[[v ttl] mx]|]; [|reflexivity].
      destruct (eval_look _ _ _ _ _ _) as [c' [x|]]; cbn;
        apply pfind_pdel_neq; intros ->; rewrite Z.eqb_refl in N; discriminate.
  Qed.

  Lemma look_preserved_exec rel h : forall (s : lstate) id,
    forallb (fun o => negb (look_id id o)) h = true ->
    pfind id (l_look (lexec rel s h)) = pfind id (l_look s).
  Proof.
    induction h as [|o h IH]; intros s id F; [reflexivity|].
    cbn in F. apply andb_true_iff in F. destruct F as (F1 & F2).
    apply negb_true_iff in F1.
    change (lexec rel s (o :: h)) with (lexec rel (fst (lstep rel s o)) h).
    rewrite (IH _ _ F2). apply look_preserved. exact F1.
  Qed.

  (* ---------------------------------------------------------------- *)
  (* size                                                              *)
  (* ---------------------------------------------------------------- *)
  Definition lmax_le (M : Z) (o : lop) : Prop :=
    match o with
    | LOld o' => fmax_le M o'
    | LHasRead _ conf _ _ _ _ => c_max conf <= M
    | _ => True
    end.

  Definition lsize_inv (M : Z) (s : lstate) : Prop :=
    fsize_inv H M (l_f s) /\
    (forall cid lk v ttl mx, pfind cid (l_look s) = Some lk -> lk_call lk = Some (v, ttl, mx) -> mx <= M).

  Lemma fsize_inv_eta M (f : fstate H) :
    fsize_inv H M f -> fsize_inv H M {| f_cache := f_cache f; f_max := f_max f; f_pend := f_pend f |}.
  Proof. destruct f; exact (fun x => x). Qed.

  Lemma lstep_size_inv M (s : lstate) o :
    lmax_le M o -> lsize_inv M s -> lsize_inv M (fst (lstep false s o)).
  Proof.
    intros Le (I & Lk).
    destruct o as [o|rid conf m u ps|rid t|cid conf m u ps v|cid t1].
    - destruct (lstep_old s o) as (A & B & _). split.
      + rewrite A. apply (fstep_size_inv H hash heq heq_spec); assumption.
      + rewrite B. exact Lk.
    - cbn. destruct (pfind rid (l_look s)); [split; assumption|].
      destruct (lookup keq _ _); [|split; assumption]. cbn. split; [exact I|].
      intros cid lk v ttl mx F C. cbn in F. destruct (rid =? cid).
      + injection F as <-. discriminate.
      + exact (Lk _ _ _ _ _ F C).
    - cbn. destruct (pfind rid (l_look s)) as [lk|] eqn:F; [|split; assumption].
      destruct (lk_call lk); [split; assumption|].
      pose proof (eval_look_false (f_max (l_f s)) (lk_key lk) (lk_snap lk) t (f_cache (l_f s))) as E.
      destruct (eval_look _ _ _ _ _ _) as [c' r]. cbn in E. subst c'. cbn. split.
      + apply fsize_inv_eta. exact I.
      + intros cid lk' v ttl mx F' C. apply pfind_pdel_some in F'. destruct F' as (_ & F').
        exact (Lk _ _ _ _ _ F' C).
    - cbn. destruct (pfind cid (l_look s)); [split; assumption|].
      destruct (pfind cid (f_pend (l_f s))); [split; assumption|].
      destruct (c_maxrec conf <? Z.of_N (r_bodylen v)); [split; assumption|]. cbn. split; [exact I|].
      intros cid' lk v' ttl mx F C. cbn in F. destruct (cid =? cid').
      + injection F as <-. cbn in C. injection C as <- <- <-. exact Le.
      + exact (Lk _ _ _ _ _ F C).
    - cbn. destruct (pfind cid (l_look s)) as [lk|] eqn:F; [|split; assumption].
      destruct (lk_call lk) as [[[v ttl] mx]|] eqn:C; [|split; assumption].
      pose proof (eval_look_false (f_max (l_f s)) (lk_key lk) (lk_snap lk) t1 (f_cache (l_f s))) as E.
      destruct (eval_look _ _ _ _ _ _) as [c' r]. cbn in E. subst c'.
      assert (Lk' : forall cid' lk' v' ttl' mx', pfind cid' (pdel cid (l_look s)) = Some lk' ->
                      lk_call lk' = Some (v', ttl', mx') -> mx' <= M).
      { intros cid' lk' v' ttl' mx' F' C'. apply pfind_pdel_some in F'. destruct F' as (_ & F').
        exact (Lk _ _ _ _ _ F' C'). }
      destruct r as [x|]; cbn; (split; [|exact Lk']).
      + apply fsize_inv_eta. exact I.
      + destruct I as (I1 & I2 & I3). split; [exact I1|]. split; [exact I2|].
        intros cid' p F'. cbn in F'. destruct (cid =? cid').
        * injection F' as <-. cbn. split; [exact (Lk _ _ _ _ _ F C)|discriminate].
        * exact (I3 cid' p F').
  Qed.

  Theorem look_size_bound M h :
    0 <= M -> Forall (lmax_le M) h -> lsize_inv M (lexec false lempty h).
  Proof.
    intros P. induction h as [|o h IH] using rev_ind; intros F.
    - split.
      + split; [|split].
        * unfold size_inv. cbn. repeat split; [constructor|lia|lia].
        * intros mx E. cbn in E. discriminate.
        * intros cid p E. cbn in E. discriminate.
      + intros cid lk v ttl mx E. cbn in E. discriminate.
    - rewrite lexec_snoc. apply Forall_app in F. destruct F as (F1 & F2).
      inversion F2; subst. apply lstep_size_inv; [assumption|apply IH; assumption].
  Qed.

  (* ---- the reader-side release when map read, expiry test and release are
     adjacent (no other caller in between): it releases the entry that IS
     stored, i.e. it is clearKey, and the bound survives ---- *)
  Lemma release_is_clear lim k e (c : ccache H) :
    lookup keq k (store c) = Some e -> release H heq lim k e c = clear keq (csz H) lim k c.
  Proof. intros L. unfold release, clear. rewrite L. destruct lim; reflexivity. Qed.

  Lemma eval_look_atomic_size M rel lim k t (c : ccache H) :
    size_inv _ _ (csz H) M c ->
    size_inv _ _ (csz H) M (fst (eval_look rel lim k (lookup keq k (store c)) t c)).
  Proof.
    intros I. unfold ModelLook.eval_look.
    destruct (lookup keq k (store c)) as [e|] eqn:L; [|exact I].
    destruct (t <=? e_exp e); [exact I|]. destruct rel; [|exact I]. cbn [fst].
    rewrite (release_is_clear _ _ _ _ L).
    apply (clear_size_inv_gen _ _ keq (csz H) keq_spec (csz_nonneg H)). exact I.
  Qed.

  Lemma lstep_atomic_size_inv M rel (s : lstate) o :
    fmax_le M o -> lsize_inv M s -> lsize_inv M (fst (lstep rel s (LOld o))).
  Proof.
    intros Le ((I & Mx & Pd) & Lk).
    destruct o as [conf m u ps t|cid conf m u ps v t1|cid|cid tb|id conf m u ps].
    - cbn.
      pose proof (eval_look_atomic_size M rel (f_max (l_f s)) (key_of conf m u ps) t (f_cache (l_f s)) I) as G.
      destruct (eval_look _ _ _ _ _ _) as [c' r]. cbn in G |- *.
      split; [|exact Lk]. split; [exact G|split; [exact Mx|exact Pd]].
    - cbn. destruct (pfind cid (f_pend (l_f s))) eqn:F0; [exact (conj (conj I (conj Mx Pd)) Lk)|].
      destruct (c_maxrec conf <? Z.of_N (r_bodylen v)); [exact (conj (conj I (conj Mx Pd)) Lk)|].
      pose proof (eval_look_atomic_size M rel (f_max (l_f s)) (key_of conf m u ps) t1 (f_cache (l_f s)) I) as G.
      destruct (eval_look _ _ _ _ _ _) as [c' [x|]]; cbn in G |- *.
      + split; [|exact Lk]. split; [exact G|split; [exact Mx|exact Pd]].
      + split; [|exact Lk]. split; [exact G|split; [exact Mx|]].
        intros cid' p F. cbn in F. destruct (cid =? cid').
        * injection F as <-. cbn. split; [exact Le|discriminate].
        * exact (Pd cid' p F).
    - exact (lstep_size_inv M s (LOld (FLim cid)) Le (conj (conj I (conj Mx Pd)) Lk)).
    - exact (lstep_size_inv M s (LOld (FSet cid tb)) Le (conj (conj I (conj Mx Pd)) Lk)).
    - exact (lstep_size_inv M s (LOld (FFire id conf m u ps)) Le (conj (conj I (conj Mx Pd)) Lk)).
  Qed.

  Theorem look_size_bound_atomic_release M rel (h : list fop) :
    0 <= M -> Forall (fmax_le M) h -> lsize_inv M (lexec rel lempty (map LOld h)).
  Proof.
    intros P. induction h as [|o h IH] using rev_ind; intros F.
    - exact (look_size_bound M [] P (Forall_nil _)).
    - rewrite map_app. cbn [map]. rewrite lexec_snoc. apply Forall_app in F. destruct F as (F1 & F2).
      inversion F2; subst. apply lstep_atomic_size_inv; [assumption|apply IH; assumption].
  Qed.

  (* ---------------------------------------------------------------- *)
  (* what is stored / in flight comes from the history                 *)
  (* ---------------------------------------------------------------- *)
  Definition linv' (h : list lop) (pd : list (Z * pend H)) (st : list (ckey H * entry cresp))
             (lk : list (Z * look H)) : Prop :=
    (forall cid p, pfind cid pd = Some p ->
       exists conf m u ps,
         lbegun h cid conf m u ps (p_val p) /\
         p_key p = key_of conf m u ps /\ p_ttl p = c_ttl conf /\
         Z.of_N (r_bodylen (p_val p)) <= c_maxrec conf) /\
    (forall k e, lookup keq k st = Some e ->
       exists cid conf m u ps tb,
         lstored h cid conf m u ps (e_val e) tb /\
         k = key_of conf m u ps /\ e_exp e = tb + c_ttl conf /\
         Z.of_N (r_bodylen (e_val e)) <= c_maxrec conf) /\
    (forall cid l v ttl mx, pfind cid lk = Some l -> lk_call l = Some (v, ttl, mx) ->
       exists conf m u ps,
         lbegun h cid conf m u ps v /\
         lk_key l = key_of conf m u ps /\ ttl = c_ttl conf /\
         Z.of_N (r_bodylen v) <= c_maxrec conf).

  Definition linv (h : list lop) (s : lstate) : Prop :=
    linv' h (f_pend (l_f s)) (store (lcache s)) (l_look s).

  Lemma linv_mono h o pd st lk : linv' h pd st lk -> linv' (h ++ [o]) pd st lk.
  Proof.
    intros (A & B & C). split; [|split].
    - intros cid p F. destruct (A cid p F) as (conf & m & u & ps & Bg & R).
      exists conf, m, u, ps. split; [apply lbegun_snoc; exact Bg|exact R].
    - intros k e L. destruct (B k e L) as (cid & conf & m & u & ps & tb & St & R).
      exists cid, conf, m, u, ps, tb. split; [apply lstored_snoc; exact St|exact R].
    - intros cid l v ttl mx F Cl. destruct (C cid l v ttl mx F Cl) as (conf & m & u & ps & Bg & R).
      exists conf, m, u, ps. split; [apply lbegun_snoc; exact Bg|exact R].
  Qed.

  Lemma linv_all h : linv h (lexec false lempty h).
  Proof.
    unfold linv. induction h as [|o h IH] using rev_ind.
    - split; [|split]; intros; cbn in *; discriminate.
    - rewrite lexec_snoc. set (s := lexec false lempty h) in *.
      pose proof (linv_mono h o _ _ _ IH) as (A & B & C).
      destruct o as [o|rid conf m u ps|rid t|cid conf m u ps v|cid t1].
      + destruct o as [conf m u ps t|cid conf m u ps v t1|cid|cid tb|id conf m u ps].
        * (* atomic Get *)
          cbn.
          pose proof (eval_look_false (f_max (l_f s)) (key_of conf m u ps)
                        (lookup keq (key_of conf m u ps) (store (f_cache (l_f s)))) t (f_cache (l_f s))) as E.
          destruct (eval_look _ _ _ _ _ _) as [c' r]. cbn in E. subst c'. cbn.
          split; [exact A|split; [exact B|exact C]].
        * (* atomic Has *)
          cbn. destruct (pfind cid (f_pend (l_f s))) eqn:F0; [split; [exact A|split; [exact B|exact C]]|].
          destruct (c_maxrec conf <? Z.of_N (r_bodylen v)) eqn:Big; [split; [exact A|split; [exact B|exact C]]|].
          pose proof (eval_look_false (f_max (l_f s)) (key_of conf m u ps)
                        (lookup keq (key_of conf m u ps) (store (f_cache (l_f s)))) t1 (f_cache (l_f s))) as E.
          destruct (eval_look _ _ _ _ _ _) as [c' r]. cbn in E. subst c'.
          destruct r as [x|]; cbn; [split; [exact A|split; [exact B|exact C]]|].
          split; [|split; [exact B|exact C]].
          intros cid' p F. cbn in F. destruct (cid =? cid') eqn:E.
          -- apply Z.eqb_eq in E. subst cid'. injection F as <-. cbn.
             exists conf, m, u, ps. repeat split.
             ++ exists h, (LOld (FHas cid conf m u ps v t1)), []. split; [reflexivity|].
                left. exists t1. reflexivity.
             ++ apply Z.ltb_ge in Big. exact Big.
          -- exact (A cid' p F).
        * (* WithMaxCacheSize *)
          cbn. destruct (pfind cid (f_pend (l_f s))) as [p|] eqn:F0; cbn;
            [|split; [exact A|split; [exact B|exact C]]].
          destruct (p_lim p) eqn:Lm; cbn; [split; [exact A|split; [exact B|exact C]]|].
          split; [|split; [exact B|exact C]].
          intros cid' p' F. cbn in F. destruct (cid =? cid') eqn:E.
          -- apply Z.eqb_eq in E. subst cid'. injection F as <-. cbn. exact (A cid p F0).
          -- apply pfind_pdel_some in F. destruct F as (_ & F). exact (A cid' p' F).
        * (* locked section of Set *)
          cbn -[set_]. destruct (pfind cid (f_pend (l_f s))) as [p|] eqn:F0; cbn -[set_];
            [|split; [exact A|split; [exact B|exact C]]].
          destruct (p_lim p) eqn:Lm; cbn -[set_]; [|split; [exact A|split; [exact B|exact C]]].
          split; [|split; [|exact C]].
          -- intros cid' p' F. apply pfind_pdel_some in F. destruct F as (_ & F). exact (A cid' p' F).
          -- destruct (set_ keq (csz H) (f_max (l_f s)) cid (p_key p) (p_val p) (p_ttl p) tb (f_cache (l_f s)))
               as [c1 ok] eqn:E. cbn.
             destruct ok; [|apply set_refused in E; subst; exact B].
             apply set_ok in E. destruct E as (S & _).
             intros k e L. rewrite S in L.
             destruct (keq_dec _ _ keq_spec k (p_key p)) as [->|N].
             ++ rewrite (lookup_upd_eq _ _ _ keq_spec) in L. injection L as <-.
                destruct IH as (A0 & _).
                destruct (A0 cid p F0) as (conf & m & u & ps & Bg & Kq & Tq & Bd).
                exists cid, conf, m, u, ps, tb. cbn [e_val e_exp]. repeat split.
                ** apply lbegun_stored. exact Bg.
                ** exact Kq.
                ** rewrite Tq. reflexivity.
                ** exact Bd.
             ++ rewrite (lookup_upd_neq _ _ _ keq_spec) in L by assumption. exact (B k e L).
        * (* sleeper *)
          cbn [ModelLook.lstep ModelConc.fstep step l_f].
          destruct (take_sleeper keq id (key_of conf m u ps) (sleepers (f_cache (l_f s)))) as [r|]; cbn;
            [|split; [exact A|split; [exact B|exact C]]].
          split; [exact A|split; [|exact C]].
          intros k e L.
          destruct (keq_dec _ _ keq_spec k (key_of conf m u ps)) as [->|N].
          -- rewrite (lookup_remove_eq _ _ keq) in L. discriminate.
          -- rewrite (lookup_remove_neq _ _ _ keq_spec) in L by assumption. exact (B k e L).
      + (* map read of Get *)
        cbn. destruct (pfind rid (l_look s)); [split; [exact A|split; [exact B|exact C]]|].
        destruct (lookup keq _ _); [|split; [exact A|split; [exact B|exact C]]]. cbn.
        split; [exact A|split; [exact B|]].
        intros cid l v ttl mx F Cl. cbn in F. destruct (rid =? cid).
        * injection F as <-. discriminate.
        * exact (C _ _ _ _ _ F Cl).
      + (* clock reading of Get *)
        cbn. destruct (pfind rid (l_look s)) as [lk|] eqn:F; [|split; [exact A|split; [exact B|exact C]]].
        destruct (lk_call lk); [split; [exact A|split; [exact B|exact C]]|].
        pose proof (eval_look_false (f_max (l_f s)) (lk_key lk) (lk_snap lk) t (f_cache (l_f s))) as E.
        destruct (eval_look _ _ _ _ _ _) as [c' r]. cbn in E. subst c'. cbn.
        split; [exact A|split; [exact B|]].
        intros cid l v ttl mx F' Cl. apply pfind_pdel_some in F'. destruct F' as (_ & F').
        exact (C _ _ _ _ _ F' Cl).
      + (* map read of Has *)
        cbn. destruct (pfind cid (l_look s)); [split; [exact A|split; [exact B|exact C]]|].
        destruct (pfind cid (f_pend (l_f s))); [split; [exact A|split; [exact B|exact C]]|].
        destruct (c_maxrec conf <? Z.of_N (r_bodylen v)) eqn:Big; [split; [exact A|split; [exact B|exact C]]|].
        cbn. split; [exact A|split; [exact B|]].
        intros cid' l v' ttl mx F Cl. cbn in F. destruct (cid =? cid') eqn:E.
        * apply Z.eqb_eq in E. subst cid'. injection F as <-. cbn in Cl. injection Cl as <- <- <-. cbn.
          exists conf, m, u, ps. repeat split.
          -- exists h, (LHasRead cid conf m u ps v), []. split; [reflexivity|]. right. reflexivity.
          -- apply Z.ltb_ge in Big. exact Big.
        * exact (C _ _ _ _ _ F Cl).
      + (* clock reading of Has *)
        cbn. destruct (pfind cid (l_look s)) as [lk|] eqn:F; [|split; [exact A|split; [exact B|exact C]]].
        destruct (lk_call lk) as [[[v ttl] mx]|] eqn:Cl; [|split; [exact A|split; [exact B|exact C]]].
        pose proof (eval_look_false (f_max (l_f s)) (lk_key lk) (lk_snap lk) t1 (f_cache (l_f s))) as E.
        destruct (eval_look _ _ _ _ _ _) as [c' r]. cbn in E. subst c'.
        assert (C' : forall cid' l v' ttl' mx', pfind cid' (pdel cid (l_look s)) = Some l ->
                       lk_call l = Some (v', ttl', mx') ->
                       exists conf m u ps,
                         lbegun (h ++ [LHasEval cid t1]) cid' conf m u ps v' /\
                         lk_key l = key_of conf m u ps /\ ttl' = c_ttl conf /\
                         Z.of_N (r_bodylen v') <= c_maxrec conf).
        { intros cid' l v' ttl' mx' F' Cl'. apply pfind_pdel_some in F'. destruct F' as (_ & F').
          exact (C _ _ _ _ _ F' Cl'). }
        destruct r as [x|]; cbn; [split; [exact A|split; [exact B|exact C']]|].
        split; [|split; [exact B|exact C']].
        intros cid' p F'. cbn in F'. destruct (cid =? cid') eqn:E.
        * apply Z.eqb_eq in E. subst cid'. injection F' as <-. cbn.
          destruct (C _ _ _ _ _ F Cl) as (conf & m & u & ps & Bg & Kq & Tq & Bd).
          exists conf, m, u, ps. repeat split; assumption.
        * exact (A cid' p F').
  Qed.

  (* ---------------------------------------------------------------- *)
  (* freshness / same key for a look-up that is stopped between its    *)
  (* map read and its clock reading                                    *)
  (* ---------------------------------------------------------------- *)
  Hypothesis hash_inj : forall a b, hash a = hash b -> a = b.

  (* the look-up [rid] after its map read (which found an entry) and any steps
     of OTHER look-ups/calls: it still holds the entry that was stored when it
     read the map *)
  Lemma look_pending rel h rid conf m u ps h2 :
    snd (lstep rel (lexec rel lempty h) (LReqRead rid conf m u ps)) = CDone ->
    forallb (fun o => negb (look_id rid o)) h2 = true ->
    exists e,
      lookup keq (key_of conf m u ps) (store (lcache (lexec rel lempty h))) = Some e /\
      pfind rid (l_look (lexec rel lempty (h ++ LReqRead rid conf m u ps :: h2))) =
      Some {| lk_key := key_of conf m u ps; lk_snap := Some e; lk_call := None |}.
  Proof.
    intros R O. rewrite lexec_app. cbn [ModelLook.lexec fold_left].
    fold (lexec rel (fst (lstep rel (lexec rel lempty h) (LReqRead rid conf m u ps))) h2).
    rewrite (look_preserved_exec rel h2 _ rid O).
    set (s := lexec rel lempty h) in *. cbn in R |- *.
    destruct (pfind rid (l_look s)); [discriminate|].
    unfold ModelLook.lcache.
    destruct (lookup keq (key_of conf m u ps) (store (f_cache (l_f s)))) as [e|]; [|discriminate].
    exists e. split; [reflexivity|]. cbn. rewrite Z.eqb_refl. reflexivity.
  Qed.

  Theorem look_replay h rid conf m u ps h2 now vid :
    snd (lstep false (lexec false lempty h) (LReqRead rid conf m u ps)) = CDone ->
    forallb (fun o => negb (look_id rid o)) h2 = true ->
    snd (lstep false (lexec false lempty (h ++ LReqRead rid conf m u ps :: h2)) (LReqEval rid now)) = CEarly vid ->
    exists cid conf' ps' v tb,
      lstored h cid conf' m u ps' v tb /\ r_vid v = vid /\
      joined (c_paths conf') ps' = joined (c_paths conf) ps /\
      now <= tb + c_ttl conf' /\
      Z.of_N (r_bodylen v) <= c_maxrec conf'.
  Proof.
    intros R O E.
    destruct (look_pending false h rid conf m u ps h2 R O) as (e & L & P).
    set (s2 := lexec false lempty (h ++ LReqRead rid conf m u ps :: h2)) in *.
    cbn in E. rewrite P in E. cbn in E.
    unfold ModelLook.eval_look in E. destruct (now <=? e_exp e) eqn:Fr; cbn in E; [|discriminate].
    injection E as <-. apply Z.leb_le in Fr.
    destruct (linv_all h) as (_ & B & _).
    destruct (B _ _ L) as (cid & conf' & m' & u' & ps' & tb & St & Kq & X & Bd).
    unfold Model.key_of in Kq. injection Kq as -> -> Hq. apply hash_inj in Hq.
    exists cid, conf', ps', (e_val e), tb. repeat split; try assumption; [symmetry; exact Hq|lia].
  Qed.

  Lemma look_eval_out rel h rid conf m u ps h2 now :
    snd (lstep rel (lexec rel lempty h) (LReqRead rid conf m u ps)) = CDone ->
    forallb (fun o => negb (look_id rid o)) h2 = true ->
    let x := snd (lstep rel (lexec rel lempty (h ++ LReqRead rid conf m u ps :: h2)) (LReqEval rid now)) in
    x = CNoOp \/ exists vid, x = CEarly vid.
  Proof.
    intros R O.
    destruct (look_pending rel h rid conf m u ps h2 R O) as (e & L & P).
    cbn. rewrite P. cbn. unfold ModelLook.eval_look. destruct (now <=? e_exp e); cbn.
    - right. exists (r_vid (e_val e)). reflexivity.
    - left. reflexivity.
  Qed.

  Theorem look_miss_after_expiry h rid conf m u ps h2 now :
    snd (lstep false (lexec false lempty h) (LReqRead rid conf m u ps)) = CDone ->
    forallb (fun o => negb (look_id rid o)) h2 = true ->
    (forall cid conf' ps' v tb,
       lstored h cid conf' m u ps' v tb ->
       joined (c_paths conf') ps' = joined (c_paths conf) ps ->
       tb + c_ttl conf' < now) ->
    snd (lstep false (lexec false lempty (h ++ LReqRead rid conf m u ps :: h2)) (LReqEval rid now)) = CNoOp.
  Proof.
    intros R O A.
    destruct (look_eval_out false h rid conf m u ps h2 now R O) as [E|[vid E]]; [exact E|].
    exfalso. destruct (look_replay h rid conf m u ps h2 now vid R O E)
      as (cid & conf' & ps' & v & tb & St & _ & J & Fr & _).
    specialize (A _ _ _ _ _ St J). lia.
  Qed.

  (* a map read that finds nothing answers at once, without a clock reading *)
  Lemma look_absent rel (s : lstate) rid conf m u ps :
    snd (lstep rel s (LReqRead rid conf m u ps)) = CNoOp -> fst (lstep rel s (LReqRead rid conf m u ps)) = s.
  Proof.
    cbn. destruct (pfind rid (l_look s)); [discriminate|].
    destruct (lookup keq _ _); [discriminate|reflexivity].
  Qed.
End LookProofs.
