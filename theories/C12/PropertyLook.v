(* C12 — look-ups at lock-region granularity: final statements.
   Model: ModelLook.v; proofs: ProofsLook.v.

   PropertyConc.v quantifies over all interleavings of the pieces of plugin
   calls but a look-up (Get of OnRequest, Has of OnResponse) is one step
   there.  In the code a look-up is a map read under the read lock followed by
   a clock reading and the expiry test with NO lock held.  Here a history is
   any list of
     LOld o                      a step of ModelConc.v (its look-ups atomic)
     LReqRead rid conf m u ps    OnRequest: Get's map read (the reader keeps a copy of the entry)
     LReqEval rid t              ... its clock reading t and the expiry test on that copy
     LHasRead cid conf m u ps v  OnResponse: record-size test + Has's map read
     LHasEval cid t1             ... its clock reading; "absent/expired" => the call goes on (FLim, FSet)
   i.e. every interleaving of look-ups, stores and sleepers at lock-region
   granularity, arbitrary clock readings.  [lstep false] is the code at HEAD
   (a look-up writes nothing: an expired entry that is still present keeps
   its share of the size account until a sleeper / Del / Set removes it);
   [lstep true] is the variant in which the look-up that finds its copy
   expired subtracts the copy's size and deletes the key under the write lock
   without looking the key up again (seeded/C12-7). *)
From Coq Require Import List ZArith NArith Bool Lia.
From Verif Require Import C12.Model C12.Proofs C12.ModelConc C12.ProofsConc C12.ModelLook C12.ProofsLook.
Import ListNotations.
Open Scope Z_scope.

(* Clause 6 ("the cache never holds more than its configured size"), the code
   at HEAD, ALL interleavings of look-ups, sleepers and stores at lock-region
   granularity, all configurations: keys unique, the sizes of the entries held
   add up to at most the size counter, which is at most the largest
   max_cache_size any call was configured with. *)
Theorem C12_look_size_bound_all_interleavings :
  forall (H : Type) (hash : str -> H) (heq : H -> H -> bool),
  (forall a b, heq a b = true <-> a = b) ->
  forall M (h : list lop), 0 <= M ->
  Forall (fun o => match o with
                   | LOld (FHas _ conf _ _ _ _ _) => c_max conf <= M
                   | LHasRead _ conf _ _ _ _ => c_max conf <= M
                   | _ => True
                   end) h ->
  let c := lcache H (lexec H hash heq false (lempty H) h) in
  NoDup (map fst (store c)) /\ total (csz H) (store c) <= csize c /\ csize c <= M.
Proof.
  intros H hash heq S M h P F.
  assert (F' : Forall (lmax_le M) h).
  { eapply Forall_impl; [|exact F]. intros [[]| | | |]; cbn; trivial. }
  destruct (look_size_bound H hash heq S M h P F') as ((A & _) & _). exact A.
Qed.
Print Assumptions C12_look_size_bound_all_interleavings.

(* The same statement for the variant with the reader-side release ... *)
Definition C12_look_size_bound_reader_release : Prop :=
  forall (H : Type) (hash : str -> H) (heq : H -> H -> bool),
  (forall a b, heq a b = true <-> a = b) ->
  forall M (h : list lop), 0 <= M ->
  Forall (fun o => match o with
                   | LOld (FHas _ conf _ _ _ _ _) => c_max conf <= M
                   | LHasRead _ conf _ _ _ _ => c_max conf <= M
                   | _ => True
                   end) h ->
  total (csz H) (store (lcache H (lexec H hash heq true (lempty H) h))) <= M.

(* ... is FALSE (even in its weakest form: "the entries held add up to at most
   the maximum"): one configuration, maximum 250, entries of size 100.  A is
   stored at 0 with ttl 10; at 11 two requests for A have both read the map
   (the sleeper has not run); each finds its copy expired and subtracts 100:
   the counter is -100 with nothing stored; three further responses are then
   admitted (-100 -> 0 -> 100 -> 200 <= 250): 300 held. *)
Definition C12_look_release_witness : list lop :=
  let cf := {| c_paths := []; c_ttl := 10; c_maxrec := 50; c_max := 250 |} in
  let r v := {| r_vid := v; r_idlen := 0%N; r_bodylen := 22%N; r_hdrlen := 0%N |} in
  let G := [71] in
  [LOld (FHas 0 cf G [97] [] (r 0) 0); LOld (FLim 0); LOld (FSet 0 0);
   LReqRead 1 cf G [97] []; LReqRead 2 cf G [97] [];
   LReqEval 1 11; LReqEval 2 11;
   LOld (FHas 3 cf G [98] [] (r 3) 11); LOld (FLim 3); LOld (FSet 3 11);
   LOld (FHas 4 cf G [99] [] (r 4) 11); LOld (FLim 4); LOld (FSet 4 11);
   LOld (FHas 5 cf G [100] [] (r 5) 11); LOld (FLim 5); LOld (FSet 5 11)].

Theorem C12_look_size_bound_reader_release_refuted : ~ C12_look_size_bound_reader_release.
Proof.
  intros A.
  specialize (A str (fun a => a) str_eqb str_eqb_spec 250 C12_look_release_witness).
  assert (P : 0 <= 250) by lia. specialize (A P). clear P.
  assert (F : Forall (fun o => match o with
                   | LOld (FHas _ conf _ _ _ _ _) => c_max conf <= 250
                   | LHasRead _ conf _ _ _ _ => c_max conf <= 250
                   | _ => True
                   end) C12_look_release_witness).
  { unfold C12_look_release_witness. repeat constructor; cbn; lia. }
  specialize (A F). clear F.
  vm_compute in A. apply A. reflexivity.
Qed.
Print Assumptions C12_look_size_bound_reader_release_refuted.

(* What makes the variant fail is the interleaving, not the release as such:
   when map read, expiry test and release of every look-up are adjacent (all
   look-ups atomic: histories of ModelConc.v), the copy released IS the entry
   stored, the release is clearKey, and the bound holds with or without it. *)
Theorem C12_look_size_bound_reader_release_atomic :
  forall (H : Type) (hash : str -> H) (heq : H -> H -> bool),
  (forall a b, heq a b = true <-> a = b) ->
  forall rel M (h : list fop), 0 <= M ->
  Forall (fun o => match o with FHas _ conf _ _ _ _ _ => c_max conf <= M | _ => True end) h ->
  let c := lcache H (lexec H hash heq rel (lempty H) (map LOld h)) in
  NoDup (map fst (store c)) /\ total (csz H) (store c) <= csize c /\ csize c <= M.
Proof.
  intros H hash heq S rel M h P F.
  destruct (look_size_bound_atomic_release H hash heq S M rel h P F) as ((A & _) & _). exact A.
Qed.
Print Assumptions C12_look_size_bound_reader_release_atomic.

(* Clauses 1 and 3 for a request whose Get is stopped between its map read
   and its clock reading, the code at HEAD: the request reads the map after
   the history h (and finds an entry: CDone = in flight), ANY steps h2 of other
   look-ups, calls and sleepers follow (Sets and sleepers of its own key
   included), then it reads the clock ([now]).  If it answers from memory, the
   response was stored BEFORE its map read (in h) by an OnResponse call for
   the same method, URL and hashed string, within that call's record limit,
   and now <= (clock reading of that Set) + the storing configuration's ttl.
   For clean names/values the same hashed string means the same selected
   pairs (F-C12d outside). *)
Theorem C12_look_replay_same_request_fresh :
  forall (H : Type) (hash : str -> H) (heq : H -> H -> bool),
  (forall a b, heq a b = true <-> a = b) ->
  (forall a b, hash a = hash b -> a = b) ->
  forall (h : list lop) rid conf m u ps (h2 : list lop) now vid,
  snd (lstep H hash heq false (lexec H hash heq false (lempty H) h) (LReqRead rid conf m u ps)) = CDone ->
  forallb (fun o => negb (look_id rid o)) h2 = true ->
  snd (lstep H hash heq false (lexec H hash heq false (lempty H) (h ++ LReqRead rid conf m u ps :: h2))
             (LReqEval rid now)) = CEarly vid ->
  exists cid conf' ps' v tb,
    lstored h cid conf' m u ps' v tb /\ r_vid v = vid /\
    joined (c_paths conf') ps' = joined (c_paths conf) ps /\
    now <= tb + c_ttl conf' /\
    Z.of_N (r_bodylen v) <= c_maxrec conf' /\
    (forallb clean_pairb (selected (c_paths conf) ps) &&
     forallb clean_pairb (selected (c_paths conf') ps') = true ->
     selected (c_paths conf') ps' = selected (c_paths conf) ps).
Proof.
  intros H hash heq S I h rid conf m u ps h2 now vid R O E.
  destruct (look_replay H hash heq S I h rid conf m u ps h2 now vid R O E)
    as (cid & conf' & ps' & v & tb & A & B & C & D & F).
  exists cid, conf', ps', v, tb. repeat split; try assumption.
  intros Cl. apply andb_true_iff in Cl. destruct Cl as (C1 & C2).
  apply joined_inj2; [apply clean_all_spec; exact C2|apply clean_all_spec; exact C1|exact C].
Qed.
Print Assumptions C12_look_replay_same_request_fresh.

(* Clause 4 for such a request: once the time-to-live of every call that had
   stored for its key before its map read has passed at its clock reading, it
   goes to the provider -- whatever ran between the map read and the clock
   reading (a Set of the key in between is not seen: the request holds its
   copy), whatever sleepers did.  A map read that finds nothing answers NoOp
   at once ([LReqRead] = CNoOp, no clock reading). *)
Theorem C12_look_miss_after_expiry :
  forall (H : Type) (hash : str -> H) (heq : H -> H -> bool),
  (forall a b, heq a b = true <-> a = b) ->
  (forall a b, hash a = hash b -> a = b) ->
  forall (h : list lop) rid conf m u ps (h2 : list lop) now,
  snd (lstep H hash heq false (lexec H hash heq false (lempty H) h) (LReqRead rid conf m u ps)) = CDone ->
  forallb (fun o => negb (look_id rid o)) h2 = true ->
  (forall cid conf' ps' v tb,
     lstored h cid conf' m u ps' v tb ->
     joined (c_paths conf') ps' = joined (c_paths conf) ps ->
     tb + c_ttl conf' < now) ->
  snd (lstep H hash heq false (lexec H hash heq false (lempty H) (h ++ LReqRead rid conf m u ps :: h2))
             (LReqEval rid now)) = CNoOp.
Proof. intros H hash heq S I. exact (look_miss_after_expiry H hash heq S I). Qed.
Print Assumptions C12_look_miss_after_expiry.

(* The histories of ModelConc.v (suite "cconc" before this file, theorems of
   PropertyConc.v) are the schedules of this model in which the map read and
   the clock reading of every look-up are adjacent: [LOld o] is the step o of
   ModelConc.v, and a split look-up run back to back is the atomic one. *)
Theorem C12_look_atomic_lookups_are_schedules :
  forall (H : Type) (hash : str -> H) (heq : H -> H -> bool) (s : lstate H),
  (forall o,
     l_f (fst (lstep H hash heq false s (LOld o))) = fst (fstep H hash heq (l_f s) o) /\
     l_look (fst (lstep H hash heq false s (LOld o))) = l_look s /\
     snd (lstep H hash heq false s (LOld o)) = snd (fstep H hash heq (l_f s) o)) /\
  (forall rid conf m u ps t, pfind rid (l_look s) = None ->
     let r1 := lstep H hash heq false s (LReqRead rid conf m u ps) in
     let r2 := lstep H hash heq false (fst r1) (LReqEval rid t) in
     let answer := match snd r1 with CDone => snd r2 | x => x end in
     let s' := match snd r1 with CDone => fst r2 | _ => fst r1 end in
     answer = snd (fstep H hash heq (l_f s) (FReq conf m u ps t)) /\
     l_f s' = l_f s /\ l_look s' = l_look s) /\
  (forall cid conf m u ps v t1, pfind cid (l_look s) = None ->
     let r1 := lstep H hash heq false s (LHasRead cid conf m u ps v) in
     let r2 := lstep H hash heq false (fst r1) (LHasEval cid t1) in
     let s' := if c_maxrec conf <? Z.of_N (r_bodylen v) then fst r1
               else match pfind cid (f_pend (l_f s)) with Some _ => fst r1 | None => fst r2 end in
     snd r1 = snd (fstep H hash heq (l_f s) (FHas cid conf m u ps v t1)) /\
     l_f s' = fst (fstep H hash heq (l_f s) (FHas cid conf m u ps v t1)) /\ l_look s' = l_look s).
Proof.
  intros H hash heq s. split; [|split].
  - intros o. apply lstep_old.
  - intros rid conf m u ps t F. apply split_req_is_atomic. exact F.
  - intros cid conf m u ps v t1 F. apply split_has_is_atomic. exact F.
Qed.
Print Assumptions C12_look_atomic_lookups_are_schedules.

(* Non-vacuity.  The witness history under both variants.  HEAD: the expired
   A still counts (100) when the fill begins: one further response fits
   (200 <= 250), the next two are refused; A (dead) and one entry are held,
   100 replayable.  Variant: counter -100, three admitted, 300 replayable. *)
Example C12_look_example :
  let run rel := lexec str (fun a => a) str_eqb rel (lempty str) C12_look_release_witness in
  let cf := {| c_paths := []; c_ttl := 10; c_maxrec := 50; c_max := 250 |} in
  let probe rel u := snd (lstep str (fun a => a) str_eqb rel (run rel) (LOld (FReq cf [71] [u] [] 12))) in
  (csize (lcache str (run false)), Z.of_nat (length (store (lcache str (run false)))),
   map (probe false) [97; 98; 99; 100]) = (200, 2, [CNoOp; CEarly 3; CNoOp; CNoOp]) /\
  (csize (lcache str (run true)), total (csz str) (store (lcache str (run true))),
   map (probe true) [97; 98; 99; 100]) = (200, 300, [CNoOp; CEarly 3; CEarly 4; CEarly 5]).
Proof. vm_compute. split; reflexivity. Qed.

(* Non-vacuity of the freshness theorems: a request for A reads the map at 5
   (A stored at 0, ttl 10) and is stopped; meanwhile A's sleeper removes A and
   another response A' is stored for the key at 9; the request reads the clock
   at 10: it replays A (the copy it holds, fresh until 10), at 11 it would
   not; a request that reads the map now sees A'. *)
Example C12_look_fresh_example :
  let cf := {| c_paths := []; c_ttl := 10; c_maxrec := 50; c_max := 250 |} in
  let r v := {| r_vid := v; r_idlen := 0%N; r_bodylen := 22%N; r_hdrlen := 0%N |} in
  let G := [71] in
  let h := [LOld (FHas 0 cf G [97] [] (r 0) 0); LOld (FLim 0); LOld (FSet 0 0)] in
  let h2 := [LOld (FFire 0 cf G [97] []); LHasRead 7 cf G [97] [] (r 7); LHasEval 7 9;
             LOld (FLim 7); LOld (FSet 7 9)] in
  let s := lexec str (fun a => a) str_eqb false (lempty str) h in
  let s2 := lexec str (fun a => a) str_eqb false (lempty str) (h ++ LReqRead 1 cf G [97] [] :: h2) in
  snd (lstep str (fun a => a) str_eqb false s (LReqRead 1 cf G [97] [])) = CDone /\
  forallb (fun o => negb (look_id 1 o)) h2 = true /\
  snd (lstep str (fun a => a) str_eqb false s2 (LReqEval 1 10)) = CEarly 0 /\
  snd (lstep str (fun a => a) str_eqb false s2 (LReqEval 1 11)) = CNoOp /\
  snd (lstep str (fun a => a) str_eqb false s2 (LOld (FReq cf G [97] [] 11))) = CEarly 7.
Proof. vm_compute. repeat split; reflexivity. Qed.
