(* C12 — fine-grained model of the two plugins: a plugin call is NOT atomic.

   Model.v describes OnResponse of both plugins as one step with one clock
   reading.  The code is
     CachingPlugin.OnResponse:
        body-size test; Has(key)  [map read under RLock, then clock reading t1];
        CreationTime := clock.Now()            (not used by this plugin);
        WithMaxCacheSize(calculateSize, max)   [unlocked writes of the limit];
        Set(key, v, ttl)  [clock reading tb, then the locked section:
                           size test against the limit in force, store with
                           expiry tb + ttl, size update; sleeper started]
     ResponseBasedThrottlingPlugin.OnResponse:
        status test; Has(key) [t1]; CreationTime := clock.Now() [tc];
        header lookup + parse; absolute epoch: clock.Now() [tn], ttl = ra - tn;
        Set(key, v, ttl) [clock reading tb; locked section: expiry tb + ttl]
     ResponseBasedThrottlingPlugin.OnRequest:
        Get(key) [map read, then clock reading tg];
        relative: clock.Now() [tl], lapsed = tl - CreationTime;
        absolute (with patches/C12/fix-F-C12c): clock.Now() [tl], no replay when
        the provider's instant < tl.
   Between these pieces any other caller of the same plugin instance may run
   (the engine shares ONE instance of each plugin between all policies and all
   transactions).  Here every piece that touches shared state is its own step
   and every clock reading is its own parameter:

     caching      FReq | FHas cid .. t1 | FLim cid | FSet cid tb | FFire
     throttling   GReq .. tg tl | GHas cid .. t1 | GSet cid tc tn tb | GFire
                  (GSet = the rest of the call after its Has: the Set, or giving up
                   because the header is unusable / the type undefined)

   [cid] identifies the OnResponse call; the state keeps, per call that is
   between its pieces, what the call holds in local variables ([pend]); a step
   of a call that is not at that point of its program is ill-formed ([CBad] /
   [TBad], state unchanged).  A history is ANY list of such steps: every
   interleaving of any number of concurrent plugin calls and sleepers, with
   arbitrary clock readings (no monotonicity assumed).

   Caching: the configuration is a parameter of every call (the shared instance
   serves every policy with its own CachingConfig): different ttl, payload
   paths, record limit and cache size on the same cache.  The limit in force
   ([f_max]) is whatever the last WithMaxCacheSize wrote.
   Throttling: one configuration per history, as in Model.v. *)
From Coq Require Import List ZArith NArith Bool.
From Verif Require Import C12.Model.
Import ListNotations.
Open Scope Z_scope.

(* calls in flight: association list keyed by call id *)
Section Pending.
  Variable P : Type.

  Fixpoint pfind (cid : Z) (l : list (Z * P)) : option P :=
    match l with
    | [] => None
    | (i, p) :: r => if i =? cid then Some p else pfind cid r
    end.

  Fixpoint pdel (cid : Z) (l : list (Z * P)) : list (Z * P) :=
    match l with
    | [] => []
    | (i, p) :: r => if i =? cid then pdel cid r else (i, p) :: pdel cid r
    end.
End Pending.
Arguments pfind {P}. Arguments pdel {P}.

(* ------------------------------------------------------------------ *)
(* CachingPlugin                                                       *)
(* ------------------------------------------------------------------ *)
Inductive fop :=
| FReq (conf : cconf) (m u : str) (ps : list (str * str)) (t : Z)
| FHas (cid : Z) (conf : cconf) (m u : str) (ps : list (str * str)) (v : cresp) (t1 : Z)
| FLim (cid : Z)
| FSet (cid : Z) (tb : Z)
| FFire (id : Z) (conf : cconf) (m u : str) (ps : list (str * str)).

Section CachingConc.
  Variable H : Type.
  Variable hash : str -> H.
  Variable heq : H -> H -> bool.

  (* local variables of an OnResponse call after its Has answered "absent" *)
  Record pend := {
    p_lim : bool;          (* its WithMaxCacheSize has run *)
    p_key : ckey H;
    p_val : cresp;
    p_ttl : Z;             (* ttl_seconds of its configuration *)
    p_max : Z              (* max_cache_size of its configuration, bytes *)
  }.

  Record fstate := {
    f_cache : ccache H;
    f_max : option Z;      (* maxCacheSize; None: WithMaxCacheSize never called *)
    f_pend : list (Z * pend)
  }.

  Definition fempty : fstate := {| f_cache := empty; f_max := None; f_pend := [] |}.

  Definition fstep (s : fstate) (o : fop) : fstate * cout :=
    match o with
    | FReq conf m u ps t =>
        match get (ckey_eqb H heq) (f_cache s) (key_of H hash conf m u ps) t with
        | Some v => (s, CEarly (r_vid v))
        | None => (s, CNoOp)
        end
    | FHas cid conf m u ps v t1 =>
        match pfind cid (f_pend s) with
        | Some _ => (s, CBad)
        | None =>
            if c_maxrec conf <? Z.of_N (r_bodylen v) then (s, CDone)
            else if has (ckey_eqb H heq) (f_cache s) (key_of H hash conf m u ps) t1 then (s, CDone)
            else ({| f_cache := f_cache s; f_max := f_max s;
                     f_pend := (cid, {| p_lim := false; p_key := key_of H hash conf m u ps;
                                        p_val := v; p_ttl := c_ttl conf; p_max := c_max conf |})
                               :: f_pend s |}, CDone)
        end
    | FLim cid =>
        match pfind cid (f_pend s) with
        | Some p =>
            if p_lim p then (s, CBad)
            else ({| f_cache := f_cache s; f_max := Some (p_max p);
                     f_pend := (cid, {| p_lim := true; p_key := p_key p; p_val := p_val p;
                                        p_ttl := p_ttl p; p_max := p_max p |})
                               :: pdel cid (f_pend s) |}, CDone)
        | None => (s, CBad)
        end
    | FSet cid tb =>
        match pfind cid (f_pend s) with
        | Some p =>
            if p_lim p then
              ({| f_cache := fst (set_ (ckey_eqb H heq) (csz H) (f_max s) cid (p_key p) (p_val p)
                                       (p_ttl p) tb (f_cache s));
                  f_max := f_max s;
                  f_pend := pdel cid (f_pend s) |}, CDone)
            else (s, CBad)
        | None => (s, CBad)
        end
    | FFire id conf m u ps =>
        match step (ckey_eqb H heq) (csz H) (f_max s) (f_cache s) (OFire id (key_of H hash conf m u ps)) with
        | (c', RBad) => (s, CBad)
        | (c', _) => ({| f_cache := c'; f_max := f_max s; f_pend := f_pend s |}, CDone)
        end
    end.

  Definition fexec (s : fstate) (h : list fop) : fstate :=
    fold_left (fun s o => fst (fstep s o)) h s.

  (* an atomic plugin history of Model.v as a fine-grained one: every call
     runs its pieces back to back with one clock reading *)
  Definition expand1 (conf : cconf) (o : cop) : list fop :=
    match o with
    | CReq m u ps t => [FReq conf m u ps t]
    | CResp id m u ps v t => [FHas id conf m u ps v t; FLim id; FSet id t]
    | CFire id m u ps => [FFire id conf m u ps]
    end.

  Definition expand (conf : cconf) (h : list cop) : list fop := flat_map (expand1 conf) h.
End CachingConc.

Arguments p_lim {H}. Arguments p_key {H}. Arguments p_val {H}.
Arguments p_ttl {H}. Arguments p_max {H}.
Arguments f_cache {H}. Arguments f_max {H}. Arguments f_pend {H}.

(* ------------------------------------------------------------------ *)
(* ResponseBasedThrottlingPlugin                                       *)
(* ------------------------------------------------------------------ *)
Inductive gop :=
| GReq (m u : str) (tg tl : Z)
| GHas (cid : Z) (m u : str) (status vid : Z) (ra : option Z) (t1 : Z)
| GSet (cid : Z) (tc tn tb : Z)
| GFire (id : Z) (m u : str).

(* local variables of an OnResponse call after its Has answered "absent":
   the call is in flight until its end (its Set, or the point where it gives up
   because the header is missing / not a number / the type is undefined) *)
Record tpend := { tp_key : tkey; tp_vid : Z; tp_ra : option Z }.

Record gstate := { g_cache : tcache; g_pend : list (Z * tpend) }.

Definition gempty : gstate := {| g_cache := empty; g_pend := [] |}.

(* [fixc]: with patches/C12/fix-F-C12c (OnRequest, absolute epoch: no replay
   once the provider's instant is before the clock); false = the code before it *)
Definition gstep (fixc : bool) (conf : tconf) (s : gstate) (o : gop) : gstate * tout :=
  match o with
  | GReq m u tg tl =>
      match get tkey_eqb (g_cache s) (m, u) tg with
      | None => (s, TNoOp)
      | Some v =>
          match t_type conf with
          | RRel =>
              match t_ra v with
              | None => (s, TNoOp)
              | Some ra =>
                  let lapsed := tl - t_created v in
                  if ra <=? lapsed then (s, TNoOp)
                  else (s, TEarly (t_vid v) (Some (ra - lapsed)))
              end
          | RAbs =>
              if fixc then
                match t_ra v with
                | None => (s, TNoOp)
                | Some ra => if ra <? tl then (s, TNoOp) else (s, TEarly (t_vid v) (Some ra))
                end
              else (s, TEarly (t_vid v) (t_ra v))
          | RUndef => (s, TEarly (t_vid v) (t_ra v))
          end
      end
  | GHas cid m u status vid ra t1 =>
      match pfind cid (g_pend s) with
      | Some _ => (s, TBad)
      | None =>
          if negb (existsb (Z.eqb status) (t_statuses conf)) then (s, TDone)
          else if has tkey_eqb (g_cache s) (m, u) t1 then (s, TDone)
          else ({| g_cache := g_cache s;
                   g_pend := (cid, {| tp_key := (m, u); tp_vid := vid; tp_ra := ra |}) :: g_pend s |},
                TDone)
      end
  | GSet cid tc tn tb =>
      match pfind cid (g_pend s) with
      | Some p =>
          match tp_ra p with
          | Some r =>
              match norm_ttl (t_type conf) r tn with
              | Some ttl =>
                  ({| g_cache := fst (set_ tkey_eqb tsz None cid (tp_key p)
                                           {| t_vid := tp_vid p; t_ra := Some r; t_created := tc |}
                                           ttl tb (g_cache s));
                      g_pend := pdel cid (g_pend s) |}, TDone)
              | None => ({| g_cache := g_cache s; g_pend := pdel cid (g_pend s) |}, TDone)
              end
          | None => ({| g_cache := g_cache s; g_pend := pdel cid (g_pend s) |}, TDone)
          end
      | None => (s, TBad)
      end
  | GFire id m u =>
      match step tkey_eqb tsz None (g_cache s) (OFire id (m, u)) with
      | (c', RBad) => (s, TBad)
      | (c', _) => ({| g_cache := c'; g_pend := g_pend s |}, TDone)
      end
  end.

Definition gexec (fixc : bool) (conf : tconf) (s : gstate) (h : list gop) : gstate :=
  fold_left (fun s o => fst (gstep fixc conf s o)) h s.

Definition gexpand1 (o : top) : list gop :=
  match o with
  | TReq m u t => [GReq m u t t]
  | TResp id m u status vid ra t => [GHas id m u status vid ra t; GSet id t t t]
  | TFire id m u => [GFire id m u]
  end.

Definition gexpand (h : list top) : list gop := flat_map gexpand1 h.

(* ------------------------------------------------------------------ *)
(* correspondence entry points                                         *)
(* ------------------------------------------------------------------ *)

(* --- suite "cconc": CachingPlugin, concurrent calls, several configurations;
   hash instantiated by the identity.
   case = [(step, (observed action, number of entries held after it,
                   number of OnResponse calls between their Has and their end))] *)
Definition case_cconc := list (fop * (cout * Z * Z)).

Fixpoint run_cconc_from (s : fstate str) (h : case_cconc) : bool * list (cout * Z * Z) :=
  match h with
  | [] => (true, [])
  | (o, (x, n, q)) :: r =>
      let '(s', x') := fstep str (fun a => a) str_eqb s o in
      let n' := Z.of_nat (length (store (f_cache s'))) in
      let q' := Z.of_nat (length (f_pend s')) in
      let '(ok, l) := run_cconc_from s' r in
      (cout_eqb x x' && (n =? n') && (q =? q') && ok, (x', n', q') :: l)
  end.

Definition run_cconc (k : case_cconc) : option (list (cout * Z * Z)) :=
  let '(ok, l) := run_cconc_from (fempty str) k in
  if ok then None else Some l.

(* --- suite "tconc": ResponseBasedThrottlingPlugin, concurrent calls and
   several clock readings per call; the repaired code (fix-F-C12c) *)
Definition case_tconc := ((rtype * list Z) * list (gop * (tout * Z * Z)))%type.

Fixpoint run_tconc_from (conf : tconf) (s : gstate)
         (h : list (gop * (tout * Z * Z))) : bool * list (tout * Z * Z) :=
  match h with
  | [] => (true, [])
  | (o, (x, n, q)) :: r =>
      let '(s', x') := gstep true conf s o in
      let n' := Z.of_nat (length (store (g_cache s'))) in
      let q' := Z.of_nat (length (g_pend s')) in
      let '(ok, l) := run_tconc_from conf s' r in
      (tout_eqb x x' && (n =? n') && (q =? q') && ok, (x', n', q') :: l)
  end.

Definition run_tconc (k : case_tconc) : option (list (tout * Z * Z)) :=
  let '((ty, sts), h) := k in
  let conf := {| t_type := ty; t_statuses := sts |} in
  let '(ok, l) := run_tconc_from conf gempty h in
  if ok then None else Some l.
