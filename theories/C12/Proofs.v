(* C12 — lemmas about the model of MemoryCache and the two plugins. *)
From Coq Require Import List ZArith NArith Bool Lia.
From Verif Require Import C12.Model.
Import ListNotations.
Open Scope Z_scope.

(* ------------------------------------------------------------------ *)
(* MemoryCache                                                         *)
(* ------------------------------------------------------------------ *)
Section CacheProofs.
  Variables K V : Type.
  Variable keq : K -> K -> bool.
  Variable sz : K -> V -> Z.
  Hypothesis keq_spec : forall a b, keq a b = true <-> a = b.

  Notation entry := (entry V).
  Notation cache := (cache K V).
  Notation op := (op K V).
  Notation out := (out V).

  Lemma keq_refl (a : K) : keq a a = true.
  Proof. apply keq_spec; reflexivity. Qed.

  Lemma keq_neq (a b : K) : a <> b -> keq a b = false.
  Proof.
    intros N. destruct (keq a b) eqn:E; [|reflexivity].
    apply keq_spec in E. contradiction.
  Qed.

  Lemma keq_dec (a b : K) : {a = b} + {a <> b}.
  Proof.
    destruct (keq a b) eqn:E.
    - left. apply keq_spec; assumption.
    - right. intros ->. rewrite keq_refl in E. discriminate.
  Qed.

  (* ---------- the association list ---------- *)

  Lemma lookup_remove_eq k (m : list (K * entry)) : lookup keq k (remove keq k m) = None.
  Proof.
    induction m as [|[k' e] r IH]; cbn; [reflexivity|].
    destruct (keq k k') eqn:E; [exact IH|].
    cbn. rewrite E. exact IH.
  Qed.

  Lemma lookup_remove_neq k k' (m : list (K * entry)) :
    k' <> k -> lookup keq k' (remove keq k m) = lookup keq k' m.
  Proof.
    intros N. induction m as [|[k2 e] r IH]; cbn; [reflexivity|].
    destruct (keq k k2) eqn:E.
    - apply keq_spec in E; subst k2. rewrite (keq_neq k' k N). exact IH.
    - cbn. destruct (keq k' k2); [reflexivity|exact IH].
  Qed.

  Lemma lookup_upd_eq k e (m : list (K * entry)) : lookup keq k (upd keq k e m) = Some e.
  Proof. unfold upd; cbn. rewrite keq_refl. reflexivity. Qed.

  Lemma lookup_upd_neq k k' e (m : list (K * entry)) :
    k' <> k -> lookup keq k' (upd keq k e m) = lookup keq k' m.
  Proof.
    intros N. unfold upd; cbn. rewrite (keq_neq k' k N).
    apply lookup_remove_neq; assumption.
  Qed.

  Lemma lookup_In k e (m : list (K * entry)) : lookup keq k m = Some e -> In (k, e) m.
  Proof.
    induction m as [|[k' e'] r IH]; cbn; [discriminate|].
    destruct (keq k k') eqn:E.
    - apply keq_spec in E; subst. intros [= ->]. left; reflexivity.
    - intros L. right. exact (IH L).
  Qed.

  Lemma keys_remove k x (m : list (K * entry)) :
    In x (map fst (remove keq k m)) -> In x (map fst m) /\ x <> k.
  Proof.
    induction m as [|[k' e] r IH]; cbn; [tauto|].
    destruct (keq k k') eqn:E.
    - intros I. destruct (IH I). tauto.
    - cbn. intros [<-|I].
      + split; [left; reflexivity|]. intros ->. rewrite keq_refl in E. discriminate.
      + destruct (IH I). tauto.
  Qed.

  Lemma remove_notin k (m : list (K * entry)) : ~ In k (map fst m) -> remove keq k m = m.
  Proof.
    induction m as [|[k' e] r IH]; cbn; [reflexivity|].
    intros N. rewrite keq_neq by (intros ->; tauto).
    f_equal. apply IH. tauto.
  Qed.

  Lemma lookup_notin k (m : list (K * entry)) : ~ In k (map fst m) -> lookup keq k m = None.
  Proof.
    induction m as [|[k' e] r IH]; cbn; [reflexivity|].
    intros N. rewrite keq_neq by (intros ->; tauto). apply IH. tauto.
  Qed.

  Lemma nodup_remove k (m : list (K * entry)) :
    NoDup (map fst m) -> NoDup (map fst (remove keq k m)).
  Proof.
    induction m as [|[k' e] r IH]; cbn; [trivial|].
    intros ND. inversion ND as [|? ? NI ND']; subst.
    destruct (keq k k'); [exact (IH ND')|].
    cbn. constructor; [|exact (IH ND')].
    intros I. apply keys_remove in I. tauto.
  Qed.

  Lemma nodup_upd k e (m : list (K * entry)) :
    NoDup (map fst m) -> NoDup (map fst (upd keq k e m)).
  Proof.
    intros ND. unfold upd; cbn. constructor; [|apply nodup_remove; assumption].
    intros I. apply keys_remove in I. tauto.
  Qed.

  Definition size_of (k : K) (o : option entry) : Z :=
    match o with Some e => sz k (e_val e) | None => 0 end.

  Lemma total_remove k (m : list (K * entry)) :
    NoDup (map fst m) ->
    total sz (remove keq k m) = total sz m - size_of k (lookup keq k m).
  Proof.
    induction m as [|[k' e] r IH]; cbn; [intros; lia|].
    intros ND. inversion ND as [|? ? NI ND']; subst.
    destruct (keq k k') eqn:E.
    - apply keq_spec in E; subst k'. rewrite (remove_notin k r NI). cbn. lia.
    - cbn. rewrite (IH ND'). lia.
  Qed.

  (* ---------- one step ---------- *)

  Lemma set_ok lim id k v ttl tb (c c' : cache) :
    set_ keq sz lim id k v ttl tb c = (c', true) ->
    store c' = upd keq k {| e_val := v; e_exp := tb + ttl |} (store c) /\
    csize c' = csize c + match lim with Some _ => sz k v | None => 0 end /\
    sleepers c' = sleepers c ++ [(id, k)] /\
    match lim with Some mx => csize c' <= mx | None => True end.
  Proof.
    unfold set_. destruct lim as [mx|].
    - destruct (mx <? csize c + sz k v) eqn:E; intros [= <-].
      cbn. repeat split. apply Z.ltb_ge in E. exact E.
    - intros [= <-]. cbn. repeat split.
  Qed.

  Lemma set_refused lim id k v ttl tb (c c' : cache) :
    set_ keq sz lim id k v ttl tb c = (c', false) -> c' = c.
  Proof.
    unfold set_. destruct lim as [mx|].
    - destruct (mx <? csize c + sz k v); intros [= <-]; reflexivity.
    - intros [= ].
  Qed.

  Lemma clear_lookup_eq lim k (c : cache) : lookup keq k (store (clear keq sz lim k c)) = None.
  Proof. cbn. apply lookup_remove_eq. Qed.

  Lemma clear_lookup_neq lim k k' (c : cache) :
    k' <> k -> lookup keq k' (store (clear keq sz lim k c)) = lookup keq k' (store c).
  Proof. intros N. cbn. apply lookup_remove_neq; assumption. Qed.

  (* what a step can do to the entry of a key *)
  Lemma step_effect lim (c : cache) (o : op) k :
    let c' := fst (step keq sz lim c o) in
    let x := snd (step keq sz lim c o) in
    (op_key o <> Some k /\ lookup keq k (store c') = lookup keq k (store c)) \/
    (op_key o = Some k /\
     ((x = RSet false /\ c' = c) \/
      (x = RBad /\ c' = c) \/
      (x = RUnit /\ (forall id v ttl tb, o <> OSet id k v ttl tb) /\
       lookup keq k (store c') = None) \/
      (exists id v ttl tb, o = OSet id k v ttl tb /\ x = RSet true /\
         lookup keq k (store c') = Some {| e_val := v; e_exp := tb + ttl |}))).
  Proof.
    destruct o as [k0 t|k0 t|id k0 v ttl tb|id k0|k0]; cbn.
    - left. split; [discriminate|reflexivity].
    - left. split; [discriminate|reflexivity].
    - destruct (set_ keq sz lim id k0 v ttl tb c) as [c1 ok] eqn:E. cbn.
      destruct (keq_dec k0 k) as [->|N].
      + right. split; [reflexivity|]. destruct ok.
        * right; right; right. exists id, v, ttl, tb. repeat split.
          apply set_ok in E. destruct E as (S & _). rewrite S. apply lookup_upd_eq.
        * left. split; [reflexivity|]. apply set_refused in E. exact E.
      + left. split; [intros [= ->]; tauto|]. destruct ok.
        * apply set_ok in E. destruct E as (S & _). rewrite S.
          apply lookup_upd_neq. intros ->; tauto.
        * apply set_refused in E. subst; reflexivity.
    - destruct (take_sleeper keq id k0 (sleepers c)) as [r|] eqn:E; cbn.
      + destruct (keq_dec k0 k) as [->|N].
        * right. split; [reflexivity|]. right; right; left.
          repeat split; [discriminate|]. apply lookup_remove_eq.
        * left. split; [intros [= ->]; tauto|]. apply lookup_remove_neq. intros ->; tauto.
      + destruct (keq_dec k0 k) as [->|N].
        * right. split; [reflexivity|]. right; left. split; reflexivity.
        * left. split; [intros [= ->]; tauto|reflexivity].
    - destruct (keq_dec k0 k) as [->|N].
      + right. split; [reflexivity|]. right; right; left.
        repeat split; [discriminate|]. apply lookup_remove_eq.
      + left. split; [intros [= ->]; tauto|]. apply lookup_remove_neq. intros ->; tauto.
  Qed.

  Lemma step_frame lim (c : cache) (o : op) k :
    op_key o <> Some k ->
    lookup keq k (store (fst (step keq sz lim c o))) = lookup keq k (store c).
  Proof.
    intros N. destruct (step_effect lim c o k) as [[_ L]|[E _]]; [exact L|contradiction].
  Qed.

  (* only a committed Set can put or refresh an entry *)
  Lemma step_only_set_adds lim (c : cache) (o : op) k :
    (forall id k0 v ttl tb, o <> OSet id k0 v ttl tb) ->
    lookup keq k (store (fst (step keq sz lim c o))) = lookup keq k (store c) \/
    lookup keq k (store (fst (step keq sz lim c o))) = None.
  Proof.
    intros NS. destruct (step_effect lim c o k) as [[_ L]|[_ [[_ E]|[[_ E]|[(_ & _ & L)|(id & v & ttl & tb & -> & _)]]]]].
    - left; exact L.
    - left; rewrite E; reflexivity.
    - left; rewrite E; reflexivity.
    - right; exact L.
    - exfalso. eapply NS; reflexivity.
  Qed.

  (* ---------- histories ---------- *)

  Lemma exec_app lim (c : cache) h1 h2 :
    exec keq sz lim c (h1 ++ h2) = exec keq sz lim (exec keq sz lim c h1) h2.
  Proof. unfold exec. apply fold_left_app. Qed.

  Lemma exec_snoc lim (c : cache) h o :
    exec keq sz lim c (h ++ [o]) = fst (step keq sz lim (exec keq sz lim c h) o).
  Proof. rewrite exec_app. reflexivity. Qed.

  Lemma trace_snoc lim h o : forall (c : cache),
    trace keq sz lim c (h ++ [o]) =
    trace keq sz lim c h ++ [(o, snd (step keq sz lim (exec keq sz lim c h) o))].
  Proof.
    induction h as [|a r IH]; intros c; cbn [app trace].
    - cbn. destruct (step keq sz lim c o); reflexivity.
    - assert (X : exec keq sz lim c (a :: r) = exec keq sz lim (fst (step keq sz lim c a)) r)
        by reflexivity.
      rewrite X. destruct (step keq sz lim c a) as [c1 x]. cbn [fst]. rewrite IH. reflexivity.
  Qed.

  Lemma trace_ops lim h : forall (c : cache), map fst (trace keq sz lim c h) = h.
  Proof.
    induction h as [|a r IH]; intros c; cbn; [reflexivity|].
    destruct (step keq sz lim c a). cbn. rewrite IH. reflexivity.
  Qed.

  (* a trace entry that changed what is stored under k *)
  Definition touches (k : K) (ox : op * out) : Prop :=
    op_key (fst ox) = Some k /\ snd ox <> RSet false /\ snd ox <> RBad.

  Lemma stored_origin lim h : forall k e,
    lookup keq k (store (exec keq sz lim empty h)) = Some e ->
    exists tr1 id ttl tb tr2,
      trace keq sz lim empty h = tr1 ++ (OSet id k (e_val e) ttl tb, RSet true) :: tr2 /\
      e_exp e = tb + ttl /\
      Forall (fun ox => ~ touches k ox) tr2.
  Proof.
    induction h as [|o h IH] using rev_ind; intros k e L.
    - cbn in L. discriminate.
    - rewrite exec_snoc in L. rewrite trace_snoc.
      set (c := exec keq sz lim empty h) in *.
      destruct (step_effect lim c o k) as [[N L']|[E [[X C]|[[X C]|[(X & _ & L')|(id & v & ttl & tb & -> & X & L')]]]]].
      + rewrite L' in L. destruct (IH k e L) as (tr1 & id & ttl & tb & tr2 & T & X & F).
        exists tr1, id, ttl, tb, (tr2 ++ [(o, snd (step keq sz lim c o))]). repeat split.
        * rewrite T. rewrite <- app_assoc. reflexivity.
        * exact X.
        * apply Forall_app. split; [exact F|]. constructor; [|constructor].
          intros (T1 & _). cbn in T1. contradiction.
      + rewrite C in L. destruct (IH k e L) as (tr1 & id & ttl & tb & tr2 & T & X' & F).
        exists tr1, id, ttl, tb, (tr2 ++ [(o, snd (step keq sz lim c o))]). repeat split.
        * rewrite T. rewrite <- app_assoc. reflexivity.
        * exact X'.
        * apply Forall_app. split; [exact F|]. constructor; [|constructor].
          intros (_ & T2 & _). cbn in T2. contradiction.
      + rewrite C in L. destruct (IH k e L) as (tr1 & id & ttl & tb & tr2 & T & X' & F).
        exists tr1, id, ttl, tb, (tr2 ++ [(o, snd (step keq sz lim c o))]). repeat split.
        * rewrite T. rewrite <- app_assoc. reflexivity.
        * exact X'.
        * apply Forall_app. split; [exact F|]. constructor; [|constructor].
          intros (_ & _ & T3). cbn in T3. contradiction.
      + rewrite L' in L. discriminate.
      + rewrite L' in L. injection L as <-.
        exists (trace keq sz lim empty h), id, ttl, tb, []. cbn [e_val e_exp]. repeat split.
        * rewrite X. reflexivity.
        * constructor.
  Qed.

  Lemma get_hit (c : cache) k t v :
    get keq c k t = Some v ->
    exists e, lookup keq k (store c) = Some e /\ e_val e = v /\ t <= e_exp e.
  Proof.
    unfold get. destruct (lookup keq k (store c)) as [e|]; [|discriminate].
    destruct (t <=? e_exp e) eqn:E; [|discriminate].
    intros [= <-]. exists e. repeat split. apply Z.leb_le; assumption.
  Qed.

  Lemma has_true (c : cache) k t :
    has keq c k t = true ->
    exists e, lookup keq k (store c) = Some e /\ t <= e_exp e.
  Proof.
    unfold has. destruct (lookup keq k (store c)) as [e|]; [|discriminate].
    intros E. exists e. split; [reflexivity|]. apply Z.leb_le; assumption.
  Qed.

  Lemma has_get (c : cache) k t :
    has keq c k t = match get keq c k t with Some _ => true | None => false end.
  Proof.
    unfold has, get. destruct (lookup keq k (store c)) as [e|]; [|reflexivity].
    destruct (t <=? e_exp e); reflexivity.
  Qed.

  Theorem only_stored_same_key lim h k now v :
    get keq (exec keq sz lim empty h) k now = Some v ->
    exists tr1 id ttl tb tr2,
      trace keq sz lim empty h = tr1 ++ (OSet id k v ttl tb, RSet true) :: tr2 /\
      now <= tb + ttl /\
      Forall (fun ox => ~ touches k ox) tr2.
  Proof.
    intros G. apply get_hit in G. destruct G as (e & L & <- & Fr).
    destruct (stored_origin lim h k e L) as (tr1 & id & ttl & tb & tr2 & T & X & F).
    exists tr1, id, ttl, tb, tr2. repeat split; [exact T|lia|exact F].
  Qed.

  Theorem other_keys_unaffected lim (c : cache) (o : op) k now :
    op_key o <> Some k ->
    get keq (fst (step keq sz lim c o)) k now = get keq c k now.
  Proof. intros N. unfold get. rewrite step_frame by assumption. reflexivity. Qed.

  Theorem miss_after_expiry lim h k now :
    (forall id v ttl tb, In (OSet id k v ttl tb) h -> tb + ttl < now) ->
    get keq (exec keq sz lim empty h) k now = None.
  Proof.
    intros A. destruct (get keq (exec keq sz lim empty h) k now) as [v|] eqn:G; [|reflexivity].
    exfalso. destruct (only_stored_same_key lim h k now v G) as (tr1 & id & ttl & tb & tr2 & T & Fr & _).
    assert (I : In (OSet id k v ttl tb) h).
    { rewrite <- (trace_ops lim h empty). rewrite T. rewrite map_app. apply in_or_app.
      right. left. reflexivity. }
    specialize (A _ _ _ _ I). lia.
  Qed.

  (* a sleeper (or Del) can only remove *)
  Theorem sleeper_only_removes lim (c : cache) id k0 k now v :
    get keq (fst (step keq sz lim c (OFire id k0))) k now = Some v ->
    get keq c k now = Some v.
  Proof.
    unfold get.
    destruct (step_only_set_adds lim c (OFire id k0) k) as [E|E]; [discriminate| |];
      rewrite E; [trivial|discriminate].
  Qed.

  (* ---------- size ---------- *)
  (* a committed Set replaces whatever is stored under its key -- a live
     entry, an expired one that is still physically present, or nothing --
     whatever the sign of its time-to-live *)
  Theorem set_replaces lim id k v ttl tb (c : cache) now :
    snd (step keq sz lim c (OSet id k v ttl tb)) = RSet true ->
    get keq (fst (step keq sz lim c (OSet id k v ttl tb))) k now =
    if now <=? tb + ttl then Some v else None.
  Proof.
    cbn [step]. destruct (set_ keq sz lim id k v ttl tb c) as [c1 ok] eqn:E. cbn [fst snd].
    intros [= ->]. apply set_ok in E. destruct E as (S & _).
    unfold get. rewrite S, lookup_upd_eq. reflexivity.
  Qed.

  (* time-to-live zero or negative: no replay at any instant after the clock
     reading of the Set (no hypothesis on sleepers: they need not have run) *)
  Theorem nonpositive_ttl_dead lim h k now :
    (forall id v ttl tb, In (OSet id k v ttl tb) h -> ttl <= 0 /\ tb < now) ->
    get keq (exec keq sz lim empty h) k now = None.
  Proof.
    intros A. apply miss_after_expiry. intros id v ttl tb I.
    destruct (A _ _ _ _ I). lia.
  Qed.

  Hypothesis sz_nonneg : forall k v, 0 <= sz k v.

  Definition size_inv (mx : Z) (c : cache) : Prop :=
    NoDup (map fst (store c)) /\ total sz (store c) <= csize c /\ csize c <= mx.

  Lemma size_of_nonneg k o : 0 <= size_of k o.
  Proof. destruct o; cbn; [apply sz_nonneg|lia]. Qed.

  Lemma clear_size_inv mx k (c : cache) :
    size_inv mx c -> size_inv mx (clear keq sz (Some mx) k c).
  Proof.
    intros (ND & T & M). unfold size_inv. cbn.
    split; [apply nodup_remove; assumption|].
    rewrite (total_remove k (store c) ND).
    pose proof (size_of_nonneg k (lookup keq k (store c))) as P.
    destruct (lookup keq k (store c)) as [e|]; cbn in *; lia.
  Qed.

  Lemma step_size_inv mx (c : cache) (o : op) :
    size_inv mx c -> size_inv mx (fst (step keq sz (Some mx) c o)).
  Proof.
    intros I. destruct o as [k t|k t|id k v ttl tb|id k|k]; cbn; try exact I.
    - destruct (set_ keq sz (Some mx) id k v ttl tb c) as [c1 ok] eqn:E. cbn.
      destruct ok; [|apply set_refused in E; subst; exact I].
      apply set_ok in E. destruct E as (S & Z1 & _ & M1).
      destruct I as (ND & T & M). unfold size_inv. rewrite S, Z1.
      split; [apply nodup_upd; assumption|]. split; [|rewrite <- Z1; exact M1].
      unfold upd. cbn [total e_val]. rewrite (total_remove k (store c) ND).
      pose proof (size_of_nonneg k (lookup keq k (store c))). lia.
    - destruct (take_sleeper keq id k (sleepers c)); cbn; [|exact I].
      apply (clear_size_inv mx k c) in I. exact I.
    - apply clear_size_inv; assumption.
  Qed.

  Theorem size_bound mx h :
    0 <= mx -> size_inv mx (exec keq sz (Some mx) empty h).
  Proof.
    intros P. induction h as [|o h IH] using rev_ind.
    - cbn. unfold size_inv. cbn. repeat split; [constructor|lia|lia].
    - rewrite exec_snoc. apply step_size_inv. exact IH.
  Qed.

  (* the unrepaired Set with its test and its locked section adjacent is the
     repaired Set *)
  Lemma unfixed_adjacent lim id k v ttl tb (c : cache) :
    set_ keq sz lim id k v ttl tb c =
    if ucheck sz lim c k v then (ucommit keq sz lim id k v ttl tb c, true) else (c, false).
  Proof.
    unfold set_, ucheck, ucommit. destruct lim as [mx|]; cbn.
    - destruct (mx <? csize c + sz k v); reflexivity.
    - reflexivity.
  Qed.
  Lemma uatomic_is_step lim (c : cache) (o : op) :
    uatomic keq sz lim c o = fst (step keq sz lim c o).
  Proof.
    destruct o as [k t|k t|id k v ttl tb|id k|k]; try reflexivity.
    cbn [uatomic step]. rewrite unfixed_adjacent.
    destruct (ucheck sz lim c k v); reflexivity.
  Qed.

  Lemma uatomic_exec lim h : forall (c : cache),
    fold_left (uatomic keq sz lim) h c = exec keq sz lim c h.
  Proof.
    induction h as [|o r IH]; intros c; [reflexivity|].
    cbn [fold_left]. rewrite uatomic_is_step, IH. reflexivity.
  Qed.
End CacheProofs.

(* ------------------------------------------------------------------ *)
(* strings and the path-parameter key                                  *)
(* ------------------------------------------------------------------ *)

Lemma str_eqb_spec (a b : str) : str_eqb a b = true <-> a = b.
Proof.
  revert b. induction a as [|x a IH]; intros [|y b]; cbn; try (split; [discriminate|discriminate]).
  - tauto.
  - rewrite andb_true_iff, Z.eqb_eq, IH. split; [intros [-> ->]; reflexivity|intros [= -> ->]; tauto].
Qed.

(* x ++ d :: r splits uniquely at the first d *)
Lemma split_first (d : Z) (x x' r r' : str) :
  ~ In d x -> ~ In d x' -> x ++ d :: r = x' ++ d :: r' -> x = x' /\ r = r'.
Proof.
  revert x'. induction x as [|a x IH]; intros [|a' x'] N N' E; cbn in *.
  - injection E as ->. tauto.
  - injection E as <- _. tauto.
  - injection E as -> _. tauto.
  - injection E as <- E. destruct (IH x') as [-> ->]; tauto.
Qed.

Definition clean_pair (nv : str * str) : Prop :=
  ~ In dot (fst nv) /\ ~ In colon (fst nv) /\ ~ In dot (snd nv).

Lemma enc_inj a b : clean_pair a -> clean_pair b -> enc a = enc b -> a = b.
Proof.
  destruct a as [n v], b as [n' v']. unfold clean_pair, enc. cbn.
  intros (_ & C & _) (_ & C' & _) E.
  destruct (split_first colon n n' v v' C C' E) as [-> ->]. reflexivity.
Qed.

Lemma enc_no_dot a : clean_pair a -> ~ In dot (enc a).
Proof.
  destruct a as [n v]. unfold clean_pair, enc. cbn. intros (D & _ & D') I.
  apply in_app_or in I. destruct I as [I|[I|I]]; [tauto| |tauto].
  unfold colon, dot in I. discriminate.
Qed.

Lemma join_cons x r : r <> [] -> join (x :: r) = x ++ dot :: join r.
Proof. destruct r; [congruence|reflexivity]. Qed.

Lemma join_enc_inj l1 : forall l2,
  Forall clean_pair l1 -> Forall clean_pair l2 ->
  join (map enc l1) = join (map enc l2) -> l1 = l2.
Proof.
  induction l1 as [|a r1 IH]; intros [|b r2] C1 C2 E.
  - reflexivity.
  - exfalso. cbn in E. destruct (map enc r2); destruct b as [n v]; unfold enc in E; cbn in E;
      destruct n; discriminate.
  - exfalso. cbn in E. destruct (map enc r1); destruct a as [n v]; unfold enc in E; cbn in E;
      destruct n; discriminate.
  - inversion C1 as [|? ? Ca C1']; subst. inversion C2 as [|? ? Cb C2']; subst.
    cbn [map] in E.
    destruct r1 as [|a1 r1], r2 as [|b1 r2].
    + cbn in E. f_equal. apply enc_inj; assumption.
    + exfalso. cbn [map] in E. rewrite (join_cons (enc b)) in E by discriminate.
      cbn [join] in E. apply (enc_no_dot a Ca). rewrite E. apply in_or_app. right; left; reflexivity.
    + exfalso. cbn [map] in E. rewrite (join_cons (enc a)) in E by discriminate.
      cbn [join] in E. apply (enc_no_dot b Cb). rewrite <- E. apply in_or_app. right; left; reflexivity.
    + cbn [map] in E.
      rewrite (join_cons (enc a)), (join_cons (enc b)) in E by discriminate.
      destruct (split_first dot _ _ _ _ (enc_no_dot a Ca) (enc_no_dot b Cb) E) as [Ea Er].
      f_equal; [apply enc_inj; assumption|].
      apply IH; assumption.
Qed.

Lemma join_empties n (l : list str) :
  l <> [] -> join (repeat [] n ++ l) = repeat dot n ++ join l.
Proof.
  intros NE. induction n as [|n IH]; cbn [repeat app]; [reflexivity|].
  rewrite join_cons.
  - rewrite IH. reflexivity.
  - destruct n; cbn; [exact NE|discriminate].
Qed.

Lemma join_only_empties n : join (repeat [] n) = repeat dot (pred n).
Proof.
  induction n as [|n IH]; [reflexivity|].
  destruct n as [|n]; [reflexivity|].
  change (repeat [] (S (S n))) with (([] : str) :: repeat [] (S n)).
  rewrite join_cons by discriminate. rewrite IH. reflexivity.
Qed.

Lemma join_enc_has_colon l : l <> [] -> In colon (join (map enc l)).
Proof.
  destruct l as [|[n v] r]; [congruence|]. intros _. cbn [map].
  destruct (map enc r) as [|y ys].
  - cbn. unfold enc. cbn. apply in_or_app. right; left; reflexivity.
  - rewrite join_cons by discriminate. unfold enc at 1. cbn [fst snd].
    apply in_or_app. left. apply in_or_app. right; left; reflexivity.
Qed.

Lemma repeat_dot_no_colon n : ~ In colon (repeat dot n).
Proof. intros I. apply repeat_spec in I. unfold colon, dot in I. discriminate. Qed.

(* the string that is hashed determines the selected (name, value) pairs when
   names contain neither '.' nor ':' and values contain no '.' *)
Theorem joined_inj (paths : list (bool * str)) (ps ps' : list (str * str)) :
  Forall clean_pair (selected paths ps) -> Forall clean_pair (selected paths ps') ->
  joined paths ps = joined paths ps' -> selected paths ps = selected paths ps'.
Proof.
  unfold joined. set (n := length paths). set (l := selected paths ps). set (l' := selected paths ps').
  intros C C' E.
  destruct l as [|a r] eqn:El, l' as [|a' r'] eqn:El'.
  - reflexivity.
  - exfalso. cbn [map app] in E. rewrite app_nil_r in E.
    rewrite join_only_empties in E.
    rewrite (join_empties n (enc a' :: map enc r')) in E by discriminate.
    assert (I : In colon (repeat dot (pred n))).
    { rewrite E. apply in_or_app. right.
      apply (join_enc_has_colon (a' :: r')). discriminate. }
    exact (repeat_dot_no_colon _ I).
  - exfalso. cbn [map app] in E. rewrite app_nil_r in E.
    rewrite join_only_empties in E.
    rewrite (join_empties n (enc a :: map enc r)) in E by discriminate.
    assert (I : In colon (repeat dot (pred n))).
    { rewrite <- E. apply in_or_app. right.
      apply (join_enc_has_colon (a :: r)). discriminate. }
    exact (repeat_dot_no_colon _ I).
  - rewrite !join_empties in E by (cbn; discriminate).
    apply app_inv_head in E.
    apply join_enc_inj; assumption.
Qed.

(* ------------------------------------------------------------------ *)
(* CachingPlugin                                                       *)
(* ------------------------------------------------------------------ *)
Section CachingProofs.
  Variable H : Type.
  Variable hash : str -> H.
  Variable heq : H -> H -> bool.
  Hypothesis heq_spec : forall a b, heq a b = true <-> a = b.

  Notation ckey := (ckey H).
  Notation csz := (csz H).
  Notation ckey_eqb := (ckey_eqb H heq).

  Lemma ckey_eqb_spec (a b : ckey) : ckey_eqb a b = true <-> a = b.
  Proof.
    destruct a as [[m1 u1] h1], b as [[m2 u2] h2]. cbn.
    rewrite !andb_true_iff, !str_eqb_spec, heq_spec.
    split; [intros [[-> ->] ->]; reflexivity|intros [= -> -> ->]; tauto].
  Qed.

  Definition cinv (conf : cconf) (h : list cop) (c : ccache H) : Prop :=
    forall k e, lookup ckey_eqb k (store c) = Some e ->
      exists id m u ps t,
        In (CResp id m u ps (e_val e) t) h /\
        k = key_of H hash conf m u ps /\
        e_exp e = t + c_ttl conf /\
        Z.of_N (r_bodylen (e_val e)) <= c_maxrec conf.

  Lemma cinv_mono conf h o c : cinv conf h c -> cinv conf (h ++ [o]) c.
  Proof.
    intros I k e L. destruct (I k e L) as (id & m & u & ps & t & In1 & R).
    exists id, m, u, ps, t. split; [apply in_or_app; left; exact In1|exact R].
  Qed.

  Lemma cexec_snoc conf (c : ccache H) h o :
    cexec H hash heq conf c (h ++ [o]) = fst (cstep H hash heq conf (cexec H hash heq conf c h) o).
  Proof. unfold cexec. rewrite fold_left_app. reflexivity. Qed.

  Lemma cinv_all conf h : cinv conf h (cexec H hash heq conf empty h).
  Proof.
    induction h as [|o h IH] using rev_ind.
    - intros k e L. cbn in L. discriminate.
    - rewrite cexec_snoc. set (c := cexec H hash heq conf empty h) in *.
      destruct o as [m u ps t|id m u ps v t|id m u ps]; cbn.
      + destruct (get ckey_eqb c (key_of H hash conf m u ps) t); cbn; apply cinv_mono; exact IH.
      + destruct (c_maxrec conf <? Z.of_N (r_bodylen v)) eqn:Big; cbn; [apply cinv_mono; exact IH|].
        destruct (has ckey_eqb c (key_of H hash conf m u ps) t); cbn; [apply cinv_mono; exact IH|].
        destruct (set_ ckey_eqb csz (Some (c_max conf)) id (key_of H hash conf m u ps) v (c_ttl conf) t c)
          as [c1 ok] eqn:E. cbn.
        destruct ok; [|apply set_refused in E; subst; apply cinv_mono; exact IH].
        apply set_ok in E. destruct E as (S & _).
        intros k e L. rewrite S in L.
        destruct (keq_dec _ _ ckey_eqb_spec k (key_of H hash conf m u ps)) as [->|N].
        * rewrite (lookup_upd_eq _ _ _ ckey_eqb_spec) in L. injection L as <-.
          exists id, m, u, ps, t. cbn [e_val e_exp]. repeat split.
          -- apply in_or_app. right. left. reflexivity.
          -- apply Z.ltb_ge in Big. exact Big.
        * rewrite (lookup_upd_neq _ _ _ ckey_eqb_spec) in L by assumption.
          exact (cinv_mono conf h _ c IH k e L).
      + destruct (take_sleeper ckey_eqb id (key_of H hash conf m u ps) (sleepers c)) as [r|]; cbn;
          [|apply cinv_mono; exact IH].
        intros k e L. cbn in L.
        destruct (keq_dec _ _ ckey_eqb_spec k (key_of H hash conf m u ps)) as [->|N].
        * rewrite (lookup_remove_eq _ _ ckey_eqb) in L. discriminate.
        * rewrite (lookup_remove_neq _ _ _ ckey_eqb_spec) in L by assumption.
          exact (cinv_mono conf h _ c IH k e L).
  Qed.

  Lemma csz_nonneg (k : ckey) v : 0 <= csz k v.
  Proof.
    destruct k as [[m u] x]. unfold csz, slen.
    pose proof (N2Z.is_nonneg (r_idlen v)). pose proof (N2Z.is_nonneg (r_bodylen v)).
    pose proof (N2Z.is_nonneg (r_hdrlen v)). lia.
  Qed.

  Lemma cstep_is_cache_step conf (c : ccache H) o :
    fst (cstep H hash heq conf c o) = c \/
    exists o', fst (cstep H hash heq conf c o) = fst (step ckey_eqb csz (Some (c_max conf)) c o').
  Proof.
    destruct o as [m u ps t|id m u ps v t|id m u ps]; cbn -[set_ step].
    - destruct (get ckey_eqb c (key_of H hash conf m u ps) t); left; reflexivity.
    - destruct (c_maxrec conf <? Z.of_N (r_bodylen v)); [left; reflexivity|].
      destruct (has ckey_eqb c (key_of H hash conf m u ps) t); [left; reflexivity|].
      right. exists (OSet id (key_of H hash conf m u ps) v (c_ttl conf) t). cbn [step].
      destruct (set_ ckey_eqb csz (Some (c_max conf)) id (key_of H hash conf m u ps) v (c_ttl conf) t c).
      reflexivity.
    - right. exists (OFire id (key_of H hash conf m u ps)).
      destruct (step ckey_eqb csz (Some (c_max conf)) c (OFire id (key_of H hash conf m u ps))) as [c' x].
      destruct x; reflexivity.
  Qed.

  Theorem caching_size_bound conf h :
    0 <= c_max conf ->
    size_inv _ _ csz (c_max conf) (cexec H hash heq conf empty h).
  Proof.
    intros M. induction h as [|o h IH] using rev_ind.
    - unfold size_inv. cbn. repeat split; [constructor|lia|lia].
    - rewrite cexec_snoc.
      destruct (cstep_is_cache_step conf (cexec H hash heq conf empty h) o) as [E|[o' E]]; rewrite E.
      + exact IH.
      + apply (step_size_inv _ _ ckey_eqb csz ckey_eqb_spec csz_nonneg). exact IH.
  Qed.

  Hypothesis hash_inj : forall a b, hash a = hash b -> a = b.

  Theorem caching_replay conf h m u ps now vid :
    snd (cstep H hash heq conf (cexec H hash heq conf empty h) (CReq m u ps now)) = CEarly vid ->
    exists id ps' v t,
      In (CResp id m u ps' v t) h /\ r_vid v = vid /\
      joined (c_paths conf) ps' = joined (c_paths conf) ps /\
      now <= t + c_ttl conf /\
      Z.of_N (r_bodylen v) <= c_maxrec conf.
  Proof.
    cbn. set (c := cexec H hash heq conf empty h).
    destruct (get ckey_eqb c (key_of H hash conf m u ps) now) as [v|] eqn:G; cbn; [|discriminate].
    intros [= <-]. apply get_hit in G. destruct G as (e & L & <- & Fr).
    destruct (cinv_all conf h _ _ L) as (id & m' & u' & ps' & t & I & Kq & X & B).
    unfold key_of in Kq. injection Kq as -> -> Hq. apply hash_inj in Hq.
    exists id, ps', (e_val e), t. repeat split; try assumption; [symmetry; exact Hq|lia].
  Qed.

  Lemma creq_out conf (c : ccache H) m u ps now :
    snd (cstep H hash heq conf c (CReq m u ps now)) = CNoOp \/
    exists vid, snd (cstep H hash heq conf c (CReq m u ps now)) = CEarly vid.
  Proof.
    cbn. destruct (get ckey_eqb c (key_of H hash conf m u ps) now) as [v|]; cbn.
    - right. exists (r_vid v). reflexivity.
    - left. reflexivity.
  Qed.

  (* ttl_seconds zero or negative: a stored response is never replayed at an
     instant after the OnResponse that stored it *)
  Theorem caching_nonpositive_ttl conf h m u ps now :
    c_ttl conf <= 0 ->
    (forall id ps' v t, In (CResp id m u ps' v t) h -> t < now) ->
    snd (cstep H hash heq conf (cexec H hash heq conf empty h) (CReq m u ps now)) = CNoOp.
  Proof.
    intros Tz A.
    destruct (creq_out conf (cexec H hash heq conf empty h) m u ps now) as [E|[vid E]]; [exact E|].
    exfalso. destruct (caching_replay conf h m u ps now vid E) as (id & ps' & v & t & I & _ & _ & Fr & _).
    specialize (A _ _ _ _ I). lia.
  Qed.
End CachingProofs.

(* ------------------------------------------------------------------ *)
(* ResponseBasedThrottlingPlugin                                       *)
(* ------------------------------------------------------------------ *)

Lemma tkey_eqb_spec (a b : tkey) : tkey_eqb a b = true <-> a = b.
Proof.
  destruct a as [m1 u1], b as [m2 u2]. unfold tkey_eqb. cbn.
  rewrite andb_true_iff, !str_eqb_spec.
  split; [intros [-> ->]; reflexivity|intros [= -> ->]; tauto].
Qed.

Definition tinv (conf : tconf) (h : list top) (c : tcache) : Prop :=
  forall k e, lookup tkey_eqb k (store c) = Some e ->
    exists id status ra t,
      In (TResp id (fst k) (snd k) status (t_vid (e_val e)) (Some ra) t) h /\
      In status (t_statuses conf) /\
      t_ra (e_val e) = Some ra /\
      t_created (e_val e) = t /\
      norm_ttl (t_type conf) ra t = Some (e_exp e - t).

Lemma tinv_mono conf h o c : tinv conf h c -> tinv conf (h ++ [o]) c.
Proof.
  intros I k e L. destruct (I k e L) as (id & st & ra & t & In1 & R).
  exists id, st, ra, t. split; [apply in_or_app; left; exact In1|exact R].
Qed.

Lemma texec_snoc conf (c : tcache) h o :
  texec conf c (h ++ [o]) = fst (tstep conf (texec conf c h) o).
Proof. unfold texec. rewrite fold_left_app. reflexivity. Qed.

Lemma tinv_all conf h : tinv conf h (texec conf empty h).
Proof.
  induction h as [|o h IH] using rev_ind.
  - intros k e L. cbn in L. discriminate.
  - rewrite texec_snoc. set (c := texec conf empty h) in *.
    destruct o as [m u t|id m u status vid ra t|id m u]; cbn -[set_].
    + destruct (get tkey_eqb c (m, u) t) as [v|]; cbn; [|apply tinv_mono; exact IH].
      destruct (t_type conf); cbn; try (apply tinv_mono; exact IH).
      destruct (t_ra v) as [ra|]; cbn; [|apply tinv_mono; exact IH].
      destruct (ra <=? t - t_created v); cbn; apply tinv_mono; exact IH.
    + destruct (negb (existsb (Z.eqb status) (t_statuses conf))) eqn:St; cbn -[set_]; [apply tinv_mono; exact IH|].
      destruct (has tkey_eqb c (m, u) t); cbn -[set_]; [apply tinv_mono; exact IH|].
      destruct ra as [r|]; cbn -[set_]; [|apply tinv_mono; exact IH].
      destruct (norm_ttl (t_type conf) r t) as [ttl|] eqn:Nt; cbn -[set_]; [|apply tinv_mono; exact IH].
      destruct (set_ tkey_eqb tsz None id (m, u) {| t_vid := vid; t_ra := Some r; t_created := t |} ttl t c)
        as [c1 ok] eqn:E. cbn.
      destruct ok; [|apply set_refused in E; subst; apply tinv_mono; exact IH].
      apply set_ok in E. destruct E as (S & _).
      intros k e L. rewrite S in L.
      destruct (keq_dec _ _ tkey_eqb_spec k (m, u)) as [->|N].
      * rewrite (lookup_upd_eq _ _ _ tkey_eqb_spec) in L. injection L as <-.
        exists id, status, r, t. cbn [e_val e_exp t_vid t_ra t_created fst snd]. repeat split.
        -- apply in_or_app. right. left. reflexivity.
        -- apply negb_false_iff in St. apply existsb_exists in St.
           destruct St as (x & Ix & Ex). apply Z.eqb_eq in Ex. subst x. exact Ix.
        -- rewrite Nt. f_equal. lia.
      * rewrite (lookup_upd_neq _ _ _ tkey_eqb_spec) in L by assumption.
        exact (tinv_mono conf h _ c IH k e L).
    + destruct (take_sleeper tkey_eqb id (m, u) (sleepers c)) as [r|]; cbn;
        [|apply tinv_mono; exact IH].
      intros k e L. cbn in L.
      destruct (keq_dec _ _ tkey_eqb_spec k (m, u)) as [->|N].
      * rewrite (lookup_remove_eq _ _ tkey_eqb) in L. discriminate.
      * rewrite (lookup_remove_neq _ _ _ tkey_eqb_spec) in L by assumption.
        exact (tinv_mono conf h _ c IH k e L).
Qed.

Theorem throttle_replay conf h m u now vid ra' :
  snd (tstep conf (texec conf empty h) (TReq m u now)) = TEarly vid ra' ->
  exists id status ra t,
    In (TResp id m u status vid (Some ra) t) h /\
    In status (t_statuses conf) /\
    match t_type conf with
    | RRel => ra' = Some (ra - (now - t)) /\ 0 < ra - (now - t) /\ now <= t + ra
    | RAbs => ra' = Some ra /\ now <= ra
    | RUndef => False
    end.
Proof.
  cbn. set (c := texec conf empty h).
  destruct (get tkey_eqb c (m, u) now) as [v|] eqn:G; cbn; [|discriminate].
  apply get_hit in G. destruct G as (e & L & <- & Fr).
  destruct (tinv_all conf h _ _ L) as (id & st & ra & t & I & Ist & Ra & Cr & Nt).
  cbn [fst snd] in I.
  destruct (t_type conf) eqn:Ty; cbn.
  - intros [= <- <-]. exists id, st, ra, t. repeat split; try assumption.
    cbn in Nt. injection Nt as Nt. lia.
  - rewrite Ra. destruct (ra <=? now - t_created (e_val e)) eqn:Le; cbn; [discriminate|].
    intros [= <- <-]. exists id, st, ra, t. apply Z.leb_gt in Le. subst t.
    repeat split; try assumption; lia.
  - cbn in Nt. discriminate.
Qed.

Lemma treq_out conf (c : tcache) m u now :
  snd (tstep conf c (TReq m u now)) = TNoOp \/
  exists vid ra, snd (tstep conf c (TReq m u now)) = TEarly vid ra.
Proof.
  cbn. destruct (get tkey_eqb c (m, u) now) as [v|]; cbn; [|left; reflexivity].
  destruct (t_type conf); cbn.
  - right. eexists _, _. reflexivity.
  - destruct (t_ra v) as [ra|]; cbn; [|left; reflexivity].
    destruct (ra <=? now - t_created v); cbn; [left; reflexivity|].
    right. eexists _, _. reflexivity.
  - right. eexists _, _. reflexivity.
Qed.

(* a throttling response whose retry-after time is not in the future any more
   is not replayed: absolute epoch [ra < now]; relative [t + ra <= now] (the
   code refuses at lapsed >= retry-after), in particular every retry-after
   value <= 0 at every instant from its reception on *)
Theorem throttle_not_in_future conf h m u now :
  (forall id status vid ra t, In (TResp id m u status vid (Some ra) t) h ->
     match t_type conf with
     | RAbs => ra < now
     | RRel => t + ra <= now
     | RUndef => True
     end) ->
  snd (tstep conf (texec conf empty h) (TReq m u now)) = TNoOp.
Proof.
  intros A.
  destruct (treq_out conf (texec conf empty h) m u now) as [E|(vid & ra' & E)]; [exact E|].
  exfalso. destruct (throttle_replay conf h m u now vid ra' E) as (id & st & ra & t & I & _ & C).
  specialize (A _ _ _ _ _ I). destruct (t_type conf); [lia|lia|contradiction].
Qed.
