(* C11 — model of config/policies_accessor.go (TxnPoliciesAccessor) together with
   the two toolkit-core/vacuum/map_vacuum.go instances it owns.

   State   = currentVersion, policiesVersions (version -> data), txnVersions
             (txn -> version), and the entry queues of the two MapVacuums
             (txnVersionsVacuum, policiesVersionsVacuum), each entry being
             (vacuumAt, keyToVacuum) in insertion order.
   Actions = one per body that the code runs as a unit on one clock reading:
             Get txn now      GetTxnPoliciesData(txn)
             Update d now     UpdatePoliciesData(d, _) that reaches setNextVersion
                              (ReloadFromFile, UpdateRawData, RevertToLastLoaded,
                              RevertToDiagnosisFree all end there)
             Refused now      UpdatePoliciesData that fails in ManageHAProxyEndpoints
                              (returns before setNextVersion: nothing changes)
             VacTxn now       one pass of txnVersionsVacuum.vacuum()
             VacVer now       one pass of policiesVersionsVacuum.vacuum()
   Time is Z nanoseconds; transaction ids, versions and data are Z tokens (the
   harness uses the identity of the *PoliciesData object as data token).

   Split actions (section "UpdatePoliciesData is not one step"): an update is
             UpdBegin u d now / <its HAProxy call: anything may run> /
             UpdCommit u now | UpdFail u now; the correspondence suites run on
             split histories (type sact), Update / Refused being derived forms.

   Last part (end of file): the policy-mode glue of routing/messages_handler.go
   (processRequest / processResponse look the accessor up under the transaction
   id) with the harness's version marker, suite "routing".

   Case format (harness -> cases.v):  (d0, [E <split action> got ver (Obs ...)])
     d0        token of the initial PoliciesData (version 1)
     got       for Get: token of the object returned, -1 for an object that was
               never supplied (the empty PoliciesData fallback); 0 otherwise;
               -2 for an operation that did not complete while an update was
               inside its HAProxy call (blocked; the model never says so)
     ver       for Get: txnVersions[txn] read after the look-up (o_ver); 0 otherwise
     (times)   all instants are nanoseconds since the start of the history
     Obs       (None = unchanged) accessor state read after the action: objects still in
               policiesVersions in version order, currentVersion, txnVersions
               sorted by transaction, entries of the two vacuum queues

   The finer granularity (every mutex section of GetTxnPoliciesData,
   setNextVersion + VacuumKey and MapVacuum.vacuum() as a step of its own,
   any interleaving of them) is Fine.v. *)
From Coq Require Import List ZArith Bool.
Import ListNotations.
Open Scope Z_scope.

(* staleVersionTTL = 30 s, used by both vacuums *)
Definition ttl : Z := 30000000000.

(* ---- Go maps with Z keys and values: association lists ---- *)
Definition amap := list (Z * Z).

Fixpoint lookup (k : Z) (m : amap) : option Z :=
  match m with
  | [] => None
  | (k', v) :: r => if k =? k' then Some v else lookup k r
  end.

(* m[k] = v : overwrite in place, else append *)
Fixpoint set (k v : Z) (m : amap) : amap :=
  match m with
  | [] => [(k, v)]
  | (k', v') :: r => if k =? k' then (k, v) :: r else (k', v') :: set k v r
  end.

(* delete(m, k) *)
Definition del (k : Z) (m : amap) : amap :=
  filter (fun e => negb (k =? fst e)) m.

Record st := {
  cur : Z;                 (* currentVersion *)
  vers : amap;             (* policiesVersions : version -> data *)
  pins : amap;             (* txnVersions : txn -> version *)
  txnQ : list (Z * Z);     (* txnVersionsVacuum.entries : (vacuumAt, txn) *)
  verQ : list (Z * Z)      (* policiesVersionsVacuum.entries : (vacuumAt, version) *)
}.

(* NewTxnPoliciesAccessor(d0) *)
Definition init (d0 : Z) : st :=
  {| cur := 1; vers := [(1, d0)]; pins := []; txnQ := []; verQ := [] |}.

(* MapVacuum.vacuum(): walk the entries in insertion order; delete the key of
   every entry with vacuumAt.Before(now) (strict); stop at the first entry that
   is not due; drop exactly the walked prefix from the queue. *)
Fixpoint vacuum (now : Z) (q : list (Z * Z)) (m : amap) : list (Z * Z) * amap :=
  match q with
  | [] => ([], m)
  | (at_, k) :: r => if at_ <? now then vacuum now r (del k m) else (q, m)
  end.

(* what a Get reports: the version the transaction is anchored to, the data
   handed out (None = the empty PoliciesData of GetCurrentPoliciesData's error
   branch) and whether the "anchored version not found -> current" branch ran *)
Record out := { o_ver : Z; o_data : option Z; o_fallback : bool }.

(* getTxnPoliciesVersion: an anchored transaction keeps its version and nothing
   is rescheduled; otherwise setTxnVersion anchors it to the current version and
   VacuumKey(txn) appends (now + ttl, txn) *)
Definition pin (s : st) (txn now : Z) : st * Z :=
  match lookup txn (pins s) with
  | Some v => (s, v)
  | None =>
      ({| cur := cur s; vers := vers s;
          pins := set txn (cur s) (pins s);
          txnQ := txnQ s ++ [(now + ttl, txn)];
          verQ := verQ s |}, cur s)
  end.

(* GetTxnPoliciesData *)
Definition get (s : st) (txn now : Z) : st * out :=
  let '(s1, v) := pin s txn now in
  match lookup v (vers s1) with
  | Some d => (s1, {| o_ver := v; o_data := Some d; o_fallback := false |})
  | None =>
      (s1, {| o_ver := v; o_data := lookup (cur s1) (vers s1); o_fallback := true |})
  end.

(* setNextVersion: the new data becomes version cur+1; the PREVIOUS version is
   handed to VacuumKey, i.e. appended as (now + ttl, previous) *)
Definition update (s : st) (d now : Z) : st :=
  {| cur := cur s + 1;
     vers := set (cur s + 1) d (vers s);
     pins := pins s;
     txnQ := txnQ s;
     verQ := verQ s ++ [(now + ttl, cur s)] |}.

Definition vac_txn (s : st) (now : Z) : st :=
  let '(q, m) := vacuum now (txnQ s) (pins s) in
  {| cur := cur s; vers := vers s; pins := m; txnQ := q; verQ := verQ s |}.

Definition vac_ver (s : st) (now : Z) : st :=
  let '(q, m) := vacuum now (verQ s) (vers s) in
  {| cur := cur s; vers := m; pins := pins s; txnQ := txnQ s; verQ := q |}.

Inductive act :=
| Get (txn now : Z)
| Update (d now : Z)
| Refused (now : Z)
| VacTxn (now : Z)
| VacVer (now : Z).

Definition time_of (a : act) : Z :=
  match a with
  | Get _ t | Update _ t | Refused t | VacTxn t | VacVer t => t
  end.

Definition step (s : st) (a : act) : st * option out :=
  match a with
  | Get txn now => let '(s', o) := get s txn now in (s', Some o)
  | Update d now => (update s d now, None)
  | Refused _ => (s, None)
  | VacTxn now => (vac_txn s now, None)
  | VacVer now => (vac_ver s now, None)
  end.

(* state after a history *)
Definition after (s : st) (h : list act) : st :=
  fold_left (fun s a => fst (step s a)) h s.

(* what the look-ups of a history hand out, in order *)
Fixpoint outs (s : st) (h : list act) : list out :=
  match h with
  | [] => []
  | a :: r =>
      match snd (step s a) with
      | Some x => x :: outs (fst (step s a)) r
      | None => outs (fst (step s a)) r
      end
  end.

Definition retained (v : Z) (s : st) : bool :=
  match lookup v (vers s) with Some _ => true | None => false end.

(* ---- specification vocabulary (independent of the state) ---- *)

(* transactions looked up in a history *)
Definition seen (h : list act) : list Z :=
  flat_map (fun a => match a with Get txn _ => [txn] | _ => [] end) h.

(* data of the last successful update (d0 when there is none) *)
Definition last_data (d0 : Z) (h : list act) : Z :=
  fold_left (fun d a => match a with Update d' _ => d' | _ => d end) h d0.

(* number of successful updates *)
Definition n_updates (h : list act) : Z :=
  fold_left (fun n a => match a with Update _ _ => n + 1 | _ => n end) h 0.

(* data supplied by the successful updates of a history *)
Definition supplied (h : list act) : list Z :=
  flat_map (fun a => match a with Update d _ => [d] | _ => [] end) h.

(* ================================================================== *)
(* UpdatePoliciesData is not one step                                   *)

(* UpdatePoliciesData(d, _) as coded (policies_accessor.go:135-176):
     1. GetCurrentPoliciesData()            one RLock section, reads only
        BuildHAProxyEndpointsRequest x 2    pure
     2. ManageHAProxyEndpoints(new)         HTTP PUTs to HAProxy's management
                                            port; NO accessor lock is held
        error -> return                     nothing was published
     3. setNextVersion(d)                   one Lock section + VacuumKey(prev)
     4. (scheduled) un-manage calls         HAProxy only
   No lock serialises whole updates: the admin HTTP handlers and the fail-safe
   goroutine call it concurrently, so while one update waits in step 2 anything
   can run: look-ups, vacuum passes, and other updates (which may begin, commit
   or fail inside the window, or begin inside and finish after it).

   Split actions:
     UpdBegin u d now   update u (its own id) with data d has passed step 1 and
                        is now inside the HTTP call; at HEAD nothing is published
     UpdCommit u now    the call of update u succeeded: setNextVersion(d) runs
                        on the clock reading now
     UpdFail u now      the call of update u failed: the update returns
   The atomic [Update d now] / [Refused now] are the derived forms
   [UpdBegin u d now; UpdCommit u now] / [UpdBegin u d now; UpdFail u now]
   (Split.v: update_is_begin_commit, refused_is_begin_fail).

   [pend] = updates inside their call (u -> d: the goroutine's local
   newPoliciesData); a commit/fail of an update that is not pending does
   nothing (the harness never produces one).

   Variant switch [publish_before_call] (false = HEAD).  true = the re-ordering
   "publish first, roll back on error": UpdBegin runs the Lock section of
   setNextVersion (version cur+1 published, nothing scheduled) and remembers the
   previous version number; UpdCommit only schedules the vacuum of that previous
   version; UpdFail deletes the version that is current at that moment and sets
   the version counter back to the remembered one. *)
Record variant := { publish_before_call : bool }.
Definition head : variant := {| publish_before_call := false |}.
Definition published_first : variant := {| publish_before_call := true |}.
(* the variant the correspondence suites evaluate *)
Definition code_variant : variant := head.

Inductive sact :=
| A (a : act)
| UpdBegin (u d now : Z)
| UpdCommit (u now : Z)
| UpdFail (u now : Z).

Definition stime_of (a : sact) : Z :=
  match a with
  | A a => time_of a
  | UpdBegin _ _ t | UpdCommit _ t | UpdFail _ t => t
  end.

Record sst := {
  base : st;
  pend : amap;      (* updates inside their HAProxy call: u -> data *)
  pprev : amap      (* variant only: u -> version that was current when u published *)
}.

Definition sinit (d0 : Z) : sst := {| base := init d0; pend := []; pprev := [] |}.

Definition with_base (s : sst) (b : st) : sst :=
  {| base := b; pend := pend s; pprev := pprev s |}.

(* the three pieces the variant makes of setNextVersion / adds *)
Definition publish (s : st) (d : Z) : st :=
  {| cur := cur s + 1; vers := set (cur s + 1) d (vers s);
     pins := pins s; txnQ := txnQ s; verQ := verQ s |}.
Definition schedule (s : st) (p now : Z) : st :=
  {| cur := cur s; vers := vers s; pins := pins s; txnQ := txnQ s;
     verQ := verQ s ++ [(now + ttl, p)] |}.
Definition discard (s : st) (p : Z) : st :=
  {| cur := p; vers := del (cur s) (vers s);
     pins := pins s; txnQ := txnQ s; verQ := verQ s |}.

Definition sstep_v (V : variant) (s : sst) (a : sact) : sst * option out :=
  match a with
  | A a => let '(b, o) := step (base s) a in (with_base s b, o)
  | UpdBegin u d now =>
      (if publish_before_call V
       then {| base := publish (base s) d; pend := set u d (pend s);
               pprev := set u (cur (base s)) (pprev s) |}
       else {| base := base s; pend := set u d (pend s); pprev := pprev s |}, None)
  | UpdCommit u now =>
      ({| base := match lookup u (pend s) with
                  | None => base s
                  | Some d =>
                      if publish_before_call V then
                        match lookup u (pprev s) with
                        | Some p => schedule (base s) p now
                        | None => base s
                        end
                      else update (base s) d now
                  end;
          pend := del u (pend s); pprev := del u (pprev s) |}, None)
  | UpdFail u now =>
      ({| base := match lookup u (pend s) with
                  | None => base s
                  | Some _ =>
                      if publish_before_call V then
                        match lookup u (pprev s) with
                        | Some p => discard (base s) p
                        | None => base s
                        end
                      else base s
                  end;
          pend := del u (pend s); pprev := del u (pprev s) |}, None)
  end.

Definition safter_v (V : variant) (s : sst) (h : list sact) : sst :=
  fold_left (fun s a => fst (sstep_v V s a)) h s.

(* what the look-ups of a history hand out, in order *)
Fixpoint lookups_v (V : variant) (s : sst) (h : list sact) : list out :=
  match h with
  | [] => []
  | a :: r =>
      let '(s', o) := sstep_v V s a in
      match o with
      | Some x => x :: lookups_v V s' r
      | None => lookups_v V s' r
      end
  end.

(* the code at HEAD *)
Definition sstep := sstep_v head.
Definition safter := safter_v head.
Definition lookups := lookups_v head.

(* Does an operation started while updates are inside their HAProxy call wait
   for a lock one of them holds?  At HEAD (and in the variant) the call is made
   with no accessor lock held: never.  The harness reports an operation that did
   not complete inside the window with the observation [blocked_code]. *)
Definition blocked_by_inflight (V : variant) (s : sst) (a : sact) : bool := false.
Definition blocked_code : Z := -2.

(* ---- specification vocabulary for split histories ---- *)

(* the atomic action a split action amounts to at HEAD, given the pending
   updates: the commit is the whole update, everything else of it is invisible *)
Definition flat1 (p : amap) (a : sact) : act :=
  match a with
  | A a => a
  | UpdBegin _ _ t => Refused t
  | UpdCommit u t =>
      match lookup u p with Some d => Update d t | None => Refused t end
  | UpdFail _ t => Refused t
  end.

Definition pend1 (p : amap) (a : sact) : amap :=
  match a with
  | A _ => p
  | UpdBegin u d _ => set u d p
  | UpdCommit u _ | UpdFail u _ => del u p
  end.

Fixpoint flat (p : amap) (h : list sact) : list act :=
  match h with
  | [] => []
  | a :: r => flat1 p a :: flat (pend1 p a) r
  end.

(* data of the last COMMITTED update (d0 when there is none), number of
   committed updates, data of all committed updates *)
Definition committed_data (d0 : Z) (h : list sact) : Z := last_data d0 (flat [] h).
Definition n_committed (h : list sact) : Z := n_updates (flat [] h).
Definition committed (h : list sact) : list Z := supplied (flat [] h).

Definition upd_id (a : sact) : option Z :=
  match a with
  | A _ => None
  | UpdBegin u _ _ | UpdCommit u _ | UpdFail u _ => Some u
  end.

(* the history without any step of update u *)
Definition erase (u : Z) (h : list sact) : list sact :=
  filter (fun a => match upd_id a with Some u' => negb (u' =? u) | None => true end) h.

(* update u is committed somewhere in h *)
Definition commits (u : Z) (h : list sact) : bool :=
  existsb (fun a => match a with UpdCommit u' _ => u' =? u | _ => false end) h.

(* ---- correspondence entry point ---- *)

(* What the harness reads off the accessor after every action (shims
   VerifC11Retained / VerifC11State): the objects still retained in version
   order, currentVersion, txnVersions (sorted by transaction id) and the entry
   queues of the two vacuums as (vacuumAt, key) in queue order. *)
Record obs := Obs {
  ob_mid : bool;   (* read inside setNextVersion, between its Lock section and the
                      append of VacuumKey(previous): the model's last version-queue
                      entry is not there yet (look-ups placed at that clock reading) *)
  ob_ret : list Z;
  ob_cur : Z;
  ob_pins : list (Z * Z);
  ob_tq : list (Z * Z);
  ob_vq : list (Z * Z)
}.

(* one executed action: the action, the object handed out ([got], see the head
   of this file), for a look-up the version the transaction is anchored to
   afterwards (0 otherwise), and the accessor state read afterwards *)
(* [o = None]: the harness read exactly the same state as after the previous
   action (as at the start for the first one); keeps the case files small *)
Inductive ev := E (a : sact) (got ver : Z) (o : option obs).

Definition case := (Z * list ev)%type.

Definition got_of (o : option out) : Z :=
  match o with
  | Some {| o_data := Some d |} => d
  | Some {| o_data := None |} => -1
  | None => 0
  end.

Definition ver_of (o : option out) : Z :=
  match o with Some x => o_ver x | None => 0 end.

Fixpoint eq_zs (a b : list Z) : bool :=
  match a, b with
  | [], [] => true
  | x :: a', y :: b' => (x =? y) && eq_zs a' b'
  | _, _ => false
  end.

Fixpoint eq_zzs (a b : list (Z * Z)) : bool :=
  match a, b with
  | [], [] => true
  | (x, x') :: a', (y, y') :: b' => (x =? y) && (x' =? y') && eq_zzs a' b'
  | _, _ => false
  end.

(* a Go map read back as a key-sorted list against the model's association
   list (keys are unique on both sides): same size, same value under every key *)
Definition eq_map (observed : list (Z * Z)) (m : amap) : bool :=
  (Nat.eqb (length observed) (length m)) &&
  forallb (fun e => match lookup (fst e) m with Some v => v =? snd e | None => false end) observed.

(* the observed accessor state against the model state; a blocked operation
   (nothing could be read) is only compared through [got] *)
Definition eq_obs (o : obs) (s : st) : bool :=
  eq_zs (ob_ret o) (map snd (vers s)) && (ob_cur o =? cur s) &&
  eq_map (ob_pins o) (pins s) && eq_zzs (ob_tq o) (txnQ s) &&
  eq_zzs (ob_vq o) (if ob_mid o then removelast (verQ s) else verQ s).

(* what the model says after an action, in the harness's format *)
Definition obs_of (s : st) : obs :=
  {| ob_mid := false; ob_ret := map snd (vers s); ob_cur := cur s; ob_pins := pins s;
     ob_tq := txnQ s; ob_vq := verQ s |}.

(* index of the first action on which model and implementation differ, with
   what the model says there (got, version, state) *)
Definition obs_or (last : obs) (o : option obs) : obs :=
  match o with Some x => x | None => last end.

Fixpoint scheck (n : nat) (s : sst) (last : obs) (h : list ev) : option (nat * (Z * Z * obs)) :=
  match h with
  | [] => None
  | E a got ver o :: r =>
      let '(s', x) := sstep_v code_variant s a in
      let g := if blocked_by_inflight code_variant s a then blocked_code else got_of x in
      if (g =? got) && (ver_of x =? ver) && eq_obs (obs_or last o) (base s')
      then scheck (S n) s' (obs_or last o) r
      else Some (n, (g, ver_of x, obs_of (base s')))
  end.

(* the harness prints got = 0 for everything that is not a look-up, and
   blocked_code for an operation that did not complete inside a call window *)
Definition run_case (k : case) : option (nat * (Z * Z * obs)) :=
  let '(d0, evs) := k in scheck O (sinit d0) (obs_of (init d0)) evs.

(* ================================================================== *)
(* routing/messages_handler.go, policy (legacy) mode                    *)

(* processRequest and processResponse both call
   GetTxnPoliciesData(TxnID(args.ID)) — the TRANSACTION id, never the sequence
   id — and dispatch with the data handed out.  To see which data processed a
   response the harness gives object d a global retry remedy whose only status
   condition is [marker d], with practically unlimited attempts.  The retry
   plugin (services/remedies/retry_plugin.go) then behaves as follows on a
   response with status x processed with object d:
     x <> marker d : the sequence's retry state is deleted, no action;
     x =  marker d : the state is found, or the transaction opens its sequence
                     (id = sequence id) -> retry action, state kept;
                     otherwise (no state, not a new sequence) -> no action.
   [alive] = sequences that currently have retry state (the plugin's clock is
   frozen by the harness, so the state never expires by itself). *)
Inductive ract :=
| Acc (a : sact)
| Req (id seq now : Z)
| Resp (id seq status now : Z).

Record rst := { acc : sst; alive : list Z }.

Definition rinit (d0 : Z) : rst := {| acc := sinit d0; alive := [] |}.

Definition marker (d : Z) : Z := 500 + d.

Definition memz (x : Z) (l : list Z) : bool := existsb (Z.eqb x) l.
Definition remz (x : Z) (l : list Z) : list Z := filter (fun y => negb (x =? y)) l.

(* what DispatchOnResponse does with the data handed out: new retry state and
   whether a retry action came back (1) or not (0) *)
Definition dispatch_resp (al : list Z) (id seq status : Z) (d : option Z) : list Z * Z :=
  match d with
  | None => (al, 0)                    (* empty PoliciesData: no remedy at all *)
  | Some d =>
      if status =? marker d then
        if (id =? seq) || memz seq al
        then ((if memz seq al then al else seq :: al), 1)
        else (al, 0)
      else (remz seq al, 0)
  end.

(* returns the new state and the observable of the action: the object handed
   out for a bare accessor look-up, the retry flag for a response, 0 otherwise *)
Definition rstep (s : rst) (a : ract) : rst * Z :=
  match a with
  | Acc a =>
      let '(s', o) := sstep (acc s) a in ({| acc := s'; alive := alive s |}, got_of o)
  | Req id _ now =>
      ({| acc := with_base (acc s) (fst (get (base (acc s)) id now)); alive := alive s |}, 0)
  | Resp id seq status now =>
      let '(s', o) := get (base (acc s)) id now in
      let '(al, r) := dispatch_resp (alive s) id seq status (o_data o) in
      ({| acc := with_base (acc s) s'; alive := al |}, r)
  end.

Definition rafter (s : rst) (h : list ract) : rst :=
  fold_left (fun s a => fst (rstep s a)) h s.

(* the accessor actions a routing history amounts to *)
Definition proj (a : ract) : sact :=
  match a with
  | Acc a => a
  | Req id _ now => A (Get id now)
  | Resp id _ _ now => A (Get id now)
  end.

(* ---- correspondence entry point, suite "routing" ---- *)

(* (observable, retained objects) after every action of a routing history —
   used by the examples of Property.v *)
Fixpoint rtrace (s : rst) (h : list ract) : list (Z * list Z) :=
  match h with
  | [] => []
  | a :: r =>
      let '(s', o) := rstep s a in
      ((if blocked_by_inflight code_variant (acc s) (proj a) then blocked_code else o),
       map snd (vers (base (acc s')))) :: rtrace s' r
  end.

(* [got] = retry flag of a response (object handed out for a bare accessor
   look-up); [ver] = version the transaction of a request / response / look-up
   is anchored to afterwards *)
Inductive rev := RE (a : ract) (got ver : Z) (o : option obs).

Definition rcase := (Z * list rev)%type.

Definition rver (s : rst) (a : ract) : Z :=
  match proj a with
  | A (Get id now) => o_ver (snd (get (base (acc s)) id now))
  | _ => 0
  end.

Fixpoint rcheck (n : nat) (s : rst) (last : obs) (h : list rev) : option (nat * (Z * Z * obs)) :=
  match h with
  | [] => None
  | RE a got ver o :: r =>
      let '(s', x) := rstep s a in
      let g := if blocked_by_inflight code_variant (acc s) (proj a) then blocked_code else x in
      if (g =? got) && (rver s a =? ver) && eq_obs (obs_or last o) (base (acc s'))
      then rcheck (S n) s' (obs_or last o) r
      else Some (n, (g, rver s a, obs_of (base (acc s'))))
  end.

Definition run_rcase (k : rcase) : option (nat * (Z * Z * obs)) :=
  let '(d0, evs) := k in rcheck O (rinit d0) (obs_of (init d0)) evs.
