(* C11 — model of config/policies_accessor.go (TxnPoliciesAccessor) together with
   the two toolkit-core/vacuum/map_vacuum.go instances it owns.

   State   = currentVersion, policiesVersions (version -> data), txnVersions
             (txn -> version), and the entry queues of the two MapVacuums
             (txnVersionsVacuum, policiesVersionsVacuum), each entry being
             (vacuumAt, keyToVacuum) in insertion order.
   Actions = one per body that the code runs as a unit on one clock reading:
             Get txn now      GetTxnPoliciesData(txn)
             Update d now     UpdatePoliciesData(d, _) that reaches setNextVersion
                              (ReloadFromFile, UpdateRawData, RevertToLastLoaded,
                              RevertToDiagnosisFree all end there)
             Refused now      UpdatePoliciesData that fails in ManageHAProxyEndpoints
                              (returns before setNextVersion: nothing changes)
             VacTxn now       one pass of txnVersionsVacuum.vacuum()
             VacVer now       one pass of policiesVersionsVacuum.vacuum()
   Time is Z nanoseconds; transaction ids, versions and data are Z tokens (the
   harness uses the identity of the *PoliciesData object as data token).

   Second part (end of file): the policy-mode glue of routing/messages_handler.go
   (processRequest / processResponse look the accessor up under the transaction
   id) with the harness's version marker, suite "routing".

   Case format (harness -> cases.v):  (d0, [(action, got, retained)])
     d0        token of the initial PoliciesData (version 1)
     got       for Get: token of the object returned, -1 for an object that was
               never supplied (the empty PoliciesData fallback); 0 otherwise
     retained  tokens of the objects still in policiesVersions after the action,
               in version order *)
From Coq Require Import List ZArith Bool.
Import ListNotations.
Open Scope Z_scope.

(* staleVersionTTL = 30 s, used by both vacuums *)
Definition ttl : Z := 30000000000.

(* ---- Go maps with Z keys and values: association lists ---- *)
Definition amap := list (Z * Z).

Fixpoint lookup (k : Z) (m : amap) : option Z :=
  match m with
  | [] => None
  | (k', v) :: r => if k =? k' then Some v else lookup k r
  end.

(* m[k] = v : overwrite in place, else append *)
Fixpoint set (k v : Z) (m : amap) : amap :=
  match m with
  | [] => [(k, v)]
  | (k', v') :: r => if k =? k' then (k, v) :: r else (k', v') :: set k v r
  end.

(* delete(m, k) *)
Definition del (k : Z) (m : amap) : amap :=
  filter (fun e => negb (k =? fst e)) m.

Record st := {
  cur : Z;                 (* currentVersion *)
  vers : amap;             (* policiesVersions : version -> data *)
  pins : amap;             (* txnVersions : txn -> version *)
  txnQ : list (Z * Z);     (* txnVersionsVacuum.entries : (vacuumAt, txn) *)
  verQ : list (Z * Z)      (* policiesVersionsVacuum.entries : (vacuumAt, version) *)
}.

(* NewTxnPoliciesAccessor(d0) *)
Definition init (d0 : Z) : st :=
  {| cur := 1; vers := [(1, d0)]; pins := []; txnQ := []; verQ := [] |}.

(* MapVacuum.vacuum(): walk the entries in insertion order; delete the key of
   every entry with vacuumAt.Before(now) (strict); stop at the first entry that
   is not due; drop exactly the walked prefix from the queue. *)
Fixpoint vacuum (now : Z) (q : list (Z * Z)) (m : amap) : list (Z * Z) * amap :=
  match q with
  | [] => ([], m)
  | (at_, k) :: r => if at_ <? now then vacuum now r (del k m) else (q, m)
  end.

(* what a Get reports: the version the transaction is anchored to, the data
   handed out (None = the empty PoliciesData of GetCurrentPoliciesData's error
   branch) and whether the "anchored version not found -> current" branch ran *)
Record out := { o_ver : Z; o_data : option Z; o_fallback : bool }.

(* getTxnPoliciesVersion: an anchored transaction keeps its version and nothing
   is rescheduled; otherwise setTxnVersion anchors it to the current version and
   VacuumKey(txn) appends (now + ttl, txn) *)
Definition pin (s : st) (txn now : Z) : st * Z :=
  match lookup txn (pins s) with
  | Some v => (s, v)
  | None =>
      ({| cur := cur s; vers := vers s;
          pins := set txn (cur s) (pins s);
          txnQ := txnQ s ++ [(now + ttl, txn)];
          verQ := verQ s |}, cur s)
  end.

(* GetTxnPoliciesData *)
Definition get (s : st) (txn now : Z) : st * out :=
  let '(s1, v) := pin s txn now in
  match lookup v (vers s1) with
  | Some d => (s1, {| o_ver := v; o_data := Some d; o_fallback := false |})
  | None =>
      (s1, {| o_ver := v; o_data := lookup (cur s1) (vers s1); o_fallback := true |})
  end.

(* setNextVersion: the new data becomes version cur+1; the PREVIOUS version is
   handed to VacuumKey, i.e. appended as (now + ttl, previous) *)
Definition update (s : st) (d now : Z) : st :=
  {| cur := cur s + 1;
     vers := set (cur s + 1) d (vers s);
     pins := pins s;
     txnQ := txnQ s;
     verQ := verQ s ++ [(now + ttl, cur s)] |}.

Definition vac_txn (s : st) (now : Z) : st :=
  let '(q, m) := vacuum now (txnQ s) (pins s) in
  {| cur := cur s; vers := vers s; pins := m; txnQ := q; verQ := verQ s |}.

Definition vac_ver (s : st) (now : Z) : st :=
  let '(q, m) := vacuum now (verQ s) (vers s) in
  {| cur := cur s; vers := m; pins := pins s; txnQ := txnQ s; verQ := q |}.

Inductive act :=
| Get (txn now : Z)
| Update (d now : Z)
| Refused (now : Z)
| VacTxn (now : Z)
| VacVer (now : Z).

Definition time_of (a : act) : Z :=
  match a with
  | Get _ t | Update _ t | Refused t | VacTxn t | VacVer t => t
  end.

Definition step (s : st) (a : act) : st * option out :=
  match a with
  | Get txn now => let '(s', o) := get s txn now in (s', Some o)
  | Update d now => (update s d now, None)
  | Refused _ => (s, None)
  | VacTxn now => (vac_txn s now, None)
  | VacVer now => (vac_ver s now, None)
  end.

(* state after a history *)
Definition after (s : st) (h : list act) : st :=
  fold_left (fun s a => fst (step s a)) h s.

Definition retained (v : Z) (s : st) : bool :=
  match lookup v (vers s) with Some _ => true | None => false end.

(* ---- specification vocabulary (independent of the state) ---- *)

(* transactions looked up in a history *)
Definition seen (h : list act) : list Z :=
  flat_map (fun a => match a with Get txn _ => [txn] | _ => [] end) h.

(* data of the last successful update (d0 when there is none) *)
Definition last_data (d0 : Z) (h : list act) : Z :=
  fold_left (fun d a => match a with Update d' _ => d' | _ => d end) h d0.

(* number of successful updates *)
Definition n_updates (h : list act) : Z :=
  fold_left (fun n a => match a with Update _ _ => n + 1 | _ => n end) h 0.

(* ---- correspondence entry point ---- *)

Definition case := (Z * list (act * Z * list Z))%type.

Definition got_of (o : option out) : Z :=
  match o with
  | Some {| o_data := Some d |} => d
  | Some {| o_data := None |} => -1
  | None => 0
  end.

(* the model's (got, retained) after every action *)
Fixpoint trace (s : st) (h : list act) : list (Z * list Z) :=
  match h with
  | [] => []
  | a :: r =>
      let '(s', o) := step s a in
      (got_of o, map snd (vers s')) :: trace s' r
  end.

Fixpoint eq_zs (a b : list Z) : bool :=
  match a, b with
  | [], [] => true
  | x :: a', y :: b' => (x =? y) && eq_zs a' b'
  | _, _ => false
  end.

Fixpoint eq_tr (a b : list (Z * list Z)) : bool :=
  match a, b with
  | [], [] => true
  | (x, l) :: a', (y, m) :: b' => (x =? y) && eq_zs l m && eq_tr a' b'
  | _, _ => false
  end.

Definition run_case (k : case) : option (list (Z * list Z)) :=
  let '(d0, evs) := k in
  let m := trace (init d0) (map (fun e => fst (fst e)) evs) in
  let observed :=
    map (fun e => (match fst (fst e) with Get _ _ => snd (fst e) | _ => 0 end, snd e)) evs in
  if eq_tr m observed then None else Some m.

(* ================================================================== *)
(* routing/messages_handler.go, policy (legacy) mode                    *)

(* processRequest and processResponse both call
   GetTxnPoliciesData(TxnID(args.ID)) — the TRANSACTION id, never the sequence
   id — and dispatch with the data handed out.  To see which data processed a
   response the harness gives object d a global retry remedy whose only status
   condition is [marker d], with practically unlimited attempts.  The retry
   plugin (services/remedies/retry_plugin.go) then behaves as follows on a
   response with status x processed with object d:
     x <> marker d : the sequence's retry state is deleted, no action;
     x =  marker d : the state is found, or the transaction opens its sequence
                     (id = sequence id) -> retry action, state kept;
                     otherwise (no state, not a new sequence) -> no action.
   [alive] = sequences that currently have retry state (the plugin's clock is
   frozen by the harness, so the state never expires by itself). *)
Inductive ract :=
| Acc (a : act)
| Req (id seq now : Z)
| Resp (id seq status now : Z).

Record rst := { acc : st; alive : list Z }.

Definition rinit (d0 : Z) : rst := {| acc := init d0; alive := [] |}.

Definition marker (d : Z) : Z := 500 + d.

Definition memz (x : Z) (l : list Z) : bool := existsb (Z.eqb x) l.
Definition remz (x : Z) (l : list Z) : list Z := filter (fun y => negb (x =? y)) l.

(* what DispatchOnResponse does with the data handed out: new retry state and
   whether a retry action came back (1) or not (0) *)
Definition dispatch_resp (al : list Z) (id seq status : Z) (d : option Z) : list Z * Z :=
  match d with
  | None => (al, 0)                    (* empty PoliciesData: no remedy at all *)
  | Some d =>
      if status =? marker d then
        if (id =? seq) || memz seq al
        then ((if memz seq al then al else seq :: al), 1)
        else (al, 0)
      else (remz seq al, 0)
  end.

(* returns the new state and the observable of the action: the object handed
   out for a bare accessor look-up, the retry flag for a response, 0 otherwise *)
Definition rstep (s : rst) (a : ract) : rst * Z :=
  match a with
  | Acc a =>
      let '(s', o) := step (acc s) a in ({| acc := s'; alive := alive s |}, got_of o)
  | Req id _ now =>
      ({| acc := fst (get (acc s) id now); alive := alive s |}, 0)
  | Resp id seq status now =>
      let '(s', o) := get (acc s) id now in
      let '(al, r) := dispatch_resp (alive s) id seq status (o_data o) in
      ({| acc := s'; alive := al |}, r)
  end.

Definition rafter (s : rst) (h : list ract) : rst :=
  fold_left (fun s a => fst (rstep s a)) h s.

(* the accessor actions a routing history amounts to *)
Definition proj (a : ract) : act :=
  match a with
  | Acc a => a
  | Req id _ now => Get id now
  | Resp id _ _ now => Get id now
  end.

(* ---- correspondence entry point, suite "routing" ---- *)

Definition rcase := (Z * list (ract * Z * list Z))%type.

Fixpoint rtrace (s : rst) (h : list ract) : list (Z * list Z) :=
  match h with
  | [] => []
  | a :: r =>
      let '(s', o) := rstep s a in
      (o, map snd (vers (acc s'))) :: rtrace s' r
  end.

Definition run_rcase (k : rcase) : option (list (Z * list Z)) :=
  let '(d0, evs) := k in
  let m := rtrace (rinit d0) (map (fun e => fst (fst e)) evs) in
  let observed := map (fun e => (snd (fst e), snd e)) evs in
  if eq_tr m observed then None else Some m.
