(* C11 — the update ENTRY POINTS of the accessor (policies_accessor.go:74-133).

   Production never hands UpdatePoliciesData an object of its own; it goes through
     ReloadFromFile          loadDataFromFile()             BuildPolicyData(config, false)   UpdatePoliciesData(_, false)
     UpdateRawData raw       unmarshal + Validate           BuildPolicyData(config, false)   UpdatePoliciesData(_, false)
     RevertToLastLoaded      loadDataFromLoadedFile(false)  BuildPolicyData(config, false)   UpdatePoliciesData(_, true)
     RevertToDiagnosisFree   loadDataFromLoadedFile(true)   BuildPolicyData(config, TRUE)    UpdatePoliciesData(_, true)
   The second argument of BuildPolicyData is stored in PoliciesData.diagnosisFreeReverted;
   the second argument of UpdatePoliciesData only chooses between immediate and
   scheduled un-management in HAProxy.  At HEAD nothing in the accessor reads either:
   all four end in the same setNextVersion (Model.update) — same publication, same
   30 s retention of the superseded version.

   This file adds the dimension "which entry point installed a version" to the
   atomic model: histories of  EA <atomic action> | Via entry d now ; the state
   remembers which versions carry the flag.  Variant switch
   [drop_standin_at_once] (false = HEAD): true = "the diagnosis-free stand-in is
   released as soon as it is superseded": when the version being superseded
   carries the flag, setNextVersion deletes it from policiesVersions in the same
   Lock section and does NOT queue it in policiesVersionsVacuum.

   The correspondence suites keep evaluating Model.run_case: the harness drives
   the four real entry points and records each as Update / UpdBegin (what
   [forget] below does), so the agreement of the code with Model.update for the
   entry points is checked on every run. *)
From Coq Require Import List ZArith Bool Lia Sorted.
From Verif Require Import C11.Model C11.Proofs.
Import ListNotations.
Open Scope Z_scope.

Inductive entry :=
| ReloadFromFile
| UpdateRawData
| RevertToLastLoaded
| RevertToDiagnosisFree.

(* BuildPolicyData(config, flag) *)
Definition sets_flag (e : entry) : bool :=
  match e with RevertToDiagnosisFree => true | _ => false end.

(* UpdatePoliciesData(_, unmanageImmediately): HAProxy only, no effect on the accessor *)
Definition unmanage_immediately (e : entry) : bool :=
  match e with RevertToLastLoaded | RevertToDiagnosisFree => true | _ => false end.

Inductive eact :=
| EA (a : act)                  (* look-up, vacuum pass, refused update, update with a caller-built object *)
| Via (e : entry) (d now : Z).  (* entry point e got as far as setNextVersion with the data d it built *)

Definition forget (a : eact) : act :=
  match a with EA a => a | Via _ d now => Update d now end.

(* names: [evariant]/[ehead] (e = entry points; ehead = the code as it is, the
   PROVED variant) are deliberately distinct from Fine.fvariant / Fine.fhead
   (Fine.fhead = the code WITHOUT the re-check of fix-F-C11a, the REFUTED
   variant of PropertyFine.v; the code the suites run is Fine.ffixed). *)
Record evariant := { drop_standin_at_once : bool }.
Definition ehead : evariant := {| drop_standin_at_once := false |}.
Definition standin_dropped : evariant := {| drop_standin_at_once := true |}.

Record est := {
  ebase : st;
  flagged : list Z   (* versions whose PoliciesData has diagnosisFreeReverted set *)
}.

Definition einit (d0 : Z) : est := {| ebase := init d0; flagged := [] |}.

Definition is_flagged (v : Z) (s : est) : bool := existsb (Z.eqb v) (flagged s).

(* setNextVersion of the variant: publish cur+1; a flagged previous version is
   deleted at once and not queued *)
Definition drop_previous (b : st) (d : Z) : st :=
  {| cur := cur b + 1;
     vers := del (cur b) (set (cur b + 1) d (vers b));
     pins := pins b; txnQ := txnQ b; verQ := verQ b |}.

Definition update_v (V : evariant) (s : est) (flag : bool) (d now : Z) : est :=
  let b := ebase s in
  {| ebase := if drop_standin_at_once V && is_flagged (cur b) s
              then drop_previous b d else update b d now;
     flagged := if flag then (cur b + 1) :: flagged s else flagged s |}.

Definition estep (V : evariant) (s : est) (a : eact) : est * option out :=
  match a with
  | EA (Update d now) => (update_v V s false d now, None)
  | EA a => ({| ebase := fst (step (ebase s) a); flagged := flagged s |}, snd (step (ebase s) a))
  | Via e d now => (update_v V s (sets_flag e) d now, None)
  end.

Definition eafter (V : evariant) (s : est) (h : list eact) : est :=
  fold_left (fun s a => fst (estep V s a)) h s.

Fixpoint eouts (V : evariant) (s : est) (h : list eact) : list out :=
  match h with
  | [] => []
  | a :: r =>
      match snd (estep V s a) with
      | Some x => x :: eouts V (fst (estep V s a)) r
      | None => eouts V (fst (estep V s a)) r
      end
  end.

(* the pinned-version statement over histories with entry points, for variant V *)
Definition pinned_entry_v (V : evariant) : Prop :=
  forall d0 pre txn t0 mid t,
  monotone (map forget (pre ++ EA (Get txn t0) :: mid ++ [EA (Get txn t)])) ->
  lookup txn (pins (ebase (eafter V (einit d0) pre))) = None ->
  t <= t0 + ttl ->
  let s1 := eafter V (einit d0) pre in
  let o1 := snd (estep V s1 (EA (Get txn t0))) in
  let o2 := snd (estep V (eafter V (fst (estep V s1 (EA (Get txn t0)))) mid) (EA (Get txn t))) in
  o2 = o1 /\
  o1 = Some {| o_ver := cur (ebase s1);
               o_data := Some (last_data d0 (map forget pre));
               o_fallback := false |}.

(* the retention statement (window form) over histories with entry points *)
Definition retention_entry_v (V : evariant) : Prop :=
  forall d0 pre txn t0 mid,
  lookup txn (pins (ebase (eafter V (einit d0) pre))) = None ->
  Forall (fun a => t0 <= time_of (forget a) <= t0 + ttl) mid ->
  let s1 := eafter V (einit d0) pre in
  lookup (cur (ebase s1))
         (vers (ebase (eafter V (fst (estep V s1 (EA (Get txn t0)))) mid)))
  = Some (last_data d0 (map forget pre)).

(* ---- lemmas ---- *)

Lemma estep_head_base s a :
  ebase (fst (estep ehead s a)) = fst (step (ebase s) (forget a)) /\
  snd (estep ehead s a) = snd (step (ebase s) (forget a)).
Proof.
  destruct a as [[txn now|d now|now|now|now]|e d now]; cbn; split; reflexivity.
Qed.

Lemma eafter_head_base h : forall s,
  ebase (eafter ehead s h) = after (ebase s) (map forget h).
Proof.
  induction h as [|a h IH]; intros s; [reflexivity|].
  cbn [eafter after fold_left map].
  change (fold_left (fun s a => fst (estep ehead s a)) h (fst (estep ehead s a)))
    with (eafter ehead (fst (estep ehead s a)) h).
  change (fold_left (fun s a => fst (step s a)) (map forget h) (fst (step (ebase s) (forget a))))
    with (after (fst (step (ebase s) (forget a))) (map forget h)).
  rewrite IH. destruct (estep_head_base s a) as [E _]. rewrite E. reflexivity.
Qed.

Lemma eouts_head_base h : forall s,
  eouts ehead s h = outs (ebase s) (map forget h).
Proof.
  induction h as [|a h IH]; intros s; [reflexivity|].
  cbn [eouts outs map].
  destruct (estep_head_base s a) as [E1 E2]. rewrite E2, IH, E1. reflexivity.
Qed.

Lemma step_get s txn now :
  step s (Get txn now) = (fst (get s txn now), Some (snd (get s txn now))).
Proof. cbn. destruct (get s txn now). reflexivity. Qed.

Lemma pinned_entry_head : pinned_entry_v ehead.
Proof.
  intros d0 pre txn t0 mid t M P T s1 o1 o2. subst o1 o2 s1.
  rewrite !map_app in M. cbn [map forget] in M. rewrite map_app in M. cbn [map forget] in M.
  rewrite eafter_head_base in P. cbn [einit ebase] in P.
  destruct (estep_head_base (eafter ehead (einit d0) pre) (EA (Get txn t0))) as [B1 O1].
  destruct (estep_head_base
              (eafter ehead (fst (estep ehead (eafter ehead (einit d0) pre) (EA (Get txn t0)))) mid)
              (EA (Get txn t))) as [_ O2].
  rewrite O2, O1. cbn [forget].
  rewrite (eafter_head_base mid), B1. cbn [forget].
  rewrite (eafter_head_base pre). cbn [einit ebase].
  rewrite !step_get. cbn [fst snd].
  destruct (pinned_monotone d0 (map forget pre) txn t0 (map forget mid) t M P T) as [H1 H2].
  cbn zeta in H1, H2. rewrite H1. split; [reflexivity|]. rewrite H2. reflexivity.
Qed.

Lemma retention_entry_head : retention_entry_v ehead.
Proof.
  intros d0 pre txn t0 mid P F s1. subst s1.
  rewrite eafter_head_base in P. cbn [einit ebase] in P.
  destruct (estep_head_base (eafter ehead (einit d0) pre) (EA (Get txn t0))) as [B1 _].
  rewrite (eafter_head_base mid), B1. cbn [forget].
  rewrite (eafter_head_base pre). cbn [einit ebase].
  rewrite step_get. cbn [fst].
  apply (retained_window d0 (map forget pre) txn t0 (map forget mid) P).
  apply Forall_forall. intros a Ha. apply in_map_iff in Ha. destruct Ha as [x [<- Hx]].
  rewrite Forall_forall in F. exact (F x Hx).
Qed.
