(* C11 — the update ENTRY POINTS of the accessor (policies_accessor.go:74-133).

   Production never hands UpdatePoliciesData an object of its own; it goes through
     ReloadFromFile          loadDataFromFile()             BuildPolicyData(config, false)   UpdatePoliciesData(_, false)
     UpdateRawData raw       unmarshal + Validate           BuildPolicyData(config, false)   UpdatePoliciesData(_, false)
     RevertToLastLoaded      loadDataFromLoadedFile(false)  BuildPolicyData(config, false)   UpdatePoliciesData(_, true)
     RevertToDiagnosisFree   loadDataFromLoadedFile(true)   BuildPolicyData(config, TRUE)    UpdatePoliciesData(_, true)
   The second argument of BuildPolicyData is stored in PoliciesData.diagnosisFreeReverted;
   the second argument of UpdatePoliciesData only chooses between immediate and
   scheduled un-management in HAProxy.  At HEAD nothing in the accessor reads either:
   all four end in the same setNextVersion (Model.update) — same publication, same
   30 s retention of the superseded version.

   This file adds the dimension "which entry point installed a version" to the
   atomic model: histories of  EA <atomic action> | Via entry d now ; the state
   remembers which versions carry the flag.  Variant switch
   [drop_standin_at_once] (false = HEAD): true = "the diagnosis-free stand-in is
   released as soon as it is superseded": when the version being superseded
   carries the flag, setNextVersion deletes it from policiesVersions in the same
   Lock section and does NOT queue it in policiesVersionsVacuum.

   Correspondence: the suites hist / routing / fine keep evaluating
   Model.run_case etc.: there the harness records each real entry point as
   Update / UpdBegin (what [forget] below does).  Suite "failsafe" (end of this
   file: case_failsafe / run_failsafe) evaluates [estep] itself: the histories
   driven through the real entry points with the entry points as distinct
   operations, compared on the object handed out, the version anchored,
   currentVersion, the stand-in flag of the current PoliciesData and the
   retained objects with their flags. *)
From Coq Require Import List ZArith Bool Lia Sorted.
From Verif Require Import C11.Model C11.Proofs.
Import ListNotations.
Open Scope Z_scope.

Inductive entry :=
| ReloadFromFile
| UpdateRawData
| RevertToLastLoaded
| RevertToDiagnosisFree.

(* BuildPolicyData(config, flag) *)
Definition sets_flag (e : entry) : bool :=
  match e with RevertToDiagnosisFree => true | _ => false end.

(* UpdatePoliciesData(_, unmanageImmediately): HAProxy only, no effect on the accessor *)
Definition unmanage_immediately (e : entry) : bool :=
  match e with RevertToLastLoaded | RevertToDiagnosisFree => true | _ => false end.

Inductive eact :=
| EA (a : act)                  (* look-up, vacuum pass, refused update, update with a caller-built object *)
| Via (e : entry) (d now : Z).  (* entry point e got as far as setNextVersion with the data d it built *)

Definition forget (a : eact) : act :=
  match a with EA a => a | Via _ d now => Update d now end.

(* names: [evariant]/[ehead] (e = entry points; ehead = the code as it is, the
   PROVED variant) are deliberately distinct from Fine.fvariant / Fine.fhead
   (Fine.fhead = the code WITHOUT the re-check of fix-F-C11a, the REFUTED
   variant of PropertyFine.v; the code the suites run is Fine.ffixed). *)
Record evariant := { drop_standin_at_once : bool }.
Definition ehead : evariant := {| drop_standin_at_once := false |}.
Definition standin_dropped : evariant := {| drop_standin_at_once := true |}.

Record est := {
  ebase : st;
  flagged : list Z   (* versions whose PoliciesData has diagnosisFreeReverted set *)
}.

Definition einit (d0 : Z) : est := {| ebase := init d0; flagged := [] |}.

Definition is_flagged (v : Z) (s : est) : bool := existsb (Z.eqb v) (flagged s).

(* setNextVersion of the variant: publish cur+1; a flagged previous version is
   deleted at once and not queued *)
Definition drop_previous (b : st) (d : Z) : st :=
  {| cur := cur b + 1;
     vers := del (cur b) (set (cur b + 1) d (vers b));
     pins := pins b; txnQ := txnQ b; verQ := verQ b |}.

Definition update_v (V : evariant) (s : est) (flag : bool) (d now : Z) : est :=
  let b := ebase s in
  {| ebase := if drop_standin_at_once V && is_flagged (cur b) s
              then drop_previous b d else update b d now;
     flagged := if flag then (cur b + 1) :: flagged s else flagged s |}.

Definition estep (V : evariant) (s : est) (a : eact) : est * option out :=
  match a with
  | EA (Update d now) => (update_v V s false d now, None)
  | EA a => ({| ebase := fst (step (ebase s) a); flagged := flagged s |}, snd (step (ebase s) a))
  | Via e d now => (update_v V s (sets_flag e) d now, None)
  end.

Definition eafter (V : evariant) (s : est) (h : list eact) : est :=
  fold_left (fun s a => fst (estep V s a)) h s.

Fixpoint eouts (V : evariant) (s : est) (h : list eact) : list out :=
  match h with
  | [] => []
  | a :: r =>
      match snd (estep V s a) with
      | Some x => x :: eouts V (fst (estep V s a)) r
      | None => eouts V (fst (estep V s a)) r
      end
  end.

(* the pinned-version statement over histories with entry points, for variant V *)
Definition pinned_entry_v (V : evariant) : Prop :=
  forall d0 pre txn t0 mid t,
  monotone (map forget (pre ++ EA (Get txn t0) :: mid ++ [EA (Get txn t)])) ->
  lookup txn (pins (ebase (eafter V (einit d0) pre))) = None ->
  t <= t0 + ttl ->
  let s1 := eafter V (einit d0) pre in
  let o1 := snd (estep V s1 (EA (Get txn t0))) in
  let o2 := snd (estep V (eafter V (fst (estep V s1 (EA (Get txn t0)))) mid) (EA (Get txn t))) in
  o2 = o1 /\
  o1 = Some {| o_ver := cur (ebase s1);
               o_data := Some (last_data d0 (map forget pre));
               o_fallback := false |}.

(* the retention statement (window form) over histories with entry points *)
Definition retention_entry_v (V : evariant) : Prop :=
  forall d0 pre txn t0 mid,
  lookup txn (pins (ebase (eafter V (einit d0) pre))) = None ->
  Forall (fun a => t0 <= time_of (forget a) <= t0 + ttl) mid ->
  let s1 := eafter V (einit d0) pre in
  lookup (cur (ebase s1))
         (vers (ebase (eafter V (fst (estep V s1 (EA (Get txn t0)))) mid)))
  = Some (last_data d0 (map forget pre)).

(* ---- lemmas ---- *)

Lemma estep_head_base s a :
  ebase (fst (estep ehead s a)) = fst (step (ebase s) (forget a)) /\
  snd (estep ehead s a) = snd (step (ebase s) (forget a)).
Proof.
  destruct a as [[txn now|d now|now|now|now]|e d now]; cbn; split; reflexivity.
Qed.

Lemma eafter_head_base h : forall s,
  ebase (eafter ehead s h) = after (ebase s) (map forget h).
Proof.
  induction h as [|a h IH]; intros s; [reflexivity|].
  cbn [eafter after fold_left map].
  change (fold_left (fun s a => fst (estep ehead s a)) h (fst (estep ehead s a)))
    with (eafter ehead (fst (estep ehead s a)) h).
  change (fold_left (fun s a => fst (step s a)) (map forget h) (fst (step (ebase s) (forget a))))
    with (after (fst (step (ebase s) (forget a))) (map forget h)).
  rewrite IH. destruct (estep_head_base s a) as [E _]. rewrite E. reflexivity.
Qed.

Lemma eouts_head_base h : forall s,
  eouts ehead s h = outs (ebase s) (map forget h).
Proof.
  induction h as [|a h IH]; intros s; [reflexivity|].
  cbn [eouts outs map].
  destruct (estep_head_base s a) as [E1 E2]. rewrite E2, IH, E1. reflexivity.
Qed.

Lemma step_get s txn now :
  step s (Get txn now) = (fst (get s txn now), Some (snd (get s txn now))).
Proof. cbn. destruct (get s txn now). reflexivity. Qed.

Lemma pinned_entry_head : pinned_entry_v ehead.
Proof.
  intros d0 pre txn t0 mid t M P T s1 o1 o2. subst o1 o2 s1.
  rewrite !map_app in M. cbn [map forget] in M. rewrite map_app in M. cbn [map forget] in M.
  rewrite eafter_head_base in P. cbn [einit ebase] in P.
  destruct (estep_head_base (eafter ehead (einit d0) pre) (EA (Get txn t0))) as [B1 O1].
  destruct (estep_head_base
              (eafter ehead (fst (estep ehead (eafter ehead (einit d0) pre) (EA (Get txn t0)))) mid)
              (EA (Get txn t))) as [_ O2].
  rewrite O2, O1. cbn [forget].
  rewrite (eafter_head_base mid), B1. cbn [forget].
  rewrite (eafter_head_base pre). cbn [einit ebase].
  rewrite !step_get. cbn [fst snd].
  destruct (pinned_monotone d0 (map forget pre) txn t0 (map forget mid) t M P T) as [H1 H2].
  cbn zeta in H1, H2. rewrite H1. split; [reflexivity|]. rewrite H2. reflexivity.
Qed.

Lemma retention_entry_head : retention_entry_v ehead.
Proof.
  intros d0 pre txn t0 mid P F s1. subst s1.
  rewrite eafter_head_base in P. cbn [einit ebase] in P.
  destruct (estep_head_base (eafter ehead (einit d0) pre) (EA (Get txn t0))) as [B1 _].
  rewrite (eafter_head_base mid), B1. cbn [forget].
  rewrite (eafter_head_base pre). cbn [einit ebase].
  rewrite step_get. cbn [fst].
  apply (retained_window d0 (map forget pre) txn t0 (map forget mid) P).
  apply Forall_forall. intros a Ha. apply in_map_iff in Ha. destruct Ha as [x [<- Hx]].
  rewrite Forall_forall in F. exact (F x Hx).
Qed.

(* ================================================================== *)
(* correspondence suite "failsafe": histories of entry points evaluated *)
(* by [estep], entry points as DISTINCT operations                      *)

(* What the harness reads off the accessor after every action of a history it
   drove through the real entry points (entry.go, coqFailsafe):
     eo_got      look-up: token of the object handed out (-1 = the empty
                 PoliciesData of the fallback's error branch); 0 otherwise
     eo_ver      look-up: version the transaction is anchored to afterwards; 0 otherwise
     eo_cur      currentVersion
     eo_standin  the CURRENT PoliciesData (GetCurrentPoliciesData()) carries
                 diagnosisFreeReverted: the accessor is serving the diagnosis-free stand-in
     eo_ret      the objects still in policiesVersions in version order, each
                 with its diagnosisFreeReverted flag
   The flag is set by BuildPolicyData(config, true) inside RevertToDiagnosisFree
   only: the harness cannot set it on an object of its own, it reads it back. *)
(* a retained object with its flag (a constructor of its own: case files full
   of pairs elaborate several times slower) *)
Inductive fret := R (d : Z) (f : bool).

Record eobs := EObs {
  eo_got : Z;
  eo_ver : Z;
  eo_cur : Z;
  eo_standin : bool;
  eo_ret : list fret
}.

(* the model's observation after a step that led to s and handed out o *)
Definition eview (s : est) (o : option out) : eobs :=
  {| eo_got := got_of o;
     eo_ver := ver_of o;
     eo_cur := cur (ebase s);
     eo_standin := is_flagged (cur (ebase s)) s;
     eo_ret := map (fun e => R (snd e) (is_flagged (fst e) s)) (vers (ebase s)) |}.

(* a run of variant V: the observation after every action *)
Fixpoint erun (V : evariant) (s : est) (h : list eact) : list eobs :=
  match h with
  | [] => []
  | a :: r => eview (fst (estep V s a)) (snd (estep V s a)) :: erun V (fst (estep V s a)) r
  end.

(* one executed action with what the implementation showed after it *)
Inductive fsev := FS (a : eact) (o : eobs).
Definition fs_act (e : fsev) : eact := let 'FS a _ := e in a.
Definition fs_obs (e : fsev) : eobs := let 'FS _ o := e in o.

(* (token of the initial PoliciesData, executed history) *)
Definition case_failsafe := (Z * list fsev)%type.

Fixpoint eq_zbs (a b : list fret) : bool :=
  match a, b with
  | [], [] => true
  | R x f :: a', R y g :: b' => (x =? y) && Bool.eqb f g && eq_zbs a' b'
  | _, _ => false
  end.

Definition eq_eobs (a b : eobs) : bool :=
  (eo_got a =? eo_got b) && (eo_ver a =? eo_ver b) && (eo_cur a =? eo_cur b) &&
  Bool.eqb (eo_standin a) (eo_standin b) && eq_zbs (eo_ret a) (eo_ret b).

(* index of the first action after which model and implementation differ, with
   what the model says there *)
Fixpoint echeck (V : evariant) (n : nat) (s : est) (h : list fsev) : option (nat * eobs) :=
  match h with
  | [] => None
  | FS a o :: r =>
      let s' := fst (estep V s a) in
      let m := eview s' (snd (estep V s a)) in
      if eq_eobs o m then echeck V (S n) s' r else Some (n, m)
  end.

(* the variant the suite evaluates: the code as it is *)
Definition ecode_variant : evariant := ehead.

Definition run_failsafe (k : case_failsafe) : option (nat * eobs) :=
  let '(d0, evs) := k in echeck ecode_variant O (einit d0) evs.

(* ---- an accepted case is a run ---- *)

Lemma eq_zbs_eq a : forall b, eq_zbs a b = true -> a = b.
Proof.
  induction a as [|[x f] a IH]; intros [|[y g] b] H; cbn in H; try discriminate H; [reflexivity|].
  apply andb_prop in H. destruct H as [H H3]. apply andb_prop in H. destruct H as [H1 H2].
  apply Z.eqb_eq in H1. apply Bool.eqb_prop in H2. subst. rewrite (IH b H3). reflexivity.
Qed.

Lemma eq_eobs_eq a b : eq_eobs a b = true -> a = b.
Proof.
  destruct a as [g1 v1 c1 f1 r1], b as [g2 v2 c2 f2 r2]. unfold eq_eobs. cbn [eo_got eo_ver eo_cur eo_standin eo_ret].
  intros H.
  apply andb_prop in H. destruct H as [H H5]. apply andb_prop in H. destruct H as [H H4].
  apply andb_prop in H. destruct H as [H H3]. apply andb_prop in H. destruct H as [H1 H2].
  apply Z.eqb_eq in H1. apply Z.eqb_eq in H2. apply Z.eqb_eq in H3.
  apply Bool.eqb_prop in H4. apply eq_zbs_eq in H5. subst. reflexivity.
Qed.

Lemma echeck_cons V n s a o r :
  echeck V n s (FS a o :: r) = None ->
  o = eview (fst (estep V s a)) (snd (estep V s a)) /\
  echeck V (S n) (fst (estep V s a)) r = None.
Proof.
  cbn [echeck]. destruct (eq_eobs o (eview (fst (estep V s a)) (snd (estep V s a)))) eqn:E.
  - intros H. split; [exact (eq_eobs_eq _ _ E)|exact H].
  - intros H. discriminate H.
Qed.

Lemma echeck_app V e1 : forall n s e2,
  echeck V n s (e1 ++ e2) = None ->
  echeck V n s e1 = None /\
  echeck V (n + length e1) (eafter V s (map fs_act e1)) e2 = None.
Proof.
  induction e1 as [|[a o] e1 IH]; intros n s e2 H.
  - cbn. rewrite Nat.add_0_r. split; [reflexivity|exact H].
  - rewrite <- app_comm_cons in H. destruct (echeck_cons _ _ _ _ _ _ H) as [Ho Hr].
    destruct (IH _ _ _ Hr) as [H1 H2]. split.
    + cbn [echeck]. rewrite <- Ho.
      assert (X : eq_eobs o o = true).
      { clear. destruct o as [g v c f r]. unfold eq_eobs. cbn [eo_got eo_ver eo_cur eo_standin eo_ret].
        rewrite !Z.eqb_refl, Bool.eqb_reflx. cbn [andb].
        induction r as [|[x b] r IHr]; [reflexivity|]. cbn [eq_zbs]. rewrite Z.eqb_refl, Bool.eqb_reflx, IHr. reflexivity. }
      rewrite X. exact H1.
    + cbn [map fs_act length eafter fold_left].
      replace (n + S (length e1))%nat with (S n + length e1)%nat by lia.
      exact H2.
Qed.

Lemma echeck_is_run V evs : forall n s,
  echeck V n s evs = None -> map fs_obs evs = erun V s (map fs_act evs).
Proof.
  induction evs as [|[a o] evs IH]; intros n s H; [reflexivity|].
  destruct (echeck_cons _ _ _ _ _ _ H) as [Ho Hr].
  cbn [map fs_obs fs_act erun]. rewrite <- Ho, (IH _ _ Hr). reflexivity.
Qed.

(* and conversely: the suite accepts exactly the runs *)
Lemma run_is_accepted V h : forall n s,
  echeck V n s (map (fun ao => FS (fst ao) (snd ao)) (combine h (erun V s h))) = None.
Proof.
  induction h as [|a h IH]; intros n s; [reflexivity|].
  cbn [erun combine map fst snd echeck].
  assert (X : forall o, eq_eobs o o = true).
  { clear. intros [g v c f r]. unfold eq_eobs. cbn [eo_got eo_ver eo_cur eo_standin eo_ret].
    rewrite !Z.eqb_refl, Bool.eqb_reflx. cbn [andb].
    induction r as [|[x b] r IHr]; [reflexivity|]. cbn [eq_zbs]. rewrite Z.eqb_refl, Bool.eqb_reflx, IHr. reflexivity. }
  rewrite X. apply IH.
Qed.

Lemma lookup_in k d (m : amap) : lookup k m = Some d -> In (k, d) m.
Proof.
  induction m as [|[k' v] m IH]; cbn [lookup]; [discriminate|].
  destruct (k =? k') eqn:E.
  - intros H. injection H as ->. apply Z.eqb_eq in E. subst. left. reflexivity.
  - intros H. right. exact (IH H).
Qed.

(* the pinned-version statement read off an ACCEPTED case: the two observations
   of the transaction agree and are what C11_pinned_across_failsafe says *)
Lemma accepted_case_pinned d0 epre txn t0 o1 emid t o2 :
  run_failsafe (d0, epre ++ FS (EA (Get txn t0)) o1 :: emid ++ [FS (EA (Get txn t)) o2]) = None ->
  let pre := map fs_act epre in
  let mid := map fs_act emid in
  monotone (map forget (pre ++ EA (Get txn t0) :: mid ++ [EA (Get txn t)])) ->
  lookup txn (pins (ebase (eafter ehead (einit d0) pre))) = None ->
  t <= t0 + ttl ->
  eo_got o2 = eo_got o1 /\ eo_ver o2 = eo_ver o1 /\
  eo_got o1 = last_data d0 (map forget pre) /\
  eo_ver o1 = cur (ebase (eafter ehead (einit d0) pre)).
Proof.
  intros H pre mid M P T. unfold run_failsafe, ecode_variant in H.
  destruct (echeck_app _ _ _ _ _ H) as [_ H1].
  destruct (echeck_cons _ _ _ _ _ _ H1) as [E1 H2].
  destruct (echeck_app _ _ _ _ _ H2) as [_ H3].
  destruct (echeck_cons _ _ _ _ _ _ H3) as [E2 _].
  fold pre in E1, E2. fold mid in E2.
  destruct (pinned_entry_head d0 pre txn t0 mid t M P T) as [Q1 Q2]. cbn zeta in Q1, Q2.
  rewrite E2, E1. unfold eview. cbn [eo_got eo_ver].
  rewrite Q1, Q2. cbn [got_of ver_of o_ver o_data]. repeat split; reflexivity.
Qed.

(* the retention statement read off an accepted case: after every action of the
   window the version current at t0 is among the retained objects the
   implementation showed, with the data of the last entry point before t0 *)
Lemma accepted_case_retains d0 epre txn t0 o1 emid a o :
  run_failsafe (d0, epre ++ FS (EA (Get txn t0)) o1 :: emid ++ [FS a o]) = None ->
  let pre := map fs_act epre in
  let mid := map fs_act emid ++ [a] in
  lookup txn (pins (ebase (eafter ehead (einit d0) pre))) = None ->
  Forall (fun a => t0 <= time_of (forget a) <= t0 + ttl) mid ->
  exists f, In (R (last_data d0 (map forget pre)) f) (eo_ret o).
Proof.
  intros H pre mid P F. unfold run_failsafe, ecode_variant in H.
  destruct (echeck_app _ _ _ _ _ H) as [_ H1].
  destruct (echeck_cons _ _ _ _ _ _ H1) as [_ H2].
  destruct (echeck_app _ _ _ _ _ H2) as [_ H3].
  destruct (echeck_cons _ _ _ _ _ _ H3) as [E2 _].
  fold pre in E2.
  pose proof (retention_entry_head d0 pre txn t0 mid P F) as HR. cbn zeta in HR.
  unfold mid in HR. unfold eafter in HR. rewrite fold_left_app in HR. cbn [fold_left] in HR.
  fold (eafter ehead) in HR.
  apply lookup_in in HR.
  rewrite E2. unfold eview. cbn [eo_ret].
  eexists. 
  apply (in_map (fun e => R (snd e) (is_flagged (fst e) _)) _ _ HR).
Qed.
